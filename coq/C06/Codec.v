(* C06 -- the file-system codec of CPython: bytes.decode(ENC, 'surrogateescape') and
   str.encode(ENC, 'surrogateescape') (= os.fsdecode / os.fsencode) for the three
   encodings an interpreter can start with on Linux: utf-8, ascii (C locale with UTF-8
   mode and locale coercion off), latin-1.  A str is the list of its code points.
   Transcribed from the codec definitions (RFC 3629 as CPython's strict utf-8 decoder
   applies it; PEP 383 for the error handler), not from psutil. *)
From PV Require Export Base.Dec.

Inductive fsenc := Utf8 | Ascii | Latin1.

Definition esc (b : Z) : Z := 56320 + b.                   (* U+DC00 + byte, PEP 383 *)

(* is [b] a continuation byte 80..BF *)
Definition cont (b : Z) : bool := (128 <=? b) && (b <=? 191).

(* well-formed 2-, 3-, 4-byte sequences (no overlong forms, no surrogates, <= U+10FFFF) *)
Definition two_ok (b0 b1 : Z) : bool := (194 <=? b0) && (b0 <=? 223) && cont b1.
Definition three_ok (b0 b1 b2 : Z) : bool :=
  cont b2 &&
  (((b0 =? 224) && (160 <=? b1) && (b1 <=? 191))
   || ((225 <=? b0) && (b0 <=? 236) && cont b1)
   || ((b0 =? 237) && (128 <=? b1) && (b1 <=? 159))
   || ((238 <=? b0) && (b0 <=? 239) && cont b1)).
Definition four_ok (b0 b1 b2 b3 : Z) : bool :=
  cont b2 && cont b3 &&
  (((b0 =? 240) && (144 <=? b1) && (b1 <=? 191))
   || ((241 <=? b0) && (b0 <=? 243) && cont b1)
   || ((b0 =? 244) && (128 <=? b1) && (b1 <=? 143))).
Definition cp2 (b0 b1 : Z) : Z := (b0 - 192) * 64 + (b1 - 128).
Definition cp3 (b0 b1 b2 : Z) : Z := (b0 - 224) * 4096 + (b1 - 128) * 64 + (b2 - 128).
Definition cp4 (b0 b1 b2 b3 : Z) : Z :=
  (b0 - 240) * 262144 + (b1 - 128) * 4096 + (b2 - 128) * 64 + (b3 - 128).

(* utf-8 + surrogateescape: a well-formed sequence gives its code point; any other byte
   (necessarily >= 0x80) is escaped on its own and decoding resumes at the next byte.
   (CPython hands the handler the whole ill-formed prefix; its remaining bytes are
   continuation bytes, which can start nothing, so they are escaped one by one too.) *)
Fixpoint utf8_dec (l : bytes) : list Z :=
  match l with
  | [] => []
  | b0 :: r0 =>
    if b0 <? 128 then b0 :: utf8_dec r0
    else
      match r0 with
      | [] => [esc b0]
      | b1 :: r1 =>
        if two_ok b0 b1 then cp2 b0 b1 :: utf8_dec r1
        else
          match r1 with
          | [] => esc b0 :: utf8_dec r0
          | b2 :: r2 =>
            if three_ok b0 b1 b2 then cp3 b0 b1 b2 :: utf8_dec r2
            else
              match r2 with
              | [] => esc b0 :: utf8_dec r0
              | b3 :: r3 =>
                if four_ok b0 b1 b2 b3 then cp4 b0 b1 b2 b3 :: utf8_dec r3
                else esc b0 :: utf8_dec r0
              end
          end
      end
  end.

Definition ascii_dec (l : bytes) : list Z := map (fun b => if b <? 128 then b else esc b) l.
Definition latin1_dec (l : bytes) : list Z := l.

Definition fs_decode (e : fsenc) (l : bytes) : list Z :=
  match e with Utf8 => utf8_dec l | Ascii => ascii_dec l | Latin1 => latin1_dec l end.

(* encoding one code point; None = UnicodeEncodeError *)
Definition is_esc (c : Z) : bool := (56448 <=? c) && (c <=? 56575).        (* U+DC80..U+DCFF *)
Definition is_surrogate (c : Z) : bool := (55296 <=? c) && (c <=? 57343).  (* U+D800..U+DFFF *)
Definition utf8_enc1 (c : Z) : option bytes :=
  if c <? 0 then None
  else if c <? 128 then Some [c]
  else if is_esc c then Some [c - 56320]
  else if c <? 2048 then Some [192 + c / 64; 128 + c mod 64]
  else if c <? 65536 then
    (if is_surrogate c then None
     else Some [224 + c / 4096; 128 + (c / 64) mod 64; 128 + c mod 64])
  else if c <? 1114112 then
    Some [240 + c / 262144; 128 + (c / 4096) mod 64; 128 + (c / 64) mod 64; 128 + c mod 64]
  else None.
Definition narrow_enc1 (limit : Z) (c : Z) : option bytes :=
  if c <? 0 then None
  else if c <? limit then Some [c]
  else if is_esc c then Some [c - 56320]
  else None.
Definition enc1 (e : fsenc) : Z -> option bytes :=
  match e with Utf8 => utf8_enc1 | Ascii => narrow_enc1 128 | Latin1 => narrow_enc1 256 end.

Fixpoint fs_encode (e : fsenc) (s : list Z) : option bytes :=
  match s with
  | [] => Some []
  | c :: r =>
    match enc1 e c, fs_encode e r with
    | Some a, Some b => Some (a ++ b)
    | _, _ => None
    end
  end.
