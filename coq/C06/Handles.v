(* C06, wave 8: Process handles, their copies, and psutil.PROCFS_PATH.

   psutil/_pslinux.py  Process.__init__ : self._procfs_path = get_procfs_path()  -- read ONCE, at construction;
   every reader opens f"{self._procfs_path}/{self.pid}/...".  psutil/__init__.py Process.__copy__ makes a new front-end
   object whose __dict__ is the original's (minus "_cache"): the copy SHARES self._proc, hence its _procfs_path.
   copy.deepcopy / pickle of a Process raise TypeError (self._lock is an RLock).

   R = what a mount publishes for one pid (its stat/status/task records).  No proofs here except at the end (ProofsHandles
   is this file's second half, kept together because the development is small). *)
From Coq Require Import ZArith List Bool Lia.
Import ListNotations.
Open Scope Z_scope.

Section Handles.
Variable R : Type.

Definition table := Z -> option R.                  (* pid -> records *)
Record handle := { h_pid : Z; h_path : Z }.         (* _proc.pid, _proc._procfs_path (a mount id) *)
Record hstate := { cur : Z;                         (* psutil.PROCFS_PATH *)
                   world : Z -> table;              (* mount id -> its process table *)
                   hs : list handle }.              (* live Process objects, by number *)

Inductive hop :=
| OSetPath (t : Z)                                  (* psutil.PROCFS_PATH = t *)
| OKernel (t pid : Z) (r : option R)                (* the process pid of mount t changes / exits / appears *)
| ONew (pid : Z)                                    (* psutil.Process(pid) *)
| OCopy (h : nat)                                   (* copy.copy(h) *)
| OCopyIn (h : nat)                                 (* with h.oneshot(): h.acc(); c = copy.copy(h) *)
| ODeepCopy (h : nat)                               (* copy.deepcopy(h) / pickle round trip *)
| OCall (h : nat).                                  (* h.acc(): the records the accessor parses *)

Inductive hres :=
| RNone | RHandle (n : nat) | RAns (o : option R)   (* None = NoSuchProcess *)
| RNoSuch | RTypeError | RBad.

Definition upd (w : Z -> table) (t pid : Z) (r : option R) : Z -> table :=
  fun t' => if Z.eqb t' t then (fun p => if Z.eqb p pid then r else w t' p) else w t'.

Definition push (s : hstate) (x : handle) : hstate * hres :=
  ({| cur := cur s; world := world s; hs := hs s ++ [x] |}, RHandle (length (hs s))).

(* the model: the code as it is (deep = false); deep = true is an implementation that delivers deep copies the same way *)
Definition hstep (deep : bool) (s : hstate) (o : hop) : hstate * hres :=
  match o with
  | OSetPath t => ({| cur := t; world := world s; hs := hs s |}, RNone)
  | OKernel t pid r => ({| cur := cur s; world := upd (world s) t pid r; hs := hs s |}, RNone)
  | ONew pid => match world s (cur s) pid with
                | Some _ => push s {| h_pid := pid; h_path := cur s |}
                | None => (s, RNoSuch)
                end
  | OCopy h | OCopyIn h => match nth_error (hs s) h with Some x => push s x | None => (s, RBad) end
  | ODeepCopy h => match nth_error (hs s) h with
                   | Some x => if deep then push s x else (s, RTypeError)
                   | None => (s, RBad)
                   end
  | OCall h => match nth_error (hs s) h with
               | Some x => (s, RAns (world s (h_path x) (h_pid x)))
               | None => (s, RBad)
               end
  end.

Fixpoint hrun (deep : bool) (s : hstate) (ops : list hop) : hstate * list hres :=
  match ops with
  | [] => (s, [])
  | o :: tl => let (s1, r) := hstep deep s o in let (s2, rs) := hrun deep s1 tl in (s2, r :: rs)
  end.

(* ---------------- the specification, from the property: ghost origin of every handle -------------------------------
   A handle answers with what the mount it was CREATED on publishes for its pid at the moment of the call; a copy (any kind
   that is delivered) has the origin of its original.  PROCFS_PATH assignments never move an existing handle. *)
Record gstate := { g_cur : Z; g_world : Z -> table; g_origin : list (Z * Z) }.   (* handle number -> (mount, pid) *)

Definition gstep (deep : bool) (g : gstate) (o : hop) : gstate * hres :=
  let bind (mp : Z * Z) := ({| g_cur := g_cur g; g_world := g_world g; g_origin := g_origin g ++ [mp] |},
                            RHandle (length (g_origin g))) in
  match o with
  | OSetPath t => ({| g_cur := t; g_world := g_world g; g_origin := g_origin g |}, RNone)
  | OKernel t pid r => ({| g_cur := g_cur g; g_world := upd (g_world g) t pid r; g_origin := g_origin g |}, RNone)
  | ONew pid => match g_world g (g_cur g) pid with Some _ => bind (g_cur g, pid) | None => (g, RNoSuch) end
  | OCopy h | OCopyIn h => match nth_error (g_origin g) h with Some mp => bind mp | None => (g, RBad) end
  | ODeepCopy h => match nth_error (g_origin g) h with
                   | Some mp => if deep then bind mp else (g, RTypeError)
                   | None => (g, RBad)
                   end
  | OCall h => match nth_error (g_origin g) h with
               | Some (m, p) => (g, RAns (g_world g m p))
               | None => (g, RBad)
               end
  end.

Fixpoint grun (deep : bool) (g : gstate) (ops : list hop) : gstate * list hres :=
  match ops with
  | [] => (g, [])
  | o :: tl => let (g1, r) := gstep deep g o in let (g2, rs) := grun deep g1 tl in (g2, r :: rs)
  end.

Definition ghost_of (s : hstate) : gstate :=
  {| g_cur := cur s; g_world := world s; g_origin := map (fun x => (h_path x, h_pid x)) (hs s) |}.

(* ---------------- proofs ------------------------------------------------------------------------------------------- *)
Lemma hstep_ghost : forall deep s o,
  gstep deep (ghost_of s) o = (ghost_of (fst (hstep deep s o)), snd (hstep deep s o)).
Proof.
  intros deep s o. destruct o; cbn [hstep gstep ghost_of g_cur g_world g_origin cur world hs fst snd]; try reflexivity.
  - destruct (world s (cur s) pid); cbn; [|reflexivity].
    unfold ghost_of; cbn. rewrite map_app, map_length. reflexivity.
  - rewrite nth_error_map. destruct (nth_error (hs s) h); cbn; [|reflexivity].
    unfold ghost_of; cbn. rewrite map_app, map_length. reflexivity.
  - rewrite nth_error_map. destruct (nth_error (hs s) h); cbn; [|reflexivity].
    unfold ghost_of; cbn. rewrite map_app, map_length. reflexivity.
  - rewrite nth_error_map. destruct (nth_error (hs s) h); cbn; [|reflexivity].
    destruct deep; cbn; [|reflexivity].
    unfold ghost_of; cbn. rewrite map_app, map_length. reflexivity.
  - rewrite nth_error_map. destruct (nth_error (hs s) h); cbn; reflexivity.
Qed.

Theorem hrun_exact : forall deep ops s,
  snd (hrun deep s ops) = snd (grun deep (ghost_of s) ops).
Proof.
  intros deep ops. induction ops as [|o tl IH]; intros s; cbn [hrun grun]; [reflexivity|].
  rewrite hstep_ghost. destruct (hstep deep s o) as [s1 r] eqn:E. cbn [fst snd].
  specialize (IH s1). destruct (hrun deep s1 tl) as [s2 rs]. destruct (grun deep (ghost_of s1) tl) as [g2 rs'].
  cbn [snd] in *. now rewrite IH.
Qed.

Lemma hstep_keeps : forall deep s o n x,
  nth_error (hs s) n = Some x -> nth_error (hs (fst (hstep deep s o))) n = Some x.
Proof.
  intros deep s o n x H.
  assert (K : nth_error (hs s ++ [x]) n = Some x -> True) by trivial.
  destruct o; cbn [hstep]; try exact H.
  - destruct (world s (cur s) pid); cbn; [|exact H]. rewrite nth_error_app1; [exact H|]. apply nth_error_Some. congruence.
  - destruct (nth_error (hs s) h); cbn; [|exact H]. rewrite nth_error_app1; [exact H|]. apply nth_error_Some. congruence.
  - destruct (nth_error (hs s) h); cbn; [|exact H]. rewrite nth_error_app1; [exact H|]. apply nth_error_Some. congruence.
  - destruct (nth_error (hs s) h); cbn; [|exact H]. destruct deep; cbn; [|exact H].
    rewrite nth_error_app1; [exact H|]. apply nth_error_Some. congruence.
  - destruct (nth_error (hs s) h); cbn; exact H.
Qed.

Lemma hrun_keeps : forall deep ops s n x,
  nth_error (hs s) n = Some x -> nth_error (hs (fst (hrun deep s ops))) n = Some x.
Proof.
  intros deep ops. induction ops as [|o tl IH]; intros s n x H; cbn [hrun]; [exact H|].
  pose proof (hstep_keeps deep s o n x H) as H1. destruct (hstep deep s o) as [s1 r]. cbn [fst] in H1.
  specialize (IH s1 n x H1). destruct (hrun deep s1 tl) as [s2 rs]. exact IH.
Qed.

Definition is_copy_op (deep : bool) (o : hop) (h : nat) : Prop :=
  o = OCopy h \/ o = OCopyIn h \/ (deep = true /\ o = ODeepCopy h).

(* every accessor on a copy equals the accessor on the original, at every later point of every history *)
Theorem copy_answers_as_original : forall deep s o h x ops,
  nth_error (hs s) h = Some x -> is_copy_op deep o h ->
  let s1 := fst (hstep deep s o) in
  let c := length (hs s) in
  snd (hstep deep s o) = RHandle c /\
  snd (hstep deep (fst (hrun deep s1 ops)) (OCall c)) = snd (hstep deep (fst (hrun deep s1 ops)) (OCall h)).
Proof.
  intros deep s o h x ops H C.
  assert (E : hstep deep s o = push s x).
  { destruct C as [-> | [-> | [-> ->]]]; cbn [hstep]; rewrite H; reflexivity. }
  cbn zeta. rewrite E. unfold push at 1. cbn [snd]. split; [reflexivity|].
  unfold push. cbn [fst].
  set (s1 := {| cur := cur s; world := world s; hs := hs s ++ [x] |}).
  assert (Hc : nth_error (hs s1) (length (hs s)) = Some x).
  { cbn. rewrite nth_error_app2 by lia. now rewrite Nat.sub_diag. }
  assert (Hh : nth_error (hs s1) h = Some x).
  { cbn. rewrite nth_error_app1; [exact H|]. apply nth_error_Some. congruence. }
  cbn [hstep]. rewrite (hrun_keeps deep ops s1 _ x Hc), (hrun_keeps deep ops s1 _ x Hh). reflexivity.
Qed.

(* a handle keeps answering from the mount that was current when it was created, whatever PROCFS_PATH becomes *)
Theorem handle_bound_to_creation_mount : forall deep s pid r ops,
  world s (cur s) pid = Some r ->
  let s1 := fst (hstep deep s (ONew pid)) in
  let s2 := fst (hrun deep s1 ops) in
  snd (hstep deep s2 (OCall (length (hs s)))) = RAns (world s2 (cur s) pid).
Proof.
  intros deep s pid r ops H. cbn zeta. cbn [hstep]. rewrite H. unfold push. cbn [fst].
  set (x := {| h_pid := pid; h_path := cur s |}).
  set (s1 := {| cur := cur s; world := world s; hs := hs s ++ [x] |}).
  assert (Hc : nth_error (hs s1) (length (hs s)) = Some x).
  { cbn. rewrite nth_error_app2 by lia. now rewrite Nat.sub_diag. }
  rewrite (hrun_keeps deep ops s1 _ x Hc). reflexivity.
Qed.

End Handles.

(* a concrete history: pid 7 is process 1 on mount 0 and process 3 on mount 1; the copy taken after the switch answers 1,
   then 2 after the process changed on mount 0; never 3 *)
Example copy_history_example :
  snd (hrun Z false {| cur := 0; world := fun t p => if Z.eqb p 7 then (if Z.eqb t 0 then Some 1 else Some 3) else None; hs := [] |}
        [ONew Z 7; OSetPath Z 1; OCopy Z 0%nat; OCall Z 1%nat; OKernel Z 0 7 (Some 2); OCall Z 1%nat; OCall Z 0%nat;
         ODeepCopy Z 0%nat; ONew Z 7; OCall Z 2%nat])
  = [RHandle Z 0; RNone Z; RHandle Z 1; RAns Z (Some 1); RNone Z; RAns Z (Some 2); RAns Z (Some 2); RTypeError Z;
     RHandle Z 2; RAns Z (Some 3)].
Proof. vm_compute. reflexivity. Qed.
