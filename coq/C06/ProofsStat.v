(* C06 -- proofs, part 2: /proc/<pid>/stat and the accessors it feeds. *)
From PV Require Import C06.Spec C06.Lib C06.ProofsCodec.

Definition wf_kstat0 (r : kstat) : bool := is_dec (k_pid r) && forallb fld_ok (k_after r).

Lemma wf_kstat_0 r : wf_kstat r = true -> wf_kstat0 r = true /\ (37 <= length (k_after r))%nat.
Proof.
  unfold wf_kstat, wf_kstat0. intros H. apply andb_true_iff in H as [H1 H2].
  split; [exact H1|]. now apply Nat.leb_le.
Qed.

Definition k_tail (r : kstat) : bytes := join [32] (k_after r) ++ [10].

Lemma k_stat_shape r :
  k_stat r = (k_pid r ++ [32; 40] ++ k_comm r) ++ 41 :: 32 :: k_tail r.
Proof. unfold k_stat, k_tail. rewrite <- !app_assoc. reflexivity. Qed.

Lemma tail_no_rpar r : forallb fld_ok (k_after r) = true -> contains 41 (32 :: k_tail r) = false.
Proof.
  intros H. unfold k_tail. rewrite contains_cons, contains_app.
  rewrite contains_join; [reflexivity|reflexivity|now apply fld_no_rpar].
Qed.

Lemma after_rpar_stat r :
  forallb fld_ok (k_after r) = true -> after_rpar (k_stat r) = k_tail r.
Proof.
  intros H. unfold after_rpar, rpar_skip. rewrite k_stat_shape.
  rewrite rfind_byte_app by (now apply tail_no_rpar).
  set (pre := k_pid r ++ [32; 40] ++ k_comm r).
  change (pre ++ 41 :: 32 :: k_tail r) with (pre ++ [41; 32] ++ k_tail r).
  rewrite app_assoc. apply skipn_app_exact. rewrite app_length. cbn [length]. lia.
Qed.

Lemma fields_stat r :
  forallb fld_ok (k_after r) = true -> split_ws (after_rpar (k_stat r)) = k_after r.
Proof.
  intros H. rewrite after_rpar_stat by assumption. unfold k_tail.
  apply split_ws_app_nl. now apply forallb_fld_tok.
Qed.

Lemma stat_name_stat r : wf_kstat0 r = true -> stat_name (k_stat r) = k_comm r.
Proof.
  unfold wf_kstat0. intros H. apply andb_true_iff in H as [Hp Ha].
  assert (Hr : rfind_byte 41 (k_stat r) = Some (length (k_pid r ++ [32; 40] ++ k_comm r))).
  { rewrite k_stat_shape. apply rfind_byte_app. now apply tail_no_rpar. }
  assert (E : k_stat r = (k_pid r ++ [32]) ++ 40 :: (k_comm r ++ [41; 32] ++ k_tail r)).
  { unfold k_stat, k_tail. rewrite <- !app_assoc. reflexivity. }
  assert (Hf : find_byte 40 (k_stat r) = Some (length (k_pid r ++ [32]))).
  { rewrite E. apply find_byte_app.
    rewrite contains_app, (is_dec_no 40 _ Hp) by reflexivity. reflexivity. }
  unfold stat_name. rewrite Hr, Hf. rewrite E.
  change ((k_pid r ++ [32]) ++ 40 :: (k_comm r ++ [41; 32] ++ k_tail r))
    with ((k_pid r ++ [32]) ++ [40] ++ (k_comm r ++ [41; 32] ++ k_tail r)).
  rewrite (app_assoc (k_pid r ++ [32]) [40]).
  rewrite skipn_app_exact by (rewrite !app_length; cbn [length]; lia).
  apply firstn_app_exact. rewrite !app_length. cbn [length]. lia.
Qed.

(* the parser returns exactly the proc(5) fields, or IndexError when a needed one is missing *)
Theorem parse_stat_spec r :
  wf_kstat0 r = true -> parse_stat_file (k_stat r) = of_option IndexError (spec_pstat r).
Proof.
  intros H. pose proof (stat_name_stat r H) as Hn.
  unfold wf_kstat0 in H. apply andb_true_iff in H as [Hp Ha].
  unfold parse_stat_file. rewrite fields_stat, Hn by assumption.
  unfold spec_pstat, fld, idx. cbn [Nat.sub].
  destruct (nth_error (k_after r) 0); [|reflexivity].
  destruct (nth_error (k_after r) 1); [|reflexivity].
  destruct (nth_error (k_after r) 4); [|reflexivity].
  destruct (nth_error (k_after r) 11); [|reflexivity].
  destruct (nth_error (k_after r) 12); [|reflexivity].
  destruct (nth_error (k_after r) 13); [|reflexivity].
  destruct (nth_error (k_after r) 14); [|reflexivity].
  destruct (nth_error (k_after r) 19); [|reflexivity].
  destruct (nth_error (k_after r) 36); reflexivity.
Qed.

Lemma nth_error_some {A} (l : list A) n : (n < length l)%nat -> exists x, nth_error l n = Some x.
Proof.
  intros H. destruct (nth_error l n) eqn:E; [eauto|]. apply nth_error_None in E. lia.
Qed.

Lemma spec_pstat_some r : (37 <= length (k_after r))%nat -> exists x, spec_pstat r = Some x.
Proof.
  intros H. unfold spec_pstat, fld. cbn [Nat.sub].
  destruct (nth_error_some (k_after r) 0) as [x0 ->]; [lia|].
  destruct (nth_error_some (k_after r) 1) as [x1 ->]; [lia|].
  destruct (nth_error_some (k_after r) 4) as [x4 ->]; [lia|].
  destruct (nth_error_some (k_after r) 11) as [x11 ->]; [lia|].
  destruct (nth_error_some (k_after r) 12) as [x12 ->]; [lia|].
  destruct (nth_error_some (k_after r) 13) as [x13 ->]; [lia|].
  destruct (nth_error_some (k_after r) 14) as [x14 ->]; [lia|].
  destruct (nth_error_some (k_after r) 19) as [x19 ->]; [lia|].
  destruct (nth_error_some (k_after r) 36) as [x36 ->]; [lia|].
  eauto.
Qed.

Theorem stat_roundtrip r :
  wf_kstat r = true -> exists x, spec_pstat r = Some x /\ parse_stat_file (k_stat r) = Val x.
Proof.
  intros H. apply wf_kstat_0 in H as [H0 Hl].
  destruct (spec_pstat_some r Hl) as [x Hx]. exists x. split; [exact Hx|].
  now rewrite parse_stat_spec, Hx.
Qed.

(* projections of spec_pstat *)
Lemma spec_pstat_fields r x : spec_pstat r = Some x ->
  ps_name x = k_comm r /\ fld 3 r = Some (ps_status x) /\ fld 4 r = Some (ps_ppid x) /\
  fld 7 r = Some (ps_ttynr x) /\ fld 14 r = Some (ps_utime x) /\ fld 15 r = Some (ps_stime x) /\
  fld 16 r = Some (ps_cutime x) /\ fld 17 r = Some (ps_cstime x) /\ fld 22 r = Some (ps_ctime x) /\
  fld 39 r = Some (ps_cpunum x) /\ fld 42 r = ps_blkio x.
Proof.
  unfold spec_pstat.
  destruct (fld 3 r); [|discriminate]. destruct (fld 4 r); [|discriminate].
  destruct (fld 7 r); [|discriminate]. destruct (fld 14 r); [|discriminate].
  destruct (fld 15 r); [|discriminate]. destruct (fld 16 r); [|discriminate].
  destruct (fld 17 r); [|discriminate]. destruct (fld 22 r); [|discriminate].
  destruct (fld 39 r); [|discriminate].
  intros [= <-]. cbn. repeat split; reflexivity.
Qed.

Ltac use_roundtrip r H x Hx Hp F :=
  destruct (stat_roundtrip r H) as (x & Hx & Hp);
  pose proof (spec_pstat_fields r x Hx) as F.

Theorem name_exact r : wf_kstat r = true -> name (k_stat r) = Val (k_comm r).
Proof.
  intros H. use_roundtrip r H x Hx Hp F. unfold name. rewrite Hp. cbn [obind].
  destruct F as (-> & _). reflexivity.
Qed.

(* the str that name() returns is os.fsdecode(comm) under the interpreter's encoding ... *)
Theorem name_str_exact e r : wf_kstat r = true -> name_str e (k_stat r) = Val (fs_decode e (k_comm r)).
Proof. intros H. unfold name_str. now rewrite name_exact. Qed.

(* ... and os.fsencode() of it gives back exactly the bytes the kernel publishes *)
Theorem name_str_roundtrip e r :
  wf_kstat r = true -> wf_bytes (k_comm r) = true ->
  exists s, name_str e (k_stat r) = Val s /\ fs_encode e s = Some (k_comm r).
Proof.
  intros H Hb. exists (fs_decode e (k_comm r)). split; [now apply name_str_exact|now apply fs_roundtrip].
Qed.

Theorem ppid_exact r d :
  wf_kstat r = true -> fld 4 r = Some d -> is_dec d = true -> ppid (k_stat r) = Val (dec_val d).
Proof.
  intros H Hf Hd. use_roundtrip r H x Hx Hp F. unfold ppid. rewrite Hp. cbn [obind].
  destruct F as (_ & _ & F4 & _). rewrite Hf in F4. injection F4 as <-. now apply py_int_dec.
Qed.

Theorem cpu_num_exact r d :
  wf_kstat r = true -> fld 39 r = Some d -> is_dec d = true -> cpu_num (k_stat r) = Val (dec_val d).
Proof.
  intros H Hf Hd. use_roundtrip r H x Hx Hp F. unfold cpu_num. rewrite Hp. cbn [obind].
  destruct F as (_ & _ & _ & _ & _ & _ & _ & _ & _ & F39 & _). rewrite Hf in F39. injection F39 as <-.
  now apply py_int_dec.
Qed.

(* every documented letter maps, in the table generated from the code, to its documented constant *)
Lemma status_letters_total :
  forallb (fun e => beqb (status_get proc_statuses [fst e]) (snd e)) documented_statuses = true.
Proof. vm_compute. reflexivity. Qed.

Lemma documented_letter c s :
  spec_status documented_statuses c = Some s ->
  is_ascii [c] = true /\ status_get proc_statuses [c] = s.
Proof.
  pose proof status_letters_total as T.
  unfold documented_statuses in *. cbn [spec_status].
  cbn [forallb fst snd] in T.
  repeat (apply andb_true_iff in T as [?T0 T]).
  repeat match goal with
  | |- context [c =? ?k] =>
    destruct (Z.eqb_spec c k) as [->|_];
    [intros [= <-]; split; [reflexivity|apply beqb_eq; assumption]|]
  end.
  discriminate.
Qed.

(* ... and the table holds nothing else: every entry is a single documented letter with
   its documented constant; STATUS_ZOMBIE is "zombie" *)
Lemma status_table_sound :
  forallb (fun e => match fst e with
                    | [c] => match spec_status documented_statuses c with
                             | Some v => beqb v (snd e)
                             | None => false
                             end
                    | _ => false
                    end) proc_statuses = true.
Proof. vm_compute. reflexivity. Qed.
Lemma status_zombie_const : beqb status_zombie (bs "zombie") = true.
Proof. vm_compute. reflexivity. Qed.

Definition entry_sound (e : bytes * bytes) : bool :=
  match fst e with
  | [c] => match spec_status documented_statuses c with Some v => beqb v (snd e) | None => false end
  | _ => false
  end.

Lemma status_get_unknown_letter tbl c :
  forallb entry_sound tbl = true -> spec_status documented_statuses c = None -> status_get tbl [c] = [63].
Proof.
  intros H Hc. induction tbl as [|[k v] tbl IH]; [reflexivity|]. cbn [forallb] in H.
  apply andb_true_iff in H as [He Ht]. cbn [status_get].
  unfold entry_sound in He. cbn [fst snd] in He.
  destruct k as [|c' [|x k]]; try discriminate.
  cbn [beqb]. destruct (Z.eqb_spec c c') as [->|]; [|now apply IH].
  rewrite Hc in He. discriminate.
Qed.

Lemma status_get_not_letter tbl t :
  forallb entry_sound tbl = true -> length t <> 1%nat -> status_get tbl t = [63].
Proof.
  intros H Ht. induction tbl as [|[k v] tbl IH]; [reflexivity|]. cbn [forallb] in H.
  apply andb_true_iff in H as [He Htb]. cbn [status_get].
  unfold entry_sound in He. cbn [fst snd] in He.
  destruct k as [|c' [|x k]]; try discriminate.
  assert (beqb t [c'] = false) as ->; [|now apply IH].
  destruct t as [|a [|b t]]; [reflexivity|now elim Ht|]. cbn [beqb]. apply andb_false_r.
Qed.

(* the code's table, as a function of the state token, IS the documented mapping with '?' elsewhere *)
Theorem status_get_total t : status_get proc_statuses t = spec_status_tok t.
Proof.
  unfold spec_status_tok. destruct t as [|c [|b t]].
  - apply status_get_not_letter; [exact status_table_sound|discriminate].
  - destruct (spec_status documented_statuses c) as [s|] eqn:E.
    + now destruct (documented_letter c s E).
    + now apply status_get_unknown_letter; [exact status_table_sound|].
  - apply status_get_not_letter; [exact status_table_sound|discriminate].
Qed.

(* status() for EVERY ASCII state token: documented letter -> its constant, anything else -> '?' *)
Theorem status_total r t :
  wf_kstat r = true -> fld 3 r = Some t -> is_ascii t = true ->
  status (k_stat r) = Val (spec_status_tok t).
Proof.
  intros H Hf Ha. use_roundtrip r H x Hx Hp F. unfold status. rewrite Hp. cbn [obind].
  destruct F as (_ & F3 & _). rewrite Hf in F3. injection F3 as <-.
  rewrite Ha. now rewrite status_get_total.
Qed.

(* _is_zombie looks at the first byte of the state field *)
Lemma is_zombie_stat r t :
  wf_kstat r = true -> fld 3 r = Some t ->
  is_zombie (k_stat r) = match t with 90 :: [] => true | 90 :: _ => true | _ => false end.
Proof.
  intros H Hf. apply wf_kstat_0 in H as [H0 _]. unfold wf_kstat0 in H0.
  apply andb_true_iff in H0 as [_ Ha].
  unfold is_zombie. rewrite after_rpar_stat by assumption. unfold k_tail.
  unfold fld in Hf. cbn [Nat.sub] in Hf.
  destruct (k_after r) as [|t0 rest]; [discriminate|]. cbn [nth_error] in Hf. injection Hf as ->.
  cbn [forallb] in Ha. apply andb_true_iff in Ha as [Ht _]. apply fld_ok_tok in Ht as [Ht _].
  apply tok_ok_spec in Ht as [Hne _].
  destruct t as [|c t]; [congruence|].
  assert (K : (c =? 90) = match c with 90 => match t with [] | _ => true end | _ => false end).
  { destruct (Z.eqb_spec c 90) as [->|N].
    - destruct t; reflexivity.
    - destruct c as [|q|q]; try reflexivity.
      do 7 (destruct q as [q|q|]; try reflexivity). congruence. }
  rewrite <- K.
  destruct rest; cbn [join app firstn beqb]; apply andb_true_r.
Qed.

(* the public status(): when the first read of the stat file fails because the task is
   being reaped and the re-read shows state Z, the front end answers STATUS_ZOMBIE -- the
   documented constant of the letter the kernel publishes *)
Theorem status_front_zombie r first third e1 e2 :
  wf_kstat r = true -> fld 3 r = Some [90] -> first = SESRCH \/ first = SENOENT ->
  status_public (wrapped status first (SData (k_stat r)) third e1 e2) = Val (bs "zombie")
  /\ spec_status documented_statuses 90 = Some (bs "zombie").
Proof.
  intros H Hf Hfirst. split; [|reflexivity].
  pose proof (is_zombie_stat r [90] H Hf) as Z. cbv iota in Z.
  assert (C : status_zombie = bs "zombie") by (apply beqb_eq; exact status_zombie_const).
  destruct Hfirst as [-> | ->]; cbn [wrapped zombie_read]; rewrite Z; cbn [status_public]; now rewrite C.
Qed.

(* without a read fault the front end adds nothing *)
Theorem status_front_plain r t s2 s3 e1 e2 :
  wf_kstat r = true -> fld 3 r = Some t -> is_ascii t = true ->
  status_public (wrapped status (SData (k_stat r)) s2 s3 e1 e2) = Val (spec_status_tok t).
Proof. intros H Hf Ha. cbn [wrapped]. now rewrite (status_total r t H Hf Ha). Qed.

Theorem status_exact r c s :
  wf_kstat r = true -> fld 3 r = Some [c] -> spec_status documented_statuses c = Some s ->
  status (k_stat r) = Val s.
Proof.
  intros H Hf Hs. use_roundtrip r H x Hx Hp F. unfold status. rewrite Hp. cbn [obind].
  destruct F as (_ & F3 & _). rewrite Hf in F3. injection F3 as <-.
  destruct (documented_letter c s Hs) as [-> ->]. reflexivity.
Qed.

Theorem cpu_times_exact clk r ut stm cut cst :
  wf_kstat r = true ->
  fld 14 r = Some ut -> fld 15 r = Some stm -> fld 16 r = Some cut -> fld 17 r = Some cst ->
  is_dec ut = true -> is_dec stm = true -> is_dec cut = true -> is_dec cst = true ->
  match fld 42 r with Some b => is_dec b = true | None => True end ->
  cpu_times clk (k_stat r) = Val (spec_cpu_times clk ut stm cut cst (fld 42 r)).
Proof.
  intros H F14 F15 F16 F17 D14 D15 D16 D17 D42.
  use_roundtrip r H x Hx Hp F. unfold cpu_times. rewrite Hp. cbn [obind].
  destruct F as (_ & _ & _ & _ & G14 & G15 & G16 & G17 & _ & _ & G42).
  rewrite F14 in G14. rewrite F15 in G15. rewrite F16 in G16. rewrite F17 in G17.
  injection G14 as <-. injection G15 as <-. injection G16 as <-. injection G17 as <-.
  rewrite !py_float_dec by assumption. cbn [obind].
  rewrite <- G42. unfold spec_cpu_times, secs.
  destruct (fld 42 r) as [b|].
  - rewrite py_float_dec by assumption. reflexivity.
  - reflexivity.
Qed.

Theorem create_time_exact clk bt r st :
  wf_kstat r = true -> fld 22 r = Some st -> is_dec st = true ->
  create_time clk bt (k_stat r) = Val (spec_create_time clk bt st).
Proof.
  intros H Hf Hd. use_roundtrip r H x Hx Hp F. unfold create_time, create_time_mono. rewrite Hp. cbn [obind].
  destruct F as (_ & _ & _ & _ & _ & _ & _ & _ & F22 & _). rewrite Hf in F22. injection F22 as <-.
  rewrite py_float_dec by assumption. reflexivity.
Qed.

(* on a kernel record the construction of the Process object never fails, so the public
   accessor is the accessor *)
Theorem front_transparent {A} r st (o : outcome A) :
  wf_kstat r = true -> fld 22 r = Some st -> is_dec st = true -> front (k_stat r) o = o.
Proof.
  intros H Hf Hd. use_roundtrip r H x Hx Hp F. unfold front, create_time_mono. rewrite Hp. cbn [obind].
  destruct F as (_ & _ & _ & _ & _ & _ & _ & _ & F22 & _). rewrite Hf in F22. injection F22 as <-.
  rewrite py_float_dec by assumption. reflexivity.
Qed.

Theorem create_time_mono_exact clk r st :
  wf_kstat r = true -> fld 22 r = Some st -> is_dec st = true ->
  create_time_mono clk (k_stat r) = Val (secs clk st).
Proof.
  intros H Hf Hd. use_roundtrip r H x Hx Hp F. unfold create_time_mono. rewrite Hp. cbn [obind].
  destruct F as (_ & _ & _ & _ & _ & _ & _ & _ & F22 & _). rewrite Hf in F22. injection F22 as <-.
  rewrite py_float_dec by assumption. reflexivity.
Qed.

(* every record length: N >= 39 fields (what wf_kstat says); field (42) is reported exactly
   when N >= 42, and nothing else depends on N *)
Lemma wf_kstat_N r : wf_kstat r = true -> (39 <= nfields r)%nat.
Proof. intros H. apply wf_kstat_0 in H as [_ H]. unfold nfields. lia. Qed.

Lemma fld42_N r : (fld 42 r = None <-> (nfields r < 42)%nat).
Proof. unfold fld, nfields. cbn [Nat.sub]. rewrite nth_error_None. lia. Qed.

Theorem stat_fields_by_N r :
  wf_kstat r = true ->
  exists x, parse_stat_file (k_stat r) = Val x /\
    ps_name x = k_comm r /\
    fld 3 r = Some (ps_status x) /\ fld 4 r = Some (ps_ppid x) /\ fld 7 r = Some (ps_ttynr x) /\
    fld 14 r = Some (ps_utime x) /\ fld 15 r = Some (ps_stime x) /\
    fld 16 r = Some (ps_cutime x) /\ fld 17 r = Some (ps_cstime x) /\
    fld 22 r = Some (ps_ctime x) /\ fld 39 r = Some (ps_cpunum x) /\
    ((nfields r < 42)%nat -> ps_blkio x = None) /\
    ((42 <= nfields r)%nat -> exists b, fld 42 r = Some b /\ ps_blkio x = Some b).
Proof.
  intros H. use_roundtrip r H x Hx Hp F. exists x. split; [exact Hp|].
  destruct F as (F1 & F3 & F4 & F7 & F14 & F15 & F16 & F17 & F22 & F39 & F42).
  repeat (split; [assumption|]). split.
  - intros HN. rewrite <- F42. now apply fld42_N.
  - intros HN. destruct (fld 42 r) as [b|] eqn:E.
    + exists b. auto.
    + apply fld42_N in E. lia.
Qed.

(* iowait: delayacct_blkio_ticks / CLK when the kernel prints field (42), 0 on older kernels *)
Theorem cpu_times_old_kernel clk r ut stm cut cst :
  wf_kstat r = true -> (nfields r < 42)%nat ->
  fld 14 r = Some ut -> fld 15 r = Some stm -> fld 16 r = Some cut -> fld 17 r = Some cst ->
  is_dec ut = true -> is_dec stm = true -> is_dec cut = true -> is_dec cst = true ->
  cpu_times clk (k_stat r) = Val [secs clk ut; secs clk stm; secs clk cut; secs clk cst; 0 # clk].
Proof.
  intros H HN F14 F15 F16 F17 D14 D15 D16 D17. apply fld42_N in HN.
  rewrite (cpu_times_exact clk r ut stm cut cst) by (try assumption; now rewrite HN).
  now rewrite HN.
Qed.
Theorem cpu_times_iowait clk r ut stm cut cst b :
  wf_kstat r = true -> fld 42 r = Some b ->
  fld 14 r = Some ut -> fld 15 r = Some stm -> fld 16 r = Some cut -> fld 17 r = Some cst ->
  is_dec ut = true -> is_dec stm = true -> is_dec cut = true -> is_dec cst = true -> is_dec b = true ->
  cpu_times clk (k_stat r) = Val [secs clk ut; secs clk stm; secs clk cut; secs clk cst; secs clk b].
Proof.
  intros H F42 F14 F15 F16 F17 D14 D15 D16 D17 D42.
  rewrite (cpu_times_exact clk r ut stm cut cst) by (try assumption; now rewrite F42).
  now rewrite F42.
Qed.

(* a record with a hostile name satisfies the hypotheses *)
Definition ex_kstat : kstat :=
  {| k_pid := bs "4242"; k_comm := bs "a) b) (c" ++ [10; 255] ++ bs " S 1 ";
     k_after := bs "t" :: bs "7" :: bs "4242" :: bs "4242" :: bs "34816" :: bs "-1"
                :: map (fun n => bs "18446744073709551615") (seq 0 30) ++ [bs "3"; bs "0"; bs "0"; bs "9"] |}.
Example ex_kstat_wf :
  wf_kstat ex_kstat = true /\ fld 3 ex_kstat = Some [116] /\ fld 4 ex_kstat = Some (bs "7")
  /\ spec_status documented_statuses 116 = Some (bs "tracing-stop")
  /\ fld 42 ex_kstat = Some (bs "9") /\ fld 39 ex_kstat = Some (bs "3").
Proof. vm_compute. repeat split; reflexivity. Qed.

(* the shortest record a kernel prints (N = 39), the last one without blkio (N = 41), N = 42 *)
Definition ex_short (n : nat) : kstat :=
  {| k_pid := bs "1"; k_comm := bs "init) (";
     k_after := bs "S" :: map (fun i => bs "7") (seq 0 (n - 3)) |}.
Example ex_short_N :
  wf_kstat (ex_short 39) = true /\ nfields (ex_short 39) = 39%nat /\ fld 42 (ex_short 39) = None
  /\ wf_kstat (ex_short 41) = true /\ nfields (ex_short 41) = 41%nat /\ fld 42 (ex_short 41) = None
  /\ wf_kstat (ex_short 42) = true /\ nfields (ex_short 42) = 42%nat /\ fld 42 (ex_short 42) = Some (bs "7")
  /\ wf_kstat (ex_short 38) = false.
Proof. vm_compute. repeat split; reflexivity. Qed.
