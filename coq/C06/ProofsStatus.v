(* C06 -- proofs, part 4: /proc/<pid>/status (uids, gids, num_threads, num_ctx_switches). *)
From PV Require Import C06.Spec C06.Lib.

(* ------------------------------------------------------- the escaped name *)
Lemma esc_no_nl comm : contains 10 (esc_name comm) = false.
Proof.
  unfold esc_name. induction comm as [|c comm IH]; [reflexivity|].
  cbn [flat_map]. rewrite contains_app, IH, orb_false_r. unfold esc_byte.
  destruct (Z.eqb_spec c 10); [reflexivity|].
  destruct (Z.eqb_spec c 92); [reflexivity|].
  rewrite contains_cons. cbn [contains existsb]. rewrite orb_false_r. now apply Z.eqb_neq, not_eq_sym.
Qed.

Definition name_line (comm : bytes) : bytes := bs "Name:" ++ 9 :: esc_name comm.
Lemma name_line_no_nl comm : contains 10 (name_line comm) = false.
Proof. unfold name_line. rewrite contains_app. cbn [app]. rewrite contains_cons, esc_no_nl. reflexivity. Qed.

(* ------------------------------------------------ scanning line by line *)
Lemma lines_keep_line' l rest :
  contains 10 l = false -> lines_keep (line l ++ rest) = (l ++ [10]) :: lines_keep rest.
Proof. intros H. unfold line. rewrite <- app_assoc. cbn [app]. now apply lines_keep_line. Qed.

Lemma first_some_skip {A} (f : bytes -> option A) l rest :
  contains 10 l = false -> f (l ++ [10]) = None ->
  first_some f (lines_keep (line l ++ rest)) = first_some f (lines_keep rest).
Proof. intros H1 H2. rewrite lines_keep_line' by assumption. cbn [first_some]. now rewrite H2. Qed.

Lemma first_some_hit {A} (f : bytes -> option A) l rest x :
  contains 10 l = false -> f (l ++ [10]) = Some x ->
  first_some f (lines_keep (line l ++ rest)) = Some x.
Proof. intros H1 H2. rewrite lines_keep_line' by assumption. cbn [first_some]. now rewrite H2. Qed.

Lemma first_some_klines {A} (f : bytes -> option A) ls rest :
  forallb (fun l => negb (contains 10 l) && match f (l ++ [10]) with None => true | Some _ => false end) ls = true ->
  first_some f (lines_keep (klines ls ++ rest)) = first_some f (lines_keep rest).
Proof.
  induction ls as [|l ls IH]; [reflexivity|]. cbn [forallb]. intros H.
  apply andb_true_iff in H as [Hl Hls]. apply andb_true_iff in Hl as [H1 H2].
  apply negb_true_iff in H1.
  unfold klines. cbn [map concat]. rewrite <- app_assoc.
  rewrite first_some_skip; [now apply IH|exact H1|].
  destruct (f (l ++ [10])); [discriminate|reflexivity].
Qed.

(* a line that does not begin with the key is not matched *)
Lemma strip_prefix_none key l :
  contains 10 key = false -> prefixb key l = false -> strip_prefix key (l ++ [10]) = None.
Proof. intros Hk H. unfold strip_prefix. rewrite prefixb_nl by assumption. now rewrite H. Qed.

Lemma match_id3_none key l :
  contains 10 key = false -> prefixb key l = false -> match_id3 key (l ++ [10]) = None.
Proof. intros Hk H. unfold match_id3. now rewrite strip_prefix_none. Qed.
Lemma match_id1_none key l :
  contains 10 key = false -> prefixb key l = false -> match_id1 key (l ++ [10]) = None.
Proof. intros Hk H. unfold match_id1. now rewrite strip_prefix_none. Qed.

Lemma other_ok_spec l : other_ok l = true ->
  contains 10 l = false /\ prefixb uid_key l = false /\ prefixb gid_key l = false
  /\ prefixb threads_key l = false /\ occurs (bs "ctxt_switches:") l = false.
Proof.
  unfold other_ok. intros H.
  apply andb_true_iff in H as [H H5]. apply andb_true_iff in H as [H H4].
  apply andb_true_iff in H as [H H3]. apply andb_true_iff in H as [H1 H2].
  apply negb_true_iff in H1, H2, H3, H4, H5.
  repeat split; try assumption.
  - apply (prefixb_app_l_false (bs "Uid:") [9]); assumption.
  - apply (prefixb_app_l_false (bs "Gid:") [9]); assumption.
  - apply (prefixb_app_l_false (bs "Threads:") [9]); assumption.
Qed.

Lemma others_skip3 key ls :
  (key = uid_key \/ key = gid_key) ->
  forallb other_ok ls = true ->
  forallb (fun l => negb (contains 10 l) &&
                    match match_id3 key (l ++ [10]) with None => true | Some _ => false end) ls = true.
Proof.
  intros Hk. induction ls as [|l ls IH]; [reflexivity|]. cbn [forallb]. intros H.
  apply andb_true_iff in H as [Hl Hls]. rewrite IH by assumption. rewrite andb_true_r.
  apply other_ok_spec in Hl as (H1 & H2 & H3 & _). rewrite H1. cbn [negb andb].
  destruct Hk as [-> | ->]; now rewrite match_id3_none.
Qed.
Lemma others_skip1 ls :
  forallb other_ok ls = true ->
  forallb (fun l => negb (contains 10 l) &&
                    match match_id1 threads_key (l ++ [10]) with None => true | Some _ => false end) ls = true.
Proof.
  induction ls as [|l ls IH]; [reflexivity|]. cbn [forallb]. intros H.
  apply andb_true_iff in H as [Hl Hls]. rewrite IH by assumption. rewrite andb_true_r.
  apply other_ok_spec in Hl as (H1 & _ & _ & H4 & _). rewrite H1. cbn [negb andb].
  now rewrite match_id1_none.
Qed.

(* ------------------------------------------------ the Uid / Gid / Threads lines *)
Definition id_line (key4 a b c d : bytes) : bytes := key4 ++ 9 :: a ++ 9 :: b ++ 9 :: c ++ 9 :: d.

Lemma id_line_no_nl key4 a b c d :
  contains 10 key4 = false -> is_dec a = true -> is_dec b = true -> is_dec c = true -> is_dec d = true ->
  contains 10 (id_line key4 a b c d) = false.
Proof.
  intros Hk Ha Hb Hc Hd. unfold id_line.
  rewrite contains_app, Hk. cbn [orb]. rewrite contains_cons, contains_app, (is_dec_no 10 a) by (assumption || reflexivity).
  rewrite contains_cons, contains_app, (is_dec_no 10 b) by (assumption || reflexivity).
  rewrite contains_cons, contains_app, (is_dec_no 10 c) by (assumption || reflexivity).
  rewrite contains_cons, (is_dec_no 10 d) by (assumption || reflexivity). reflexivity.
Qed.

Lemma match_id3_hit key4 a b c d :
  is_dec a = true -> is_dec b = true -> is_dec c = true ->
  match_id3 (key4 ++ [9]) (id_line key4 a b c d ++ [10]) = Some (a, b, c).
Proof.
  intros Ha Hb Hc. unfold id_line.
  replace ((key4 ++ 9 :: a ++ 9 :: b ++ 9 :: c ++ 9 :: d) ++ [10])
    with ((key4 ++ [9]) ++ a ++ 9 :: b ++ 9 :: c ++ 9 :: d ++ [10]).
  2:{ repeat (rewrite <- app_assoc; cbn [app]). reflexivity. }
  unfold match_id3. rewrite strip_prefix_app.
  rewrite digits1_app by (assumption || reflexivity).
  rewrite digits1_app by (assumption || reflexivity).
  rewrite digits1_app by (assumption || reflexivity).
  reflexivity.
Qed.

Definition uid_line r := id_line (bs "Uid:") (s_ruid r) (s_euid r) (s_suid r) (s_fsuid r).
Definition gid_line r := id_line (bs "Gid:") (s_rgid r) (s_egid r) (s_sgid r) (s_fsgid r).
Definition thr_line r := bs "Threads:" ++ 9 :: s_threads r.
Definition ctx_lines r : bytes :=
  match s_ctx r with
  | Some (v, n) => line (bs "voluntary_ctxt_switches:" ++ 9 :: v)
                   ++ line (bs "nonvoluntary_ctxt_switches:" ++ 9 :: n)
  | None => []
  end.

Lemma k_status_shape r :
  k_status r = line (name_line (s_comm r)) ++ klines (s_pre r) ++ line (uid_line r) ++ line (gid_line r)
               ++ klines (mid_all r) ++ line (thr_line r) ++ klines (s_post r) ++ ctx_lines r ++ klines (s_tail r).
Proof. reflexivity. Qed.

(* the Groups line, however long, is just another line: no newline, not one of the keys,
   no 'c' in it at all *)
Lemma occurs_no_head p0 p l : contains p0 l = false -> occurs (p0 :: p) l = false.
Proof.
  induction l as [|c l IH]; [reflexivity|]. rewrite contains_cons. intros H.
  apply orb_false_iff in H as [Hc Hl]. cbn [occurs prefixb]. rewrite Hc. cbn [andb orb]. now apply IH.
Qed.

Lemma groups_no b gs : is_digit b = false -> b <> 32 -> forallb is_dec gs = true ->
  contains b (join [32] gs ++ [32]) = false.
Proof.
  intros Hb H32 Hg. rewrite contains_app.
  rewrite contains_join.
  - cbn [contains existsb]. rewrite orb_false_r. now apply Z.eqb_neq.
  - cbn [contains existsb]. rewrite orb_false_r. now apply Z.eqb_neq.
  - clear -Hb Hg. induction gs as [|g gs IH]; [reflexivity|]. cbn [forallb] in *.
    apply andb_true_iff in Hg as [H1 H2]. rewrite (is_dec_no b g H1 Hb). cbn [negb andb]. now apply IH.
Qed.

Lemma groups_line_ok gs : forallb is_dec gs = true -> other_ok (groups_line gs) = true.
Proof.
  intros H. unfold other_ok, groups_line.
  assert (N10 : contains 10 (bs "Groups:" ++ 9 :: join [32] gs ++ [32]) = false).
  { rewrite contains_app. cbn [app]. rewrite contains_cons, (groups_no 10 gs) by (reflexivity || lia || assumption). reflexivity. }
  assert (N99 : contains 99 (bs "Groups:" ++ 9 :: join [32] gs ++ [32]) = false).
  { rewrite contains_app. cbn [app]. rewrite contains_cons, (groups_no 99 gs) by (reflexivity || lia || assumption). reflexivity. }
  rewrite N10. change (bs "ctxt_switches:") with (99 :: bs "txt_switches:"). rewrite (occurs_no_head _ _ _ N99).
  reflexivity.
Qed.

Lemma mid_all_ok r :
  forallb other_ok (s_fd r) = true -> forallb is_dec (s_groups r) = true -> forallb other_ok (s_mid r) = true ->
  forallb other_ok (mid_all r) = true.
Proof.
  intros H1 H2 H3. unfold mid_all. rewrite forallb_app, H1. cbn [forallb andb]. now rewrite groups_line_ok, H3.
Qed.

Record wf_parts (r : kstatus) : Prop := {
  w_pre : forallb other_ok (s_pre r) = true; w_mid : forallb other_ok (mid_all r) = true;
  w_post : forallb other_ok (s_post r) = true; w_tail : forallb other_ok (s_tail r) = true;
  w_ru : is_dec (s_ruid r) = true; w_eu : is_dec (s_euid r) = true; w_su : is_dec (s_suid r) = true;
  w_fu : is_dec (s_fsuid r) = true;
  w_rg : is_dec (s_rgid r) = true; w_eg : is_dec (s_egid r) = true; w_sg : is_dec (s_sgid r) = true;
  w_fg : is_dec (s_fsgid r) = true;
  w_thr : is_dec (s_threads r) = true;
  w_ctx : match s_ctx r with Some (v, n) => is_dec v = true /\ is_dec n = true | None => True end }.

Lemma wf_kstatus_parts r : wf_kstatus r = true -> wf_parts r.
Proof.
  unfold wf_kstatus. intros H.
  repeat (apply andb_true_iff in H as [H ?H0]).
  match goal with
  | Hm : forallb other_ok (s_fd r) && forallb is_dec (s_groups r) && forallb other_ok (s_mid r) = true |- _ =>
    apply andb_true_iff in Hm as [Hm Hmid]; apply andb_true_iff in Hm as [Hfd Hg]
  end.
  constructor; try assumption.
  - now apply mid_all_ok.
  - destruct (s_ctx r) as [[v n]|]; [|exact I]. now apply andb_true_iff in H0.
Qed.

Theorem uids_exact r : wf_kstatus r = true -> uids (k_status r) = Val (spec_uids r).
Proof.
  intros H. apply wf_kstatus_parts in H. destruct H.
  unfold uids, ids3. rewrite k_status_shape.
  rewrite first_some_skip; [|apply name_line_no_nl|reflexivity].
  rewrite first_some_klines by (apply others_skip3; auto).
  rewrite (first_some_hit _ _ _ (s_ruid r, s_euid r, s_suid r)).
  2:{ apply id_line_no_nl; auto. }
  2:{ apply (match_id3_hit (bs "Uid:")); assumption. }
  cbn [of_option obind]. rewrite !py_int_dec by assumption. reflexivity.
Qed.

Theorem gids_exact r : wf_kstatus r = true -> gids (k_status r) = Val (spec_gids r).
Proof.
  intros H. apply wf_kstatus_parts in H. destruct H.
  unfold gids, ids3. rewrite k_status_shape.
  rewrite first_some_skip; [|apply name_line_no_nl|reflexivity].
  rewrite first_some_klines by (apply others_skip3; auto).
  rewrite first_some_skip; [|apply id_line_no_nl; auto|reflexivity].
  rewrite (first_some_hit _ _ _ (s_rgid r, s_egid r, s_sgid r)).
  2:{ apply id_line_no_nl; auto. }
  2:{ apply (match_id3_hit (bs "Gid:")); assumption. }
  cbn [of_option obind]. rewrite !py_int_dec by assumption. reflexivity.
Qed.

Lemma thr_line_no_nl r : is_dec (s_threads r) = true -> contains 10 (thr_line r) = false.
Proof.
  intros H. unfold thr_line. rewrite contains_app. cbn [app]. rewrite contains_cons.
  rewrite (is_dec_no 10 _ H) by reflexivity. reflexivity.
Qed.

Theorem num_threads_exact r : wf_kstatus r = true -> num_threads (k_status r) = Val (spec_num_threads r).
Proof.
  intros H. apply wf_kstatus_parts in H. destruct H.
  unfold num_threads. rewrite k_status_shape.
  rewrite first_some_skip; [|apply name_line_no_nl|reflexivity].
  rewrite first_some_klines by (apply others_skip1; auto).
  rewrite first_some_skip; [|apply id_line_no_nl; auto|reflexivity].
  rewrite first_some_skip; [|apply id_line_no_nl; auto|reflexivity].
  rewrite first_some_klines by (apply others_skip1; auto).
  rewrite (first_some_hit _ _ _ (s_threads r)).
  2:{ now apply thr_line_no_nl. }
  2:{ unfold thr_line, match_id1.
      replace ((bs "Threads:" ++ 9 :: s_threads r) ++ [10]) with (threads_key ++ s_threads r ++ [10]).
      2:{ unfold threads_key. repeat (rewrite <- app_assoc; cbn [app]). reflexivity. }
      rewrite strip_prefix_app. rewrite digits1_app by (assumption || reflexivity). reflexivity. }
  cbn [of_option obind]. now apply py_int_dec.
Qed.

(* ------------------------------------------------ ctxt_switches: unanchored *)
Lemma ctx_skip c r : c <> 99 -> ctx_findall (c :: r) = ctx_findall r.
Proof.
  intros H. cbn [ctx_findall]. unfold match_id1, strip_prefix, ctx_key. cbn [bs app prefixb].
  assert (byte_of_ascii "c" =? c = false) as -> by (apply Z.eqb_neq; intros E; apply H; rewrite <- E; reflexivity).
  reflexivity.
Qed.
Lemma ctx_skip_ch r : ctx_findall (99 :: 104 :: r) = ctx_findall (104 :: r).
Proof. reflexivity. Qed.

Lemma ctx_no_c l : contains 99 l = false -> ctx_findall l = [].
Proof.
  induction l as [|c l IH]; [reflexivity|]. rewrite contains_cons. intros H.
  apply orb_false_iff in H as [Hc Hl]. rewrite ctx_skip; [now apply IH|].
  intros ->. discriminate.
Qed.

Lemma ctx_no_occ l : occurs (bs "ctxt_switches:") l = false -> ctx_findall l = [].
Proof.
  induction l as [|c l IH]; [reflexivity|]. cbn [occurs]. intros H.
  apply orb_false_iff in H as [Hp Hl]. cbn [ctx_findall].
  unfold match_id1, strip_prefix, ctx_key. rewrite (prefixb_app_l_false _ [9] _ Hp). now apply IH.
Qed.

(* matches never span a newline *)
Lemma match_ctx_local a b : match_id1 ctx_key (a ++ 10 :: b) = match_id1 ctx_key a.
Proof.
  unfold match_id1, strip_prefix. rewrite prefixb_nl by reflexivity.
  destruct (prefixb ctx_key a) eqn:E; [|reflexivity].
  apply prefixb_spec in E as [x ->]. rewrite <- app_assoc.
  rewrite !skipn_app_exact by reflexivity.
  clear. unfold digits1.
  assert (T : take_digits (x ++ 10 :: b) = take_digits x).
  { induction x as [|c x IH]; [reflexivity|]. cbn [app take_digits]. destruct (is_digit c); [now rewrite IH|reflexivity]. }
  rewrite T. destruct (take_digits x); reflexivity.
Qed.

Lemma ctx_findall_line a b : ctx_findall (a ++ 10 :: b) = ctx_findall a ++ ctx_findall b.
Proof.
  induction a as [|c a IH].
  - cbn [app]. now rewrite ctx_skip by discriminate.
  - change ((c :: a) ++ 10 :: b) with (c :: (a ++ 10 :: b)). cbn [ctx_findall].
    change (c :: (a ++ 10 :: b)) with ((c :: a) ++ 10 :: b). rewrite match_ctx_local, IH.
    destruct (match_id1 ctx_key (c :: a)); reflexivity.
Qed.

Lemma ctx_findall_line' l rest : ctx_findall (line l ++ rest) = ctx_findall l ++ ctx_findall rest.
Proof. unfold line. rewrite <- app_assoc. cbn [app]. apply ctx_findall_line. Qed.

Lemma ctx_findall_klines ls rest :
  forallb other_ok ls = true -> ctx_findall (klines ls ++ rest) = ctx_findall rest.
Proof.
  induction ls as [|l ls IH]; [reflexivity|]. cbn [forallb]. intros H.
  apply andb_true_iff in H as [Hl Hls]. apply other_ok_spec in Hl as (_ & _ & _ & _ & H5).
  unfold klines. cbn [map concat]. rewrite <- app_assoc, ctx_findall_line', (ctx_no_occ l H5).
  now apply IH.
Qed.

(* the name: a match needs 16 bytes other than '\\', the escaped name of a
   comm of at most 15 bytes has at most 15 of them *)
Definition cnt (l : bytes) : nat := length (filter (fun c => negb (c =? 92)) l).
Lemma cnt_app a b : cnt (a ++ b) = (cnt a + cnt b)%nat.
Proof. unfold cnt. now rewrite filter_app, app_length. Qed.
Lemma cnt_esc comm : (cnt (esc_name comm) <= length comm)%nat.
Proof.
  unfold esc_name. induction comm as [|c comm IH]; [apply Nat.le_refl|].
  cbn [flat_map length]. rewrite cnt_app.
  assert (cnt (esc_byte c) <= 1)%nat; [|lia].
  unfold esc_byte. destruct (Z.eqb_spec c 10); [cbn; lia|].
  destruct (Z.eqb_spec c 92); [cbn; lia|].
  unfold cnt. cbn [filter]. destruct (negb (c =? 92)); cbn [length]; lia.
Qed.
Lemma ctx_needs_16 l : ctx_findall l <> [] -> (16 <= cnt l)%nat.
Proof.
  induction l as [|c l IH]; [intros H; now elim H|]. cbn [ctx_findall]. intros H.
  destruct (match_id1 ctx_key (c :: l)) as [d|] eqn:E.
  - clear IH H. unfold match_id1, strip_prefix in E.
    destruct (prefixb ctx_key (c :: l)) eqn:P; [|discriminate].
    apply prefixb_spec in P as [x Hx]. rewrite Hx in *. rewrite skipn_app_exact in E by reflexivity.
    unfold digits1 in E. destruct x as [|d0 x]; [discriminate|]. cbn [take_digits] in E.
    destruct (is_digit d0) eqn:D; [|discriminate].
    rewrite cnt_app. change (cnt ctx_key) with 15%nat.
    unfold cnt. cbn [filter].
    assert (d0 =? 92 = false) as -> by (unfold is_digit in D; lia). cbn [negb length]. lia.
  - specialize (IH H). change (c :: l) with ([c] ++ l). rewrite cnt_app. lia.
Qed.

Lemma ctx_name_line comm : (length comm <= 15)%nat -> ctx_findall (name_line comm) = [].
Proof.
  intros H. unfold name_line. cbn [bs app].
  rewrite !ctx_skip by (vm_compute; discriminate).
  destruct (ctx_findall (esc_name comm)) eqn:E; [reflexivity|].
  assert (G : (16 <= cnt (esc_name comm))%nat) by (apply ctx_needs_16; congruence).
  pose proof (cnt_esc comm). lia.
Qed.

Lemma ctx_cons c r :
  ctx_findall (c :: r) = match match_id1 ctx_key (c :: r) with
                         | Some d => d :: ctx_findall r
                         | None => ctx_findall r
                         end.
Proof. reflexivity. Qed.

Lemma ctx_hit v : is_dec v = true -> ctx_findall (ctx_key ++ v) = [v].
Proof.
  intros H.
  change (ctx_key ++ v) with (99 :: (bs "txt_switches:" ++ 9 :: v)).
  rewrite ctx_cons.
  change (99 :: (bs "txt_switches:" ++ 9 :: v)) with (ctx_key ++ v).
  unfold match_id1. rewrite strip_prefix_app, digits1_all by assumption. cbn [option_map].
  f_equal.
  change (bs "txt_switches:" ++ 9 :: v)
    with (116 :: 120 :: 116 :: 95 :: 115 :: 119 :: 105 :: 116 :: 99 :: 104 :: 101 :: 115 :: 58 :: 9 :: v).
  rewrite !ctx_skip by discriminate. rewrite ctx_skip_ch. rewrite !ctx_skip by discriminate.
  apply ctx_no_c. now apply is_dec_no.
Qed.

Lemma ctx_vol v : is_dec v = true -> ctx_findall (bs "voluntary_ctxt_switches:" ++ 9 :: v) = [v].
Proof.
  intros H. change (bs "voluntary_ctxt_switches:" ++ 9 :: v) with (bs "voluntary_" ++ ctx_key ++ v).
  cbn [bs app]. rewrite !ctx_skip by (vm_compute; discriminate). now apply ctx_hit.
Qed.
Lemma ctx_nonvol v : is_dec v = true -> ctx_findall (bs "nonvoluntary_ctxt_switches:" ++ 9 :: v) = [v].
Proof.
  intros H. change (bs "nonvoluntary_ctxt_switches:" ++ 9 :: v) with (bs "nonvoluntary_" ++ ctx_key ++ v).
  cbn [bs app]. rewrite !ctx_skip by (vm_compute; discriminate). now apply ctx_hit.
Qed.

Lemma ctx_id_line key4 a b c d :
  contains 99 key4 = false -> is_dec a = true -> is_dec b = true -> is_dec c = true -> is_dec d = true ->
  ctx_findall (id_line key4 a b c d) = [].
Proof.
  intros Hk Ha Hb Hc Hd. apply ctx_no_c. unfold id_line.
  rewrite contains_app, Hk. cbn [orb]. rewrite contains_cons, contains_app, (is_dec_no 99 a) by (assumption || reflexivity).
  rewrite contains_cons, contains_app, (is_dec_no 99 b) by (assumption || reflexivity).
  rewrite contains_cons, contains_app, (is_dec_no 99 c) by (assumption || reflexivity).
  rewrite contains_cons, (is_dec_no 99 d) by (assumption || reflexivity). reflexivity.
Qed.

Lemma ctx_findall_status r :
  wf_kstatus r = true -> (length (s_comm r) <= 15)%nat ->
  ctx_findall (k_status r) = match s_ctx r with Some (v, n) => [v; n] | None => [] end.
Proof.
  intros H Hlen. apply wf_kstatus_parts in H. destruct H.
  rewrite k_status_shape.
  rewrite ctx_findall_line', ctx_name_line by assumption. cbn [app].
  rewrite ctx_findall_klines by assumption.
  rewrite ctx_findall_line'. unfold uid_line. rewrite ctx_id_line by (assumption || reflexivity). cbn [app].
  rewrite ctx_findall_line'. unfold gid_line. rewrite ctx_id_line by (assumption || reflexivity). cbn [app].
  rewrite ctx_findall_klines by assumption.
  rewrite ctx_findall_line'.
  assert (ctx_findall (thr_line r) = []) as ->.
  { apply ctx_no_c. unfold thr_line. rewrite contains_app. cbn [app]. rewrite contains_cons.
    rewrite (is_dec_no 99 _ w_thr0) by reflexivity. reflexivity. }
  cbn [app]. rewrite ctx_findall_klines by assumption.
  assert (T : ctx_findall (klines (s_tail r)) = []).
  { rewrite <- (app_nil_r (klines (s_tail r))). now rewrite ctx_findall_klines. }
  unfold ctx_lines. destruct (s_ctx r) as [[v n]|].
  - destruct w_ctx0 as [Hv Hn]. rewrite <- app_assoc.
    rewrite ctx_findall_line', ctx_vol by assumption.
    rewrite ctx_findall_line', ctx_nonvol by assumption. now rewrite T.
  - exact T.
Qed.

Theorem num_ctx_switches_exact r :
  wf_kstatus r = true -> comm_len_ok (s_comm r) = true ->
  num_ctx_switches (k_status r) = spec_ctx r.
Proof.
  intros H Hlen. unfold comm_len_ok in Hlen. apply Nat.leb_le in Hlen.
  unfold num_ctx_switches. rewrite ctx_findall_status by assumption.
  apply wf_kstatus_parts in H. destruct H. unfold spec_ctx.
  destruct (s_ctx r) as [[v n]|]; [|reflexivity].
  destruct w_ctx0 as [Hv Hn]. rewrite py_int_dec by assumption. cbn [obind idx nth_error of_option].
  rewrite py_int_dec by assumption. reflexivity.
Qed.

(* the status file of a real kernel, with hostile names (the old spoofing inputs) *)
Definition ex_kstatus (comm : bytes) : kstatus :=
  {| s_comm := comm;
     s_pre := [bs "Umask:" ++ 9 :: bs "0022"; bs "State:" ++ 9 :: bs "S (sleeping)"; bs "Tgid:" ++ 9 :: bs "4242";
               bs "Ngid:" ++ 9 :: bs "0"; bs "Pid:" ++ 9 :: bs "4242"; bs "PPid:" ++ 9 :: bs "1";
               bs "TracerPid:" ++ 9 :: bs "0"];
     s_ruid := bs "1000"; s_euid := bs "1001"; s_suid := bs "1002"; s_fsuid := bs "1003";
     s_rgid := bs "100"; s_egid := bs "101"; s_sgid := bs "102"; s_fsgid := bs "103";
     s_fd := [bs "FDSize:" ++ 9 :: bs "64"]; s_groups := [bs "4"; bs "24"; bs "27"; bs "65534"];
     s_mid := [bs "NStgid:" ++ 9 :: bs "4242"; bs "VmPeak:" ++ 9 :: bs "    1000 kB"];
     s_threads := bs "3";
     s_post := [bs "SigQ:" ++ 9 :: bs "0/63432"; bs "Cpus_allowed_list:" ++ 9 :: bs "0-7"];
     s_ctx := Some (bs "18446744073709551615", bs "7");
     s_tail := [] |}.
Example ex_kstatus_wf :
  wf_kstatus (ex_kstatus (bs "Uid:" ++ [9; 48; 9; 48; 9; 48])) = true
  /\ wf_kstatus (ex_kstatus (bs "Threads:" ++ [9; 57; 57])) = true
  /\ wf_kstatus (ex_kstatus (bs "ctxt_switches:" ++ [9])) = true
  /\ comm_len_ok (bs "ctxt_switches:" ++ [9]) = true.
Proof. vm_compute. repeat split; reflexivity. Qed.

(* outside the quantifier (comm of 16 bytes, which the kernel only gives to its own
   workqueue threads): the unanchored pattern reads the name *)
Theorem ctx_long_name_refuted :
  exists r, wf_kstatus r = true /\ length (s_comm r) = 16%nat
            /\ spec_ctx r = Val (18446744073709551615, 7)
            /\ num_ctx_switches (k_status r) = Val (9, 18446744073709551615).
Proof. exists (ex_kstatus (bs "ctxt_switches:" ++ [9; 57])). vm_compute. repeat split; reflexivity. Qed.

(* the status file has no size bound: for every n there is a kernel-formatted record longer than n
   bytes (n supplementary groups), and the four accessors are exact on it like on any other *)
Definition big_status (n : nat) : kstatus :=
  {| s_comm := bs "sshd"; s_pre := s_pre (ex_kstatus []);
     s_ruid := bs "1000"; s_euid := bs "1001"; s_suid := bs "1002"; s_fsuid := bs "1003";
     s_rgid := bs "100"; s_egid := bs "101"; s_sgid := bs "102"; s_fsgid := bs "103";
     s_fd := [bs "FDSize:" ++ 9 :: bs "64"]; s_groups := repeat (bs "65534") n; s_mid := [];
     s_threads := bs "128"; s_post := []; s_ctx := Some (bs "31337", bs "7"); s_tail := [] |}.

Lemma repeat_dec g n : is_dec g = true -> forallb is_dec (repeat g n) = true.
Proof. intros H. induction n as [|n IH]; [reflexivity|]. cbn [repeat forallb]. now rewrite H, IH. Qed.

Lemma join_repeat_len n : Nat.le n (length (join [32] (repeat (bs "65534") n) ++ [32])).
Proof.
  rewrite app_length. cbn [length].
  assert (G : Nat.le n (length (join [32] (repeat (bs "65534") n)) + 1)); [|unfold Nat.le in *; lia].
  induction n as [|n IH]; [cbn; lia|]. cbn [repeat]. destruct n as [|n]; [cbn; lia|].
  change (repeat (bs "65534") (S n)) with (bs "65534" :: repeat (bs "65534") n) in *.
  rewrite join_cons2, !app_length. cbn [length bs] in *. lia.
Qed.

Lemma klines_has a g b : Nat.le (length g) (length (klines (a ++ g :: b))).
Proof.
  unfold Nat.le, klines. rewrite map_app, concat_app. cbn [map concat]. unfold line at 2.
  rewrite !app_length. lia.
Qed.

Lemma le_app_5 {A} (a b c d m e : list A) : Nat.le (length m) (length (a ++ b ++ c ++ d ++ m ++ e)).
Proof. unfold Nat.le. rewrite !app_length. lia. Qed.

Lemma groups_in_status r : Nat.le (length (join [32] (s_groups r) ++ [32])) (length (k_status r)).
Proof.
  apply (Nat.le_trans _ (length (groups_line (s_groups r)))).
  { unfold groups_line. rewrite (app_length (bs "Groups:")). cbn [length]. lia. }
  apply (Nat.le_trans _ (length (klines (mid_all r)))).
  { apply klines_has. }
  unfold k_status. apply le_app_5.
Qed.

Theorem status_unbounded n :
  wf_kstatus (big_status n) = true /\ Nat.le n (length (k_status (big_status n))) /\
  uids (k_status (big_status n)) = Val [1000; 1001; 1002] /\
  gids (k_status (big_status n)) = Val [100; 101; 102] /\
  num_threads (k_status (big_status n)) = Val 128 /\
  num_ctx_switches (k_status (big_status n)) = Val (31337, 7).
Proof.
  assert (W : wf_kstatus (big_status n) = true).
  { unfold wf_kstatus, big_status. cbn [s_pre s_fd s_groups s_mid s_post s_tail s_ruid s_euid s_suid s_fsuid
      s_rgid s_egid s_sgid s_fsgid s_threads s_ctx]. rewrite (repeat_dec (bs "65534") n) by reflexivity. reflexivity. }
  split; [exact W|]. split.
  - pose proof (groups_in_status (big_status n)) as G. pose proof (join_repeat_len n) as L.
    cbn [big_status s_groups] in G. unfold Nat.le in *. lia.
  - rewrite uids_exact, gids_exact, num_threads_exact, num_ctx_switches_exact by (exact W || reflexivity).
    repeat split; reflexivity.
Qed.
