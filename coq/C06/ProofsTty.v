(* C06 -- proofs, part 5: tty number <-> device path (terminal()). *)
From PV Require Import C06.Spec C06.Lib C06.ProofsStat.
From PV Require Import Base.Bits.
From Coq Require Import ZifyBool.

(* ------------------------------------------------------------ bit facts *)
Lemma testbit_small a k n : 0 <= k -> 0 <= a < 2 ^ k -> k <= n -> Z.testbit a n = false.
Proof.
  intros Hk Ha Hn. rewrite testbit_odd_div by lia.
  rewrite Z.div_small; [reflexivity|].
  assert (2 ^ k <= 2 ^ n) by (apply Z.pow_le_mono_r; lia). lia.
Qed.

Lemma land_low_high a x k : 0 <= k -> 0 <= a < 2 ^ k -> Z.land a (x * 2 ^ k) = 0.
Proof.
  intros Hk Ha. apply Z.bits_inj'. intros n Hn. rewrite Z.land_spec, Z.bits_0.
  destruct (Z.ltb_spec n k).
  - rewrite Z.mul_pow2_bits_low by assumption. apply andb_false_r.
  - rewrite (testbit_small a k n) by lia. reflexivity.
Qed.

Lemma lor_low_high a x k : 0 <= k -> 0 <= a < 2 ^ k -> Z.lor a (x * 2 ^ k) = a + x * 2 ^ k.
Proof.
  intros Hk Ha. pose proof (land_low_high a x k Hk Ha) as H.
  rewrite (Z.add_nocarry_lxor _ _ H). symmetry. now apply Z.lxor_lor.
Qed.

Lemma land_ff m : Z.land m 255 = m mod 256.
Proof. change 255 with (2 ^ 8 - 1). now rewrite land_ones_mod by lia. Qed.

Lemma land_ffffff00 m : 0 <= m < 4294967296 -> Z.land m 4294967040 = (m / 256) * 256.
Proof.
  intros Hm.
  assert (Hs : m = Z.lor (Z.land m 4294967040) (Z.land m 255)).
  { rewrite <- Z.land_lor_distr_r. change (Z.lor 4294967040 255) with (2 ^ 32 - 1).
    rewrite land_ones_mod by lia. rewrite Z.mod_small; [reflexivity|]. change (2 ^ 32) with 4294967296. lia. }
  assert (Hd : Z.land (Z.land m 4294967040) (Z.land m 255) = 0).
  { apply Z.bits_inj'. intros n Hn. rewrite !Z.land_spec, Z.bits_0.
    assert (Z.testbit 4294967040 n && Z.testbit 255 n = false) as E.
    { rewrite <- Z.land_spec. change (Z.land 4294967040 255) with 0. apply Z.bits_0. }
    destruct (Z.testbit m n), (Z.testbit 4294967040 n), (Z.testbit 255 n); try reflexivity; discriminate. }
  assert (Ha : m = Z.land m 4294967040 + Z.land m 255).
  { rewrite (Z.add_nocarry_lxor _ _ Hd), (Z.lxor_lor _ _ Hd). exact Hs. }
  rewrite land_ff in Ha.
  pose proof (Z.div_mod m 256). pose proof (Z.mod_pos_bound m 256). lia.
Qed.

(* both encodings, arithmetically *)
Definition enc_arith (major minor : Z) : Z := minor mod 256 + major * 256 + (minor / 256) * 1048576.

Lemma kernel_encode_arith M m :
  0 <= M < 4096 -> 0 <= m < 4294967296 -> kernel_encode_dev M m = enc_arith M m.
Proof.
  intros HM Hm. unfold kernel_encode_dev, enc_arith.
  rewrite land_ff, land_ffffff00 by assumption.
  rewrite !Z.shiftl_mul_pow2 by lia.
  pose proof (Z.mod_pos_bound m 256).
  rewrite (lor_low_high (m mod 256) M 8) by (change (2 ^ 8) with 256; lia).
  replace (m / 256 * 256 * 2 ^ 12) with ((m / 256) * 2 ^ 20) by (change (2 ^ 12) with 4096; change (2 ^ 20) with 1048576; lia).
  rewrite lor_low_high; [|lia|].
  - change (2 ^ 8) with 256. change (2 ^ 20) with 1048576. reflexivity.
  - change (2 ^ 8) with 256. change (2 ^ 20) with 1048576. lia.
Qed.

Lemma glibc_makedev_arith M m :
  0 <= M < 4096 -> 0 <= m < 4294967296 -> glibc_makedev M m = enc_arith M m.
Proof.
  intros HM Hm. unfold glibc_makedev.
  assert (Z.land M 4095 = M) as ->.
  { change 4095 with (2 ^ 12 - 1). rewrite land_ones_mod by lia. apply Z.mod_small. change (2 ^ 12) with 4096. lia. }
  assert (Z.land M 4294963200 = 0) as ->.
  { change 4294963200 with (1048575 * 2 ^ 12). apply land_low_high; [lia|]. change (2 ^ 12) with 4096. lia. }
  change (Z.shiftl 0 32) with 0. rewrite Z.lor_0_r.
  rewrite (Z.lor_comm (Z.shiftl M 8)).
  now apply kernel_encode_arith.
Qed.

(* the number the kernel puts in stat is the number os.stat() reports for the node *)
Theorem tty_encode_agree M m :
  0 <= M < 4096 -> 0 <= m < 4294967296 -> kernel_encode_dev M m = glibc_makedev M m.
Proof. intros HM Hm. now rewrite kernel_encode_arith, glibc_makedev_arith. Qed.

Ltac Zify.zify_post_hook ::= Z.div_mod_to_equations.

Lemma enc_arith_inj M m M' m' :
  0 <= M < 4096 -> 0 <= m -> 0 <= M' < 4096 -> 0 <= m' ->
  enc_arith M m = enc_arith M' m' -> M = M' /\ m = m'.
Proof. unfold enc_arith. intros. lia. Qed.

Lemma enc_arith_int32 M m : 0 <= M < 4096 -> 0 <= m < 524288 -> as_int32 (enc_arith M m) = enc_arith M m.
Proof.
  intros HM Hm. unfold as_int32.
  assert (enc_arith M m <? 2147483648 = true) as ->; [|reflexivity].
  unfold enc_arith. lia.
Qed.

Lemma enc_arith_pos M m : 1 <= M -> 0 <= m -> 0 < enc_arith M m.
Proof. unfold enc_arith. intros. lia. Qed.

Ltac Zify.zify_post_hook ::= idtac.

(* --------------------------------------------------------- the dict of paths *)
Lemma tmap_get_set k k' v d :
  tmap_get k (tmap_set k' v d) = if k =? k' then Some v else tmap_get k d.
Proof.
  induction d as [|[k0 v0] d IH]; cbn [tmap_set tmap_get].
  - reflexivity.
  - destruct (Z.eqb_spec k' k0) as [->|Hne]; cbn [tmap_get].
    + destruct (k =? k0); reflexivity.
    + rewrite IH. destruct (Z.eqb_spec k k0) as [->|]; [|reflexivity].
      destruct (Z.eqb_spec k0 k'); [congruence|reflexivity].
Qed.

Fixpoint last_rdev (k : Z) (devs : list (bytes * option Z)) (acc : option bytes) : option bytes :=
  match devs with
  | [] => acc
  | (p, Some rd) :: r => last_rdev k r (if k =? rd then Some p else acc)
  | (p, None) :: r => last_rdev k r acc
  end.

Lemma tmap_get_fold k devs d :
  tmap_get k (fold_left (fun d e => match snd e with Some rdev => tmap_set rdev (fst e) d | None => d end) devs d)
  = last_rdev k devs (tmap_get k d).
Proof.
  revert d. induction devs as [|[p [rd|]] devs IH]; intros d; cbn [fold_left last_rdev fst snd].
  - reflexivity.
  - rewrite IH, tmap_get_set. reflexivity.
  - apply IH.
Qed.

Lemma wf_dev_spec d : wf_dev d = true -> 1 <= d_major d < 4096 /\ 0 <= d_minor d < 1048576.
Proof. unfold wf_dev. lia. Qed.

Lemma last_rdev_spec M m devs acc :
  0 <= M < 4096 -> 0 <= m < 1048576 -> forallb wf_dev devs = true ->
  last_rdev (glibc_makedev M m) (map dev_entry devs) acc = spec_terminal M m devs acc.
Proof.
  intros HM Hm. revert acc. induction devs as [|d devs IH]; intros acc H; [reflexivity|].
  cbn [forallb] in H. apply andb_true_iff in H as [Hd Hds]. apply wf_dev_spec in Hd as [H1 H2].
  cbn [map last_rdev spec_terminal]. unfold dev_entry at 1.
  destruct (d_gone d); cbn [last_rdev negb andb]; rewrite IH by assumption; [reflexivity|].
  f_equal.
  rewrite !glibc_makedev_arith by lia.
  destruct (Z.eqb_spec (enc_arith M m) (enc_arith (d_major d) (d_minor d))) as [E|E].
  - apply enc_arith_inj in E; [|lia..]. destruct E as [E1 E2]. rewrite <- E1, <- E2, !Z.eqb_refl. reflexivity.
  - destruct (Z.eqb_spec (d_major d) M) as [E1|]; [|reflexivity].
    destruct (Z.eqb_spec (d_minor d) m) as [E2|]; [|reflexivity]. rewrite E1, E2 in E. congruence.
Qed.

Lemma last_rdev_zero devs acc :
  forallb wf_dev devs = true -> last_rdev 0 (map dev_entry devs) acc = acc.
Proof.
  revert acc. induction devs as [|d devs IH]; intros acc H; [reflexivity|].
  cbn [forallb] in H. apply andb_true_iff in H as [Hd Hds]. apply wf_dev_spec in Hd as [H1 H2].
  cbn [map last_rdev]. unfold dev_entry at 1.
  destruct (d_gone d); cbn [last_rdev]; rewrite IH by assumption; [reflexivity|].
  rewrite glibc_makedev_arith by lia.
  pose proof (enc_arith_pos (d_major d) (d_minor d)).
  destruct (Z.eqb_spec 0 (enc_arith (d_major d) (d_minor d))); [lia|reflexivity].
Qed.

Lemma terminal_lookup masked devs r t n :
  wf_kstat r = true -> fld 7 r = Some t -> parse_int t = Some n ->
  terminal masked devs (k_stat r)
  = Val (last_rdev (if masked then Z.land n 4294967295 else n) devs None).
Proof.
  intros H Hf Hn. destruct (stat_roundtrip r H) as (x & Hx & Hp).
  pose proof (spec_pstat_fields r x Hx) as (_ & _ & _ & F7 & _).
  rewrite Hf in F7. injection F7 as ->.
  unfold terminal. rewrite Hp. cbn [obind]. unfold py_int. rewrite Hn. cbn [of_option obind].
  unfold terminal_map. rewrite tmap_get_fold. reflexivity.
Qed.

Ltac Zify.zify_post_hook ::= Z.div_mod_to_equations.
Lemma enc_arith_u32 M m : 0 <= M < 4096 -> 0 <= m < 1048576 -> 0 <= enc_arith M m < 4294967296.
Proof. unfold enc_arith. intros. lia. Qed.
Lemma mask_int32 u : 0 <= u < 4294967296 -> Z.land (as_int32 u) 4294967295 = u.
Proof.
  intros Hu. change 4294967295 with (2 ^ 32 - 1). rewrite land_ones_mod by lia.
  change (2 ^ 32) with 4294967296. unfold as_int32. destruct (u <? 2147483648); lia.
Qed.
Ltac Zify.zify_post_hook ::= idtac.

(* a task whose controlling terminal is device (M, m), for the whole minor range of the
   kernel: the path of that device node *)
Theorem terminal_exact devs r M m t :
  wf_kstat r = true -> forallb wf_dev devs = true ->
  1 <= M < 4096 -> 0 <= m < 1048576 ->
  fld 7 r = Some t -> parse_int t = Some (as_int32 (kernel_encode_dev M m)) ->
  terminal true (map dev_entry devs) (k_stat r) = Val (spec_terminal M m devs None).
Proof.
  intros H Hd HM Hm Hf Ht. rewrite (terminal_lookup true _ r t _ H Hf Ht).
  rewrite kernel_encode_arith by lia.
  rewrite mask_int32 by (apply enc_arith_u32; lia).
  rewrite <- (glibc_makedev_arith M m) by lia.
  f_equal. apply last_rdev_spec; (lia || assumption).
Qed.

(* a task without controlling terminal (tty_nr 0): None *)
Theorem terminal_none devs r :
  wf_kstat r = true -> forallb wf_dev devs = true -> fld 7 r = Some [48] ->
  terminal true (map dev_entry devs) (k_stat r) = Val None.
Proof.
  intros H Hd Hf. rewrite (terminal_lookup true _ r [48] 0 H Hf eq_refl).
  f_equal. now apply last_rdev_zero.
Qed.

Definition ex_devs : list devnode :=
  [ {| d_path := bs "/dev/tty1"; d_major := 4; d_minor := 1; d_gone := false |};
    {| d_path := bs "/dev/pts/0"; d_major := 136; d_minor := 0; d_gone := false |};
    {| d_path := bs "/dev/pts/300"; d_major := 136; d_minor := 300; d_gone := false |} ].
Example ex_terminal :
  wf_kstat ex_kstat = true /\ forallb wf_dev ex_devs = true /\ fld 7 ex_kstat = Some (bs "34816")
  /\ parse_int (bs "34816") = Some (as_int32 (kernel_encode_dev 136 0))
  /\ spec_terminal 136 0 ex_devs None = Some (bs "/dev/pts/0").
Proof. vm_compute. repeat split; reflexivity. Qed.

(* the code before commit 2414912 (masked = false): for minor >= 2^19 the encoded number has
   bit 31 set, the kernel prints its `int tty_nr` as a negative number, and the lookup
   missed the node although it is listed *)
Definition hi_kstat : kstat :=
  {| k_pid := bs "4242"; k_comm := bs "sh";
     k_after := bs "S" :: bs "1" :: bs "4242" :: bs "4242" :: bs "-2147448832" :: bs "-1"
                :: map (fun n => bs "0") (seq 0 46) |}.
Definition hi_devs : list devnode := [ {| d_path := bs "/dev/pts/524288"; d_major := 136; d_minor := 524288; d_gone := false |} ].
Theorem terminal_signed_refuted :
  exists r devs M m t,
    wf_kstat r = true /\ forallb wf_dev devs = true /\ 1 <= M < 4096 /\ 0 <= m < 1048576 /\
    fld 7 r = Some t /\ parse_int t = Some (as_int32 (kernel_encode_dev M m)) /\
    spec_terminal M m devs None = Some (bs "/dev/pts/524288") /\
    terminal false (map dev_entry devs) (k_stat r) = Val None /\
    terminal true (map dev_entry devs) (k_stat r) = Val (Some (bs "/dev/pts/524288")).
Proof.
  exists hi_kstat, hi_devs, 136, 524288, (bs "-2147448832").
  vm_compute. repeat split; try reflexivity; discriminate.
Qed.

(* ------------------------------------------------ the two globbed directories *)
Lemma filter_map_comm {A B} (f : A -> B) (P : B -> bool) l :
  filter P (map f l) = map f (filter (fun x => P (f x)) l).
Proof.
  induction l as [|x l IH]; [reflexivity|]. cbn [map filter]. rewrite IH.
  destruct (P (f x)); reflexivity.
Qed.

(* what the two glob() calls return is the list of nodes the specification names *)
Theorem glob_listing dev pts :
  glob_tty (map dev_entry dev) ++ glob_pts (map dev_entry pts) = map dev_entry (listed_nodes dev pts).
Proof.
  unfold listed_nodes, glob_tty, glob_pts. rewrite map_app, !filter_map_comm, !map_map.
  assert (E : filter (fun x => negb (hidden (fst (dev_entry x)))) pts
              = filter (fun d => match d_path d with 46 :: _ => false | _ => true end) pts).
  { apply filter_ext. intros d. unfold dev_entry, hidden. cbn [fst].
    destruct (d_path d) as [|c p]; [reflexivity|].
    destruct c as [|q|q]; try reflexivity.
    do 6 (destruct q as [q|q|]; try reflexivity). }
  rewrite E.
  f_equal; apply map_ext; intros d; reflexivity.
Qed.

Lemma wf_listed dev pts :
  forallb wf_dev dev = true -> forallb wf_dev pts = true -> forallb wf_dev (listed_nodes dev pts) = true.
Proof.
  intros H1 H2. unfold listed_nodes. rewrite forallb_app.
  assert (G : forall D P l, forallb wf_dev l = true -> forallb wf_dev (map (at_dir D) (filter P l)) = true).
  { intros D P l. induction l as [|d l IH]; [reflexivity|]. cbn [forallb filter]. intros H.
    apply andb_true_iff in H as [Hd Hl]. destruct (P d); [|now apply IH].
    cbn [map forallb]. rewrite IH by assumption. now rewrite andb_true_r. }
  now rewrite !G.
Qed.

(* terminal() over any /dev and /dev/pts listing (any number of nodes, any names, nodes that
   vanish, several paths for one device): the path of the LAST listed node -- /dev/tty* in
   scan order, then /dev/pts/* -- whose device number is the task's *)
Theorem terminal_dirs_exact dev pts r M m t :
  wf_kstat r = true -> forallb wf_dev dev = true -> forallb wf_dev pts = true ->
  1 <= M < 4096 -> 0 <= m < 1048576 ->
  fld 7 r = Some t -> parse_int t = Some (as_int32 (kernel_encode_dev M m)) ->
  terminal true (glob_tty (map dev_entry dev) ++ glob_pts (map dev_entry pts)) (k_stat r)
  = Val (spec_terminal M m (listed_nodes dev pts) None).
Proof.
  intros H H1 H2 HM Hm Hf Ht. rewrite glob_listing.
  apply (terminal_exact _ r M m t); auto. now apply wf_listed.
Qed.

Definition dev_matches (M m : Z) (d : devnode) : bool :=
  negb (d_gone d) && (d_major d =? M) && (d_minor d =? m).

Lemma spec_terminal_app M m a b acc :
  spec_terminal M m (a ++ b) acc = spec_terminal M m b (spec_terminal M m a acc).
Proof. revert acc. induction a as [|d a IH]; intros acc; [reflexivity|]. cbn [app spec_terminal]. apply IH. Qed.

Lemma spec_terminal_nomatch M m l acc :
  forallb (fun d => negb (dev_matches M m d)) l = true -> spec_terminal M m l acc = acc.
Proof.
  revert acc. induction l as [|d l IH]; intros acc H; [reflexivity|]. cbn [forallb] in H.
  apply andb_true_iff in H as [Hd Hl]. apply negb_true_iff in Hd. unfold dev_matches in Hd.
  cbn [spec_terminal]. rewrite Hd. now apply IH.
Qed.

(* which path wins when several nodes carry the device number: the last one inserted *)
Theorem spec_terminal_last M m a d b :
  dev_matches M m d = true -> forallb (fun d => negb (dev_matches M m d)) b = true ->
  spec_terminal M m (a ++ d :: b) None = Some (d_path d).
Proof.
  intros Hd Hb. rewrite spec_terminal_app. cbn [spec_terminal]. unfold dev_matches in Hd. rewrite Hd.
  now apply spec_terminal_nomatch.
Qed.

(* the answer is a listed, still existing node with the task's device number ... *)
Theorem spec_terminal_sound M m devs p :
  spec_terminal M m devs None = Some p ->
  exists d, In d devs /\ d_path d = p /\ dev_matches M m d = true.
Proof.
  assert (G : forall acc, spec_terminal M m devs acc = Some p ->
                          acc = Some p \/ exists d, In d devs /\ d_path d = p /\ dev_matches M m d = true).
  { induction devs as [|d devs IH]; intros acc H; [now left|]. cbn [spec_terminal] in H.
    apply IH in H as [H|(d' & Hin & Hp & Hm)].
    - fold (dev_matches M m d) in H. destruct (dev_matches M m d) eqn:E.
      + injection H as H. right. exists d. split; [now left|]. auto.
      + now left.
    - right. exists d'. split; [now right|]. auto. }
  intros H. apply G in H as [H|H]; [discriminate|exact H].
Qed.

(* ... and None only when no listed node has it *)
Theorem spec_terminal_complete M m devs :
  spec_terminal M m devs None = None -> forallb (fun d => negb (dev_matches M m d)) devs = true.
Proof.
  assert (G : forall acc, spec_terminal M m devs acc = None ->
                          forallb (fun d => negb (dev_matches M m d)) devs = true).
  { induction devs as [|d devs IH]; intros acc H; [reflexivity|]. cbn [spec_terminal] in H.
    fold (dev_matches M m d) in H. cbn [forallb]. rewrite (IH _ H), andb_true_r.
    destruct (dev_matches M m d) eqn:E; [|reflexivity]. exfalso.
    assert (K : forall l q, spec_terminal M m l (Some q) <> None).
    { clear. induction l as [|x l IHl]; intros q; [discriminate|]. cbn [spec_terminal].
      destruct (negb (d_gone x) && (d_major x =? M) && (d_minor x =? m)); apply IHl. }
    now apply K in H. }
  apply G.
Qed.

Definition ex_dev : list devnode :=
  [ {| d_path := bs "tty1"; d_major := 4; d_minor := 1; d_gone := false |};
    {| d_path := bs "null"; d_major := 1; d_minor := 3; d_gone := false |};
    {| d_path := bs "ttyS0"; d_major := 4; d_minor := 64; d_gone := true |} ].
Definition ex_pts : list devnode :=
  [ {| d_path := bs "0"; d_major := 136; d_minor := 0; d_gone := false |};
    {| d_path := bs ".hidden"; d_major := 136; d_minor := 0; d_gone := false |};
    {| d_path := bs "alias0"; d_major := 136; d_minor := 0; d_gone := false |};
    {| d_path := bs "ptmx"; d_major := 5; d_minor := 2; d_gone := false |} ].
Example ex_terminal_dirs :
  forallb wf_dev ex_dev = true /\ forallb wf_dev ex_pts = true
  /\ map d_path (listed_nodes ex_dev ex_pts)
     = [bs "/dev/tty1"; bs "/dev/ttyS0"; bs "/dev/pts/0"; bs "/dev/pts/alias0"; bs "/dev/pts/ptmx"]
  /\ spec_terminal 136 0 (listed_nodes ex_dev ex_pts) None = Some (bs "/dev/pts/alias0")
  /\ spec_terminal 4 64 (listed_nodes ex_dev ex_pts) None = None.
Proof. vm_compute. repeat split; reflexivity. Qed.
