(* C06 -- model of the per-process readers of psutil/_pslinux.py
   (Process._parse_stat_file, name, ppid, status, terminal, cpu_times, cpu_num,
   create_time, uids, gids, num_threads, num_ctx_switches, threads, _is_zombie,
   ppid_map) and of psutil/_psposix.py get_terminal_map, transcribed from the
   code as it is in /repo now.  No proofs here.

   Conventions: a file is the byte string read from it; numbers that the code
   obtains with float(token)/CLOCK_TICKS are exact rationals (ticks # clk);
   CLOCK_TICKS, the boot time and the /dev listing are arguments. *)
From PV Require Export Base.Dec Gen.C06_Tables C06.Codec.
From Coq Require Export QArith.
Open Scope Z_scope.

(* ------------------------------------------------------------ Python bits *)
Definition idx {A} (l : list A) (n : nat) : outcome A := of_option IndexError (nth_error l n).

Fixpoint take_digits (l : bytes) : bytes :=
  match l with c :: r => if is_digit c then c :: take_digits r else [] | [] => [] end.
Fixpoint drop_digits (l : bytes) : bytes :=
  match l with c :: r => if is_digit c then drop_digits r else l | [] => [] end.

(* float(b) for a bytes token, restricted to the integral grammar: everything
   int() accepts (whitespace, sign, single underscores) is accepted by float()
   with the same value; a byte that occurs in no float literal -> ValueError;
   the rest of float's grammar ("1.5", "1e5", "nan", "inf") is outside the model. *)
Definition float_char (c : Z) : bool :=
  is_digit c || (c =? 43) || (c =? 45) || (c =? 46) || (c =? 95) ||
  existsb (Z.eqb c) [101; 69; 105; 73; 110; 78; 102; 70; 97; 65; 116; 84; 121; 89].
Definition py_float (t : bytes) : outcome Z :=
  match parse_int t with
  | Some v => Val v
  | None =>
    match strip t with
    | [] => Exc ValueError
    | s => if forallb float_char s then OutOfModel else Exc ValueError
    end
  end.

(* ------------------------------------------------ locating the name in stat *)
(* data[rpar + 2:]  with rpar = data.rfind(b')')   (-1 when absent) *)
Definition rpar_skip (data : bytes) : nat :=
  match rfind_byte 41 data with Some k => (k + 2)%nat | None => 1%nat end.
Definition after_rpar (data : bytes) : bytes := skipn (rpar_skip data) data.

(* data[data.find(b'(') + 1 : rpar] *)
Definition stat_name (data : bytes) : bytes :=
  let lo := match find_byte 40 data with Some k => S k | None => O end in
  let hi := match rfind_byte 41 data with Some k => k | None => (length data - 1)%nat end in
  firstn (hi - lo) (skipn lo data).

(* ------------------------------------------------------- _parse_stat_file *)
Record pstat := {
  ps_name : bytes; ps_status : bytes; ps_ppid : bytes; ps_ttynr : bytes;
  ps_utime : bytes; ps_stime : bytes; ps_cutime : bytes; ps_cstime : bytes;
  ps_ctime : bytes; ps_cpunum : bytes;
  ps_blkio : option bytes   (* None: fields[39] raised IndexError, the code stores the int 0 *) }.

Definition parse_stat_file (data : bytes) : outcome pstat :=
  let fields := split_ws (after_rpar data) in
  do st <- idx fields 0;
  do pp <- idx fields 1;
  do tty <- idx fields 4;
  do ut <- idx fields 11;
  do stm <- idx fields 12;
  do cut <- idx fields 13;
  do cst <- idx fields 14;
  do ct <- idx fields 19;
  do cn <- idx fields 36;
  Val {| ps_name := stat_name data; ps_status := st; ps_ppid := pp; ps_ttynr := tty;
         ps_utime := ut; ps_stime := stm; ps_cutime := cut; ps_cstime := cst;
         ps_ctime := ct; ps_cpunum := cn; ps_blkio := nth_error fields 39 |}.

(* --------------------------------------------------------- the accessors *)
Definition name (data : bytes) : outcome bytes :=
  do st <- parse_stat_file data; Val (ps_name st).

(* Process.name() returns decode(name) = name.decode(ENCODING, ENCODING_ERRS) with
   ENCODING = sys.getfilesystemencoding() and 'surrogateescape': the str, as code points,
   under the encoding the interpreter started with *)
Definition name_str (e : fsenc) (data : bytes) : outcome (list Z) :=
  do n <- name data; Val (fs_decode e n).

Definition ppid (data : bytes) : outcome Z :=
  do st <- parse_stat_file data; py_int (ps_ppid st).

Definition cpu_num (data : bytes) : outcome Z :=
  do st <- parse_stat_file data; py_int (ps_cpunum st).

(* PROC_STATUSES.get(letter.decode(), '?')  over the generated table *)
Fixpoint status_get (tbl : list (bytes * bytes)) (k : bytes) : bytes :=
  match tbl with
  | [] => [63]
  | (k', v) :: r => if beqb k k' then v else status_get r k
  end.
Definition is_ascii (l : bytes) : bool := forallb (fun c => (0 <=? c) && (c <? 128)) l.
Definition status (data : bytes) : outcome bytes :=
  do st <- parse_stat_file data;
  if is_ascii (ps_status st) then Val (status_get proc_statuses (ps_status st))
  else OutOfModel (* bytes.decode(): UnicodeDecodeError or a non-ASCII key *).

(* cpu_times: float(v) / CLOCK_TICKS for utime, stime, children_utime,
   children_stime, blkio_ticks (the int 0 when the field is absent) *)
Definition cpu_times (clk : positive) (data : bytes) : outcome (list Q) :=
  do st <- parse_stat_file data;
  do u <- py_float (ps_utime st);
  do s <- py_float (ps_stime st);
  do cu <- py_float (ps_cutime st);
  do cs <- py_float (ps_cstime st);
  do io <- match ps_blkio st with Some t => py_float t | None => Val 0 end;
  Val [u # clk; s # clk; cu # clk; cs # clk; io # clk].

(* create_time: float(starttime) / CLOCK_TICKS (+ boot time unless monotonic) *)
Definition create_time_mono (clk : positive) (data : bytes) : outcome Q :=
  do st <- parse_stat_file data;
  do c <- py_float (ps_ctime st);
  Val (c # clk).
Definition create_time (clk : positive) (bt : Z) (data : bytes) : outcome Q :=
  do m <- create_time_mono clk data;
  Val (m + inject_Z bt)%Q.

(* boot_time(): first line of /proc/stat that starts with b'btime':
   float(line.strip().split()[1]); no such line -> RuntimeError *)
Fixpoint boot_scan (ls : list bytes) : outcome Z :=
  match ls with
  | [] => Exc RuntimeError
  | l :: r =>
    if prefixb (bs "btime") l
    then (do t <- idx (split_ws (strip l)) 1; py_float t)
    else boot_scan r
  end.
Definition boot_time (procstat : bytes) : outcome Z := boot_scan (lines_keep procstat).

(* Process.create_time() with BOOT_TIME not cached yet: ctime first, then boot_time() *)
Definition create_time_full (clk : positive) (procstat data : bytes) : outcome Q :=
  do m <- create_time_mono clk data;
  do bt <- boot_time procstat;
  Val (m + inject_Z bt)%Q.

(* Process._is_zombie: data[rpar + 2 : rpar + 3] == b"Z" *)
Definition is_zombie (data : bytes) : bool := beqb (firstn 1 (after_rpar data)) [90].

(* wrap_exceptions, as it is nested in the code: the accessor (name, status, cpu_num, ...)
   is wrapped and calls _parse_stat_file, which is wrapped too.
   [first] = what bcat() gives in _parse_stat_file; [second] = the re-read of _is_zombie in the
   inner wrapper; [third] = the re-read of _is_zombie in the outer wrapper (reached only when the
   inner one re-raises FileNotFoundError); [e1], [e2] = os.path.exists(<pid>/stat) in the two
   FileNotFoundError branches.
   PermissionError -> AccessDenied; ProcessLookupError -> Zombie | NoSuchProcess;
   FileNotFoundError -> Zombie | NoSuchProcess | re-raised. *)
Inductive sread := SData (b : bytes) | SENOENT | SESRCH | SEACCES.
Definition zombie_read (s : sread) : bool := match s with SData d => is_zombie d | _ => false end.
Definition wrapped {A} (f : bytes -> outcome A) (first second third : sread) (e1 e2 : bool) : outcome A :=
  match first with
  | SData d => f d
  | SEACCES => Exc AccessDenied
  | SESRCH => if zombie_read second then Exc ZombieProcess else Exc NoSuchProcess
  | SENOENT =>
    if zombie_read second then Exc ZombieProcess
    else if e1 then
      (* FileNotFoundError leaves the inner wrapper and meets the outer one *)
      (if zombie_read third then Exc ZombieProcess
       else if e2 then Exc OSError else Exc NoSuchProcess)
    else Exc NoSuchProcess
  end.

(* psutil/__init__.py Process.status(): try: self._proc.status() except ZombieProcess: STATUS_ZOMBIE *)
Definition status_public (o : outcome bytes) : outcome bytes :=
  match o with Exc ZombieProcess => Val status_zombie | _ => o end.

(* ------------------------------------------------ the public name() and its memory *)
(* Process.cmdline() of _pslinux (text read with the fs encoding; the separators '\0', ' ' and
   '/' are ASCII, so splitting commutes with decoding and the model works on the bytes):
   sep = '\0' if data ends with it else ' '; one trailing sep dropped; split; a single
   NUL-terminated argument containing blanks is split on blanks *)
Definition drop_last (l : bytes) : bytes := removelast l.
Definition cmdline_args (data : bytes) : list bytes :=
  let nul := suffixb [0] data in
  let sep := if nul then 0 else 32 in
  let data' := if suffixb [sep] data then drop_last data else data in
  let l := split_on sep data' in
  if nul && (length l =? 1)%nat && contains 32 data' then split_on 32 data' else l.

(* os.path.basename: what follows the last '/' *)
Definition basename (p : bytes) : bytes :=
  match rfind_byte 47 p with Some k => skipn (S k) p | None => p end.

Inductive cread := CData (b : bytes) | CENOENT | CESRCH | CEACCES.   (* open()+read() of <pid>/cmdline *)
Record nstate := { ns_stat : sread; ns_cmd : cread }.                (* what the kernel shows now *)
Definition stat_exists (k : nstate) : bool := match ns_stat k with SData _ => true | _ => false end.

(* _pslinux.Process.cmdline under wrap_exceptions *)
Definition cmdline_pub (k : nstate) : outcome (list bytes) :=
  let zombie := zombie_read (ns_stat k) in
  match ns_cmd k with
  | CEACCES => Exc AccessDenied
  | CESRCH => if zombie then Exc ZombieProcess else Exc NoSuchProcess
  | CENOENT => if zombie then Exc ZombieProcess
               else if stat_exists k then Exc OSError else Exc NoSuchProcess
  | CData [] => if zombie then Exc ZombieProcess else Val []
  | CData d => Val (cmdline_args d)
  end.

(* psutil/__init__.py Process.name() on POSIX.  [mem] is the object's remembered self._name
   (None before the first call); it is written, and read only on Windows
   (`if WINDOWS and self._name is not None: return self._name`).  Returns the answer and the
   new memory. *)
Definition name_step (windows : bool) (mem : option bytes) (k : nstate) : outcome bytes * option bytes :=
  match (if windows then mem else None) with
  | Some cached => (Val cached, mem)
  | None =>
    let e := stat_exists k in
    match wrapped name (ns_stat k) (ns_stat k) (ns_stat k) e e with
    | Val n =>
      let r :=
        if (15 <=? length n)%nat then
          match cmdline_pub k with
          | Exc AccessDenied | Exc ZombieProcess => Val n
          | Exc x => Exc x
          | OutOfModel => OutOfModel
          | Val [] => Val n
          | Val (a0 :: _) => if prefixb n (basename a0) then Val (basename a0) else Val n
          end
        else Val n in
      (r, match r with Val x => Some x | _ => mem end)
    | Exc x => (Exc x, mem)
    | OutOfModel => (OutOfModel, mem)
    end
  end.

(* a history: the same object asked again and again while the kernel state changes *)
Fixpoint name_hist (windows : bool) (mem : option bytes) (ks : list nstate) : list (outcome bytes) :=
  match ks with
  | [] => []
  | k :: r => fst (name_step windows mem k) :: name_hist windows (snd (name_step windows mem k)) r
  end.

(* psutil.Process(pid) (psutil/__init__.py _init -> _get_ident) calls
   self._proc.create_time(monotonic=True) and lets everything but AccessDenied /
   ZombieProcess / NoSuchProcess propagate: a stat file on which that call fails makes
   every public accessor fail the same way before the accessor itself runs. *)
Definition front {A} (data : bytes) (o : outcome A) : outcome A :=
  do _ <- create_time_mono 1 data; o.

(* _psposix.get_terminal_map: for each name of glob('/dev/tty*') + glob('/dev/pts/*'):
   ret[os.stat(name).st_rdev] = name, FileNotFoundError skipped *)
Fixpoint tmap_set (k : Z) (v : bytes) (d : list (Z * bytes)) : list (Z * bytes) :=
  match d with
  | [] => [(k, v)]
  | (k', v') :: r => if k =? k' then (k, v) :: r else (k', v') :: tmap_set k v r
  end.
Fixpoint tmap_get (k : Z) (d : list (Z * bytes)) : option bytes :=
  match d with
  | [] => None
  | (k', v') :: r => if k =? k' then Some v' else tmap_get k r
  end.
Definition terminal_map (devs : list (bytes * option Z)) : list (Z * bytes) :=
  fold_left (fun d e => match snd e with Some rdev => tmap_set rdev (fst e) d | None => d end) devs [].

(* [masked] = true is the code as it is now (tty_nr &= 0xFFFFFFFF, commit 2414912);
   false = the code before that repair, which looked the signed number up. *)
(* glob.glob('/dev/tty*') + glob.glob('/dev/pts/*') over the two directory listings
   (os.scandir order): fnmatch 'tty*' = names that start with "tty"; '*' = every name
   that does not start with '.'; paths are dirname + '/' + name *)
Definition glob_tty (dev : list (bytes * option Z)) : list (bytes * option Z) :=
  map (fun e => (bs "/dev/" ++ fst e, snd e)) (filter (fun e => prefixb (bs "tty") (fst e)) dev).
Definition hidden (n : bytes) : bool := match n with 46 :: _ => true | _ => false end.
Definition glob_pts (pts : list (bytes * option Z)) : list (bytes * option Z) :=
  map (fun e => (bs "/dev/pts/" ++ fst e, snd e)) (filter (fun e => negb (hidden (fst e))) pts).
Definition get_terminal_map (dev pts : list (bytes * option Z)) : list (Z * bytes) :=
  terminal_map (glob_tty dev ++ glob_pts pts).

Definition terminal (masked : bool) (devs : list (bytes * option Z)) (data : bytes) : outcome (option bytes) :=
  do st <- parse_stat_file data;
  do n <- py_int (ps_ttynr st);
  let n := if masked then Z.land n 4294967295 else n in
  Val (tmap_get n (terminal_map devs)).


(* ------------------------------------------------------ the status file *)
Definition strip_prefix (p l : bytes) : option bytes :=
  if prefixb p l then Some (skipn (length p) l) else None.
(* (\d+) : greedy, at least one digit; returns the group and the rest *)
Definition digits1 (l : bytes) : option (bytes * bytes) :=
  match take_digits l with [] => None | d => Some (d, drop_digits l) end.

(* (?m)^KEY(\d+)\t(\d+)\t(\d+) tried at the start of one line *)
Definition match_id3 (key line : bytes) : option (bytes * bytes * bytes) :=
  match strip_prefix key line with
  | None => None
  | Some r0 =>
    match digits1 r0 with
    | Some (a, 9 :: r1) =>
      match digits1 r1 with
      | Some (b, 9 :: r2) =>
        match digits1 r2 with
        | Some (c, _) => Some (a, b, c)
        | None => None
        end
      | _ => None
      end
    | _ => None
    end
  end.
(* (?m)^KEY(\d+) *)
Definition match_id1 (key line : bytes) : option bytes :=
  match strip_prefix key line with
  | None => None
  | Some r0 => option_map fst (digits1 r0)
  end.

Fixpoint first_some {A} (f : bytes -> option A) (ls : list bytes) : option A :=
  match ls with
  | [] => None
  | l :: r => match f l with Some x => Some x | None => first_some f r end
  end.

Definition uid_key : bytes := bs "Uid:" ++ [9].
Definition gid_key : bytes := bs "Gid:" ++ [9].
Definition threads_key : bytes := bs "Threads:" ++ [9].
Definition ctx_key : bytes := bs "ctxt_switches:" ++ [9].

(* _re.findall(data)[0] for a (?m)^ pattern: the first line (start of data or
   after a '\n') at which the pattern matches; then int() of the groups *)
Definition ids3 (key data : bytes) : outcome (list Z) :=
  do m <- of_option IndexError (first_some (match_id3 key) (lines_keep data));
  let '(a, b, c) := m in
  do x <- py_int a; do y <- py_int b; do z <- py_int c;
  Val [x; y; z].
Definition uids := ids3 uid_key.
Definition gids := ids3 gid_key.

Definition num_threads (data : bytes) : outcome Z :=
  do d <- of_option IndexError (first_some (match_id1 threads_key) (lines_keep data));
  py_int d.

(* re.compile(br'ctxt_switches:\t(\d+)').findall(data): unanchored.  The pattern
   cannot overlap a shifted copy of itself (its only other 'c' is followed by 'h'),
   so the non-overlapping leftmost scan equals trying every position. *)
Fixpoint ctx_findall (l : bytes) : list bytes :=
  match l with
  | [] => []
  | c :: r =>
    match match_id1 ctx_key l with
    | Some d => d :: ctx_findall r
    | None => ctx_findall r
    end
  end.

Definition num_ctx_switches (data : bytes) : outcome (Z * Z) :=
  match ctx_findall data with
  | [] => Exc NotImplementedError
  | a :: rest =>
    do v <- py_int a;
    do b <- idx rest 0;
    do n <- py_int b;
    Val (v, n)
  end.

(* ----------------------------------------------------------------- threads *)
Inductive tfile := TContent (b : bytes) | TGone | TDenied.   (* open(): content | ENOENT/ESRCH | EACCES/EPERM *)

(* one /proc/<pid>/task/<tid>/stat: strip(), cut after the last ')', split(b' '),
   float(values[11]) / CLOCK_TICKS, float(values[12]) / CLOCK_TICKS *)
Definition thread_times (clk : positive) (content : bytes) : outcome (Q * Q) :=
  let values := split_on 32 (after_rpar (strip content)) in
  do u <- idx values 11;
  do uf <- py_float u;
  do s <- idx values 12;
  do sf <- py_float s;
  Val (uf # clk, sf # clk).

(* list.sort() of the directory names (str): lexicographic by code point *)
Fixpoint bytes_leb (a b : bytes) : bool :=
  match a, b with
  | [], _ => true
  | _ :: _, [] => false
  | x :: a', y :: b' => if x <? y then true else if y <? x then false else bytes_leb a' b'
  end.
Fixpoint insert_by {A} (key : A -> bytes) (x : A) (l : list A) : list A :=
  match l with
  | [] => [x]
  | y :: r => if bytes_leb (key x) (key y) then x :: y :: r else y :: insert_by key x r
  end.
Fixpoint sort_by {A} (key : A -> bytes) (l : list A) : list A :=
  match l with [] => [] | x :: r => insert_by key x (sort_by key r) end.

Inductive trow := TRow (id : Z) (utime stime : Q).

Fixpoint threads_scan (clk : positive) (ents : list (bytes * tfile)) : outcome (list trow * bool) :=
  match ents with
  | [] => Val ([], false)
  | (tid, TGone) :: r =>
    do rest <- threads_scan clk r; Val (fst rest, true)
  | (tid, TDenied) :: r => Exc AccessDenied   (* PermissionError -> wrap_exceptions *)
  | (tid, TContent c) :: r =>
    do tm <- thread_times clk c;
    do id <- py_int tid;
    do rest <- threads_scan clk r;
    Val (TRow id (fst tm) (snd tm) :: fst rest, snd rest)
  end.

(* listing: os.listdir(task) with what open() of each stat file gives;
   alive: does os.stat(/proc/<pid>) succeed afterwards; own: /proc/<pid>/stat *)
Definition threads (clk : positive) (listing : list (bytes * tfile)) (alive : bool) (own : bytes)
  : outcome (list trow) :=
  do res <- threads_scan clk (sort_by fst listing);
  if snd res && negb alive
  then (if is_zombie own then Exc ZombieProcess else Exc NoSuchProcess)
  else Val (fst res).

(* ---------------------------------------------------------------- ppid_map *)
Definition ppid_of_stat (data : bytes) : outcome Z :=
  do t <- idx (split_ws (after_rpar data)) 1; py_int t.

(* pids(): [int(x) for x in os.listdir(procfs) if x.isdigit()]  (names are bytes) *)
Definition pids (names : list bytes) : list Z := map dec_val (filter is_dec names).

(* ppid_map(): for pid in pids(): open <procfs>/<pid>/stat; FileNotFoundError,
   ProcessLookupError, PermissionError -> skipped.  The listing pairs each directory
   name with what open() gives for int(name). *)
Fixpoint ppid_map (listing : list (bytes * tfile)) : outcome (list (Z * Z)) :=
  match listing with
  | [] => Val []
  | (nm, f) :: r =>
    if is_dec nm then
      match f with
      | TGone | TDenied => ppid_map r
      | TContent d =>
        do pp <- ppid_of_stat d;
        do rest <- ppid_map r;
        Val ((dec_val nm, pp) :: rest)
      end
    else ppid_map r
  end.
