(* C06 -- what the kernel publishes for a task, and what the property says the
   accessors must answer.  Written from proc(5) and fs/proc/array.c
   (do_task_stat, proc_pid_status, task_name), not from psutil's code.

   /proc/<pid>/stat, /proc/<pid>/task/<tid>/stat:
       "%d (%s) %c %d %d ... %d\n"     comm RAW (no escaping), fields (3).. separated by one space
   /proc/<pid>/status:
       "Name:\t<comm, '\n' -> "\\n", '\\' -> "\\\\", all other bytes raw>\n" then "Key:\tvalue\n" lines,
       among them exactly one  Uid:\tr\te\ts\tfs   Gid:\t...   Threads:\tn
       voluntary_ctxt_switches:\tn   nonvoluntary_ctxt_switches:\tn
   Numbers are held as the digit strings the kernel printed. *)
From PV Require Export C06.Model.
From Coq Require Export Qabs Qminmax.
Open Scope Z_scope.

(* ------------------------------------------------------------------ stat *)
Record kstat := {
  k_pid : bytes;          (* field (1), decimal *)
  k_comm : bytes;         (* field (2) without the parentheses: ANY bytes *)
  k_after : list bytes }. (* fields (3) state, (4) ppid, ... in proc(5) order *)

Definition k_stat (r : kstat) : bytes :=
  k_pid r ++ [32; 40] ++ k_comm r ++ [41; 32] ++ join [32] (k_after r) ++ [10].

(* field (n) of proc(5), n >= 3 *)
Definition fld (n : nat) (r : kstat) : option bytes := nth_error (k_after r) (n - 3).

(* a printed field: non-empty, no whitespace, no ')' (numbers, possibly signed; the state letter) *)
Definition fld_ok (t : bytes) : bool := tok_ok t && negb (contains 41 t).
(* the kernel prints at least the fields up to (39) processor since 2.2.8 *)
Definition wf_kstat (r : kstat) : bool :=
  is_dec (k_pid r) && forallb fld_ok (k_after r) && (37 <=? length (k_after r))%nat.

(* what the record says, by proc(5) numbering:
   (3) state (4) ppid (7) tty_nr (14) utime (15) stime (16) cutime (17) cstime
   (22) starttime (39) processor (42) delayacct_blkio_ticks (since 2.6.18) *)
Definition spec_pstat (r : kstat) : option pstat :=
  match fld 3 r, fld 4 r, fld 7 r, fld 14 r, fld 15 r, fld 16 r, fld 17 r, fld 22 r, fld 39 r with
  | Some st, Some pp, Some tty, Some ut, Some stm, Some cut, Some cst, Some ct, Some cn =>
    Some {| ps_name := k_comm r; ps_status := st; ps_ppid := pp; ps_ttynr := tty;
            ps_utime := ut; ps_stime := stm; ps_cutime := cut; ps_cstime := cst;
            ps_ctime := ct; ps_cpunum := cn; ps_blkio := fld 42 r |}
  | _, _, _, _, _, _, _, _, _ => None
  end.

(* the documented STATUS_* constant of each state letter (psutil docs, "Process status
   constants"; letters from fs/proc/array.c task_state_array and older kernels) *)
Definition documented_statuses : list (Z * bytes) :=
  [ (82, bs "running"); (83, bs "sleeping"); (68, bs "disk-sleep"); (84, bs "stopped");
    (116, bs "tracing-stop"); (90, bs "zombie"); (88, bs "dead"); (120, bs "dead");
    (75, bs "wake-kill"); (87, bs "waking"); (73, bs "idle"); (80, bs "parked") ].
Fixpoint spec_status (tbl : list (Z * bytes)) (c : Z) : option bytes :=
  match tbl with
  | [] => None
  | (c', v) :: r => if c =? c' then Some v else spec_status r c
  end.

(* what status() answers for a state token: the documented constant of a documented
   letter; psutil's '?' for anything else (not fixed by the property text) *)
Definition spec_status_tok (t : bytes) : bytes :=
  match t with
  | [c] => match spec_status documented_statuses c with Some s => s | None => [63] end
  | _ => [63]
  end.

(* N of proc(5): how many fields the record has, (1) pid and (2) comm included *)
Definition nfields (r : kstat) : nat := (length (k_after r) + 2)%nat.

(* seconds = ticks / tick rate;  start = starttime / tick rate + boot time *)
Definition secs (clk : positive) (ticks : bytes) : Q := dec_val ticks # clk.
Definition spec_cpu_times (clk : positive) (ut stm cut cst : bytes) (blkio : option bytes) : list Q :=
  [secs clk ut; secs clk stm; secs clk cut; secs clk cst;
   match blkio with Some b => secs clk b | None => 0 # clk end].
Definition spec_create_time (clk : positive) (bt : Z) (start : bytes) : Q :=
  (secs clk start + inject_Z bt)%Q.

(* ------------------------------------------------------- tty number <-> /dev *)
(* kernel: new_encode_dev(MKDEV(major, minor)) (include/linux/kdev_t.h), u32 *)
Definition kernel_encode_dev (major minor : Z) : Z :=
  Z.lor (Z.lor (Z.land minor 255) (Z.shiftl major 8)) (Z.shiftl (Z.land minor 4294967040) 12).
(* ... stored in an `int tty_nr` and printed with %d (do_task_stat) *)
Definition as_int32 (u : Z) : Z := if u <? 2147483648 then u else u - 4294967296.
(* glibc gnu_dev_makedev = what os.stat().st_rdev holds for the device node *)
Definition glibc_makedev (major minor : Z) : Z :=
  Z.lor (Z.lor (Z.lor (Z.shiftl (Z.land major 4095) 8) (Z.shiftl (Z.land major 4294963200) 32))
               (Z.land minor 255))
        (Z.shiftl (Z.land minor 4294967040) 12).

(* a device node of the /dev listing: its path and (major, minor) *)
Record devnode := { d_path : bytes; d_major : Z; d_minor : Z;
                    d_gone : bool  (* unlinked between the directory scan and os.stat() *) }.
Definition dev_entry (d : devnode) : bytes * option Z :=
  (d_path d, if d_gone d then None else Some (glibc_makedev (d_major d) (d_minor d))).
(* the terminal of a task whose tty is (major, minor): the listed node with that
   device number (the last one if several paths name the same device) *)
Fixpoint spec_terminal (major minor : Z) (devs : list devnode) (acc : option bytes) : option bytes :=
  match devs with
  | [] => acc
  | d :: r =>
    spec_terminal major minor r
      (if negb (d_gone d) && (d_major d =? major) && (d_minor d =? minor) then Some (d_path d) else acc)
  end.
Definition wf_dev (d : devnode) : bool :=
  (1 <=? d_major d) && (d_major d <? 4096) && (0 <=? d_minor d) && (d_minor d <? 1048576).

(* the nodes psutil looks at: entries of /dev whose name starts with "tty", then the
   entries of /dev/pts that are not dot-files, each under its full path; [d_path] of a
   directory entry is its name *)
Definition at_dir (dir : bytes) (d : devnode) : devnode :=
  {| d_path := dir ++ d_path d; d_major := d_major d; d_minor := d_minor d; d_gone := d_gone d |}.
Definition listed_nodes (dev pts : list devnode) : list devnode :=
  map (at_dir (bs "/dev/")) (filter (fun d => prefixb (bs "tty") (d_path d)) dev)
  ++ map (at_dir (bs "/dev/pts/")) (filter (fun d => match d_path d with 46 :: _ => false | _ => true end) pts).

(* ---------------------------------------------------------------- threads *)
Record kthread := {
  t_tid : bytes;           (* directory name = decimal tid *)
  t_stat : kstat;          (* its stat record, with its own comm *)
  t_gone : bool }.         (* exited between listdir and open *)
Definition wf_kthread (t : kthread) : bool :=
  is_dec (t_tid t) && is_dec (k_pid (t_stat t)) && forallb fld_ok (k_after (t_stat t))
  && match fld 14 (t_stat t), fld 15 (t_stat t) with
     | Some u, Some s => is_dec u && is_dec s
     | _, _ => false
     end.
Definition task_entry (t : kthread) : bytes * tfile :=
  (t_tid t, if t_gone t then TGone else TContent (k_stat (t_stat t))).
Definition spec_trow (clk : positive) (t : kthread) : option trow :=
  match fld 14 (t_stat t), fld 15 (t_stat t) with
  | Some u, Some s => Some (TRow (dec_val (t_tid t)) (secs clk u) (secs clk s))
  | _, _ => None
  end.
(* the threads still there, one row each, in the order of their directory names *)
Fixpoint spec_trows (clk : positive) (ts : list kthread) : list trow :=
  match ts with
  | [] => []
  | t :: r => if t_gone t then spec_trows clk r
              else match spec_trow clk t with Some row => row :: spec_trows clk r | None => spec_trows clk r end
  end.
Definition any_gone (ts : list kthread) : bool := existsb t_gone ts.

(* ------------------------------------------------------ /proc listing, ppid_map *)
Inductive pstate := PPresent | PGone | PDenied.   (* stat readable | process vanished | EACCES *)
Record kproc := { p_name : bytes;      (* directory name: the pid in decimal *)
                  p_stat : kstat; p_state : pstate }.
(* an entry of /proc: a process, or something else (self, stat, sys, ...: not all digits) *)
Inductive kentry := KProc (p : kproc) | KOther (name : bytes) (f : tfile).
Definition entry_of (e : kentry) : bytes * tfile :=
  match e with
  | KProc p => (p_name p, match p_state p with
                          | PPresent => TContent (k_stat (p_stat p))
                          | PGone => TGone
                          | PDenied => TDenied
                          end)
  | KOther n f => (n, f)
  end.
Definition wf_kentry (e : kentry) : bool :=
  match e with
  | KProc p => is_dec (p_name p) && wf_kstat (p_stat p)
               && match fld 4 (p_stat p) with Some d => is_dec d | None => false end
  | KOther n _ => negb (is_dec n)
  end.
(* one pair per process whose stat file could be read *)
Fixpoint spec_ppid_map (es : list kentry) : list (Z * Z) :=
  match es with
  | [] => []
  | KProc p :: r =>
    match p_state p, fld 4 (p_stat p) with
    | PPresent, Some d => (dec_val (p_name p), dec_val d) :: spec_ppid_map r
    | _, _ => spec_ppid_map r
    end
  | KOther _ _ :: r => spec_ppid_map r
  end.
Fixpoint spec_pids (es : list kentry) : list Z :=
  match es with
  | [] => []
  | KProc p :: r => dec_val (p_name p) :: spec_pids r
  | KOther _ _ :: r => spec_pids r
  end.

(* ------------------------------------------------------------------ status *)
(* task_name(): seq_escape_str(..., ESCAPE_SPACE | ESCAPE_SPECIAL, "\n\\") *)
Definition esc_byte (c : Z) : bytes :=
  if c =? 10 then [92; 110] else if c =? 92 then [92; 92] else [c].
Definition esc_name (comm : bytes) : bytes := flat_map esc_byte comm.

Record kstatus := {
  s_comm : bytes;                       (* ANY bytes *)
  s_pre : list bytes;                   (* Umask, State, Tgid, Ngid, Pid, PPid, TracerPid lines (no '\n') *)
  s_ruid : bytes; s_euid : bytes; s_suid : bytes; s_fsuid : bytes;
  s_rgid : bytes; s_egid : bytes; s_sgid : bytes; s_fsgid : bytes;
  s_fd : list bytes;                    (* FDSize (lines between Gid and Groups) *)
  s_groups : list bytes;                (* supplementary gids, ANY number (the kernel allows 65536): the file has no size bound *)
  s_mid : list bytes;                   (* NS*, Kthread, Vm*, ... *)
  s_threads : bytes;
  s_post : list bytes;                  (* SigQ ... Mems_allowed_list *)
  s_ctx : option (bytes * bytes);       (* voluntary / nonvoluntary (absent before 2.6.23) *)
  s_tail : list bytes }.                (* whatever a newer kernel appends *)

Definition line (l : bytes) : bytes := l ++ [10].
Definition klines (ls : list bytes) : bytes := concat (map line ls).
(* task_state(): "Groups:\t", the gids separated by one blank, then one more blank
   ("Trailing space shouldn't have been added in the first place") *)
Definition groups_line (gs : list bytes) : bytes := bs "Groups:" ++ 9 :: join [32] gs ++ [32].
Definition mid_all (r : kstatus) : list bytes := s_fd r ++ groups_line (s_groups r) :: s_mid r.
Definition k_status (r : kstatus) : bytes :=
  line (bs "Name:" ++ 9 :: esc_name (s_comm r))
  ++ klines (s_pre r)
  ++ line (bs "Uid:" ++ 9 :: s_ruid r ++ 9 :: s_euid r ++ 9 :: s_suid r ++ 9 :: s_fsuid r)
  ++ line (bs "Gid:" ++ 9 :: s_rgid r ++ 9 :: s_egid r ++ 9 :: s_sgid r ++ 9 :: s_fsgid r)
  ++ klines (mid_all r)
  ++ line (bs "Threads:" ++ 9 :: s_threads r)
  ++ klines (s_post r)
  ++ match s_ctx r with
     | Some (v, n) => line (bs "voluntary_ctxt_switches:" ++ 9 :: v)
                      ++ line (bs "nonvoluntary_ctxt_switches:" ++ 9 :: n)
     | None => []
     end
  ++ klines (s_tail r).

(* substring test *)
Fixpoint occurs (p l : bytes) : bool :=
  match l with
  | [] => prefixb p []
  | _ :: r => prefixb p l || occurs p r
  end.
(* any other line: one line, not one of the four keys looked for (each key is
   printed once), and no "ctxt_switches:" inside it *)
Definition other_ok (l : bytes) : bool :=
  negb (contains 10 l)
  && negb (prefixb (bs "Uid:") l) && negb (prefixb (bs "Gid:") l) && negb (prefixb (bs "Threads:") l)
  && negb (occurs (bs "ctxt_switches:") l).
Definition wf_kstatus (r : kstatus) : bool :=
  forallb other_ok (s_pre r) && (forallb other_ok (s_fd r) && forallb is_dec (s_groups r) && forallb other_ok (s_mid r))
  && forallb other_ok (s_post r)
  && forallb other_ok (s_tail r)
  && is_dec (s_ruid r) && is_dec (s_euid r) && is_dec (s_suid r) && is_dec (s_fsuid r)
  && is_dec (s_rgid r) && is_dec (s_egid r) && is_dec (s_sgid r) && is_dec (s_fsgid r)
  && is_dec (s_threads r)
  && match s_ctx r with Some (v, n) => is_dec v && is_dec n | None => true end.

Definition spec_uids (r : kstatus) : list Z := [dec_val (s_ruid r); dec_val (s_euid r); dec_val (s_suid r)].
Definition spec_gids (r : kstatus) : list Z := [dec_val (s_rgid r); dec_val (s_egid r); dec_val (s_sgid r)].
Definition spec_num_threads (r : kstatus) : Z := dec_val (s_threads r).
Definition spec_ctx (r : kstatus) : outcome (Z * Z) :=
  match s_ctx r with
  | Some (v, n) => Val (dec_val v, dec_val n)
  | None => Exc NotImplementedError    (* documented: not available before 2.6.23 *)
  end.
(* comm of a task is at most TASK_COMM_LEN - 1 = 15 bytes *)
Definition comm_len_ok (comm : bytes) : bool := (length comm <=? 15)%nat.

(* ------------------------------------------------------------ /proc/stat *)
(* "cpu ..." lines, "intr", "ctxt", then "btime <seconds>", then the rest *)
Record kprocstat := { b_pre : list bytes; b_btime : bytes; b_post : list bytes }.
Definition k_procstat (r : kprocstat) : bytes :=
  klines (b_pre r) ++ line (bs "btime " ++ b_btime r) ++ klines (b_post r).
Definition wf_kprocstat (r : kprocstat) : bool :=
  forallb (fun l => negb (contains 10 l) && negb (prefixb (bs "btime") l)) (b_pre r) && is_dec (b_btime r).

(* --------------------------------------------------- float tolerance (DESIGN 3.3) *)
(* the correspondence run accepts an implementation float y for the exact value x when
   |y - x| <= tol x = 2^-48 * max(1, |x|) *)
Definition tol (x : Q) : Q := (Qmax 1 (Qabs x) * (1 # 281474976710656))%Q.

(* ------------------------------------------------------- name(), now *)
(* what the process looks like at one moment: its stat record and what reading its cmdline gives *)
Record know := { n_stat : kstat; n_cmd : cread }.
Definition now_state (k : know) : nstate := {| ns_stat := SData (k_stat (n_stat k)); ns_cmd := n_cmd k |}.
Definition state_z (r : kstat) : bool := match fld 3 r with Some (90 :: _) => true | _ => false end.
(* the documented answer: the kernel's comm; when it is 15 bytes or more (i.e. possibly truncated)
   and the command line is readable, non-empty and the base name of its first argument starts
   with the comm, that longer name.  A zombie (empty / unreadable cmdline) and a denied cmdline
   give the comm.  None: the call fails (process gone between the two reads). *)
Definition spec_name_now (k : know) : option bytes :=
  let comm := k_comm (n_stat k) in
  if (length comm <? 15)%nat then Some comm
  else match n_cmd k with
       | CEACCES => Some comm
       | CESRCH | CENOENT => if state_z (n_stat k) then Some comm else None
       | CData [] => Some comm
       | CData d =>
         match cmdline_args d with
         | a0 :: _ => if prefixb comm (basename a0) then Some (basename a0) else Some comm
         | [] => Some comm
         end
       end.

(* ------------------------------------------- bytes never reach str() / format() *)
(* Under `python -bb` str(b) / format(b) / b == 'text' raise BytesWarning.  The readers hold the kernel's
   text as bytes; these are their bytes-typed locals (from reading the code), per function:
   plain bytes variables, and containers whose elements are bytes. *)
Definition bytes_vars (fn : bytes) : list bytes :=
  if beqb fn (bs "_parse_stat_file") then [bs "data"; bs "name"]
  else if beqb fn (bs "_is_zombie") then [bs "data"; bs "status"]
  else if beqb fn (bs "status") then [bs "letter"]
  else if beqb fn (bs "threads") then [bs "st"]
  else if beqb fn (bs "ppid_map") then [bs "data"]
  else if beqb fn (bs "boot_time") then [bs "line"]
  else if beqb fn (bs "pids") then [bs "x"; bs "path"]
  else if beqb fn (bs "uids") || beqb fn (bs "gids") then [bs "data"; bs "real"; bs "effective"; bs "saved"]
  else if beqb fn (bs "num_threads") || beqb fn (bs "num_ctx_switches") then [bs "data"]
  else [].
Definition bytes_containers (fn : bytes) : list bytes :=
  [bs "call:_parse_stat_file"; bs "call:findall"; bs "call:split"] ++
  (if beqb fn (bs "_parse_stat_file") then [bs "fields"; bs "ret"]
   else if beqb fn (bs "cpu_times") then [bs "values"]
   else if beqb fn (bs "threads") then [bs "values"]
   else if beqb fn (bs "ppid_map") then [bs "dset"]
   else if beqb fn (bs "num_ctx_switches") then [bs "ctxsw"]
   else []).
Definition mem_bytes (x : bytes) (l : list bytes) : bool := existsb (beqb x) l.
(* a site is harmless unless it formats (or compares with a str) a bytes variable, a slice of one,
   or an element of a bytes container *)
Definition site_ok (s : bytes * bytes * bytes * bytes) : bool :=
  let '(fn, kind, shape, name) := s in
  if beqb shape (bs "var") || beqb shape (bs "slice") then negb (mem_bytes name (bytes_vars fn))
  else if beqb shape (bs "index") then negb (mem_bytes name (bytes_containers fn))
  else true.
Definition c06_readers : list bytes :=
  [bs "_parse_stat_file"; bs "_read_status_file"; bs "_is_zombie"; bs "name"; bs "ppid"; bs "status"; bs "terminal";
   bs "cpu_times"; bs "cpu_num"; bs "create_time"; bs "uids"; bs "gids"; bs "num_threads"; bs "num_ctx_switches";
   bs "threads"; bs "ppid_map"; bs "boot_time"; bs "pids"; bs "wrap_exceptions"].
