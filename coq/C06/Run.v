(* Entry points evaluated by the correspondence harness (props/C06.py). *)
From PV Require Export C06.Spec.
From Coq Require Import DecimalString.

Definition jq (q : Q) : jv := JC "Q" [JZ (Qnum q); JZ (Zpos (Qden q))].
Definition jqs (l : list Q) : jv := JL (map jq l).
Definition jz (z : Z) : jv := JZ z.
Definition jzs (l : list Z) : jv := JL (map JZ l).
Definition jb (b : bytes) : jv := JB b.
Definition jpair (p : Z * Z) : jv := JL [JZ (fst p); JZ (snd p)].
Definition jrow (r : trow) : jv := match r with TRow id u s => JL [JZ id; jq u; jq s] end.
Definition jrows (l : list trow) : jv := JL (map jrow l).
Definition jterm (o : option bytes) : jv := jopt JB o.
Definition jval (j : jv) : jv := JC "Val" [j].

(* the seven accessors fed by /proc/<pid>/stat, in this order:
   name ppid status cpu_times create_time cpu_num terminal *)
Definition model_stat (masked : bool) (clk : positive) (procstat : bytes)
    (dev pts : list (bytes * option Z)) (data : bytes) : jv :=
  let f {A} (o : outcome A) := front data o in
  let devs := glob_tty dev ++ glob_pts pts in
  JL [ jv_outcome jb (f (name data)); jv_outcome jz (f (ppid data));
       jv_outcome jb (f (status_public (status data)));
       jv_outcome jqs (f (cpu_times clk data)); jv_outcome jq (f (create_time_full clk procstat data));
       jv_outcome jz (f (cpu_num data)); jv_outcome jterm (f (terminal masked devs data)) ].

Definition dec_of (o : option bytes) : option Z :=
  match o with Some d => if is_dec d then Some (dec_val d) else None | None => None end.
Definition all_dec (l : list (option bytes)) : bool :=
  forallb (fun o => match o with Some d => is_dec d | None => false end) l.

(* what the property demands for a kernel record; a component is None when the
   record is outside what the property text fixes (unknown state letter, ...) *)
Definition spec_stat (clk : positive) (bt : Z) (devs : list devnode) (tty : option (Z * Z)) (r : kstat) : jv :=
  if wf_kstat r then
    JL [ jval (JB (k_comm r));
         jopt (fun z => jval (JZ z)) (dec_of (fld 4 r));
         match fld 3 r with
         | Some [c] => jopt (fun s => jval (JB s)) (spec_status documented_statuses c)
         | _ => jnone
         end;
         (if all_dec [fld 14 r; fld 15 r; fld 16 r; fld 17 r]
             && match fld 42 r with Some b => is_dec b | None => true end
          then match fld 14 r, fld 15 r, fld 16 r, fld 17 r with
               | Some a, Some b, Some c, Some d => jval (jqs (spec_cpu_times clk a b c d (fld 42 r)))
               | _, _, _, _ => jnone
               end
          else jnone);
         match fld 22 r with
         | Some s => if is_dec s then jval (jq (spec_create_time clk bt s)) else jnone
         | None => jnone
         end;
         jopt (fun z => jval (JZ z)) (dec_of (fld 39 r));
         (if forallb wf_dev devs then
            match tty, fld 7 r with
            | None, Some t => if beqb t [48] then jval (jterm None) else jnone
            | Some (ma, mi), Some t =>
              if wf_dev {| d_path := []; d_major := ma; d_minor := mi; d_gone := false |}
              then match parse_int t with
                   | Some v => if v =? as_int32 (kernel_encode_dev ma mi)
                               then jval (jterm (spec_terminal ma mi devs None)) else jnone
                   | None => jnone
                   end
              else jnone
            | _, None => jnone
            end
          else jnone) ]
  else jnone.

Definition run_stat (masked : bool) (clk : positive) (b : kprocstat) (dev pts : list devnode)
    (tty : option (Z * Z)) (r : kstat) : jv :=
  JL [ JB (k_stat r); JB (k_procstat b);
       model_stat masked clk (k_procstat b) (map dev_entry dev) (map dev_entry pts) (k_stat r);
       (if wf_kprocstat b then spec_stat clk (dec_val (b_btime b)) (listed_nodes dev pts) tty r else jnone) ].
Definition run_stat_raw (masked : bool) (clk : positive) (procstat : bytes)
    (dev pts : list (bytes * option Z)) (data : bytes) : jv :=
  JL [ model_stat masked clk procstat dev pts data ].

(* a read fault on the stat file between the construction of the object and the call:
   name, status (through the front end), cpu_num *)
Definition run_stat_race (r : kstat) (first : sread) (second : option sread) (exists_after : bool) : jv :=
  let s2 := match second with Some x => x | None => SData (k_stat r) end in
  let w {A} (f : bytes -> outcome A) := wrapped f first s2 (SData (k_stat r)) exists_after exists_after in
  JL [ JB (k_stat r);
       JL [ jv_outcome jb (w name); jv_outcome jb (status_public (w status)); jv_outcome jz (w cpu_num) ];
       (if wf_kstat r then
          JL [ jnone;
               match first, second, fld 3 r with
               | SESRCH, None, Some [90] | SENOENT, None, Some [90] => jval (JB (bs "zombie"))
               | _, _, _ => jnone
               end;
               jnone ]
        else jnone) ].

(* uids gids num_threads num_ctx_switches *)
Definition model_status (data : bytes) : jv :=
  JL [ jv_outcome jzs (uids data); jv_outcome jzs (gids data); jv_outcome jz (num_threads data);
       jv_outcome jpair (num_ctx_switches data) ].
Definition spec_status_file (r : kstatus) : jv :=
  if wf_kstatus r then
    JL [ jval (jzs (spec_uids r)); jval (jzs (spec_gids r)); jval (jz (spec_num_threads r));
         (if comm_len_ok (s_comm r) then jv_outcome jpair (spec_ctx r) else jnone) ]
  else jnone.
Definition run_status (r : kstatus) : jv :=
  JL [ JB (k_status r); model_status (k_status r); spec_status_file r ].
Definition run_status_raw (data : bytes) : jv := JL [ model_status data ].

Definition run_threads (clk : positive) (ts : list kthread) (alive : bool) (own : kstat) : jv :=
  JL [ JL (map (fun t => JB (k_stat (t_stat t))) ts);
       JB (k_stat own);
       jv_outcome jrows (threads clk (map task_entry ts) alive (k_stat own));
       (if forallb wf_kthread ts && (alive || negb (any_gone ts))
        then jval (jrows (spec_trows clk (sort_by t_tid ts))) else jnone) ].
Definition run_threads_raw (clk : positive) (listing : list (bytes * tfile)) (alive : bool) (own : bytes) : jv :=
  JL [ jv_outcome jrows (threads clk listing alive own) ].

Definition jpmap (l : list (Z * Z)) : jv := JL (map jpair l).
Definition run_ppid_map (es : list kentry) : jv :=
  JL [ JL (map (fun e => match snd (entry_of e) with TContent d => JB d | _ => jnone end) es);
       JL [ jv_outcome jpmap (ppid_map (map entry_of es)); jval (jzs (pids (map fst (map entry_of es)))) ];
       (if forallb wf_kentry es then JL [ jval (jpmap (spec_ppid_map es)); jval (jzs (spec_pids es)) ] else jnone) ].
Definition run_ppid_map_raw (listing : list (bytes * tfile)) : jv :=
  JL [ JL [ jv_outcome jpmap (ppid_map listing); jval (jzs (pids (map fst listing))) ] ].

(* name() as a str (code points) under the file-system encoding of the interpreter *)
Definition jstr (s : list Z) : jv := JC "Str" [JL (map JZ s)].
Definition run_name_enc (e : fsenc) (r : kstat) : jv :=
  JL [ JB (k_stat r);
       jv_outcome jstr (front (k_stat r) (name_str e (k_stat r)));
       (if wf_kstat r && wf_bytes (k_comm r)
        then JL [ jval (jstr (fs_decode e (k_comm r))); jopt JB (fs_encode e (fs_decode e (k_comm r))) ]
        else jnone) ].

(* name() asked repeatedly on ONE object while the kernel state changes (windows = false) *)
Inductive statk := SKData | SKGone | SKDenied.
Definition hist_state (x : kstat * statk * cread) : nstate :=
  {| ns_stat := match snd (fst x) with
                | SKData => SData (k_stat (fst (fst x)))
                | SKGone => SENOENT
                | SKDenied => SEACCES
                end;
     ns_cmd := snd x |}.
Definition run_name_hist (steps : list (kstat * statk * cread)) : jv :=
  JL [ JL (map (fun x => JB (k_stat (fst (fst x)))) steps);
       JL (map (jv_outcome jb) (name_hist false None (map hist_state steps)));
       JL (map (fun x => match snd (fst x) with
                         | SKData => if wf_kstat (fst (fst x))
                                     then jopt (fun b => jval (JB b))
                                               (spec_name_now {| n_stat := fst (fst x); n_cmd := snd x |})
                                     else jnone
                         | _ => jnone
                         end) steps) ].

(* ------------------------------------------------ big records generated inside Gallina *)
(* a list given as (element, how many times) runs: keeps the case terms small *)
Definition expand {A} (l : list (A * nat)) : list A := flat_map (fun p => repeat (fst p) (snd p)) l.
(* decimal text of a non-negative number *)
Definition z_dec (z : Z) : bytes := bs (NilZero.string_of_uint (N.to_uint (Z.to_N z))).
(* big files are not printed byte by byte (reading a 40 KiB list back from the VM and printing it costs seconds):
   the harness rebuilds them with its own twin of the printer and must hit the same length, checksum and head *)
Definition cksum (l : bytes) : Z := fold_left (fun a c => (a * 257 + c + 1) mod 2147483629) l 7.
Definition jdigest (l : bytes) : jv := JC "Digest" [JZ (Z.of_nat (length l)); JZ (cksum l); JB (firstn 64 l)].
Definition run_status_big (r : kstatus) : jv :=
  JL [ jdigest (k_status r); model_status (k_status r); spec_status_file r ].

(* n threads base, base+1, ...: each with the given name and the same counters *)
Definition run_threads_n (clk : positive) (n : nat) (base : Z) (comm : bytes) (after : list bytes)
    (alive : bool) (own : kstat) : jv :=
  let ts := map (fun i => {| t_tid := z_dec (base + Z.of_nat i);
                             t_stat := {| k_pid := z_dec (base + Z.of_nat i); k_comm := comm; k_after := after |};
                             t_gone := false |}) (seq 0 n) in
  JL [ jdigest (concat (map (fun t => k_stat (t_stat t)) ts));
       JB (k_stat own);
       jv_outcome jrows (threads clk (map task_entry ts) alive (k_stat own));
       (if forallb wf_kthread ts && (alive || negb (any_gone ts))
        then jval (jrows (spec_trows clk (sort_by t_tid ts))) else jnone) ].

(* wave 8: Process handles, copies and PROCFS_PATH (C06/Handles.v); a record is named by a number, the harness knows what
   each number publishes.  [model; spec without deep copies; spec when deep copies are delivered] *)
From PV Require Export C06.Handles.
Definition jhres (r : hres Z) : jv :=
  match r with
  | RNone _ => JC "Unit" []
  | RHandle _ n => JC "Handle" [JZ (Z.of_nat n)]
  | RAns _ (Some z) => JC "Ans" [JZ z]
  | RAns _ None => JC "NoSuchProcess" []
  | RNoSuch _ => JC "NoSuchProcess" []
  | RTypeError _ => JC "TypeError" []
  | RBad _ => JC "Bad" []
  end.
Definition hworld (ents : list (Z * Z * Z)) : Z -> Z -> option Z :=
  fun t p => match find (fun e => Z.eqb (fst (fst e)) t && Z.eqb (snd (fst e)) p)%bool ents with
             | Some e => Some (snd e) | None => None end.
Definition run_copy_hist (ents : list (Z * Z * Z)) (ops : list (hop Z)) : jv :=
  let s := {| cur := 0; world := hworld ents; hs := [] |} in
  JL [ JL (map jhres (snd (hrun Z false s ops)));
       JL (map jhres (snd (grun Z false (ghost_of Z s) ops)));
       JL (map jhres (snd (grun Z true (ghost_of Z s) ops))) ].
