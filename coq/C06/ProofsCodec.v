(* C06 -- proofs, part 7: the file-system codec round trip (os.fsencode (os.fsdecode b) = b)
   for every byte string and each of utf-8 / ascii / latin-1 with surrogateescape. *)
From PV Require Import C06.Codec.
From Coq Require Import ZifyBool.

Lemma wf_byte_range b : wf_byte b = true -> 0 <= b < 256.
Proof. unfold wf_byte. lia. Qed.

Ltac Zify.zify_post_hook ::= Z.div_mod_to_equations.

Lemma enc_low b : 0 <= b < 128 -> utf8_enc1 b = Some [b].
Proof.
  intros H. unfold utf8_enc1.
  assert (b <? 0 = false) as -> by lia. assert (b <? 128 = true) as -> by lia. reflexivity.
Qed.

Lemma enc_esc b : 128 <= b < 256 -> utf8_enc1 (esc b) = Some [b].
Proof.
  intros H. unfold utf8_enc1, esc, is_esc.
  assert (56320 + b <? 0 = false) as -> by lia. assert (56320 + b <? 128 = false) as -> by lia.
  assert ((56448 <=? 56320 + b) && (56320 + b <=? 56575) = true) as -> by lia.
  f_equal. f_equal. lia.
Qed.

Lemma enc_two b0 b1 : two_ok b0 b1 = true -> utf8_enc1 (cp2 b0 b1) = Some [b0; b1].
Proof.
  unfold two_ok, cont. intros H. unfold utf8_enc1, is_esc, cp2.
  set (c := (b0 - 192) * 64 + (b1 - 128)).
  assert (128 <= c < 2048) by (unfold c; lia).
  assert (c <? 0 = false) as -> by lia. assert (c <? 128 = false) as -> by lia.
  assert ((56448 <=? c) && (c <=? 56575) = false) as -> by lia.
  assert (c <? 2048 = true) as -> by lia.
  assert (192 + c / 64 = b0) as -> by (unfold c; lia).
  assert (128 + c mod 64 = b1) as -> by (unfold c; lia). reflexivity.
Qed.

Lemma enc_three b0 b1 b2 : three_ok b0 b1 b2 = true -> utf8_enc1 (cp3 b0 b1 b2) = Some [b0; b1; b2].
Proof.
  unfold three_ok, cont. intros H. unfold utf8_enc1, is_esc, is_surrogate, cp3.
  set (c := (b0 - 224) * 4096 + (b1 - 128) * 64 + (b2 - 128)).
  assert (2048 <= c < 65536) by (unfold c; lia).
  assert (c < 55296 \/ 57343 < c) by (unfold c; lia).
  assert (c <? 0 = false) as -> by lia. assert (c <? 128 = false) as -> by lia.
  assert ((56448 <=? c) && (c <=? 56575) = false) as -> by lia.
  assert (c <? 2048 = false) as -> by lia. assert (c <? 65536 = true) as -> by lia.
  assert ((55296 <=? c) && (c <=? 57343) = false) as -> by lia.
  assert (224 + c / 4096 = b0) as -> by (unfold c; lia).
  assert (128 + (c / 64) mod 64 = b1) as -> by (unfold c; lia).
  assert (128 + c mod 64 = b2) as -> by (unfold c; lia). reflexivity.
Qed.

Lemma enc_four b0 b1 b2 b3 :
  four_ok b0 b1 b2 b3 = true -> utf8_enc1 (cp4 b0 b1 b2 b3) = Some [b0; b1; b2; b3].
Proof.
  unfold four_ok, cont. intros H. unfold utf8_enc1, is_esc, cp4.
  set (c := (b0 - 240) * 262144 + (b1 - 128) * 4096 + (b2 - 128) * 64 + (b3 - 128)).
  assert (65536 <= c < 1114112) by (unfold c; lia).
  assert (c <? 0 = false) as -> by lia. assert (c <? 128 = false) as -> by lia.
  assert ((56448 <=? c) && (c <=? 56575) = false) as -> by lia.
  assert (c <? 2048 = false) as -> by lia. assert (c <? 65536 = false) as -> by lia.
  assert (c <? 1114112 = true) as -> by lia.
  assert (240 + c / 262144 = b0) as -> by (unfold c; lia).
  assert (128 + (c / 4096) mod 64 = b1) as -> by (unfold c; lia).
  assert (128 + (c / 64) mod 64 = b2) as -> by (unfold c; lia).
  assert (128 + c mod 64 = b3) as -> by (unfold c; lia). reflexivity.
Qed.

Ltac Zify.zify_post_hook ::= idtac.

Lemma fs_encode_cons e c r a b :
  enc1 e c = Some a -> fs_encode e r = Some b -> fs_encode e (c :: r) = Some (a ++ b).
Proof. intros H1 H2. cbn [fs_encode]. now rewrite H1, H2. Qed.

Lemma utf8_roundtrip_n n : forall l,
  (length l <= n)%nat -> wf_bytes l = true -> fs_encode Utf8 (utf8_dec l) = Some l.
Proof.
  induction n as [|n IH]; intros l Hlen Hwf.
  - destruct l; [reflexivity|cbn [length] in Hlen; lia].
  - destruct l as [|b0 r0]; [reflexivity|].
    cbn [wf_bytes forallb] in Hwf. apply andb_true_iff in Hwf as [W0 Wr0].
    apply wf_byte_range in W0. cbn [length] in Hlen.
    assert (I0 : fs_encode Utf8 (utf8_dec r0) = Some r0) by (apply IH; [lia|exact Wr0]).
    assert (Eesc : 128 <= b0 -> fs_encode Utf8 (esc b0 :: utf8_dec r0) = Some (b0 :: r0)).
    { intros Hb. apply (fs_encode_cons Utf8 _ _ [b0] r0); [apply enc_esc; lia|exact I0]. }
    cbn [utf8_dec]. destruct (Z.ltb_spec b0 128) as [Hb|Hb].
    { apply (fs_encode_cons Utf8 _ _ [b0] r0); [apply enc_low; lia|exact I0]. }
    destruct r0 as [|b1 r1].
    { cbn [fs_encode enc1]. rewrite enc_esc by lia. reflexivity. }
    cbn [wf_bytes forallb] in Wr0. apply andb_true_iff in Wr0 as [W1 Wr1]. cbn [length] in Hlen.
    destruct (two_ok b0 b1) eqn:E2.
    { apply (fs_encode_cons Utf8 _ _ [b0; b1] r1); [now apply enc_two|apply IH; [lia|exact Wr1]]. }
    destruct r1 as [|b2 r2]; [now apply Eesc|].
    cbn [wf_bytes forallb] in Wr1. apply andb_true_iff in Wr1 as [W2 Wr2]. cbn [length] in Hlen.
    destruct (three_ok b0 b1 b2) eqn:E3.
    { apply (fs_encode_cons Utf8 _ _ [b0; b1; b2] r2); [now apply enc_three|apply IH; [lia|exact Wr2]]. }
    destruct r2 as [|b3 r3]; [now apply Eesc|].
    cbn [wf_bytes forallb] in Wr2. apply andb_true_iff in Wr2 as [W3 Wr3]. cbn [length] in Hlen.
    destruct (four_ok b0 b1 b2 b3) eqn:E4; [|now apply Eesc].
    apply (fs_encode_cons Utf8 _ _ [b0; b1; b2; b3] r3); [now apply enc_four|apply IH; [lia|exact Wr3]].
Qed.

Lemma narrow_roundtrip limit l :
  (limit = 128 \/ limit = 256) -> wf_bytes l = true ->
  forall e, enc1 e = narrow_enc1 limit ->
  fs_encode e (map (fun b => if b <? limit then b else esc b) l) = Some l.
Proof.
  intros Hl Hwf e He. induction l as [|b l IH]; [reflexivity|].
  cbn [wf_bytes forallb] in Hwf. apply andb_true_iff in Hwf as [Wb Wl]. apply wf_byte_range in Wb.
  cbn [map]. apply (fs_encode_cons e _ _ [b] l); [|now apply IH].
  rewrite He. unfold narrow_enc1, esc, is_esc.
  destruct (Z.ltb_spec b limit) as [H|H].
  - assert (b <? 0 = false) as -> by lia. assert (b <? limit = true) as -> by lia. reflexivity.
  - assert (56320 + b <? 0 = false) as -> by lia. assert (56320 + b <? limit = false) as -> by lia.
    assert ((56448 <=? 56320 + b) && (56320 + b <=? 56575) = true) as -> by lia.
    f_equal. f_equal. lia.
Qed.

(* os.fsencode(os.fsdecode(b)) == b for every byte string, whatever encoding the interpreter started with *)
Theorem fs_roundtrip e l : wf_bytes l = true -> fs_encode e (fs_decode e l) = Some l.
Proof.
  intros Hwf. destruct e; cbn [fs_decode].
  - now apply (utf8_roundtrip_n (length l)).
  - unfold ascii_dec. now apply (narrow_roundtrip 128); auto.
  - unfold latin1_dec.
    assert (E : l = map (fun b => if b <? 256 then b else esc b) l).
    { clear -Hwf. induction l as [|b l IH]; [reflexivity|].
      cbn [wf_bytes forallb] in Hwf. apply andb_true_iff in Hwf as [Wb Wl]. apply wf_byte_range in Wb.
      cbn [map]. assert (b <? 256 = true) as -> by lia. now rewrite <- IH. }
    rewrite E at 1. now apply (narrow_roundtrip 256); auto.
Qed.

(* hence decoding loses nothing: different names stay different *)
Theorem fs_decode_injective e a b :
  wf_bytes a = true -> wf_bytes b = true -> fs_decode e a = fs_decode e b -> a = b.
Proof.
  intros Ha Hb H. pose proof (fs_roundtrip e a Ha) as Ra. pose proof (fs_roundtrip e b Hb) as Rb.
  rewrite H in Ra. congruence.
Qed.

(* the three decoders really differ on bytes >= 0x80, also when these form valid UTF-8 ("café") *)
Example fs_decode_cafe :
  fs_decode Utf8 (bs "caf" ++ [195; 169]) = [99; 97; 102; 233]
  /\ fs_decode Ascii (bs "caf" ++ [195; 169]) = [99; 97; 102; 56515; 56489]
  /\ fs_decode Latin1 (bs "caf" ++ [195; 169]) = [99; 97; 102; 195; 169]
  /\ fs_decode Utf8 (bs "a" ++ [226; 130] ++ bs ")" ++ [255; 237; 160; 128]) = [97; 56546; 56450; 41; 56575; 56557; 56480; 56448].
Proof. vm_compute. repeat split; reflexivity. Qed.
