(* C06 -- proofs, part 3: threads() and ppid_map(). *)
From PV Require Import C06.Spec C06.Lib C06.ProofsStat.
From Coq Require Import Permutation.

(* strip() of a task stat record removes exactly the final newline *)
Lemma strip_stat r :
  is_dec (k_pid r) = true -> forallb fld_ok (k_after r) = true -> k_after r <> [] ->
  strip (k_stat r) = (k_pid r ++ [32; 40] ++ k_comm r) ++ 41 :: 32 :: join [32] (k_after r).
Proof.
  intros Hp Ha Hne. unfold strip.
  assert (Hl : lstrip (k_stat r) = k_stat r).
  { unfold k_stat. destruct (k_pid r) as [|c p]; [discriminate|].
    cbn [app]. apply lstrip_nows. unfold is_dec in Hp. cbn [all_digits forallb] in Hp.
    apply andb_true_iff in Hp as [Hc _]. now apply digit_not_ws. }
  rewrite Hl, k_stat_shape. unfold k_tail.
  destruct (join_last (k_after r) Hne (forallb_fld_tok _ Ha)) as (front & lst & E & H1 & H2).
  rewrite E.
  set (pre := k_pid r ++ [32; 40] ++ k_comm r).
  replace (pre ++ 41 :: 32 :: (front ++ lst) ++ [10])
    with ((pre ++ 41 :: 32 :: front ++ lst) ++ [10]).
  2:{ rewrite <- !app_assoc. cbn [app]. rewrite <- !app_assoc. reflexivity. }
  rewrite rstrip_snoc. change (is_ws 10) with true. cbv iota.
  replace (pre ++ 41 :: 32 :: front ++ lst) with ((pre ++ 41 :: 32 :: front) ++ lst).
  2:{ rewrite <- !app_assoc. reflexivity. }
  now rewrite rstrip_no_ws_tail.
Qed.

Lemma values_stat r :
  is_dec (k_pid r) = true -> forallb fld_ok (k_after r) = true -> k_after r <> [] ->
  split_on 32 (after_rpar (strip (k_stat r))) = k_after r.
Proof.
  intros Hp Ha Hne. rewrite strip_stat by assumption.
  unfold after_rpar, rpar_skip.
  rewrite rfind_byte_app.
  2:{ rewrite contains_cons. rewrite contains_join; [reflexivity|reflexivity|now apply fld_no_rpar]. }
  set (pre := k_pid r ++ [32; 40] ++ k_comm r).
  change (pre ++ 41 :: 32 :: join [32] (k_after r)) with (pre ++ [41; 32] ++ join [32] (k_after r)).
  rewrite app_assoc.
  rewrite skipn_app_exact by (rewrite app_length; cbn [length]; lia).
  apply split_on_join; [exact Hne|]. apply tok_no_sp. now apply forallb_fld_tok.
Qed.

Lemma thread_times_stat clk t u s :
  wf_kthread t = true -> fld 14 (t_stat t) = Some u -> fld 15 (t_stat t) = Some s ->
  thread_times clk (k_stat (t_stat t)) = Val (secs clk u, secs clk s)
  /\ is_dec (t_tid t) = true.
Proof.
  unfold wf_kthread. intros H F14 F15. rewrite F14, F15 in H.
  apply andb_true_iff in H as [H Hd]. apply andb_true_iff in Hd as [Du Ds].
  apply andb_true_iff in H as [H Ha]. apply andb_true_iff in H as [Ht Hp].
  split; [|exact Ht].
  assert (Hne : k_after (t_stat t) <> []).
  { unfold fld in F14. destruct (k_after (t_stat t)); [discriminate|congruence]. }
  unfold thread_times. rewrite values_stat by assumption.
  unfold fld in F14, F15. cbn [Nat.sub] in F14, F15. unfold idx. rewrite F14, F15. cbn [of_option obind].
  rewrite !py_float_dec by assumption. reflexivity.
Qed.

Lemma threads_scan_spec clk ts :
  forallb wf_kthread ts = true ->
  threads_scan clk (map task_entry ts) = Val (spec_trows clk ts, any_gone ts).
Proof.
  induction ts as [|t ts IH]; [reflexivity|]. cbn [forallb]. intros H.
  apply andb_true_iff in H as [Ht Hts]. specialize (IH Hts).
  cbn [map threads_scan spec_trows any_gone existsb]. unfold task_entry at 1.
  destruct (t_gone t) eqn:G.
  - rewrite IH. reflexivity.
  - assert (W := Ht). unfold wf_kthread in W.
    destruct (fld 14 (t_stat t)) as [u|] eqn:F14;
      [|rewrite andb_false_r in W; discriminate].
    destruct (fld 15 (t_stat t)) as [s|] eqn:F15;
      [|rewrite andb_false_r in W; discriminate].
    destruct (thread_times_stat clk t u s Ht F14 F15) as [-> Hd].
    cbn [obind]. rewrite py_int_dec by assumption. cbn [obind]. rewrite IH. cbn [obind fst snd].
    unfold spec_trow. rewrite F14, F15. reflexivity.
Qed.

Theorem threads_roundtrip clk ts alive own :
  forallb wf_kthread ts = true ->
  alive = true \/ any_gone ts = false ->
  threads clk (map task_entry ts) alive own = Val (spec_trows clk (sort_by t_tid ts)).
Proof.
  intros Hwf Hal. unfold threads.
  rewrite (sort_by_map task_entry t_tid fst) by (intros x; reflexivity).
  rewrite threads_scan_spec.
  2:{ rewrite (forallb_perm _ _ ts); [exact Hwf|apply sort_by_perm]. }
  cbn [obind fst snd].
  unfold any_gone. rewrite (existsb_perm _ _ ts) by apply sort_by_perm.
  destruct Hal as [->| Hg].
  - rewrite andb_false_r. reflexivity.
  - unfold any_gone in Hg. rewrite Hg. reflexivity.
Qed.

(* a process that is gone while threads vanished: the only other outcomes *)
Theorem threads_total clk ts alive own :
  forallb wf_kthread ts = true ->
  threads clk (map task_entry ts) alive own = Val (spec_trows clk (sort_by t_tid ts))
  \/ (alive = false /\ any_gone ts = true /\
      (threads clk (map task_entry ts) alive own = Exc NoSuchProcess
       \/ threads clk (map task_entry ts) alive own = Exc ZombieProcess)).
Proof.
  intros Hwf. destruct alive; [left; apply threads_roundtrip; auto|].
  destruct (any_gone ts) eqn:G; [|left; apply threads_roundtrip; auto].
  right. split; [reflexivity|]. split; [reflexivity|].
  unfold threads.
  rewrite (sort_by_map task_entry t_tid fst) by (intros x; reflexivity).
  rewrite threads_scan_spec.
  2:{ rewrite (forallb_perm _ _ ts); [exact Hwf|apply sort_by_perm]. }
  cbn [obind fst snd].
  unfold any_gone in *. rewrite (existsb_perm _ _ ts) by apply sort_by_perm. rewrite G.
  cbn [andb negb]. destruct (is_zombie own); auto.
Qed.

Theorem threads_order_perm (ts : list kthread) : Permutation (sort_by t_tid ts) ts.
Proof. apply sort_by_perm. Qed.

(* threads with hostile names (the old failing input 'a) b) c' among them) satisfy the hypotheses *)
Definition ex_thread (tid : string) (comm : bytes) (u s : string) : kthread :=
  {| t_tid := bs tid;
     t_stat := {| k_pid := bs tid; k_comm := comm;
                  k_after := bs "S" :: map (fun _ => bs "5") (seq 0 10) ++ [bs u; bs s; bs "0"] |};
     t_gone := false |}.
Definition ex_threads : list kthread :=
  [ex_thread "9" (bs "a) b) c") "14" "12"; ex_thread "10" (bs "x" ++ [10] ++ bs ") R 0 0") "1" "2"].
Example ex_threads_wf :
  forallb wf_kthread ex_threads = true /\
  spec_trows 100 (sort_by t_tid ex_threads) = [TRow 10 (1 # 100) (2 # 100); TRow 9 (14 # 100) (12 # 100)].
Proof. vm_compute. split; reflexivity. Qed.

(* ---------------------------------------------------------------- ppid_map *)
Lemma ppid_of_stat_spec r d :
  wf_kstat r = true -> fld 4 r = Some d -> is_dec d = true -> ppid_of_stat (k_stat r) = Val (dec_val d).
Proof.
  intros H Hf Hd. apply wf_kstat_0 in H as [H0 _]. unfold wf_kstat0 in H0.
  apply andb_true_iff in H0 as [_ Ha].
  unfold ppid_of_stat. rewrite fields_stat by assumption.
  unfold fld in Hf. cbn [Nat.sub] in Hf. unfold idx. rewrite Hf. cbn [of_option obind].
  now apply py_int_dec.
Qed.

(* ppid_map() over ANY /proc listing: processes (any names; present, vanished or
   unreadable) and non-numeric entries in any order *)
Theorem ppid_map_roundtrip es :
  forallb wf_kentry es = true -> ppid_map (map entry_of es) = Val (spec_ppid_map es).
Proof.
  induction es as [|e es IH]; [reflexivity|]. cbn [forallb]. intros H.
  apply andb_true_iff in H as [He Hes]. specialize (IH Hes).
  destruct e as [p|n f]; cbn [map entry_of ppid_map spec_ppid_map wf_kentry] in *.
  - apply andb_true_iff in He as [He Hd]. apply andb_true_iff in He as [Hn Hw]. rewrite Hn.
    destruct (fld 4 (p_stat p)) as [d|] eqn:F4; [|discriminate].
    destruct (p_state p); try exact IH.
    rewrite (ppid_of_stat_spec _ d) by assumption. cbn [obind]. rewrite IH. reflexivity.
  - apply negb_true_iff in He. rewrite He. exact IH.
Qed.

(* pids(): exactly the process entries *)
Theorem pids_exact es :
  forallb wf_kentry es = true -> pids (map fst (map entry_of es)) = spec_pids es.
Proof.
  unfold pids. induction es as [|e es IH]; [reflexivity|]. cbn [forallb]. intros H.
  apply andb_true_iff in H as [He Hes]. specialize (IH Hes).
  destruct e as [p|n f]; cbn [map entry_of fst filter spec_pids wf_kentry] in *.
  - apply andb_true_iff in He as [He _]. apply andb_true_iff in He as [Hn _]. rewrite Hn.
    cbn [map]. now rewrite IH.
  - apply negb_true_iff in He. rewrite He. exact IH.
Qed.

(* every reported pair belongs to a listed process (no pid invented, none duplicated by the parser) *)
Theorem ppid_map_subset es :
  incl (map fst (spec_ppid_map es)) (spec_pids es).
Proof.
  induction es as [|e es IH]; [apply incl_refl|].
  destruct e as [p|n f]; cbn [spec_ppid_map spec_pids]; [|exact IH].
  destruct (p_state p), (fld 4 (p_stat p)); cbn [map fst];
    try (apply incl_tl; exact IH).
  apply incl_cons; [now left|]. apply incl_tl. exact IH.
Qed.

Definition ex_entries : list kentry :=
  [ KOther (bs "self") TGone; KOther (bs "stat") (TContent (bs "cpu  1 2 3"));
    KProc {| p_name := bs "1"; p_stat := ex_short 52; p_state := PPresent |};
    KOther (bs "12x") TDenied;
    KProc {| p_name := bs "4242"; p_stat := ex_kstat; p_state := PPresent |};
    KProc {| p_name := bs "77"; p_stat := ex_short 39; p_state := PGone |};
    KProc {| p_name := bs "78"; p_stat := ex_short 39; p_state := PDenied |} ].
Example ex_entries_wf :
  forallb wf_kentry ex_entries = true /\ spec_ppid_map ex_entries = [(1, 7); (4242, 7)]
  /\ spec_pids ex_entries = [1; 4242; 77; 78].
Proof. vm_compute. repeat split; reflexivity. Qed.
