(* C06 -- proofs, part 9: no reader formats a bytes value (generated table of formatting sites). *)
From PV Require Import C06.Spec.

(* every formatting / str-comparison site of the readers is harmless under python -bb ... *)
Lemma no_bytes_formatting : forallb site_ok format_sites = true.
Proof. vm_compute. reflexivity. Qed.

(* ... and the table really covers every reader function *)
Lemma sites_cover_readers :
  forallb (fun fn => existsb (fun s => beqb (fst (fst (fst s))) fn) format_sites) c06_readers = true.
Proof. vm_compute. reflexivity. Qed.

(* the check has teeth: the edits it is meant to stop are rejected *)
Example site_ok_rejects :
  site_ok (bs "_parse_stat_file", bs "fstring", bs "var", bs "name") = false
  /\ site_ok (bs "_parse_stat_file", bs "call-debug", bs "index", bs "fields") = false
  /\ site_ok (bs "threads", bs "percent", bs "index", bs "values") = false
  /\ site_ok (bs "status", bs "cmp-str", bs "var", bs "letter") = false
  /\ site_ok (bs "cpu_times", bs "fstring", bs "index", bs "call:_parse_stat_file") = false
  /\ site_ok (bs "_parse_stat_file", bs "fstring", bs "repr", bs "name") = true
  /\ site_ok (bs "threads", bs "fstring", bs "var", bs "thread_id") = true.
Proof. vm_compute. repeat split; reflexivity. Qed.
