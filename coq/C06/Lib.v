(* C06 -- generic list / byte-string lemmas used by the proofs. *)
From PV Require Import C06.Spec.
From Coq Require Import Permutation.

Lemma skipn_app_exact {A} (a b : list A) n : n = length a -> skipn n (a ++ b) = b.
Proof. intros ->. induction a as [|x a IH]; [reflexivity|exact IH]. Qed.

Lemma firstn_app_exact {A} (a b : list A) n : n = length a -> firstn n (a ++ b) = a.
Proof. intros ->. induction a as [|x a IH]; [reflexivity|]. cbn [length firstn app]. now rewrite IH. Qed.

Lemma prefixb_nl p l x : contains 10 p = false -> prefixb p (l ++ 10 :: x) = prefixb p l.
Proof.
  revert l. induction p as [|a p IH]; intros l H; [reflexivity|].
  rewrite contains_cons in H. apply orb_false_iff in H as [Ha Hp].
  destruct l as [|c l].
  - cbn [app prefixb]. rewrite Z.eqb_sym, Ha. reflexivity.
  - cbn [app prefixb]. now rewrite IH.
Qed.

Lemma prefixb_app_l a b l : prefixb (a ++ b) l = true -> prefixb a l = true.
Proof.
  revert l. induction a as [|x a IH]; intros l H; [reflexivity|].
  destruct l as [|c l]; [discriminate|]. cbn [app prefixb] in *.
  apply andb_true_iff in H as [H1 H2]. rewrite H1. cbn [andb]. now apply IH.
Qed.

Lemma prefixb_app_l_false a b l : prefixb a l = false -> prefixb (a ++ b) l = false.
Proof.
  intros H. destruct (prefixb (a ++ b) l) eqn:E; [|reflexivity].
  apply prefixb_app_l in E. congruence.
Qed.

(* ---------------------------------------------------------------- digits *)
Lemma take_digits_app d c r :
  all_digits d = true -> is_digit c = false -> take_digits (d ++ c :: r) = d.
Proof.
  intros Hd Hc. induction d as [|x d IH]; cbn [app take_digits].
  - now rewrite Hc.
  - cbn [all_digits forallb] in Hd. apply andb_true_iff in Hd as [Hx Hd]. rewrite Hx. now rewrite IH.
Qed.
Lemma drop_digits_app d c r :
  all_digits d = true -> is_digit c = false -> drop_digits (d ++ c :: r) = c :: r.
Proof.
  intros Hd Hc. induction d as [|x d IH]; cbn [app drop_digits].
  - now rewrite Hc.
  - cbn [all_digits forallb] in Hd. apply andb_true_iff in Hd as [Hx Hd]. rewrite Hx. now apply IH.
Qed.
Lemma take_digits_all d : all_digits d = true -> take_digits d = d.
Proof.
  induction d as [|x d IH]; [reflexivity|]. cbn [all_digits forallb take_digits]. intros H.
  apply andb_true_iff in H as [Hx Hd]. rewrite Hx. now rewrite IH.
Qed.

Lemma digits1_app d c r :
  is_dec d = true -> is_digit c = false -> digits1 (d ++ c :: r) = Some (d, c :: r).
Proof.
  intros Hd Hc. destruct d as [|x d]; [discriminate|]. unfold is_dec in Hd.
  unfold digits1. rewrite take_digits_app, drop_digits_app by assumption. reflexivity.
Qed.
Lemma digits1_all d : is_dec d = true -> option_map fst (digits1 d) = Some d.
Proof.
  intros Hd. destruct d as [|x d]; [discriminate|]. unfold is_dec in Hd.
  unfold digits1. rewrite take_digits_all by assumption. reflexivity.
Qed.

Lemma strip_prefix_app p r : strip_prefix p (p ++ r) = Some r.
Proof. unfold strip_prefix. rewrite prefixb_app. now rewrite skipn_app_exact. Qed.

Lemma py_int_dec d : is_dec d = true -> py_int d = Val (dec_val d).
Proof. intros H. unfold py_int. now rewrite parse_int_dec. Qed.
Lemma py_float_dec d : is_dec d = true -> py_float d = Val (dec_val d).
Proof. intros H. unfold py_float. now rewrite parse_int_dec. Qed.

Lemma is_dec_no b d : is_dec d = true -> is_digit b = false -> contains b d = false.
Proof.
  intros Hd Hb. destruct d as [|x d]; [discriminate|]. unfold is_dec in Hd.
  induction (x :: d) as [|c l IH]; [reflexivity|].
  cbn [all_digits forallb] in Hd. apply andb_true_iff in Hd as [Hc Hl].
  rewrite contains_cons, IH by assumption.
  destruct (Z.eqb_spec b c); [subst; congruence|reflexivity].
Qed.

(* ------------------------------------------------------------- join/tokens *)
Lemma fld_ok_tok t : fld_ok t = true -> tok_ok t = true /\ contains 41 t = false.
Proof. unfold fld_ok. intros H. apply andb_true_iff in H as [H1 H2]. now apply negb_true_iff in H2. Qed.

Lemma forallb_fld_tok ts : forallb fld_ok ts = true -> forallb tok_ok ts = true.
Proof.
  induction ts as [|t ts IH]; [reflexivity|]. cbn [forallb]. intros H.
  apply andb_true_iff in H as [Ht Hts]. apply fld_ok_tok in Ht as [Ht _]. now rewrite Ht, IH.
Qed.

Lemma join_cons2 (sep : bytes) t u us : join sep (t :: u :: us) = t ++ sep ++ join sep (u :: us).
Proof. reflexivity. Qed.

Lemma contains_join b sep ts :
  contains b sep = false -> forallb (fun t => negb (contains b t)) ts = true ->
  contains b (join sep ts) = false.
Proof.
  intros Hs. induction ts as [|t ts IH]; [reflexivity|]. cbn [forallb]. intros H.
  apply andb_true_iff in H as [Ht Hts]. apply negb_true_iff in Ht.
  destruct ts as [|u us]; [exact Ht|].
  rewrite join_cons2, !contains_app, Ht, Hs, IH by assumption. reflexivity.
Qed.

Lemma fld_no_rpar ts : forallb fld_ok ts = true -> forallb (fun t => negb (contains 41 t)) ts = true.
Proof.
  induction ts as [|t ts IH]; [reflexivity|]. cbn [forallb]. intros H.
  apply andb_true_iff in H as [Ht Hts]. apply fld_ok_tok in Ht as [_ Ht]. now rewrite Ht, IH.
Qed.
Lemma tok_no_sp ts : forallb tok_ok ts = true -> forallb (fun t => negb (contains 32 t)) ts = true.
Proof.
  induction ts as [|t ts IH]; [reflexivity|]. cbn [forallb]. intros H.
  apply andb_true_iff in H as [Ht Hts]. apply tok_ok_spec in Ht as [_ Ht].
  rewrite (no_ws_contains 32 t) by (reflexivity || assumption). now rewrite IH.
Qed.

(* the last token of a non-empty join *)
Lemma join_last ts : ts <> [] -> forallb tok_ok ts = true ->
  exists front lst, join [32] ts = front ++ lst /\ lst <> [] /\ no_ws lst = true.
Proof.
  induction ts as [|t ts IH]; [congruence|]. intros _ H. cbn [forallb] in H.
  apply andb_true_iff in H as [Ht Hts]. destruct ts as [|u us].
  - exists [], t. apply tok_ok_spec in Ht as [H1 H2]. auto.
  - destruct IH as (front & lst & E & H1 & H2); [congruence|assumption|].
    exists (t ++ [32] ++ front), lst. rewrite join_cons2, E, <- !app_assoc. auto.
Qed.

(* ------------------------------------------------------------------- sort *)
Section Sort.
  Context {A B : Type} (f : A -> B) (ka : A -> bytes) (kb : B -> bytes).
  Hypothesis key_f : forall x, kb (f x) = ka x.
  Lemma insert_by_map x l : insert_by kb (f x) (map f l) = map f (insert_by ka x l).
  Proof.
    induction l as [|y l IH]; [reflexivity|]. cbn [map insert_by]. rewrite !key_f.
    destruct (bytes_leb (ka x) (ka y)); [reflexivity|]. cbn [map]. now rewrite IH.
  Qed.
  Lemma sort_by_map l : sort_by kb (map f l) = map f (sort_by ka l).
  Proof. induction l as [|x l IH]; [reflexivity|]. cbn [map sort_by]. now rewrite IH, insert_by_map. Qed.
End Sort.

Lemma insert_by_perm {A} (k : A -> bytes) x l : Permutation (insert_by k x l) (x :: l).
Proof.
  induction l as [|y l IH]; [reflexivity|]. cbn [insert_by].
  destruct (bytes_leb (k x) (k y)); [reflexivity|].
  rewrite IH. apply perm_swap.
Qed.
Lemma sort_by_perm {A} (k : A -> bytes) l : Permutation (sort_by k l) l.
Proof.
  induction l as [|x l IH]; [reflexivity|]. cbn [sort_by]. rewrite insert_by_perm. now constructor.
Qed.
Lemma forallb_perm {A} (P : A -> bool) l l' : Permutation l l' -> forallb P l = forallb P l'.
Proof.
  induction 1; cbn [forallb]; try congruence.
  - rewrite !andb_assoc. f_equal. apply andb_comm.
Qed.
Lemma existsb_perm {A} (P : A -> bool) l l' : Permutation l l' -> existsb P l = existsb P l'.
Proof.
  induction 1; cbn [existsb]; try congruence.
  - rewrite !orb_assoc. f_equal. apply orb_comm.
Qed.
