(* C06 -- proofs, part 6: boot time, create_time through the public path, the rounding
   tolerance, the old-kernel path of num_ctx_switches. *)
From PV Require Import C06.Spec C06.Lib C06.ProofsStat C06.ProofsStatus.
From Coq Require Import Qabs Qminmax Lqa.
Open Scope Z_scope.

(* ---------------------------------------------------------------- boot_time *)
Lemma boot_scan_skip ls rest :
  forallb (fun l => negb (contains 10 l) && negb (prefixb (bs "btime") l)) ls = true ->
  boot_scan (lines_keep (klines ls ++ rest)) = boot_scan (lines_keep rest).
Proof.
  induction ls as [|l ls IH]; [reflexivity|]. cbn [forallb]. intros H.
  apply andb_true_iff in H as [Hl Hls]. apply andb_true_iff in Hl as [H1 H2].
  apply negb_true_iff in H1, H2.
  unfold klines. cbn [map concat]. rewrite <- app_assoc, lines_keep_line' by assumption.
  cbn [boot_scan]. change (l ++ [10]) with (l ++ 10 :: []).
  rewrite prefixb_nl by reflexivity. rewrite H2. now apply IH.
Qed.

Lemma btime_line_fields bt :
  is_dec bt = true -> split_ws (strip ((bs "btime " ++ bt) ++ [10])) = [bs "btime"; bt].
Proof.
  intros H. destruct (is_dec_tok bt H) as [Hne Hnw].
  assert (S : strip ((bs "btime " ++ bt) ++ [10]) = bs "btime " ++ bt).
  { unfold strip.
    assert (lstrip ((bs "btime " ++ bt) ++ [10]) = (bs "btime " ++ bt) ++ [10]) as -> by reflexivity.
    rewrite rstrip_snoc. change (is_ws 10) with true. cbv iota.
    now apply rstrip_no_ws_tail. }
  rewrite S. change (bs "btime " ++ bt) with (bs "btime" ++ 32 :: bt).
  rewrite split_ws_token_sep by (reflexivity || discriminate).
  rewrite (split_ws_token bt Hne Hnw). reflexivity.
Qed.

Theorem boot_time_exact b :
  wf_kprocstat b = true -> boot_time (k_procstat b) = Val (dec_val (b_btime b)).
Proof.
  unfold wf_kprocstat. intros H. apply andb_true_iff in H as [Hpre Hbt].
  unfold boot_time, k_procstat. rewrite boot_scan_skip by assumption.
  rewrite lines_keep_line'.
  2:{ rewrite contains_app, (is_dec_no 10 _ Hbt) by reflexivity. reflexivity. }
  cbn [boot_scan]. rewrite <- app_assoc.
  assert (prefixb (bs "btime") (bs "btime " ++ b_btime b ++ [10]) = true) as -> by reflexivity.
  rewrite app_assoc, btime_line_fields by assumption.
  cbn [idx nth_error of_option obind]. now apply py_float_dec.
Qed.

(* Process.create_time() as the public call computes it: start ticks / CLK + the btime of /proc/stat *)
Theorem create_time_full_exact clk b r st :
  wf_kstat r = true -> fld 22 r = Some st -> is_dec st = true -> wf_kprocstat b = true ->
  create_time_full clk (k_procstat b) (k_stat r) = Val (spec_create_time clk (dec_val (b_btime b)) st).
Proof.
  intros H Hf Hd Hb. unfold create_time_full.
  rewrite (create_time_mono_exact clk r st) by assumption. cbn [obind].
  rewrite boot_time_exact by assumption. reflexivity.
Qed.

Definition ex_procstat : kprocstat :=
  {| b_pre := [bs "cpu  10 0 10 100 0 0 0 0 0 0"; bs "cpu0 10 0 10 100 0 0 0 0 0 0"; bs "intr 5"; bs "ctxt 7"];
     b_btime := bs "1500000000"; b_post := [bs "processes 3"; bs "procs_running 1"] |}.
Example ex_procstat_wf : wf_kprocstat ex_procstat = true.
Proof. reflexivity. Qed.

(* ------------------------------------------------ exact values and the tolerance *)
(* different start ticks give start times at least one tick (1/CLK s) apart ... *)
Theorem create_time_ticks_apart clk bt s s' :
  dec_val s < dec_val s' ->
  (spec_create_time clk bt s + (1 # clk) <= spec_create_time clk bt s')%Q.
Proof.
  intros H. unfold spec_create_time, secs.
  assert (E : ((dec_val s # clk) + (1 # clk) <= (dec_val s' # clk))%Q).
  { unfold Qle, Qplus. cbn [Qnum Qden]. rewrite Pos2Z.inj_mul. nia. }
  lra.
Qed.

(* ... and two tolerance bands are narrower than one tick for every value below 2^36 s
   (the year 4147) and every tick rate up to 1024: the band around the exact value never
   contains the value of another tick count, so an off-by-one tick is always told apart *)
Theorem tolerance_below_half_tick clk x :
  (Qabs x <= 68719476736)%Q -> (Zpos clk <= 1024) ->
  (2 * tol x < 1 # clk)%Q.
Proof.
  intros Hx Hc. unfold tol.
  assert (Hm : (Qmax 1 (Qabs x) <= 68719476736)%Q) by (apply Q.max_lub; [lra|exact Hx]).
  assert (Hk : (1 # 1024 <= 1 # clk)%Q) by (unfold Qle; cbn [Qnum Qden]; lia).
  set (m := Qmax 1 (Qabs x)) in *. lra.
Qed.

(* the same for the per-process and per-thread CPU times (values below 2^36 s) *)
Theorem secs_ticks_apart clk s s' :
  dec_val s < dec_val s' -> (secs clk s + (1 # clk) <= secs clk s')%Q.
Proof.
  intros H. unfold secs. unfold Qle, Qplus. cbn [Qnum Qden]. rewrite Pos2Z.inj_mul. nia.
Qed.

(* ------------------------------------------------ num_ctx_switches on old kernels *)
Theorem num_ctx_switches_absent r :
  wf_kstatus r = true -> comm_len_ok (s_comm r) = true -> s_ctx r = None ->
  num_ctx_switches (k_status r) = Exc NotImplementedError.
Proof.
  intros H Hl Hc. rewrite num_ctx_switches_exact by assumption. unfold spec_ctx. now rewrite Hc.
Qed.
Theorem num_ctx_switches_present r v n :
  wf_kstatus r = true -> comm_len_ok (s_comm r) = true -> s_ctx r = Some (v, n) ->
  num_ctx_switches (k_status r) = Val (dec_val v, dec_val n).
Proof.
  intros H Hl Hc. rewrite num_ctx_switches_exact by assumption. unfold spec_ctx. now rewrite Hc.
Qed.
