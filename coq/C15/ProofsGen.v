(* The program translated from the current source of psutil/_psposix.py: wait_pid (Gen/C15_Tables.v:
   gen_wait_pid), run by the interpreter of PyGen.v, computes the hand-written model Model.wait_pid:
   same result and same state (clock, interval, waitpid-call count, every sleep() argument), for every
   kernel (arbitrary waitpid / pid_exists answers), PID, timeout, start instant and fuel. *)
From PV Require Import C15.PyGen Gen.C15_Tables.
From Coq Require Import Lia.
Open Scope Z_scope.
Open Scope Q_scope.

Ltac crunch :=
  cbv -[Qplus Qmult Qle_bool qmin Z.land Z.shiftr Z.leb Z.eqb Z.opp andb].

(* flags and stop_at as the translated preamble leaves them *)
Definition fl_of (timeout : option Q) : Z := match timeout with Some _ => 1%Z | None => 0%Z end.
Definition st_of (timeout : option Q) (start : Q) : option Q :=
  match timeout with Some t => Some (start + t) | None => None end.
Definition stop_of (timeout : option Q) (start : Q) : Q :=
  match timeout with Some t => start + t | None => start end.

(* ---- the preamble: PID guard, interval, flags, deadline *)
Lemma gen_pre_bad pid timeout start c0 :
  (pid <=? 0)%Z = true ->
  run_block pid timeout no_sleep (g_pre gen_wait_pid) (init_env start c0) = Raise RValueError (init_env start c0).
Proof. intros H. crunch. rewrite H. reflexivity. Qed.

Lemma gen_pre_ok pid timeout start c0 :
  (pid <=? 0)%Z = false ->
  run_block pid timeout no_sleep (g_pre gen_wait_pid) (init_env start c0) =
  Normal (mk_env start (Some interval0) c0 [] None (fl_of timeout) (st_of timeout start) 0 0).
Proof. intros H. destruct timeout as [t|]; crunch; rewrite H; reflexivity. Qed.

(* ---- interval = sleep(interval), with the translated body of sleep() *)
Lemma gen_call_sleep pid timeout start now iv calls slept prm rp st rest :
  blk gen_wait_pid pid timeout (SCallSleep :: rest)
      (mk_env now (Some iv) calls slept prm (fl_of timeout) (st_of timeout start) rp st) =
  if expired timeout (stop_of timeout start) (mk_wst now iv calls slept)
  then Raise (timeout_exc pid timeout) (mk_env now (Some iv) calls slept (Some iv) (fl_of timeout) (st_of timeout start) rp st)
  else blk gen_wait_pid pid timeout rest
         (mk_env (now + iv) (Some (qmin (iv * 2) cap)) calls (iv :: slept) (Some iv) (fl_of timeout) (st_of timeout start) rp st).
Proof.
  destruct timeout as [t|].
  - unfold blk at 1. cbn [run_block]. crunch.
    destruct (Qle_bool (start + t) now); reflexivity.
  - unfold blk at 1. cbn [run_block]. crunch. reflexivity.
Qed.

Lemma blk_nil pid timeout e : blk gen_wait_pid pid timeout [] e = Normal e.
Proof. reflexivity. Qed.

(* ---- the else clause on a status word: order of the tests, sign of the signal *)
Lemma gen_else_status pid timeout e :
  (e_retpid e =? 0)%Z = false ->
  blk gen_wait_pid pid timeout (g_else gen_wait_pid) e =
  match decode_status (e_status e) with
  | RInt z => Return (VZ z) e
  | _ => Raise RValueError e
  end.
Proof.
  intros H. destruct e as [now iv calls slept prm fl sa rp st]. cbn [e_retpid e_status] in *.
  unfold decode_status. crunch. rewrite H.
  destruct (Z.land st 127 =? 0)%Z; [reflexivity|].
  destruct ((1 <=? Z.land st 127)%Z && (Z.land st 127 <=? 126)%Z)%bool; reflexivity.
Qed.

(* the else clause on (0, 0): poll again *)
Lemma gen_else_running pid timeout e rest2 :
  (e_retpid e =? 0)%Z = true ->
  blk gen_wait_pid pid timeout
    [SIf (CRetpidEq 0) [SCallSleep; SContinue] []; rest2] e =
  blk gen_wait_pid pid timeout [SCallSleep; SContinue] e.
Proof.
  intros H. unfold blk. cbn [run_block exec ceval]. rewrite H.
  set (R := run_block pid timeout (sleepf gen_wait_pid pid timeout)).
  change (match R [SCallSleep; SContinue] e with Normal e' => R [rest2] e' | other => other end = R [SCallSleep; SContinue] e).
  unfold R. cbn [run_block exec].
  destruct (e_interval e); [|reflexivity].
  destruct (sleepf gen_wait_pid pid timeout (set_param e (Some q))) as [| |[]| |]; reflexivity.
Qed.

Lemma decode_shape st : match decode_status st with RInt _ | RValueError => True | _ => False end.
Proof.
  unfold decode_status. destruct (Z.land st 127 =? 0)%Z; [exact I|].
  destruct ((1 <=? Z.land st 127)%Z && (Z.land st 127 <=? 126)%Z)%bool; exact I.
Qed.

(* ---- the loop *)
Lemma gen_loop pid timeout start waitpid pid_exists :
  (pid <=? 0)%Z = false ->
  forall fuel ph now iv calls slept prm rp st,
  gproj (gloop gen_wait_pid waitpid pid_exists pid timeout fuel ph
           (mk_env now (Some iv) calls slept prm (fl_of timeout) (st_of timeout start) rp st)) =
  Some (let '(r, s) := loop waitpid pid_exists pid timeout (stop_of timeout start) fuel ph (mk_wst now iv calls slept)
        in (r, Some s)).
Proof.
  intros Hpid.
  assert (Hnh : Z.testbit (fl_of timeout) 0 = nohang timeout) by (destruct timeout; reflexivity).
  assert (Hp0 : (pid =? 0)%Z = false) by (apply Z.leb_gt in Hpid; apply Z.eqb_neq; lia).
  induction fuel as [|f IH]; intros ph now iv calls slept prm rp st; [reflexivity|].
  destruct ph.
  - (* PWait *)
    cbn [gloop loop]. unfold bump, at_time, set_now, set_calls, set_ret. cbn [e_now e_interval e_calls e_slept e_param e_flags e_stop e_retpid e_status Model.now Model.interval Model.calls Model.slept].
    rewrite Hnh.
    destruct (waitpid calls now (nohang timeout)) as [t| | |t w|].
    + (* EINTR *)
      change (g_eintr gen_wait_pid) with [SCallSleep].
      rewrite gen_call_sleep, blk_nil.
      destruct (expired timeout (stop_of timeout start) (mk_wst t iv (S calls) slept)); [reflexivity|].
      rewrite IH. unfold do_sleep; cbn [e_now e_interval e_calls e_slept e_param e_flags e_stop e_retpid e_status Model.now Model.interval Model.calls Model.slept]. reflexivity.
    + (* ECHILD *)
      rewrite IH. reflexivity.
    + (* (0, 0) *)
      change (g_else gen_wait_pid) with
        [SIf (CRetpidEq 0) [SCallSleep; SContinue] [];
         SIf CIfExited [SReturnZ ZExitStatus] [SIf CIfSignaled [SReturnZ (ZNegsigEnum (ZNeg ZTermSig))] [SMsg; SRaiseVE]]].
      rewrite gen_else_running by reflexivity. rewrite gen_call_sleep.
      destruct (expired timeout (stop_of timeout start) (mk_wst now iv (S calls) slept)); [reflexivity|].
      unfold blk. cbn [run_block exec]. rewrite IH.
      unfold do_sleep; cbn [e_now e_interval e_calls e_slept e_param e_flags e_stop e_retpid e_status Model.now Model.interval Model.calls Model.slept]. reflexivity.
    + (* (pid, status) *)
      rewrite gen_else_status by exact Hp0. cbn [e_now e_interval e_calls e_slept e_param e_flags e_stop e_retpid e_status Model.now Model.interval Model.calls Model.slept].
      pose proof (decode_shape w) as Hs.
      destruct (decode_status w); try contradiction; reflexivity.
    + reflexivity.
  - (* PExists *)
    cbn [gloop loop]. cbn [e_now e_interval e_calls e_slept e_param e_flags e_stop e_retpid e_status Model.now Model.interval Model.calls Model.slept].
    destruct (pid_exists now).
    + change (g_exists_body gen_wait_pid) with [SCallSleep].
      rewrite gen_call_sleep, blk_nil.
      destruct (expired timeout (stop_of timeout start) (mk_wst now iv calls slept)); [reflexivity|].
      rewrite IH. unfold do_sleep; cbn [e_now e_interval e_calls e_slept e_param e_flags e_stop e_retpid e_status Model.now Model.interval Model.calls Model.slept]. reflexivity.
    + reflexivity.
Qed.

(* ---- the whole function *)
Theorem gen_wait_pid_correct : forall waitpid pid_exists pid timeout fuel start calls0,
  (pid <=? 0)%Z = false ->
  gproj (wait_pid_gen gen_wait_pid waitpid pid_exists pid timeout fuel start calls0) =
  Some (let '(r, s) := wait_pid waitpid pid_exists pid timeout fuel start calls0 in (r, Some s)).
Proof.
  intros waitpid pid_exists pid timeout fuel start calls0 H.
  unfold wait_pid_gen, wait_pid. rewrite (gen_pre_ok pid timeout start calls0 H), H.
  rewrite (gen_loop pid timeout start waitpid pid_exists H). unfold init_wst.
  destruct timeout; reflexivity.
Qed.

(* pid <= 0: ValueError before anything is assigned or asked (the interval is not even bound) *)
Theorem gen_wait_pid_bad_pid : forall waitpid pid_exists pid timeout fuel start calls0,
  (pid <=? 0)%Z = true ->
  wait_pid_gen gen_wait_pid waitpid pid_exists pid timeout fuel start calls0 = GDone RValueError (init_env start calls0) /\
  fst (wait_pid waitpid pid_exists pid timeout fuel start calls0) = RValueError.
Proof.
  intros waitpid pid_exists pid timeout fuel start calls0 H. split.
  - unfold wait_pid_gen. rewrite (gen_pre_bad pid timeout start calls0 H). reflexivity.
  - unfold wait_pid. rewrite H. reflexivity.
Qed.

(* the translated program never leaves the model (no NameError on stop_at, no TypeError on timeout, sleep()
   always returns a number): a consequence of the two theorems, stated for the record *)
Corollary gen_wait_pid_modelled : forall waitpid pid_exists pid timeout fuel start calls0,
  wait_pid_gen gen_wait_pid waitpid pid_exists pid timeout fuel start calls0 <> GUnmodelled.
Proof.
  intros waitpid pid_exists pid timeout fuel start calls0 E.
  destruct (pid <=? 0)%Z eqn:H.
  - destruct (gen_wait_pid_bad_pid waitpid pid_exists pid timeout fuel start calls0 H) as [E1 _]. congruence.
  - pose proof (gen_wait_pid_correct waitpid pid_exists pid timeout fuel start calls0 H) as E1.
    rewrite E in E1. discriminate.
Qed.
