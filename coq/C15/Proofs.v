(* C15 -- proofs about the wait_pid / Process.wait model. *)
From PV Require Import C15.Spec.
From Coq Require Import Lqa Lia.
Open Scope Z_scope.
Open Scope Q_scope.

(* ---- status decoding: a finite domain, swept by computation ---- *)
Definition codes : list Z := map Z.of_nat (seq 0 256).
Definition sigs : list Z := map Z.of_nat (seq 1 64).

Lemma in_codes : forall c, (0 <= c <= 255)%Z -> In c codes.
Proof.
  intros c H. unfold codes. apply in_map_iff. exists (Z.to_nat c). split; [lia|].
  apply in_seq. lia.
Qed.
Lemma in_sigs : forall c, (1 <= c <= 64)%Z -> In c sigs.
Proof.
  intros c H. unfold sigs. apply in_map_iff. exists (Z.to_nat c). split; [lia|].
  apply in_seq. lia.
Qed.

Definition res_eqb (a b : wres) : bool :=
  match a, b with RInt x, RInt y => (x =? y)%Z | _, _ => false end.

Lemma decode_all_b :
  forallb (fun c => res_eqb (decode_status (k_status (ExitCode c))) (RInt c)) codes
  && forallb (fun s => res_eqb (decode_status (k_status (Killed s false))) (RInt (- s))
                       && res_eqb (decode_status (k_status (Killed s true))) (RInt (- s))) sigs = true.
Proof. vm_compute. reflexivity. Qed.

Lemma res_eqb_eq : forall a z, res_eqb a (RInt z) = true -> a = RInt z.
Proof. intros [x| | | | | |] z H; cbn in H; try discriminate. apply Z.eqb_eq in H. now subst. Qed.

Theorem status_decode : forall e, wf_status e = true ->
  decode_status (k_status e) = RInt (spec_code e).
Proof.
  intros e H. pose proof decode_all_b as D. apply andb_true_iff in D. destruct D as [D1 D2].
  rewrite forallb_forall in D1, D2.
  destruct e as [c|s core]; cbn [wf_status] in H; apply andb_true_iff in H; destruct H as [H1 H2];
    apply Z.leb_le in H1, H2.
  - cbn [spec_code]. apply res_eqb_eq. apply D1. apply in_codes. lia.
  - cbn [spec_code]. specialize (D2 s (in_sigs s (conj H1 H2))). apply andb_true_iff in D2. destruct D2 as [Da Db].
    destruct core; apply res_eqb_eq; assumption.
Qed.

(* ---- rational helpers ---- *)
Lemma Qle_bool_false : forall x y, Qle_bool x y = false -> y < x.
Proof. intros x y H. apply Qnot_le_lt. intro L. apply Qle_bool_iff in L. congruence. Qed.

Lemma qmin_cases : forall x y, (x <= y /\ qmin x y = x) \/ (y < x /\ qmin x y = y).
Proof.
  intros x y. unfold qmin. destruct (Qle_bool x y) eqn:E.
  - left. split; [apply Qle_bool_iff; exact E | reflexivity].
  - right. split; [apply Qle_bool_false; exact E | reflexivity].
Qed.

Lemma raw_succ : forall k, raw_ival (S k) == raw_ival k * 2.
Proof.
  intro k. unfold raw_ival. rewrite Nat2Z.inj_succ, Z.pow_succ_r by lia.
  rewrite inject_Z_mult. ring.
Qed.

Lemma raw_pos : forall k, 0 < raw_ival k.
Proof.
  intro k. unfold raw_ival.
  assert (H : (0 < 2 ^ Z.of_nat k)%Z) by (apply Z.pow_pos_nonneg; lia).
  unfold interval0, Qlt, Qmult, inject_Z. cbn. lia.
Qed.

Lemma ival_pos : forall k, 0 < ival k.
Proof.
  intro k. unfold ival. pose proof (raw_pos k). destruct (qmin_cases (raw_ival k) cap) as [[A ->]|[A ->]].
  - assumption. - unfold cap. lra.
Qed.

Lemma ival_le_cap : forall k, ival k <= 1 # 25.
Proof.
  intro k. unfold ival. destruct (qmin_cases (raw_ival k) cap) as [[A ->]|[A ->]]; unfold cap in *; lra.
Qed.

Lemma ival_0 : ival 0 == 1 # 10000.
Proof. vm_compute. reflexivity. Qed.

(* the interval update  _min(interval * 2, 0.04)  steps from ival k to ival (k+1) *)
Lemma ival_step : forall i k, i == ival k -> qmin (i * 2) cap == ival (S k).
Proof.
  intros i k H. unfold ival in *. pose proof (raw_succ k) as R. pose proof (raw_pos k) as P.
  destruct (qmin_cases (raw_ival k) cap) as [[A E1]|[A E1]]; rewrite E1 in H;
  destruct (qmin_cases (i * 2) cap) as [[B E2]|[B E2]]; rewrite E2;
  destruct (qmin_cases (raw_ival (S k)) cap) as [[C E3]|[C E3]]; rewrite E3;
  unfold cap in *; lra.
Qed.

(* newest-first log: the element with k older entries below it is the k-th sleep *)
Fixpoint slept_ok (l : list Q) : Prop :=
  match l with
  | [] => True
  | q :: r => q == ival (length r) /\ slept_ok r
  end.

Lemma slept_ok_nth : forall l k q, slept_ok l -> nth_error (rev l) k = Some q -> q == ival k.
Proof.
  induction l as [|x r IH]; intros k q H N.
  - destruct k; discriminate.
  - cbn [rev] in N. destruct H as [Hx Hr].
    destruct (Nat.lt_ge_cases k (length (rev r))) as [L|L].
    + rewrite nth_error_app1 in N by exact L. eapply IH; eauto.
    + rewrite nth_error_app2 in N by exact L. rewrite rev_length in *.
      destruct (k - length r)%nat eqn:D.
      * cbn in N. inversion N. subst q. replace k with (length r) by lia. exact Hx.
      * cbn in N. destruct n; discriminate.
Qed.

Lemma qmax_cases : forall x y, (x <= y /\ qmax x y = y) \/ (y < x /\ qmax x y = x).
Proof.
  intros x y. unfold qmax. destruct (Qle_bool x y) eqn:E.
  - left. split; [apply Qle_bool_iff; exact E | reflexivity].
  - right. split; [apply Qle_bool_false; exact E | reflexivity].
Qed.

Lemma nohang_none : forall t, nohang t = false -> t = None.
Proof. intros [t|] H; [discriminate|reflexivity]. Qed.

(* ---- the polling loop over the virtual kernel of one process ---- *)
Section Loop.
  Variable p : proc.
  Variable tmo : option Q.
  Variable start : Q.
  Let stop : Q := match tmo with Some t => start + t | None => start end.
  Hypothesis tm_nonneg : forall t, tmo = Some t -> 0 <= t.
  Hypothesis wfst : wf_status (p_status p) = true.
  Hypothesis wfe : forall i d, eintr_at p i = Some d -> 0 <= d.

  Let W := k_waitpid p.
  Let E := k_exists p.
  Let LOOP := loop W E (p_pid p) tmo stop.

  Definition Inv (ph : phase) (s : wst) : Prop :=
    0 < interval s /\ interval s <= cap /\ interval s == ival (length (slept s)) /\
    slept_ok (slept s) /\ start <= now s /\
    (forall t, tmo = Some t -> now s < stop + cap) /\
    (ph = PExists -> p_kind p <> Child) /\
    (p_kind p = NeverExisted -> p_eintr p = [] -> now s == start /\ slept s = []) /\
    (forall t, tmo = Some t -> t == 0 -> slept s = []) /\
    (forall t, tmo = Some t -> t == 0 -> now s == start).

  Definition Post (s : wst) (r : wres) (s' : wst) : Prop :=
    slept_ok (slept s') /\ now s <= now s' /\ (calls s <= calls s')%nat /\
    (forall t, tmo = Some t -> t == 0 -> slept s' = []) /\
    (forall t, tmo = Some t -> now s' < stop + cap) /\
    (forall t, tmo = Some t -> t == 0 -> now s' == start) /\
    match r with
    | RInt z => p_kind p = Child /\ ended_by p (now s') = true /\ z = spec_code (p_status p)
    | RNone => p_kind p <> Child /\ k_exists p (now s') = false /\
               (p_kind p = NeverExisted -> p_eintr p = [] -> now s' == start /\ slept s' = [])
    | RTimeout sec pid' =>
        tmo = Some sec /\ pid' = p_pid p /\ stop <= now s' /\ now s' < stop + cap /\
        (p_eintr p = [] -> p_kind p <> NeverExisted /\ ended_by p (now s') = false)
    | RHang => tmo = None /\ p_exit p = None /\ p_kind p = Child
    | RValueError | RTypeError => False
    | ROutOfFuel => True
    end.

  Lemma expired_true : forall s, expired tmo stop s = true -> exists t, tmo = Some t /\ stop <= now s.
  Proof.
    intros s H. unfold expired in H. destruct tmo as [t|]; [|discriminate].
    exists t. split; [reflexivity|]. apply Qle_bool_iff. exact H.
  Qed.

  Lemma expired_false : forall s t, expired tmo stop s = false -> tmo = Some t -> now s < stop.
  Proof.
    intros s t H T. unfold expired in H. rewrite T in H. apply Qle_bool_false. exact H.
  Qed.

  Lemma timeout_exc_some : forall t, tmo = Some t -> timeout_exc (p_pid p) tmo = RTimeout t (p_pid p).
  Proof. intros t T. unfold timeout_exc. rewrite T. reflexivity. Qed.

  (* a sleep that passed the deadline test keeps the invariant, provided sleeping is
     impossible for a never-existed PID on an EINTR-free schedule *)
  Lemma inv_sleep : forall ph s,
    Inv ph s -> expired tmo stop s = false ->
    ~ (p_kind p = NeverExisted /\ p_eintr p = []) ->
    Inv ph (do_sleep s).
  Proof.
    intros ph s (I1 & I2 & I3 & I4 & I5 & I6 & I7 & I8 & I9 & I10) X NE.
    unfold Inv, do_sleep. cbn [now interval calls slept length].
    pose proof (ival_step _ _ I3) as ST.
    pose proof (ival_pos (S (length (slept s)))) as PS.
    pose proof (ival_le_cap (S (length (slept s)))) as LS.
    unfold cap in *.
    repeat split.
    - lra.
    - lra.
    - exact ST.
    - exact I3.
    - exact I4.
    - lra.
    - intros t T. pose proof (expired_false _ _ X T). lra.
    - exact I7.
    - exfalso. apply NE. split; assumption.
    - exfalso. apply NE. split; assumption.
    - intros t T Z0. exfalso. pose proof (expired_false _ _ X T) as L. subst stop. rewrite T in L. lra.
    - intros t T Z0. exfalso. pose proof (expired_false _ _ X T) as L. subst stop. rewrite T in L. lra.
  Qed.

  Lemma inv_bump : forall ph s, Inv ph s -> Inv ph (bump s).
  Proof. intros ph s H. exact H. Qed.

  Lemma eintr_at_nil : forall i, p_eintr p = [] -> eintr_at p i = None.
  Proof. intros i H. unfold eintr_at. rewrite H. reflexivity. Qed.

  (* the clock read after an interrupted call: later than the call only without a timeout *)
  Lemma inv_at_time : forall ph s t,
    Inv ph s -> now s <= t -> (forall tm, tmo = Some tm -> t == now s) -> p_eintr p <> [] ->
    Inv ph (at_time s t).
  Proof.
    intros ph s t (I1 & I2 & I3 & I4 & I5 & I6 & I7 & I8 & I9 & I10) M T NN.
    unfold Inv, at_time. cbn [now interval calls slept].
    split; [exact I1|]. split; [exact I2|]. split; [exact I3|]. split; [exact I4|].
    split; [lra|].
    split; [intros tm Tm; pose proof (T _ Tm); pose proof (I6 _ Tm); lra|].
    split; [exact I7|].
    split; [intros _ Nil; contradiction|].
    split; [exact I9|].
    intros tm Tm Z. pose proof (T _ Tm). pose proof (I10 _ Tm Z). lra.
  Qed.

  Lemma post_trans : forall s s1 r s',
    now s <= now s1 -> (calls s <= calls s1)%nat -> Post s1 r s' -> Post s r s'.
  Proof.
    intros s s1 r s' A B (P1 & P2 & P3 & P4 & P4a & P4b & P5). unfold Post. repeat split; try assumption.
    - lra. - lia.
  Qed.

  Lemma loop_post : forall fuel ph s r s',
    Inv ph s -> LOOP fuel ph s = (r, s') -> Post s r s'.
  Proof.
    induction fuel as [|f IH]; intros ph s r s' I L.
    - cbn in L. inversion L. subst. destruct I as (I1 & I2 & I3 & I4 & I5 & I6 & I7 & I8 & I9 & I10).
      unfold Post. repeat split; try assumption; try lra; try lia.
    - subst LOOP. cbn [loop] in L. destruct ph.
      + (* PWait *)
        pose proof (inv_bump _ _ I) as I1.
        set (s1 := bump s) in *.
        assert (N1 : now s1 = now s) by reflexivity.
        assert (N1q : now s1 == now s) by reflexivity.
        assert (C1 : calls s1 = S (calls s)) by reflexivity.
        (* every sleeping outcome shares this continuation *)
        assert (SLEEP : forall s2,
                   Inv PWait s2 -> now s <= now s2 -> (calls s <= calls s2)%nat ->
                   (p_eintr p = [] -> p_kind p <> NeverExisted /\ ended_by p (now s2) = false) ->
                   (if expired tmo stop s2 then (timeout_exc (p_pid p) tmo, s2)
                    else loop W E (p_pid p) tmo stop f PWait (do_sleep s2)) = (r, s') ->
                   ~ (p_kind p = NeverExisted /\ p_eintr p = []) -> Post s r s').
        { intros s2 I2 M2 C2 alive L1 NE. destruct (expired tmo stop s2) eqn:X.
          - inversion L1. subst r s'. destruct (expired_true _ X) as (t & T & Le).
            rewrite (timeout_exc_some _ T).
            destruct I2 as (J1 & J2 & J3 & J4 & J5 & J6 & J7 & J8 & J9 & J10).
            unfold Post. repeat split; try assumption; try lra; try lia.
            + eapply J6; eauto.
            + apply alive; assumption.
            + apply alive; assumption.
          - pose proof (inv_sleep _ _ I2 X NE) as I3.
            pose proof (IH _ _ _ _ I3 L1) as PP.
            destruct I2 as (J1 & J2 & J3 & J4 & J5 & J6 & J7 & J8 & J9 & J10).
            eapply post_trans; [| |exact PP]; cbn [do_sleep now calls]; [lra | lia]. }
        (* an interrupted call: the clock is at t >= now when the handler runs *)
        assert (EINTR : forall t,
                   now s <= t -> (forall tm, tmo = Some tm -> t == now s) -> p_eintr p <> [] ->
                   (let s2 := at_time s1 t in
                    if expired tmo stop s2 then (timeout_exc (p_pid p) tmo, s2)
                    else loop W E (p_pid p) tmo stop f PWait (do_sleep s2)) = (r, s') -> Post s r s').
        { intros t Mt Tt NN L1. cbv zeta in L1.
          apply (SLEEP (at_time s1 t));
            [apply inv_at_time; assumption | exact Mt | cbn [at_time calls]; lia
            | intro Nil; contradiction | exact L1 | intros [_ Nil]; contradiction]. }
        unfold W in L at 1. unfold k_waitpid in L.
        destruct (eintr_at p (calls s)) as [d|] eqn:HE.
        * (* EINTR scheduled for this call *)
          assert (NN : p_eintr p <> []) by (intro Nil; rewrite (eintr_at_nil _ Nil) in HE; discriminate).
          pose proof (wfe _ _ HE) as D0.
          assert (NOW : forall tm, tmo = Some tm -> now s == now s) by (intros; reflexivity).
          assert (BLK : nohang tmo = false -> forall tm, tmo = Some tm -> now s + d == now s).
          { intros NH tm T. rewrite (nohang_none _ NH) in T. discriminate. }
          destruct (nohang tmo) eqn:NH.
          -- apply (EINTR (now s)); try assumption. lra.
          -- destruct (p_kind p) eqn:K.
             ++ destruct (p_exit p) as [T|] eqn:EX.
                ** destruct (Qle_bool (now s + d) (qmax T (now s))) eqn:QE.
                   --- apply (EINTR (now s + d)); try assumption; [lra | apply BLK; reflexivity].
                   --- inversion L. subst r s'. rewrite (status_decode _ wfst).
                       destruct (qmax_cases T (now s)) as [[QA QB]|[QA QB]]; rewrite QB in *;
                       destruct I as (J1 & J2 & J3 & J4 & J5 & J6 & J7 & J8 & J9 & J10);
                       unfold Post, at_time; cbn [now calls slept];
                       repeat split; try assumption; try lra; try lia;
                         try (intros t0 T0; rewrite (nohang_none _ NH) in T0; discriminate);
                       unfold ended_by; rewrite EX; apply Qle_bool_iff; lra.
                ** apply (EINTR (now s + d)); try assumption; [lra | apply BLK; reflexivity].
             ++ apply (EINTR (now s)); try assumption. lra.
             ++ apply (EINTR (now s)); try assumption. lra.
        * destruct (p_kind p) eqn:K.
          -- (* Child *)
             destruct (p_exit p) as [T|] eqn:EX.
             ++ destruct (Qle_bool T (now s)) eqn:TE.
                ** inversion L. subst r s'. rewrite (status_decode _ wfst).
                   destruct I as (J1 & J2 & J3 & J4 & J5 & J6 & J7 & J8 & J9 & J10).
                   unfold Post, at_time. cbn [now calls slept].
                   repeat split; try assumption; try lra; try lia.
                   unfold ended_by. rewrite EX. exact TE.
                ** destruct (nohang tmo) eqn:NH.
                   --- apply (SLEEP s1) in L; [exact L | exact I1 | lra | lia | |].
                       +++ intros _. split; [discriminate|]. unfold ended_by. rewrite EX, N1. exact TE.
                       +++ intros [Kn _]. discriminate.
                   --- inversion L. subst r s'. rewrite (status_decode _ wfst).
                       apply Qle_bool_false in TE.
                       destruct I as (J1 & J2 & J3 & J4 & J5 & J6 & J7 & J8 & J9 & J10).
                       unfold Post, at_time. cbn [now calls slept].
                       repeat split; try assumption; try lra; try lia;
                         try (intros t0 T0; rewrite (nohang_none _ NH) in T0; discriminate).
                       unfold ended_by. rewrite EX. apply Qle_bool_iff. lra.
             ++ destruct (nohang tmo) eqn:NH.
                ** apply (SLEEP s1) in L; [exact L | exact I1 | lra | lia | |].
                   --- intros _. split; [discriminate|]. unfold ended_by. rewrite EX. reflexivity.
                   --- intros [Kn _]. discriminate.
                ** inversion L. subst r s'.
                   destruct I as (J1 & J2 & J3 & J4 & J5 & J6 & J7 & J8 & J9 & J10).
                   unfold Post. repeat split; try assumption; try lra; try lia.
                   apply nohang_none. exact NH.
          -- (* NonChild: ECHILD *)
             assert (I2 : Inv PExists s1).
             { destruct I1 as (J1 & J2 & J3 & J4 & J5 & J6 & J7 & J8 & J9 & J10).
               unfold Inv. repeat split; try assumption.
               - intros _. rewrite K. discriminate.
               - apply J8; assumption. - apply J8; assumption. }
             pose proof (IH _ _ _ _ I2 L) as PP.
             eapply post_trans; [| |exact PP]; [rewrite N1; lra | lia].
          -- (* NeverExisted: ECHILD *)
             assert (I2 : Inv PExists s1).
             { destruct I1 as (J1 & J2 & J3 & J4 & J5 & J6 & J7 & J8 & J9 & J10).
               unfold Inv. repeat split; try assumption.
               - intros _. rewrite K. discriminate.
               - apply J8; assumption. - apply J8; assumption. }
             pose proof (IH _ _ _ _ I2 L) as PP.
             eapply post_trans; [| |exact PP]; [rewrite N1; lra | lia].
      + (* PExists *)
        unfold E in L at 1.
        destruct (k_exists p (now s)) eqn:KE.
        * assert (NN : p_kind p <> NeverExisted /\ ended_by p (now s) = false).
          { assert (NC : p_kind p <> Child) by (apply I; reflexivity).
            unfold k_exists in KE. destruct (p_kind p); try discriminate; [contradiction|].
            (split; [discriminate|]); destruct (ended_by p (now s)); try reflexivity; discriminate. }
          destruct (expired tmo stop s) eqn:X.
          -- inversion L. subst r s'. destruct (expired_true _ X) as (t & T & Le).
             rewrite (timeout_exc_some _ T).
             destruct I as (J1 & J2 & J3 & J4 & J5 & J6 & J7 & J8 & J9 & J10).
             unfold Post. repeat split; try assumption; try lra; try lia.
             ++ eapply J6; eauto.
             ++ apply NN. ++ apply NN.
          -- assert (NE : ~ (p_kind p = NeverExisted /\ p_eintr p = [])).
             { intros [Kn _]. destruct NN as [NN _]. contradiction. }
             pose proof (inv_sleep _ _ I X NE) as I2.
             pose proof (IH _ _ _ _ I2 L) as PP.
             destruct I as (J1 & J2 & J3 & J4 & J5 & J6 & J7 & J8 & J9 & J10).
             eapply post_trans; [| |exact PP]; cbn [do_sleep now calls]; [lra | lia].
        * inversion L. subst r s'.
          destruct I as (J1 & J2 & J3 & J4 & J5 & J6 & J7 & J8 & J9 & J10).
          unfold Post. repeat split; try assumption; try lra; try lia.
          -- apply J7. reflexivity.
          -- apply J8; assumption.
          -- apply J8; assumption.
  Qed.
End Loop.

(* ---- wait_pid / Process.wait over the virtual kernel ---- *)
Definition fresh (c0 : nat) : pobj := {| exitcode := None; kcalls := c0 |}.

Lemma init_inv : forall p tmo start c0,
  (forall t, tmo = Some t -> 0 <= t) -> Inv p tmo start PWait (init_wst start c0).
Proof.
  intros p tmo start c0 NN. unfold Inv, init_wst. cbn [now interval calls slept length slept_ok].
  split; [unfold interval0; lra|].
  split; [unfold interval0, cap; lra|].
  split; [symmetry; exact ival_0|].
  split; [exact I|].
  split; [lra|].
  split; [intros t T; rewrite T; pose proof (NN _ T); unfold cap; lra|].
  split; [discriminate|].
  split; [intros _ _; split; reflexivity|].
  split; [intros; reflexivity|].
  intros; reflexivity.
Qed.

Lemma bad_timeout_false : forall tmo, bad_timeout tmo = false -> forall t, tmo = Some t -> 0 <= t.
Proof.
  intros tmo H t T. subst tmo. cbn in H. apply negb_false_iff in H. apply Qle_bool_iff. exact H.
Qed.

Lemma wf_proc_parts : forall p, wf_proc p = true ->
  (0 < p_pid p)%Z /\ wf_status (p_status p) = true /\ (forall i d, eintr_at p i = Some d -> 0 <= d).
Proof.
  intros p H. unfold wf_proc in H. apply andb_true_iff in H. destruct H as [H C].
  apply andb_true_iff in H. destruct H as [A B].
  split; [apply Z.ltb_lt; exact A |]. split; [exact B|].
  intros i d Ei. unfold eintr_at in Ei.
  destruct (find (fun x => Nat.eqb i (fst x)) (p_eintr p)) as [x|] eqn:F; [|discriminate].
  inversion Ei. subst d. apply find_some in F. destruct F as [F _].
  rewrite forallb_forall in C. apply Qle_bool_iff. apply C. exact F.
Qed.

Lemma wait_pid_post : forall p tmo start fuel c0 r s',
  wf_proc p = true -> (forall t, tmo = Some t -> 0 <= t) ->
  wait_pid (k_waitpid p) (k_exists p) (p_pid p) tmo fuel start c0 = (r, s') ->
  Post p tmo start (init_wst start c0) r s'.
Proof.
  intros p tmo start fuel c0 r s' WF NN H. destruct (wf_proc_parts _ WF) as (PP & WS & WE).
  unfold wait_pid in H. destruct (p_pid p <=? 0)%Z eqn:LE; [apply Z.leb_le in LE; lia|].
  eapply loop_post; eauto. apply init_inv. exact NN.
Qed.

(* what an un-cached Process.wait(tmo) call started at t0 did *)
Lemma process_wait_fresh : forall p c0 tmo fuel t0 r o' t' sl,
  wf_proc p = true ->
  process_wait (k_waitpid p) (k_exists p) (p_pid p) (fresh c0) tmo fuel t0 = (r, o', t', sl) ->
  (bad_timeout tmo = true /\ r = RValueError /\ t' = t0 /\ sl = [] /\ o' = fresh c0) \/
  (bad_timeout tmo = false /\ exists s', Post p tmo t0 (init_wst t0 c0) r s' /\ t' = now s' /\ sl = rev (slept s')
     /\ o' = {| exitcode := if is_value r then Some r else None; kcalls := calls s' |}).
Proof.
  intros p c0 tmo fuel t0 r o' t' sl WF H. unfold process_wait in H.
  destruct (bad_timeout tmo) eqn:B.
  - left. inversion H. subst. repeat split; reflexivity.
  - right. split; [reflexivity|]. cbn [exitcode fresh kcalls] in H.
    destruct (wait_pid (k_waitpid p) (k_exists p) (p_pid p) tmo fuel t0 c0) as [r0 s0] eqn:Wp.
    inversion H. subst. exists s0.
    split; [eapply wait_pid_post; eauto; apply bad_timeout_false; exact B|].
    repeat split.
Qed.

Theorem never_early_status : forall p c0 tmo fuel t0 z o' t' sl,
  wf_proc p = true ->
  process_wait (k_waitpid p) (k_exists p) (p_pid p) (fresh c0) tmo fuel t0 = (RInt z, o', t', sl) ->
  p_kind p = Child /\ (exists T, p_exit p = Some T /\ T <= t') /\ z = spec_code (p_status p).
Proof.
  intros p c0 tmo fuel t0 z o' t' sl WF H.
  destruct (process_wait_fresh _ _ _ _ _ _ _ _ _ WF H) as [(_ & X & _)|(_ & s' & P & -> & _)]; [discriminate|].
  destruct P as (_ & _ & _ & _ & _ & _ & K & En & Z). split; [exact K|]. split; [|exact Z].
  unfold ended_by in En. destruct (p_exit p) as [T|]; [|discriminate].
  exists T. split; [reflexivity|]. apply Qle_bool_iff. exact En.
Qed.

Theorem never_early_none : forall p c0 tmo fuel t0 o' t' sl,
  wf_proc p = true ->
  process_wait (k_waitpid p) (k_exists p) (p_pid p) (fresh c0) tmo fuel t0 = (RNone, o', t', sl) ->
  p_kind p <> Child /\
  (p_kind p = NeverExisted \/ exists T, p_exit p = Some T /\ T <= t') /\
  (p_kind p = NeverExisted -> p_eintr p = [] -> t' == t0 /\ sl = []).
Proof.
  intros p c0 tmo fuel t0 o' t' sl WF H.
  destruct (process_wait_fresh _ _ _ _ _ _ _ _ _ WF H) as [(_ & X & _)|(_ & s' & P & -> & -> & _)]; [discriminate|].
  destruct P as (_ & _ & _ & _ & _ & _ & K & Ex & AO). split; [exact K|]. split.
  - unfold k_exists in Ex. destruct (p_kind p); [discriminate| |left; reflexivity].
    right. apply negb_false_iff in Ex. unfold ended_by in Ex. destruct (p_exit p) as [T|]; [|discriminate].
    exists T. split; [reflexivity|]. apply Qle_bool_iff. exact Ex.
  - intros A B. destruct (AO A B) as [C D]. split; [exact C|]. rewrite D. reflexivity.
Qed.

(* a PID that never existed, EINTR-free: None at once, whatever the timeout, with 2 loop steps *)
Theorem never_existed_at_once : forall p c0 tmo f t0,
  wf_proc p = true -> bad_timeout tmo = false -> p_kind p = NeverExisted -> p_eintr p = [] ->
  process_wait (k_waitpid p) (k_exists p) (p_pid p) (fresh c0) tmo (S (S f)) t0
  = (RNone, {| exitcode := Some RNone; kcalls := S c0 |}, t0, []).
Proof.
  intros p c0 tmo f t0 WF B K Ei. destruct (wf_proc_parts _ WF) as (PP & _ & _).
  unfold process_wait. rewrite B. cbn [exitcode fresh kcalls]. unfold wait_pid.
  destruct (p_pid p <=? 0)%Z eqn:LE; [apply Z.leb_le in LE; lia|].
  cbn [loop init_wst calls now]. unfold k_waitpid, eintr_at. rewrite Ei, K. cbn [find].
  cbn [bump now]. unfold k_exists. rewrite K. reflexivity.
Qed.

Theorem timeout_sound : forall p c0 tmo fuel t0 sec pid' o' t' sl,
  wf_proc p = true ->
  process_wait (k_waitpid p) (k_exists p) (p_pid p) (fresh c0) tmo fuel t0 = (RTimeout sec pid', o', t', sl) ->
  tmo = Some sec /\ pid' = p_pid p /\ 0 <= sec /\
  t0 + sec <= t' /\ t' < t0 + sec + (1 # 25) /\
  (p_eintr p = [] -> p_kind p <> NeverExisted /\ ended_by p t' = false) /\
  exitcode o' = None.
Proof.
  intros p c0 tmo fuel t0 sec pid' o' t' sl WF H.
  destruct (process_wait_fresh _ _ _ _ _ _ _ _ _ WF H) as [(_ & X & _)|(B & s' & P & -> & _ & ->)]; [discriminate|].
  destruct P as (_ & _ & _ & _ & _ & _ & T & Pid & Le & Lt & Al). subst tmo. unfold cap in Lt.
  repeat split; try assumption.
  - eapply bad_timeout_false; eauto.
  - apply Al; assumption.
  - apply Al; assumption.
Qed.

Theorem timeout_eintr_refuted :
  exists p t0 o' t' sl, wf_proc p = true /\
    process_wait (k_waitpid p) (k_exists p) (p_pid p) (fresh 0) (Some 0) 100 t0 = (RTimeout 0 (p_pid p), o', t', sl)
    /\ p_kind p = Child /\ ended_by p t' = true.
Proof.
  exists (mk_proc 4242 Child (Some (-1 # 1)) (ExitCode 3) [(0%nat, 0)]), 0.
  eexists. eexists. eexists. split; [reflexivity|]. split; [vm_compute; reflexivity|].
  split; reflexivity.
Qed.

Theorem intervals : forall p c0 tmo fuel t0 r o' t' sl,
  wf_proc p = true ->
  process_wait (k_waitpid p) (k_exists p) (p_pid p) (fresh c0) tmo fuel t0 = (r, o', t', sl) ->
  (forall k q, nth_error sl k = Some q -> q == ival k) /\
  (forall t, tmo = Some t -> t == 0 -> sl = []) /\
  t0 <= t'.
Proof.
  intros p c0 tmo fuel t0 r o' t' sl WF H.
  destruct (process_wait_fresh _ _ _ _ _ _ _ _ _ WF H) as [(_ & _ & -> & -> & _)|(B & s' & P & -> & -> & _)].
  - repeat split; try lra. intros k q N. destruct k; discriminate.
  - destruct P as (SO & Mono & _ & Z0 & _). cbn [init_wst now] in Mono. repeat split.
    + intros k q N. eapply slept_ok_nth; eauto.
    + intros t T Z. rewrite (Z0 t T Z). reflexivity.
    + exact Mono.
Qed.

Theorem negative_timeout : forall W Ex pid o t fuel t0,
  t < 0 -> process_wait W Ex pid o (Some t) fuel t0 = (RValueError, o, t0, []).
Proof.
  intros W Ex pid o t fuel t0 H. unfold process_wait, bad_timeout.
  destruct (Qle_bool 0 t) eqn:L; [apply Qle_bool_iff in L; lra | reflexivity].
Qed.

Theorem bad_pid : forall W Ex pid tmo fuel t0 c0,
  (pid <= 0)%Z -> fst (wait_pid W Ex pid tmo fuel t0 c0) = RValueError.
Proof.
  intros W Ex pid tmo fuel t0 c0 H. unfold wait_pid.
  destruct (pid <=? 0)%Z eqn:L; [reflexivity | apply Z.leb_gt in L; lia].
Qed.

(* only a blocking wait on a child that never ends can hang; nothing else goes wrong *)
Theorem no_other_outcome : forall p c0 tmo fuel t0 r o' t' sl,
  wf_proc p = true ->
  process_wait (k_waitpid p) (k_exists p) (p_pid p) (fresh c0) tmo fuel t0 = (r, o', t', sl) ->
  match r with
  | RValueError => bad_timeout tmo = true
  | RTypeError => False
  | RHang => tmo = None /\ p_exit p = None /\ p_kind p = Child
  | _ => True
  end.
Proof.
  intros p c0 tmo fuel t0 r o' t' sl WF H.
  destruct (process_wait_fresh _ _ _ _ _ _ _ _ _ WF H) as [(B & -> & _)|(B & s' & P & _)]; [exact B|].
  destruct P as (_ & _ & _ & _ & _ & _ & R). destruct r; try exact I; try exact R; contradiction.
Qed.

(* the cache: once wait() has returned a value, every later call with a valid timeout returns
   that value, immediately, whatever the kernel would answer (no kernel call is made) *)
Theorem wait_cached : forall W Ex pid o tmo fuel t0 r o' t' sl,
  process_wait W Ex pid o tmo fuel t0 = (r, o', t', sl) -> is_value r = true ->
  forall W2 Ex2 tmo2 fuel2 t2, bad_timeout tmo2 = false ->
    process_wait W2 Ex2 pid o' tmo2 fuel2 t2 = (r, o', t2, []).
Proof.
  intros W Ex pid o tmo fuel t0 r o' t' sl H V W2 Ex2 tmo2 fuel2 t2 B2.
  assert (C : exitcode o' = Some r).
  { unfold process_wait in H. destruct (bad_timeout tmo).
    - inversion H. subst. discriminate.
    - destruct (exitcode o) as [c|] eqn:Ec.
      + inversion H. subst. exact Ec.
      + destruct (wait_pid W Ex pid tmo fuel t0 (kcalls o)) as [r0 s0]. inversion H. subst.
        cbn [exitcode]. rewrite V. reflexivity. }
  unfold process_wait. rewrite B2, C. reflexivity.
Qed.

(* any Process.wait(tm) with tm >= 0 on any object (cached or not) returns within tm + 40 ms,
   and at once when tm = 0 *)
Lemma process_wait_bounded : forall p o tm fuel t0 r o' t' sl,
  wf_proc p = true -> 0 <= tm ->
  process_wait (k_waitpid p) (k_exists p) (p_pid p) o (Some tm) fuel t0 = (r, o', t', sl) ->
  t0 <= t' /\ t' < t0 + tm + (1 # 25) /\ (tm == 0 -> t' == t0).
Proof.
  intros p o tm fuel t0 r o' t' sl WF NN H. unfold process_wait in H.
  assert (B : bad_timeout (Some tm) = false).
  { cbn. apply negb_false_iff. apply Qle_bool_iff. exact NN. }
  rewrite B in H. destruct (exitcode o) as [c|].
  - inversion H. subst. split; [lra|]. split; [lra|]. intros _. reflexivity.
  - destruct (wait_pid (k_waitpid p) (k_exists p) (p_pid p) (Some tm) fuel t0 (kcalls o)) as [r0 s0] eqn:Wp.
    inversion H. subst.
    assert (NN' : forall t, Some tm = Some t -> 0 <= t) by (intros t E; inversion E; subst; exact NN).
    pose proof (wait_pid_post _ _ _ _ _ _ _ WF NN' Wp) as (_ & Mono & _ & _ & Bd & Z0 & _).
    cbn [init_wst now] in Mono. specialize (Bd tm eq_refl). specialize (Z0 tm eq_refl).
    unfold cap in Bd. split; [lra|]. split; [lra|]. exact Z0.
Qed.

(* ---- the hypotheses of the theorems above are satisfiable: concrete runs ---- *)
Definition ex_child : proc := mk_proc 7 Child (Some (3 # 1000)) (Killed 9 false) [(1%nat, 0)].
Definition ex_stuck : proc := mk_proc 8 NonChild None (ExitCode 0) [].

Example ex_wait_status : exists o' t' sl,
  wf_proc ex_child = true /\
  process_wait (k_waitpid ex_child) (k_exists ex_child) (p_pid ex_child) (fresh 0) (Some (1 # 10)) 100 0
  = (RInt (-9), o', t', sl) /\ length sl = 5%nat.
Proof. eexists. eexists. eexists. split; [reflexivity|]. split; vm_compute; reflexivity. Qed.

Example ex_wait_timeout : exists o' t' sl,
  wf_proc ex_stuck = true /\
  process_wait (k_waitpid ex_stuck) (k_exists ex_stuck) (p_pid ex_stuck) (fresh 0) (Some (1 # 10)) 100 0
  = (RTimeout (1 # 10) 8, o', t', sl) /\ length sl = 11%nat.
Proof. eexists. eexists. eexists. split; [reflexivity|]. split; vm_compute; reflexivity. Qed.
