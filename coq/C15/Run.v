(* Entry points evaluated by the correspondence harness (props/C15.py). *)
From PV Require Export C15.Spec.
Open Scope Z_scope.
Open Scope Q_scope.

Definition jq (q : Q) : jv := let r := Qred q in JL [JZ (Qnum r); JZ (Zpos (Qden r))].
Definition jqs (l : list Q) : jv := JL (map jq l).
Definition jnat (n : nat) : jv := JZ (Z.of_nat n).

Definition jres (r : wres) : jv :=
  match r with
  | RInt z => JC "Int" [JZ z]
  | RNone => jnone
  | RTimeout sec pid => JC "Timeout" [jq sec; JZ pid]
  | RValueError => JC "ValueError" []
  | RTypeError => JC "TypeError" []
  | RHang => JC "Hang" []
  | ROutOfFuel => JC "OutOfFuel" []
  end.

Inductive wop :=
| OpWait (t : option Q)      (* Process.wait(t) on the one Process object *)
| OpRaw (t : option Q)       (* _psposix.wait_pid(pid, t) directly (no object, no cache) *)
| OpAdvance (dt : Q)         (* the caller lets dt seconds pass *)
| OpOther.                  (* any other public call on the object (is_running, kill, children, name ...):
                               none of them touches _exitcode, so it is a no-op on the modelled object *)

(* one observation per op: result, return instant, sleeps, waitpid calls so far, spec verdicts *)
Fixpoint run_ops (p : proc) (fuel : nat) (ops : list wop) (o : pobj) (t : Q) : list jv :=
  match ops with
  | [] => []
  | OpAdvance dt :: r => run_ops p fuel r o (t + dt)
  | OpOther :: r => run_ops p fuel r o t
  | OpWait tm :: r =>
    let '(res, o', t', sl) := process_wait (k_waitpid p) (k_exists p) (p_pid p) o tm fuel t in
    let ob := {| o_res := res; o_ret := t'; o_sleeps := sl |} in
    JL [jres res; jq t'; jqs sl; jnat (kcalls o');
        jbool (match exitcode o with Some _ => true | None => spec_wait false p t tm ob end);
        jbool (match exitcode o with Some _ => true | None => spec_wait true p t tm ob end)]
    :: run_ops p fuel r o' t'
  | OpRaw tm :: r =>
    let '(res, s) := wait_pid (k_waitpid p) (k_exists p) (p_pid p) tm fuel t (kcalls o) in
    let ob := {| o_res := res; o_ret := now s; o_sleeps := rev (slept s) |} in
    let skip := (p_pid p <=? 0)%Z || bad_timeout tm in
    JL [jres res; jq (now s); jqs (rev (slept s)); jnat (calls s);
        jbool (skip || spec_wait false p t tm ob); jbool (skip || spec_wait true p t tm ob)]
    :: run_ops p fuel r {| exitcode := exitcode o; kcalls := calls s |} (now s)
  end.

Definition run_wait (p : proc) (start : Q) (ops : list wop) (fuel : nat) : jv :=
  JL (run_ops p fuel ops new_pobj start).

(* a fixed priority: every round iterates the alive set in the order of `prio` *)
Definition order_prio (prio : list nat) (_ : nat) (alive : list nat) : list nat :=
  filter (fun i => mem i alive) prio.

Definition jpair (x : nat * wres) : jv := JL [jnat (fst x); jres (snd x)].
Definition jwait (x : nat * Q) : jv := JL [jnat (fst x); jq (snd x)].

Definition run_procs_in (ps : list proc) (input : list nat) (prio : list nat) (timeout : option Q) (cb : cbkind)
    (fuel rounds : nat) (start : Q) : jv :=
  let '(exc, gone, alive, g) :=
      wait_procs_of (map to_ko ps) cb fuel (order_prio prio) input timeout rounds start in
  JL [ jopt jres exc;
       JL (map jnat gone); JL (map jnat alive);
       JL (map jpair (rev (g_rc g)));
       JL (map jnat (rev (g_cb g)));
       jqs (rev (g_sleeps g));
       jq (g_now g);
       JL (map jwait (rev (g_waits g)));
       jbool (spec_procs_in input ps cb start timeout exc gone alive (g_rc g) (g_cb g) (g_now g)) ].

(* every process listed once *)
Definition run_procs (ps : list proc) : list nat -> option Q -> cbkind -> nat -> nat -> Q -> jv :=
  run_procs_in ps (seq 0 (length ps)).

Definition run_decode (st : Z) : jv := jres (decode_status st).

(* ---- histories of one psutil.Popen object ---- *)
Inductive pop :=
| PoWait (t : option Q)   (* psutil's p.wait(t) *)
| PoPoll                  (* p.poll(): the wrapped subprocess object asks the kernel, non-blocking *)
| PoBlock                 (* p.communicate() / leaving `with` / subprocess's own wait: blocks until the exit *)
| PoAdvance (dt : Q)
| PoReuse                 (* the kernel hands the (reaped) PID to a stranger *)
| PoOther.                (* any other public call *)

Definition jsub (rc : option Z) (t : Q) : jv := JL [jopt JZ rc; jq t].

(* once anybody has reaped the child, waitpid says ECHILD and the PID exists only if it was recycled *)
Fixpoint run_pops (p : proc) (fuel : nat) (ops : list pop) (st : popen) (reaped reused : bool) (t : Q) : list jv :=
  match ops with
  | [] => []
  | PoAdvance dt :: r => run_pops p fuel r st reaped reused (t + dt)
  | PoOther :: r => run_pops p fuel r st reaped reused t
  | PoReuse :: r => run_pops p fuel r st reaped (reaped || reused) t
  | PoPoll :: r =>
    match sub_rc st with
    | Some z => jsub (Some z) t :: run_pops p fuel r st reaped reused t
    | None =>
      if ended_by p t
      then let z := spec_code (p_status p) in jsub (Some z) t :: run_pops p fuel r (popen_collect st z) true reused t
      else jsub None t :: run_pops p fuel r st reaped reused t
    end
  | PoBlock :: r =>
    match sub_rc st, p_exit p with
    | Some z, _ => jsub (Some z) t :: run_pops p fuel r st reaped reused t
    | None, Some T =>
      let t' := qmax T t in let z := spec_code (p_status p) in
      jsub (Some z) t' :: run_pops p fuel r (popen_collect st z) true reused t'
    | None, None => [JC "Hang" []]
    end
  | PoWait tm :: r =>
    let W := if reaped then k_waitpid_reaped else k_waitpid p in
    let E := if reaped then k_exists_reaped reused else k_exists p in
    let '(res, st', t', sl) := popen_wait W E (p_pid p) st tm fuel t in
    JL [jres res; jq t'; jqs sl; jnat (kcalls (ps_obj st'))]
    :: run_pops p fuel r st' (reaped || match res with RInt _ => true | _ => false end) reused t'
  end.

Definition run_popen (p : proc) (start : Q) (ops : list pop) (fuel : nat) : jv :=
  JL (run_pops p fuel ops new_popen false false start).

(* ---- what the virtual kernel answers in one scripted situation (compared with the RUNNING kernel by the
   live cases): waitpid(pid, WNOHANG), a blocking waitpid(pid, 0), kill(pid, 0) ---- *)
Definition jwp (w : wp) : jv :=
  match w with
  | WEintr _ => JC "Eintr" []
  | WEchild => JC "Echild" []
  | WRunning => JC "Running" []
  | WStatus _ st => JC "Status" [JZ st]
  | WForever => JC "Blocks" []
  end.

Definition run_kprobe (p : proc) (t : Q) (reaped : bool) : jv :=
  JL [ jwp (if reaped then k_waitpid_reaped 0%nat t true else k_waitpid p 0 t true);
       jwp (if reaped then k_waitpid_reaped 0%nat t false else k_waitpid p 0 t false);
       jbool (if reaped then k_exists_reaped false t else k_exists p t);
       JZ (k_status (p_status p)); jres (decode_status (k_status (p_status p))) ].
