(* C15 -- wait_procs: the gone/alive bookkeeping, for every kernel and every iteration order. *)
From PV Require Import C15.Spec C15.Proofs.
From Coq Require Import Permutation Lia Lqa.
Open Scope Z_scope.
Open Scope Q_scope.

Lemma mem_In : forall i l, mem i l = true <-> In i l.
Proof.
  intros i l. unfold mem. rewrite existsb_exists. split.
  - intros (x & Hx & E). apply Nat.eqb_eq in E. subst. exact Hx.
  - intro H. exists i. split; [exact H | apply Nat.eqb_refl].
Qed.

Lemma minus_In : forall x a g, In x (minus a g) <-> In x a /\ ~ In x g.
Proof.
  intros x a g. unfold minus. rewrite filter_In. split; intros [A B]; split; try exact A.
  - intro C. apply mem_In in C. rewrite C in B. discriminate.
  - destruct (mem x g) eqn:M; [apply mem_In in M; contradiction | reflexivity].
Qed.

Lemma In_dec_nat : forall (x : nat) l, In x l \/ ~ In x l.
Proof. intros x l. destruct (mem x l) eqn:M; [left; apply mem_In; exact M | right; intro H; apply mem_In in H; congruence]. Qed.

Lemma NoDup_app_dj : forall (l1 l2 : list nat), NoDup l1 -> NoDup l2 -> (forall i, In i l1 -> ~ In i l2) -> NoDup (l1 ++ l2).
Proof.
  induction l1 as [|a l1 IH]; intros l2 N1 N2 DJ; [exact N2|]. inversion N1 as [|? ? NI N1']. subst. cbn. constructor.
  - intro H. apply in_app_or in H. destruct H as [H|H]; [contradiction | apply (DJ a); [left; reflexivity | exact H]].
  - apply IH; try assumption. intros i Hi. apply DJ. right. exact Hi.
Qed.

Section Part.
  Variable kos : list koracle.
  Variable cb : cbkind.
  Variable fuel : nat.
  Variable order : nat -> list nat -> list nat.
  Hypothesis order_perm : forall r l, Permutation (order r l) l.

  Definition cb_of (gone : list nat) : list nat := match cb with CbOk _ => rev gone | _ => [] end.

  Definition PInv (g : gst) : Prop :=
    NoDup (g_gone g) /\ map fst (g_rc g) = rev (g_gone g) /\ g_cb g = cb_of (g_gone g).

  Lemma check_gone_shape : forall i tm g e g', check_gone kos cb fuel i tm g = (e, g') ->
    (g_gone g' = g_gone g /\ g_rc g' = g_rc g /\ g_cb g' = g_cb g) \/
    (exists r, g_gone g' = g_gone g ++ [i] /\ g_rc g' = (i, r) :: g_rc g /\
               g_cb g' = match cb with CbOk _ => i :: g_cb g | _ => g_cb g end).
  Proof.
    intros i tm g e g' H. unfold check_gone in H.
    destruct (process_wait _ _ _ _ _ _ _) as [[[r o'] t'] sl].
    destruct r; try (inversion H; subst; left; cbn; auto; fail).
    - (* RInt *) inversion H. subst. right. eexists. cbn. auto.
    - (* RNone *)
      destruct (negb _); inversion H; subst; [right; eexists; cbn; auto | left; cbn; auto].
  Qed.

  Lemma check_gone_pinv : forall i tm g e g', check_gone kos cb fuel i tm g = (e, g') ->
    PInv g -> ~ In i (g_gone g) ->
    PInv g' /\ incl (g_gone g) (g_gone g') /\ (forall x, In x (g_gone g') -> In x (g_gone g) \/ x = i).
  Proof.
    intros i tm g e g' H (N & R & C) NI.
    destruct (check_gone_shape _ _ _ _ _ H) as [(A & B & D)|(r & A & B & D)].
    - unfold PInv. rewrite A, B, D. repeat split; auto.
      + apply incl_refl.
    - unfold PInv. rewrite A, B, D. split; [|split].
      + split; [|split].
        * eapply Permutation_NoDup; [apply Permutation_cons_append|]. constructor; assumption.
        * cbn [map fst]. rewrite R. rewrite rev_unit. reflexivity.
        * rewrite C. unfold cb_of. destruct cb; try reflexivity. rewrite rev_unit. reflexivity.
      + apply incl_appl. apply incl_refl.
      + intros x Hx. apply in_app_or in Hx. destruct Hx as [Hx|[Hx|[]]]; auto.
  Qed.

  Lemma part_refl : forall g (l : list nat), PInv g ->
    PInv g /\ incl (g_gone g) (g_gone g) /\ (forall x, In x (g_gone g) -> In x (g_gone g) \/ In x l).
  Proof. intros g l P. split; [exact P|]. split; [apply incl_refl|]. intros x Hx. left. exact Hx. Qed.

  Lemma outer_refl : forall g (alive : list nat), PInv g -> NoDup alive ->
    (forall x, In x alive -> ~ In x (g_gone g)) ->
    PInv g /\ NoDup alive /\ incl (g_gone g) (g_gone g) /\
    (forall x, In x (g_gone g) -> In x (g_gone g) \/ In x alive) /\
    (forall x, In x alive -> ~ In x (g_gone g)) /\
    (forall x, In x alive -> In x alive \/ In x (g_gone g)) /\ incl alive alive.
  Proof.
    intros g alive P ND DJ. split; [exact P|]. split; [exact ND|]. split; [apply incl_refl|].
    split; [intros x Hx; left; exact Hx|]. split; [exact DJ|]. split; [intros x Hx; left; exact Hx|apply incl_refl].
  Qed.

  Lemma round_part : forall dl n l g cur e g' cur',
    round kos cb fuel dl n l g cur = (e, g', cur') ->
    PInv g -> NoDup l -> (forall x, In x l -> ~ In x (g_gone g)) ->
    PInv g' /\ incl (g_gone g) (g_gone g') /\ (forall x, In x (g_gone g') -> In x (g_gone g) \/ In x l).
  Proof.
    intros dl n l. induction l as [|i r IH]; intros g cur e g' cur' H P ND DJ.
    - cbn in H. inversion H. subst. apply part_refl. exact P.
    - cbn [round] in H. inversion ND as [|? ? NIr NDr]. subst.
      assert (STEP : forall tm e1 g1, check_gone kos cb fuel i tm g = (e1, g1) ->
                PInv g1 /\ incl (g_gone g) (g_gone g1) /\ (forall x, In x (g_gone g1) -> In x (g_gone g) \/ x = i)).
      { intros tm e1 g1 CG. eapply check_gone_pinv; eauto. apply DJ. left. reflexivity. }
      assert (REST : forall g1 cur1, PInv g1 -> incl (g_gone g) (g_gone g1) ->
                (forall x, In x (g_gone g1) -> In x (g_gone g) \/ x = i) ->
                round kos cb fuel dl n r g1 cur1 = (e, g', cur') ->
                PInv g' /\ incl (g_gone g) (g_gone g') /\ (forall x, In x (g_gone g') -> In x (g_gone g) \/ In x (i :: r))).
      { intros g1 cur1 P1 I1 S1 RR.
        destruct (IH g1 cur1 e g' cur' RR P1 NDr) as (P2 & I2 & S2).
        - intros x Hx Hg. destruct (S1 x Hg) as [Hg0| ->]; [|contradiction].
          apply (DJ x); [right; exact Hx | exact Hg0].
        - split; [exact P2|]. split; [eapply incl_tran; eauto|].
          intros x Hx. destruct (S2 x Hx) as [Hx1|Hx1].
          + destruct (S1 x Hx1) as [Hx0| ->]; [left; exact Hx0 | right; left; reflexivity].
          + right. right. exact Hx1. }
      destruct dl as [d|].
      + destruct (Qle_bool _ 0).
        * inversion H. subst. apply part_refl. exact P.
        * destruct (check_gone kos cb fuel i _ g) as [[e1|] g1] eqn:CG.
          -- inversion H. subst. destruct (STEP _ _ _ CG) as (P1 & I1 & S1). split; [exact P1|]. split; [exact I1|].
             intros x Hx. destruct (S1 x Hx) as [A| ->]; [left; exact A | right; left; reflexivity].
          -- destruct (STEP _ _ _ CG) as (P1 & I1 & S1). eapply REST; eauto.
      + destruct (check_gone kos cb fuel i _ g) as [[e1|] g1] eqn:CG.
        * inversion H. subst. destruct (STEP _ _ _ CG) as (P1 & I1 & S1). split; [exact P1|]. split; [exact I1|].
          intros x Hx. destruct (S1 x Hx) as [A| ->]; [left; exact A | right; left; reflexivity].
        * destruct (STEP _ _ _ CG) as (P1 & I1 & S1). eapply REST; eauto.
  Qed.

  Lemma sweep_part : forall l g e g',
    sweep kos cb fuel l g = (e, g') ->
    PInv g -> NoDup l -> (forall x, In x l -> ~ In x (g_gone g)) ->
    PInv g' /\ incl (g_gone g) (g_gone g') /\ (forall x, In x (g_gone g') -> In x (g_gone g) \/ In x l).
  Proof.
    induction l as [|i r IH]; intros g e g' H P ND DJ.
    - cbn in H. inversion H. subst. apply part_refl. exact P.
    - cbn [sweep] in H. inversion ND as [|? ? NIr NDr]. subst.
      destruct (check_gone kos cb fuel i 0 g) as [[e1|] g1] eqn:CG;
        destruct (check_gone_pinv _ _ _ _ _ CG P (DJ i (or_introl eq_refl))) as (P1 & I1 & S1).
      + inversion H. subst. split; [exact P1|]. split; [exact I1|].
        intros x Hx. destruct (S1 x Hx) as [A| ->]; [left; exact A | right; left; reflexivity].
      + destruct (IH g1 e g' H P1 NDr) as (P2 & I2 & S2).
        * intros x Hx Hg. destruct (S1 x Hg) as [Hg0| ->]; [|contradiction].
          apply (DJ x); [right; exact Hx | exact Hg0].
        * split; [exact P2|]. split; [eapply incl_tran; eauto|].
          intros x Hx. destruct (S2 x Hx) as [Hx1|Hx1].
          -- destruct (S1 x Hx1) as [Hx0| ->]; [left; exact Hx0 | right; left; reflexivity].
          -- right. right. exact Hx1.
  Qed.

  Lemma perm_facts : forall r alive g, NoDup alive -> (forall x, In x alive -> ~ In x (g_gone g)) ->
    NoDup (order r alive) /\ (forall x, In x (order r alive) -> ~ In x (g_gone g)) /\
    (forall x, In x (order r alive) -> In x alive).
  Proof.
    intros r alive g ND DJ. pose proof (order_perm r alive) as PM. repeat split.
    - eapply Permutation_NoDup; [apply Permutation_sym; exact PM | exact ND].
    - intros x Hx. apply DJ. eapply Permutation_in; eauto.
    - intros x Hx. eapply Permutation_in; eauto.
  Qed.

  Lemma outer_part : forall rounds dl alive g cur r alive' g' r',
    outer kos cb fuel order rounds dl alive g cur r = (None, alive', g', r') ->
    PInv g -> NoDup alive -> (forall x, In x alive -> ~ In x (g_gone g)) ->
    PInv g' /\ NoDup alive' /\ incl (g_gone g) (g_gone g') /\
    (forall x, In x (g_gone g') -> In x (g_gone g) \/ In x alive) /\
    (forall x, In x alive' -> ~ In x (g_gone g')) /\
    (forall x, In x alive -> In x alive' \/ In x (g_gone g')) /\ incl alive' alive.
  Proof.
    induction rounds as [|f IH]; intros dl alive g cur r alive' g' r' H P ND DJ.
    - cbn [outer] in H. destruct alive as [|a al].
      + inversion H. subst. apply outer_refl; assumption.
      + destruct (match cur with Some t => Qle_bool t 0 | None => false end); [|discriminate].
        inversion H. subst. apply outer_refl; assumption.
    - cbn [outer] in H. destruct alive as [|a al].
      + inversion H. subst. apply outer_refl; assumption.
      + destruct (match cur with Some t => Qle_bool t 0 | None => false end).
        * inversion H. subst. apply outer_refl; assumption.
        * set (alive := a :: al) in *.
          destruct (round kos cb fuel dl (length alive) (order r alive) g cur) as [[[e1|] g1] cur1] eqn:RD; [discriminate|].
          destruct (perm_facts r alive g ND DJ) as (ND1 & DJ1 & SUB1).
          destruct (round_part _ _ _ _ _ _ _ _ RD P ND1 DJ1) as (P1 & I1 & S1).
          assert (ND2 : NoDup (minus alive (g_gone g1))) by (apply NoDup_filter; exact ND).
          assert (DJ2 : forall x, In x (minus alive (g_gone g1)) -> ~ In x (g_gone g1)).
          { intros x Hx. apply minus_In in Hx. apply Hx. }
          destruct (IH _ _ _ _ _ _ _ _ H P1 ND2 DJ2) as (P2 & NDa & I2 & S2 & DJa & COV & SUB).
          split; [exact P2|]. split; [exact NDa|]. split; [eapply incl_tran; eauto|].
          split; [|split; [exact DJa|split]].
          -- intros x Hx. destruct (S2 x Hx) as [A|A].
             ++ destruct (S1 x A) as [B|B]; [left; exact B | right; apply SUB1; exact B].
             ++ right. apply minus_In in A. apply A.
          -- intros x Hx. destruct (In_dec_nat x (g_gone g1)) as [G|G].
             ++ right. apply I2. exact G.
             ++ apply COV. apply minus_In. split; assumption.
          -- intros x Hx. apply SUB in Hx. apply minus_In in Hx. apply Hx.
  Qed.

  (* gone and alive partition the input; returncode is assigned exactly once to each gone process
     (and to no other), the callback is called exactly once for each gone process, in that order *)
  Theorem wait_procs_partition : forall tmo rounds start gone alive g,
    wait_procs kos cb fuel order tmo rounds start = (None, gone, alive, g) ->
    NoDup gone /\ NoDup alive /\ (forall i, In i gone -> ~ In i alive) /\
    (forall i, (i < length kos)%nat <-> In i gone \/ In i alive) /\
    map fst (g_rc g) = rev gone /\
    g_cb g = match cb with CbOk _ => rev gone | _ => [] end.
  Proof.
    intros tmo rounds start gone alive g H. unfold wait_procs, wait_procs_from in H.
    destruct (bad_timeout tmo); [discriminate|].
    set (g0 := {| g_now := start; g_objs := map (fun _ => new_pobj) kos; g_gone := []; g_rc := [];
                  g_cb := []; g_sleeps := []; g_waits := [] |}) in *.
    assert (P0 : PInv g0). { unfold PInv, cb_of. cbn. repeat split; try constructor. destruct cb; reflexivity. }
    assert (CB : match cb with CbBad => False | _ => True end) by (destruct cb; try exact I; discriminate).
    assert (H' : match outer kos cb fuel order rounds (match tmo with Some t => Some (start + t) | None => None end)
                         (seq 0 (length kos)) g0 tmo 0 with
                 | (Some e, alive, g, _) => (Some e, [], alive, g)
                 | (None, alive, g, r) =>
                   match sweep kos cb fuel (order r alive) g with
                   | (Some e, g') => (Some e, [], alive, g')
                   | (None, g') => (None, g_gone g', minus alive (g_gone g'), g')
                   end
                 end = (None, gone, alive, g)) by (destruct cb; try exact H; contradiction).
    clear H.
    destruct (outer _ _ _ _ _ _ _ _ _ _) as [[[[e1|] alive1] g1] r1] eqn:OU; [discriminate|].
    assert (ND0 : NoDup (seq 0 (length kos))) by apply seq_NoDup.
    assert (DJ0 : forall x, In x (seq 0 (length kos)) -> ~ In x (g_gone g0)) by (intros x _ []).
    destruct (outer_part _ _ _ _ _ _ _ _ _ OU P0 ND0 DJ0) as (P1 & ND1 & I1 & S1 & DJ1 & COV1 & SUB1).
    destruct (sweep kos cb fuel (order r1 alive1) g1) as [[e2|] g2] eqn:SW; [discriminate|].
    inversion H'. subst gone alive g. clear H'.
    destruct (perm_facts r1 alive1 g1 ND1 DJ1) as (NDo & DJo & SUBo).
    destruct (sweep_part _ _ _ _ SW P1 NDo DJo) as (P2 & I2 & S2).
    destruct P2 as (N2 & R2 & C2).
    split; [exact N2|]. split; [apply NoDup_filter; exact ND1|].
    split; [intros i Hi Ha; apply minus_In in Ha; apply Ha; exact Hi|].
    split; [|split; [exact R2 | exact C2]].
    intro i. split.
    - intro Lt. assert (In i (seq 0 (length kos))) as Hs by (apply in_seq; lia).
      destruct (COV1 i Hs) as [A|A].
      + destruct (In_dec_nat i (g_gone g2)) as [G|G]; [left; exact G | right; apply minus_In; split; assumption].
      + left. apply I2. exact A.
    - intros [Hg|Ha].
      + destruct (S2 i Hg) as [A|A].
        * destruct (S1 i A) as [[]|B]. apply in_seq in B. lia.
        * apply SUBo in A. apply SUB1 in A. apply in_seq in A. lia.
      + apply minus_In in Ha. destruct Ha as [Ha _]. apply SUB1 in Ha. apply in_seq in Ha. lia.
  Qed.
  (* the same for ANY duplicate-free list of processes to start from ... *)
  Theorem wait_procs_from_partition : forall alive0 tmo rounds start gone alive g,
    NoDup alive0 ->
    wait_procs_from kos cb fuel order alive0 tmo rounds start = (None, gone, alive, g) ->
    NoDup gone /\ NoDup alive /\ (forall i, In i gone -> ~ In i alive) /\
    (forall i, In i alive0 <-> In i gone \/ In i alive) /\
    map fst (g_rc g) = rev gone /\
    g_cb g = match cb with CbOk _ => rev gone | _ => [] end.
  Proof.
    intros alive0 tmo rounds start gone alive g ND0 H. unfold wait_procs_from in H.
    destruct (bad_timeout tmo); [discriminate|].
    set (g0 := {| g_now := start; g_objs := map (fun _ => new_pobj) kos; g_gone := []; g_rc := [];
                  g_cb := []; g_sleeps := []; g_waits := [] |}) in *.
    assert (P0 : PInv g0). { unfold PInv, cb_of. cbn. repeat split; try constructor. destruct cb; reflexivity. }
    assert (CB : match cb with CbBad => False | _ => True end) by (destruct cb; try exact I; discriminate).
    assert (H' : match outer kos cb fuel order rounds (match tmo with Some t => Some (start + t) | None => None end)
                         alive0 g0 tmo 0 with
                 | (Some e, alive, g, _) => (Some e, [], alive, g)
                 | (None, alive, g, r) =>
                   match sweep kos cb fuel (order r alive) g with
                   | (Some e, g') => (Some e, [], alive, g')
                   | (None, g') => (None, g_gone g', minus alive (g_gone g'), g')
                   end
                 end = (None, gone, alive, g)) by (destruct cb; try exact H; contradiction).
    clear H.
    destruct (outer _ _ _ _ _ _ _ _ _ _) as [[[[e1|] alive1] g1] r1] eqn:OU; [discriminate|].
    assert (DJ0 : forall x, In x alive0 -> ~ In x (g_gone g0)) by (intros x _ []).
    destruct (outer_part _ _ _ _ _ _ _ _ _ OU P0 ND0 DJ0) as (P1 & ND1 & I1 & S1 & DJ1 & COV1 & SUB1).
    destruct (sweep kos cb fuel (order r1 alive1) g1) as [[e2|] g2] eqn:SW; [discriminate|].
    inversion H'. subst gone alive g. clear H'.
    destruct (perm_facts r1 alive1 g1 ND1 DJ1) as (NDo & DJo & SUBo).
    destruct (sweep_part _ _ _ _ SW P1 NDo DJo) as (P2 & I2 & S2).
    destruct P2 as (N2 & R2 & C2).
    split; [exact N2|]. split; [apply NoDup_filter; exact ND1|].
    split; [intros i Hi Ha; apply minus_In in Ha; apply Ha; exact Hi|].
    split; [|split; [exact R2 | exact C2]].
    intro i. split.
    - intro Hs.
      destruct (COV1 i Hs) as [A|A].
      + destruct (In_dec_nat i (g_gone g2)) as [G|G]; [left; exact G | right; apply minus_In; split; assumption].
      + left. apply I2. exact A.
    - intros [Hg|Ha].
      + destruct (S2 i Hg) as [A|A].
        * destruct (S1 i A) as [[]|B]. exact B.
        * apply SUBo in A. apply SUB1 in A. exact A.
      + apply minus_In in Ha. destruct Ha as [Ha _]. apply SUB1 in Ha. exact Ha.
  Qed.

  (* ... hence for an input with ALIASES (an object listed twice, equal objects of one process): the returned
     lists are duplicate-free, disjoint, and partition the set of DISTINCT processes of the input; returncode is
     assigned, and the callback called, exactly once per gone process *)
  Theorem wait_procs_of_partition : forall input tmo rounds start gone alive g,
    wait_procs_of kos cb fuel order input tmo rounds start = (None, gone, alive, g) ->
    NoDup gone /\ NoDup alive /\ (forall i, In i gone -> ~ In i alive) /\
    (forall i, In i input <-> In i gone \/ In i alive) /\
    (length gone + length alive = length (nodup Nat.eq_dec input))%nat /\
    map fst (g_rc g) = rev gone /\
    g_cb g = match cb with CbOk _ => rev gone | _ => [] end.
  Proof.
    intros input tmo rounds start gone alive g H. unfold wait_procs_of in H.
    destruct (wait_procs_from_partition _ _ _ _ _ _ _ (NoDup_nodup Nat.eq_dec input) H) as (NG & NA & DJ & COV & RC & CBq).
    split; [exact NG|]. split; [exact NA|]. split; [exact DJ|].
    split; [intro i; rewrite <- COV; symmetry; apply nodup_In|].
    split; [|split; assumption].
    rewrite <- app_length. apply Permutation_length. apply NoDup_Permutation.
    - apply NoDup_app_dj; assumption.
    - apply NoDup_nodup.
    - intro x. rewrite in_app_iff. symmetry. apply COV.
  Qed.

End Part.

(* ---- wait_procs returns before timeout + one 40 ms poll, for every iteration order ---- *)
Section Deadline.
  Variable ps : list proc.
  Variable cb : cbkind.
  Variable fuel : nat.
  Variable order : nat -> list nat -> list nat.
  Hypothesis order_perm : forall r l, Permutation (order r l) l.
  Hypothesis wf_all : forallb wf_proc ps = true.
  Let kos := map to_ko ps.

  Definition dproc : proc := mk_proc 1 NeverExisted None (ExitCode 0) [].

  Lemma kos_nth : forall i, (i < length ps)%nat ->
    nth i kos dummy_ko = to_ko (nth i ps dproc) /\ wf_proc (nth i ps dproc) = true.
  Proof.
    intros i L. split.
    - unfold kos. rewrite (nth_indep (map to_ko ps) dummy_ko (to_ko dproc)) by (rewrite map_length; exact L).
      apply map_nth.
    - rewrite forallb_forall in wf_all. apply wf_all. apply nth_In. exact L.
  Qed.

  Lemma check_gone_time : forall i tm g e g',
    (i < length ps)%nat -> 0 <= tm ->
    check_gone kos cb fuel i tm g = (e, g') ->
    g_now g <= g_now g' /\ g_now g' < g_now g + tm + (1 # 25) /\ (tm == 0 -> g_now g' == g_now g).
  Proof.
    intros i tm g e g' L NN H. unfold check_gone in H.
    destruct (kos_nth i L) as [KN WF]. rewrite KN in H. cbn [to_ko ko_wp ko_ex ko_pid] in H.
    destruct (process_wait _ _ _ _ _ _ _) as [[[r o'] t'] sl] eqn:PW.
    pose proof (process_wait_bounded _ _ _ _ _ _ _ _ _ WF NN PW) as BD.
    destruct r; try (inversion H; subst; cbn [g_now]; exact BD).
    destruct (negb _); inversion H; subst; cbn [g_now]; exact BD.
  Qed.

  Lemma round_time : forall d n l g cur e g' cur',
    round kos cb fuel (Some d) n l g cur = (e, g', cur') ->
    (forall x, In x l -> (x < length ps)%nat) ->
    g_now g < d + (1 # 25) -> g_now g' < d + (1 # 25).
  Proof.
    intros d n l. induction l as [|i r IH]; intros g cur e g' cur' H IN B.
    - cbn in H. inversion H. subst. exact B.
    - cbn [round] in H.
      destruct (Qle_bool (qmin (d - g_now g) (1 # Pos.of_nat n)) 0) eqn:LE.
      + inversion H. subst. exact B.
      + apply Qle_bool_false in LE.
        set (t := qmin (d - g_now g) (1 # Pos.of_nat n)) in *.
        assert (TB : t <= d - g_now g).
        { subst t. destruct (qmin_cases (d - g_now g) (1 # Pos.of_nat n)) as [[A ->]|[A ->]]; lra. }
        destruct (check_gone kos cb fuel i t g) as [[e1|] g1] eqn:CG;
          (assert (0 <= t) as NN by lra);
          destruct (check_gone_time _ _ _ _ _ (IN i (or_introl eq_refl)) NN CG) as (M1 & M2 & _).
        * inversion H. subst. lra.
        * eapply IH; eauto. -- intros x Hx. apply IN. right. exact Hx. -- lra.
  Qed.

  Lemma sweep_time : forall l g e g',
    sweep kos cb fuel l g = (e, g') ->
    (forall x, In x l -> (x < length ps)%nat) -> g_now g' == g_now g.
  Proof.
    induction l as [|i r IH]; intros g e g' H IN.
    - cbn in H. inversion H. subst. reflexivity.
    - cbn [sweep] in H.
      destruct (check_gone kos cb fuel i 0 g) as [[e1|] g1] eqn:CG;
        (assert (0 <= 0) as NN by lra);
        destruct (check_gone_time _ _ _ _ _ (IN i (or_introl eq_refl)) NN CG) as (_ & _ & Z).
      + inversion H. subst. apply Z. reflexivity.
      + rewrite (IH g1 e g' H); [apply Z; reflexivity|]. intros x Hx. apply IN. right. exact Hx.
  Qed.

  Lemma minus_sub : forall a g x, In x (minus a g) -> In x a.
  Proof. intros a g x H. unfold minus in H. apply filter_In in H. apply H. Qed.

  Lemma outer_time : forall rounds d alive g cur r e alive' g' r',
    outer kos cb fuel order rounds (Some d) alive g cur r = (e, alive', g', r') ->
    (forall x, In x alive -> (x < length ps)%nat) ->
    g_now g < d + (1 # 25) ->
    g_now g' < d + (1 # 25) /\ (forall x, In x alive' -> (x < length ps)%nat).
  Proof.
    induction rounds as [|f IH]; intros d alive g cur r e alive' g' r' H IN B.
    - cbn [outer] in H. destruct alive as [|a al]; [inversion H; subst; split; assumption|].
      destruct (match cur with Some t => Qle_bool t 0 | None => false end); inversion H; subst; split; assumption.
    - cbn [outer] in H. destruct alive as [|a al]; [inversion H; subst; split; assumption|].
      destruct (match cur with Some t => Qle_bool t 0 | None => false end); [inversion H; subst; split; assumption|].
      set (alive := a :: al) in *.
      destruct (round kos cb fuel (Some d) (length alive) (order r alive) g cur) as [[[e1|] g1] cur1] eqn:RD.
      + inversion H. subst. split; [|exact IN]. eapply round_time; eauto.
        intros x Hx. apply IN. eapply Permutation_in; [apply order_perm | exact Hx].
      + assert (B1 : g_now g1 < d + (1 # 25)).
        { eapply round_time; eauto. intros x Hx. apply IN. eapply Permutation_in; [apply order_perm | exact Hx]. }
        eapply IH; eauto. intros x Hx. apply IN. eapply minus_sub. exact Hx.
  Qed.

  Theorem wait_procs_deadline : forall tm rounds start e gone alive g,
    0 <= tm ->
    wait_procs kos cb fuel order (Some tm) rounds start = (e, gone, alive, g) ->
    g_now g < start + tm + (1 # 25).
  Proof.
    intros tm rounds start e gone alive g NN H. unfold wait_procs, wait_procs_from in H.
    assert (B : bad_timeout (Some tm) = false) by (cbn; apply negb_false_iff; apply Qle_bool_iff; exact NN).
    rewrite B in H.
    set (g0 := {| g_now := start; g_objs := map (fun _ => new_pobj) kos; g_gone := []; g_rc := [];
                  g_cb := []; g_sleeps := []; g_waits := [] |}) in *.
    assert (B0 : g_now g0 < start + tm + (1 # 25)) by (cbn; lra).
    assert (IN0 : forall x, In x (seq 0 (length kos)) -> (x < length ps)%nat).
    { intros x Hx. apply in_seq in Hx. unfold kos in Hx. rewrite map_length in Hx. lia. }
    assert (MAIN : forall X : option wres * list nat * list nat * gst,
      match outer kos cb fuel order rounds (Some (start + tm)) (seq 0 (length kos)) g0 (Some tm) 0 with
      | (Some e, alive, g, _) => (Some e, [], alive, g)
      | (None, alive, g, r) =>
        match sweep kos cb fuel (order r alive) g with
        | (Some e, g') => (Some e, [], alive, g')
        | (None, g') => (None, g_gone g', minus alive (g_gone g'), g')
        end
      end = X -> g_now (snd X) < start + tm + (1 # 25)).
    { intros X HX.
      destruct (outer _ _ _ _ _ _ _ _ _ _) as [[[e1 alive1] g1] r1] eqn:OU.
      destruct (outer_time _ _ _ _ _ _ _ _ _ _ OU IN0 B0) as (B1 & IN1).
      destruct e1 as [e1|].
      - subst X. cbn [snd]. exact B1.
      - destruct (sweep kos cb fuel (order r1 alive1) g1) as [[e2|] g2] eqn:SW;
          (assert (SZ : g_now g2 == g_now g1)
             by (eapply sweep_time; eauto; intros x Hx; apply IN1; eapply Permutation_in; [apply order_perm | exact Hx]));
          subst X; cbn [snd]; lra. }
    destruct cb.
    - specialize (MAIN _ H). exact MAIN.
    - specialize (MAIN _ H). exact MAIN.
    - inversion H. subst. exact B0.
  Qed.

  Theorem wait_procs_from_deadline : forall alive0 tm rounds start e gone alive g,
    0 <= tm -> (forall x, In x alive0 -> (x < length ps)%nat) ->
    wait_procs_from kos cb fuel order alive0 (Some tm) rounds start = (e, gone, alive, g) ->
    g_now g < start + tm + (1 # 25).
  Proof.
    intros alive0 tm rounds start e gone alive g NN IN0 H. unfold wait_procs_from in H.
    assert (B : bad_timeout (Some tm) = false) by (cbn; apply negb_false_iff; apply Qle_bool_iff; exact NN).
    rewrite B in H.
    set (g0 := {| g_now := start; g_objs := map (fun _ => new_pobj) kos; g_gone := []; g_rc := [];
                  g_cb := []; g_sleeps := []; g_waits := [] |}) in *.
    assert (B0 : g_now g0 < start + tm + (1 # 25)) by (cbn; lra).
    assert (MAIN : forall X : option wres * list nat * list nat * gst,
      match outer kos cb fuel order rounds (Some (start + tm)) alive0 g0 (Some tm) 0 with
      | (Some e, alive, g, _) => (Some e, [], alive, g)
      | (None, alive, g, r) =>
        match sweep kos cb fuel (order r alive) g with
        | (Some e, g') => (Some e, [], alive, g')
        | (None, g') => (None, g_gone g', minus alive (g_gone g'), g')
        end
      end = X -> g_now (snd X) < start + tm + (1 # 25)).
    { intros X HX.
      destruct (outer _ _ _ _ _ _ _ _ _ _) as [[[e1 alive1] g1] r1] eqn:OU.
      destruct (outer_time _ _ _ _ _ _ _ _ _ _ OU IN0 B0) as (B1 & IN1).
      destruct e1 as [e1|].
      - subst X. cbn [snd]. exact B1.
      - destruct (sweep kos cb fuel (order r1 alive1) g1) as [[e2|] g2] eqn:SW;
          (assert (SZ : g_now g2 == g_now g1)
             by (eapply sweep_time; eauto; intros x Hx; apply IN1; eapply Permutation_in; [apply order_perm | exact Hx]));
          subst X; cbn [snd]; lra. }
    destruct cb.
    - specialize (MAIN _ H). exact MAIN.
    - specialize (MAIN _ H). exact MAIN.
    - inversion H. subst. exact B0.
  Qed.
End Deadline.

Example ex_procs : exists g,
  wait_procs (map to_ko [ex_child; ex_stuck]) (CbOk false) 100 (fun _ l => l) (Some (1 # 10)) 50 0 = (None, [0%nat], [1%nat], g)
  /\ g_cb g = [0%nat] /\ forallb wf_proc [ex_child; ex_stuck] = true.
Proof. eexists. split; [vm_compute; reflexivity|]. split; reflexivity. Qed.

(* ---- the callback's truth value is never looked at ---- *)
Section TruthBlind.
  Variable kos : list koracle.
  Variable fuel : nat.
  Variable order : nat -> list nat -> list nat.
  Variables b1 b2 : bool.

  Lemma check_gone_blind : forall i tm g,
    check_gone kos (CbOk b1) fuel i tm g = check_gone kos (CbOk b2) fuel i tm g.
  Proof. intros. reflexivity. Qed.

  Lemma round_blind : forall dl n l g cur,
    round kos (CbOk b1) fuel dl n l g cur = round kos (CbOk b2) fuel dl n l g cur.
  Proof.
    intros dl n l. induction l as [|i r IH]; intros g cur; [reflexivity|]. cbn [round].
    destruct dl as [d|].
    - destruct (Qle_bool _ 0); [reflexivity|]. rewrite check_gone_blind.
      destruct (check_gone kos (CbOk b2) fuel i _ g) as [[e|] g1]; [reflexivity | apply IH].
    - rewrite check_gone_blind.
      destruct (check_gone kos (CbOk b2) fuel i _ g) as [[e|] g1]; [reflexivity | apply IH].
  Qed.

  Lemma sweep_blind : forall l g, sweep kos (CbOk b1) fuel l g = sweep kos (CbOk b2) fuel l g.
  Proof.
    induction l as [|i r IH]; intro g; [reflexivity|]. cbn [sweep]. rewrite check_gone_blind.
    destruct (check_gone kos (CbOk b2) fuel i 0 g) as [[e|] g1]; [reflexivity | apply IH].
  Qed.

  Lemma outer_blind : forall f dl alive g cur r,
    outer kos (CbOk b1) fuel order f dl alive g cur r = outer kos (CbOk b2) fuel order f dl alive g cur r.
  Proof.
    induction f as [|f IH]; intros dl alive g cur r; [reflexivity|]. cbn [outer].
    destruct alive as [|a al]; [reflexivity|].
    destruct (match cur with Some t => Qle_bool t 0 | None => false end); [reflexivity|].
    rewrite round_blind.
    destruct (round kos (CbOk b2) fuel dl (length (a :: al)) (order r (a :: al)) g cur) as [[[e|] g1] c1]; [reflexivity|].
    apply IH.
  Qed.

  (* a falsy callable and a truthy one give the very same run: same gone/alive, same callback calls *)
  Theorem wait_procs_truth_blind : forall tmo rounds start,
    wait_procs kos (CbOk b1) fuel order tmo rounds start = wait_procs kos (CbOk b2) fuel order tmo rounds start.
  Proof.
    intros tmo rounds start. unfold wait_procs, wait_procs_from. destruct (bad_timeout tmo); [reflexivity|].
    rewrite outer_blind.
    destruct (outer kos (CbOk b2) fuel order rounds _ _ _ tmo 0) as [[[[e|] alive] g] r]; [reflexivity|].
    rewrite sweep_blind. reflexivity.
  Qed.
End TruthBlind.

(* the callback is called exactly once for each gone process, in the order they were found gone, for EVERY
   callable -- whatever bool(callback) is -- every kernel and every iteration order *)
Theorem wait_procs_callback_any_callable : forall kos truthy fuel order,
  (forall r l, Permutation (order r l) l) ->
  forall tmo rounds start gone alive g,
  wait_procs kos (CbOk truthy) fuel order tmo rounds start = (None, gone, alive, g) ->
  g_cb g = rev gone /\ NoDup gone.
Proof.
  intros kos truthy fuel order OP tmo rounds start gone alive g H.
  destruct (wait_procs_partition kos (CbOk truthy) fuel order OP _ _ _ _ _ _ H) as (NG & _ & _ & _ & _ & CB).
  split; assumption.
Qed.
