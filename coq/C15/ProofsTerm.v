(* C15 -- termination: fuel bounds of the polling loop. *)
From PV Require Import C15.Spec C15.Proofs.
From Coq Require Import Lqa Lia Qround.
Open Scope Z_scope.
Open Scope Q_scope.

Lemma raw_9 : cap < raw_ival 9.
Proof. unfold Qlt. vm_compute. reflexivity. Qed.

Lemma raw_ge_9 : forall k, (9 <= k)%nat -> cap < raw_ival k.
Proof.
  induction k as [|k IH]; intro H; [lia|].
  destruct (Nat.eq_dec (S k) 9) as [E|E]; [rewrite E; exact raw_9|].
  assert (H' : (9 <= k)%nat) by lia. specialize (IH H').
  pose proof (raw_succ k). pose proof (raw_pos k). unfold cap in *. lra.
Qed.

Lemma ival_cap : forall k, (9 <= k)%nat -> ival k == 1 # 25.
Proof.
  intros k H. pose proof (raw_ge_9 k H) as R. unfold ival.
  destruct (qmin_cases (raw_ival k) cap) as [[A ->]|[A ->]]; unfold cap in *; lra.
Qed.

Lemma inj_S : forall m, inject_Z (Z.of_nat (S m)) == inject_Z (Z.of_nat m) + 1.
Proof. intro m. rewrite Nat2Z.inj_succ. unfold Z.succ. rewrite inject_Z_plus. reflexivity. Qed.

Lemma decode_not_oof : forall st, decode_status st <> ROutOfFuel.
Proof.
  intro st. unfold decode_status.
  destruct (Z.land st 127 =? 0)%Z; [discriminate|].
  destruct ((1 <=? Z.land st 127) && (Z.land st 127 <=? 126))%Z; discriminate.
Qed.

(* X - now <= n * 40 ms: at most n capped sleeps until the clock reaches X *)
Definition TI (X : Q) (s : wst) (n : nat) : Prop :=
  0 < interval s /\ interval s == ival (length (slept s)) /\
  X - now s <= inject_Z (Z.of_nat n) * cap.
Definition Lrem (s : wst) : nat := (9 - length (slept s))%nat.   (* doublings left *)

Lemma ti_sleep_weak : forall X s n, TI X s n ->
  TI X (do_sleep s) n /\ (Lrem (do_sleep s) <= Lrem s)%nat.
Proof.
  intros X s n (A & B & C). unfold TI, Lrem, do_sleep. cbn [now interval slept length].
  pose proof (ival_step _ _ B) as ST. pose proof (ival_pos (S (length (slept s)))) as PS.
  unfold cap in *.
  split; [|lia]. split; [lra|]. split; [exact ST|]. lra.
Qed.

Lemma ti_sleep_strict : forall X s n, TI X s n -> now s < X ->
  exists n', TI X (do_sleep s) n' /\ (n' + Lrem (do_sleep s) + 1 <= n + Lrem s)%nat.
Proof.
  intros X s n (A & B & C) Lt. unfold TI, Lrem, do_sleep. cbn [now interval slept length].
  pose proof (ival_step _ _ B) as ST. pose proof (ival_pos (S (length (slept s)))) as PS.
  unfold cap in *.
  destruct (Nat.lt_ge_cases (length (slept s)) 9) as [Small|Big].
  - exists n. split; [|lia]. split; [lra|]. split; [exact ST|]. lra.
  - destruct n as [|m].
    + exfalso. change (inject_Z (Z.of_nat 0)) with 0 in C. lra.
    + exists m. split; [|lia]. split; [lra|]. split; [exact ST|].
      pose proof (ival_cap _ Big) as IC. rewrite inj_S in C. lra.
Qed.

Lemma ti_at_time : forall X s n t, TI X s n -> now s <= t ->
  TI X (at_time s t) n /\ Lrem (at_time s t) = Lrem s.
Proof.
  intros X s n t (A & B & C) M. unfold TI, Lrem, at_time. cbn [now interval slept].
  split; [|reflexivity]. split; [exact A|]. split; [exact B|]. lra.
Qed.

(* ---- with a timeout: for EVERY kernel whose clock does not run backwards ---- *)
Definition causal (W : nat -> Q -> bool -> wp) : Prop :=
  forall i t0 h t, W i t0 h = WEintr t -> t0 <= t.

Section TermTimeout.
  Variable W : nat -> Q -> bool -> wp.
  Variable E : Q -> bool.
  Variable pid : Z.
  Variable tm : Q.
  Variable stop : Q.
  Hypothesis W_causal : causal W.

  Definition cost (ph : phase) : nat := match ph with PWait => 2%nat | PExists => 1%nat end.

  Lemma loop_term : forall fuel ph s n,
    TI stop s n -> (n + Lrem s + cost ph <= fuel)%nat ->
    fst (loop W E pid (Some tm) stop fuel ph s) <> ROutOfFuel.
  Proof.
    induction fuel as [|f IH]; intros ph s n T B.
    - destruct ph; cbn [cost] in B; lia.
    - assert (SLEEP : forall s2, TI stop s2 n -> Lrem s2 = Lrem s -> (n + Lrem s + 2 <= S f)%nat ->
                fst (if expired (Some tm) stop s2 then (timeout_exc pid (Some tm), s2)
                     else loop W E pid (Some tm) stop f PWait (do_sleep s2)) <> ROutOfFuel).
      { intros s2 T2 L2 B2. destruct (expired (Some tm) stop s2) eqn:X; [cbn; discriminate|].
        cbn [expired] in X. apply Qle_bool_false in X.
        destruct (ti_sleep_strict _ _ _ T2 X) as (n' & T3 & B3).
        apply (IH PWait _ n' T3). cbn [cost]. lia. }
      destruct ph; cbn [loop].
      + cbn [cost] in B.
        destruct (W (calls s) (now s) (nohang (Some tm))) as [t| | |t st|] eqn:WW.
        * pose proof (W_causal _ _ _ _ WW) as Ct.
          destruct (ti_at_time stop (bump s) n t T Ct) as [T2 L2].
          apply SLEEP; [exact T2 | exact L2 | exact B].
        * apply (IH PExists (bump s) n T). cbn [cost]. unfold Lrem in *. cbn [bump slept]. lia.
        * apply SLEEP; [exact T | reflexivity | exact B].
        * cbn [fst]. apply decode_not_oof.
        * cbn. discriminate.
      + cbn [cost] in B. destruct (E (now s)); [|cbn; discriminate].
        destruct (expired (Some tm) stop s) eqn:X; [cbn; discriminate|].
        cbn [expired] in X. apply Qle_bool_false in X.
        destruct (ti_sleep_strict _ _ _ T X) as (n' & T3 & B3).
        apply (IH PExists _ n' T3). cbn [cost]. lia.
  Qed.
End TermTimeout.

Lemma ceil_bound : forall x, x <= inject_Z (Z.of_nat (Z.to_nat (Qceiling (x * 25)))) * cap.
Proof.
  intro x. pose proof (Qle_ceiling (x * 25)) as C.
  assert (Z1 : (Qceiling (x * 25) <= Z.of_nat (Z.to_nat (Qceiling (x * 25))))%Z) by lia.
  rewrite Zle_Qle in Z1. unfold cap. lra.
Qed.

(* with a timeout, wait_pid never needs more than ceil(25 * timeout) + 12 loop steps: for every kernel,
   every EINTR placement, every start instant, every PID *)
Theorem wait_pid_terminates : forall W E pid tm fuel start c0,
  causal W -> (polls_bound tm <= fuel)%nat ->
  fst (wait_pid W E pid (Some tm) fuel start c0) <> ROutOfFuel.
Proof.
  intros W E pid tm fuel start c0 CW B. unfold wait_pid.
  destruct (pid <=? 0)%Z; [cbn; discriminate|].
  apply (loop_term W E pid tm (start + tm) CW fuel PWait (init_wst start c0) (Z.to_nat (Qceiling (tm * 25)))).
  - unfold TI, init_wst. cbn [now interval slept length].
    split; [unfold interval0; lra|]. split; [symmetry; exact ival_0|].
    pose proof (ceil_bound tm). lra.
  - unfold polls_bound in B. unfold Lrem, init_wst. cbn [slept length cost]. lia.
Qed.

Lemma k_waitpid_causal : forall p, wf_proc p = true -> causal (k_waitpid p).
Proof.
  intros p WF i t0 h t H. destruct (wf_proc_parts _ WF) as (_ & _ & WE).
  unfold k_waitpid in H. destruct (eintr_at p i) as [d|] eqn:Ei.
  - pose proof (WE _ _ Ei) as D0.
    destruct h; [inversion H; subst; lra|].
    destruct (p_kind p); try (inversion H; subst; lra).
    destruct (p_exit p) as [T|]; [|inversion H; subst; lra].
    destruct (Qle_bool (t0 + d) (qmax T t0)); inversion H; subst; lra.
  - destruct (p_kind p); try discriminate.
    destruct (p_exit p) as [T|].
    + destruct (Qle_bool T t0); [discriminate|]. destruct h; discriminate.
    + destruct h; discriminate.
Qed.

Theorem process_wait_terminates : forall p c0 tm fuel t0 r o' t' sl,
  wf_proc p = true -> (polls_bound tm <= fuel)%nat ->
  process_wait (k_waitpid p) (k_exists p) (p_pid p) (fresh c0) (Some tm) fuel t0 = (r, o', t', sl) ->
  r <> ROutOfFuel.
Proof.
  intros p c0 tm fuel t0 r o' t' sl WF B H. unfold process_wait in H.
  destruct (bad_timeout (Some tm)); [inversion H; discriminate|].
  cbn [exitcode fresh kcalls] in H.
  pose proof (wait_pid_terminates (k_waitpid p) (k_exists p) (p_pid p) tm fuel t0 c0 (k_waitpid_causal _ WF) B) as NT.
  destruct (wait_pid (k_waitpid p) (k_exists p) (p_pid p) (Some tm) fuel t0 c0) as [r0 s0].
  inversion H. subst. exact NT.
Qed.

(* ---- without a timeout: the virtual kernel of a process that ends at a finite instant ---- *)
Fixpoint rem_from (c : nat) (l : list (nat * Q)) : nat :=
  match l with
  | [] => O
  | x :: r => ((if (c <=? fst x)%nat then 1 else 0) + rem_from c r)%nat
  end.

Lemma rem_le : forall c l, (rem_from (S c) l <= rem_from c l)%nat.
Proof.
  induction l as [|x r IH]; [cbn; lia|]. cbn [rem_from].
  destruct (S c <=? fst x)%nat eqn:A; destruct (c <=? fst x)%nat eqn:B; try lia.
  apply Nat.leb_le in A. apply Nat.leb_gt in B. lia.
Qed.

Lemma rem_lt : forall c l x, In x l -> fst x = c -> (rem_from (S c) l < rem_from c l)%nat.
Proof.
  induction l as [|y r IH]; intros x I F; [destruct I|]. cbn [rem_from]. destruct I as [->|I].
  - rewrite F. rewrite Nat.leb_refl. destruct (S c <=? c)%nat eqn:A; [apply Nat.leb_le in A; lia|].
    pose proof (rem_le c r). lia.
  - specialize (IH x I F).
    destruct (S c <=? fst y)%nat eqn:A; destruct (c <=? fst y)%nat eqn:B; try lia.
    apply Nat.leb_le in A. apply Nat.leb_gt in B. lia.
Qed.

Lemma rem_len : forall c l, (rem_from c l <= length l)%nat.
Proof. induction l as [|x r IH]; cbn [rem_from length]; [lia|]. destruct (c <=? fst x)%nat; lia. Qed.

Section TermBlocking.
  Variable p : proc.
  Hypothesis WF : wf_proc p = true.
  Variable start : Q.
  Hypothesis fin : p_kind p = NeverExisted \/ exists T, p_exit p = Some T.
  Let X : Q := match p_exit p with Some T => T | None => start end.

  Lemma eintr_rem : forall c d, eintr_at p c = Some d ->
    (rem_from (S c) (p_eintr p) < rem_from c (p_eintr p))%nat.
  Proof.
    intros c d H. unfold eintr_at in H.
    destruct (find (fun x => Nat.eqb c (fst x)) (p_eintr p)) as [x|] eqn:F; [|discriminate].
    apply find_some in F. destruct F as [I Eq]. apply Nat.eqb_eq in Eq.
    eapply rem_lt; eauto.
  Qed.

  (* what a blocking waitpid can answer *)
  Lemma kw_block : forall i t,
    match k_waitpid p i t false with
    | WEintr t' => exists d, eintr_at p i = Some d /\ t <= t'
    | WEchild => p_kind p <> Child
    | WRunning => False
    | _ => True
    end.
  Proof.
    intros i t. destruct (wf_proc_parts _ WF) as (_ & _ & WE).
    unfold k_waitpid. destruct (eintr_at p i) as [d|] eqn:Ei.
    - pose proof (WE _ _ Ei) as D0.
      destruct (p_kind p); try (exists d; split; [reflexivity|lra]).
      destruct (p_exit p) as [T0|]; [|exists d; split; [reflexivity|lra]].
      destruct (Qle_bool (t + d) (qmax T0 t)); [exists d; split; [reflexivity|lra] | exact I].
    - destruct (p_kind p); try discriminate.
      destruct (p_exit p) as [T0|]; [|exact I]. destruct (Qle_bool T0 t); exact I.
  Qed.

  Definition bcost (ph : phase) (s : wst) : nat :=
    match ph with PWait => (rem_from (calls s) (p_eintr p) + 1)%nat | PExists => O end.

  Lemma loop_term_block : forall fuel ph s n,
    TI X s n -> (ph = PExists -> p_kind p <> Child) -> (bcost ph s + n + Lrem s + 1 <= fuel)%nat ->
    fst (loop (k_waitpid p) (k_exists p) (p_pid p) None start fuel ph s) <> ROutOfFuel.
  Proof.
    destruct (wf_proc_parts _ WF) as (_ & _ & WE).
    induction fuel as [|f IH]; intros ph s n T PH B; [lia|].
    destruct ph; cbn [loop].
    - cbn [bcost] in B.
      assert (EI : forall t d, eintr_at p (calls s) = Some d -> now s <= t ->
                fst (if expired None start (at_time (bump s) t) then (timeout_exc (p_pid p) None, at_time (bump s) t)
                     else loop (k_waitpid p) (k_exists p) (p_pid p) None start f PWait
                               (do_sleep (at_time (bump s) t))) <> ROutOfFuel).
      { intros t d Ei M. cbn [expired].
        destruct (ti_at_time X (bump s) n t T M) as [T2 L2].
        destruct (ti_sleep_weak _ _ _ T2) as [T3 L3].
        apply (IH PWait _ n T3); [discriminate|]. cbn [bcost do_sleep at_time bump calls].
        pose proof (eintr_rem _ _ Ei). rewrite L2 in L3. unfold Lrem in *. cbn [bump slept] in L3. lia. }
      pose proof (kw_block (calls s) (now s)) as KB. cbn [nohang].
      destruct (k_waitpid p (calls s) (now s) false) as [t| | |t st|] eqn:WW.
      + destruct KB as (d & Ei & M). apply (EI t d Ei M).
      + apply (IH PExists (bump s) n T); [intros _; exact KB|]. cbn [bcost]. unfold Lrem in *. cbn [bump slept]. lia.
      + contradiction.
      + cbn [fst]. apply decode_not_oof.
      + cbn. discriminate.
    - cbn [bcost] in B. destruct (k_exists p (now s)) eqn:KE; [|cbn; discriminate].
      cbn [expired].
      assert (Lt : now s < X).
      { unfold k_exists in KE. subst X. destruct fin as [K|[T0 Ex]].
        - rewrite K in KE. discriminate.
        - rewrite Ex. unfold ended_by in KE. rewrite Ex in KE.
          pose proof (PH eq_refl) as NC.
          destruct (p_kind p); try discriminate; [contradiction|].
          apply negb_true_iff in KE; apply Qle_bool_false in KE; exact KE. }
      destruct (ti_sleep_strict _ _ _ T Lt) as (n' & T3 & B3).
      apply (IH PExists _ n' T3); [exact PH|]. cbn [bcost]. lia.
  Qed.

  Theorem wait_blocking_terminates : forall fuel c0,
    (block_bound p start <= fuel)%nat ->
    is_value (fst (wait_pid (k_waitpid p) (k_exists p) (p_pid p) None fuel start c0)) = true.
  Proof.
    intros fuel c0 B.
    destruct (wait_pid (k_waitpid p) (k_exists p) (p_pid p) None fuel start c0) as [r s'] eqn:Wp.
    assert (NN : forall t : Q, @None Q = Some t -> 0 <= t) by (intros t D; discriminate).
    pose proof (wait_pid_post _ _ _ _ _ _ _ WF NN Wp) as (_ & _ & _ & _ & _ & _ & R).
    assert (NO : r <> ROutOfFuel).
    { destruct (wf_proc_parts _ WF) as (PP & _ & _).
      unfold wait_pid in Wp. destruct (p_pid p <=? 0)%Z eqn:LE; [apply Z.leb_le in LE; lia|].
      pose proof (loop_term_block fuel PWait (init_wst start c0)
                    (match p_exit p with Some T => Z.to_nat (Qceiling ((T - start) * 25)) | None => O end)) as LT.
      rewrite Wp in LT. apply LT; [|discriminate|].
      - unfold TI, init_wst. cbn [now interval slept length].
        split; [unfold interval0; lra|]. split; [symmetry; exact ival_0|].
        subst X. destruct (p_exit p) as [T0|].
        + pose proof (ceil_bound (T0 - start)). lra.
        + change (inject_Z (Z.of_nat 0)) with 0. lra.
      - unfold block_bound in B. cbn [bcost init_wst calls]. unfold Lrem. cbn [slept length].
        pose proof (rem_len c0 (p_eintr p)). lia. }
    cbn [fst]. destruct r; try reflexivity; try contradiction.
    - destruct R as (D & _). discriminate.
    - destruct R as (_ & Ex & K). destruct fin as [K2|[T0 Ex2]]; congruence.
  Qed.
End TermBlocking.

(* without a timeout the call returns a value iff the process ends at a finite instant (or never existed) *)
Theorem wait_blocking_iff : forall p start c0, wf_proc p = true ->
  ((exists fuel, is_value (fst (wait_pid (k_waitpid p) (k_exists p) (p_pid p) None fuel start c0)) = true)
   <-> (p_kind p = NeverExisted \/ exists T, p_exit p = Some T)).
Proof.
  intros p start c0 WF. split.
  - intros [fuel V].
    destruct (wait_pid (k_waitpid p) (k_exists p) (p_pid p) None fuel start c0) as [r s'] eqn:Wp.
    assert (NN : forall t : Q, @None Q = Some t -> 0 <= t) by (intros t D; discriminate).
    pose proof (wait_pid_post _ _ _ _ _ _ _ WF NN Wp) as (_ & _ & _ & _ & _ & _ & R).
    cbn [fst] in V. destruct r; try discriminate.
    + destruct R as (_ & En & _). unfold ended_by in En. destruct (p_exit p) as [T|]; [|discriminate].
      right. exists T. reflexivity.
    + destruct R as (_ & Ex & _). unfold k_exists in Ex. destruct (p_kind p) eqn:K.
      * discriminate.
      * apply negb_false_iff in Ex. unfold ended_by in Ex. destruct (p_exit p) as [T|]; [|discriminate].
        right. exists T. reflexivity.
      * left. reflexivity.
  - intro F. exists (block_bound p start). apply wait_blocking_terminates; auto.
Qed.
