(* C15 -- the processes the kernel holds (ghost state), what waitpid()/kill(pid, 0)
   answer for them at a virtual instant, and what the property text demands of a
   wait() / wait_procs() call.  Written from the property text and waitpid(2),
   not from psutil's code. *)
From PV Require Export C15.Model.
From Coq Require Export Qround.
Open Scope Z_scope.
Open Scope Q_scope.

Inductive pkind := Child | NonChild | NeverExisted.
Inductive exitst := ExitCode (c : Z) | Killed (sig : Z) (core : bool).

Record proc := mk_proc {
  p_pid : Z;
  p_kind : pkind;
  p_exit : option Q;       (* instant at which the process ends (NonChild: disappears); None = never *)
  p_status : exitst;       (* how it ends *)
  p_eintr : list (nat * Q) }.  (* (i, d): the i-th waitpid call on this PID fails with EINTR; when that call
                                  blocks, the signal arrives d seconds after the call was made *)

(* the status word waitpid(2) stores: exit code in bits 8-15; signal in bits 0-6, core flag bit 7 *)
Definition k_status (e : exitst) : Z :=
  match e with
  | ExitCode c => (c * 256)%Z
  | Killed s core => (s + (if core then 128 else 0))%Z
  end.

(* what the property says wait() returns for a child *)
Definition spec_code (e : exitst) : Z :=
  match e with ExitCode c => c | Killed s _ => (- s)%Z end.

Definition wf_status (e : exitst) : bool :=
  match e with
  | ExitCode c => ((0 <=? c) && (c <=? 255))%Z
  | Killed s _ => ((1 <=? s) && (s <=? 64))%Z
  end.

Definition wf_proc (p : proc) : bool :=
  (0 <? p_pid p)%Z && wf_status (p_status p) && forallb (fun x => Qle_bool 0 (snd x)) (p_eintr p).

Definition ended_by (p : proc) (t : Q) : bool :=
  match p_exit p with Some T => Qle_bool T t | None => false end.

(* is the idx-th waitpid call on this PID interrupted, and how long after the call does the signal arrive *)
Definition eintr_at (p : proc) (idx : nat) : option Q :=
  match find (fun x => Nat.eqb idx (fst x)) (p_eintr p) with
  | Some x => Some (snd x)
  | None => None
  end.

Definition qmax (x y : Q) : Q := if Qle_bool x y then y else x.

(* waitpid(pid, flags) issued at instant t as the idx-th call on this PID.
   A call that does not block (WNOHANG, or not our child) fails with EINTR at once.  A blocking call on a
   child returns at whichever comes first: the exit (status, at max(T, t)) or the signal (EINTR, at t + d);
   on a tie the signal wins, so d = 0 interrupts even a call whose child has already ended. *)
Definition k_waitpid (p : proc) (idx : nat) (t : Q) (nohang : bool) : wp :=
  let st := k_status (p_status p) in
  match eintr_at p idx with
  | Some d =>
    if nohang then WEintr t
    else match p_kind p with
         | Child =>
           match p_exit p with
           | Some T => if Qle_bool (t + d) (qmax T t) then WEintr (t + d) else WStatus (qmax T t) st
           | None => WEintr (t + d)
           end
         | _ => WEintr t
         end
  | None =>
    match p_kind p with
    | Child =>
      match p_exit p with
      | Some T => if Qle_bool T t then WStatus t st
                  else if nohang then WRunning else WStatus T st
      | None => if nohang then WRunning else WForever
      end
    | _ => WEchild
    end
  end.

(* kill(pid, 0) succeeds: the PID is in the process table.  A non-child leaves the table at its `exit` instant
   (= reaped by its own parent).  OUR child stays in the table as a zombie after it has ended, until we reap it
   (checked against the running kernel: kill(pid, 0) on an unreaped zombie succeeds) -- the reaped situation is
   k_exists_reaped below *)
Definition k_exists (p : proc) (t : Q) : bool :=
  match p_kind p with
  | NeverExisted => false
  | NonChild => negb (ended_by p t)
  | Child => true
  end.

(* once somebody has reaped the child: waitpid says "no such child", and the PID is in the table only if the
   kernel has handed it to a stranger *)
Definition k_waitpid_reaped : nat -> Q -> bool -> wp := fun _ _ _ => WEchild.
Definition k_exists_reaped (reused : bool) : Q -> bool := fun _ => reused.

Definition to_ko (p : proc) : koracle :=
  {| ko_wp := k_waitpid p; ko_ex := k_exists p; ko_pid := p_pid p |}.

(* ---- the demanded answer of one wait(timeout) call started at `start` ---- *)
Record obs := mk_obs {
  o_res : wres;
  o_ret : Q;             (* virtual instant at which the call returned / raised *)
  o_sleeps : list Q }.   (* arguments of sleep(), in call order *)

Definition Qlt_bool (x y : Q) : bool := negb (Qle_bool y x).

(* polls start at 0.1 ms and never exceed 40 ms; timeout = 0 never sleeps *)
Definition sleeps_ok (timeout : option Q) (l : list Q) : bool :=
  match l with
  | [] => true
  | q :: _ => Qeq_bool q interval0
  end
  && forallb (fun q => Qlt_bool 0 q && Qle_bool q cap) l
  && match timeout with
     | Some t => if Qeq_bool t 0 then match l with [] => true | _ => false end else true
     | None => true
     end.

(* strict_alive = true: a TimeoutExpired additionally requires the process to be alive
   at the instant it is raised (the full property text) *)
Definition spec_wait (strict_alive : bool) (p : proc) (start : Q) (timeout : option Q) (o : obs) : bool :=
  if bad_timeout timeout
  then (match o_res o with RValueError => true | _ => false end)
       && Qeq_bool (o_ret o) start && match o_sleeps o with [] => true | _ => false end
  else
    sleeps_ok timeout (o_sleeps o) && Qle_bool start (o_ret o) &&
    match o_res o with
    | RInt z =>       (* a child's status, and only once it has ended *)
      match p_kind p with Child => ended_by p (o_ret o) && (z =? spec_code (p_status p))%Z | _ => false end
    | RNone =>        (* not a child and gone; at once when it never existed *)
      match p_kind p with
      | Child => false
      | NonChild => ended_by p (o_ret o)
      | NeverExisted =>     (* at once; an interrupted call may be retried after a pause *)
        match p_eintr p with
        | [] => Qeq_bool (o_ret o) start && match o_sleeps o with [] => true | _ => false end
        | _ => true
        end
      end
    | RTimeout sec pid =>
      match timeout with
      | Some t =>
        Qeq_bool sec t && (pid =? p_pid p)%Z
        && Qle_bool (start + t) (o_ret o)            (* deadline passed *)
        && Qlt_bool (o_ret o) (start + t + cap)      (* at most one 40 ms poll late *)
        && (negb strict_alive
            || match p_kind p with NeverExisted => false | _ => negb (ended_by p (o_ret o)) end)
      | None => false
      end
    | RHang =>        (* only a blocking wait on something that never ends may hang *)
      match timeout, p_exit p, p_kind p with
      | None, None, Child => true
      | _, _, _ => false
      end
    | _ => false
    end.

(* the k-th sleep (k = 0, 1, ...) is min(2^k / 10000, 1/25) *)
Definition raw_ival (k : nat) : Q := inject_Z (2 ^ Z.of_nat k) * interval0.
Definition ival (k : nat) : Q := qmin (raw_ival k) cap.

(* loop steps (fuel) a wait(timeout) may need: at most ceil(25 * timeout) + 9 sleeps (9 doublings, then
   40 ms each), one step for the ECHILD switch, one final step *)
Definition polls_bound (tm : Q) : nat := (Z.to_nat (Qceiling (tm * 25)) + 12)%nat.

(* ... and a wait without timeout on a process that ends at a finite instant: one more step per EINTR *)
Definition block_bound (p : proc) (start : Q) : nat :=
  (length (p_eintr p) + 12 +
   match p_exit p with Some T => Z.to_nat (Qceiling ((T - start) * 25)) | None => 0 end)%nat.

(* rounds of wait_procs' outer loop: every round but the last two loses a process or lasts a second *)
Definition rounds_bound (n : nat) (tm : Q) : nat := (n + Z.to_nat (Qceiling tm) + 1)%nat.

(* ---- wait_procs ---- *)
(* gone/alive partition the input, each gone process got returncode and one callback *)
Definition count (i : nat) (l : list nat) : nat := length (filter (Nat.eqb i) l).

Definition spec_partition (n : nat) (has_cb : bool) (gone alive : list nat)
    (rc : list (nat * wres)) (cbs : list nat) : bool :=
  forallb (fun i => Nat.eqb (count i gone + count i alive)%nat 1
                    && Nat.eqb (count i (map fst rc)) (count i gone)
                    && Nat.eqb (count i cbs) (if has_cb then count i gone else 0))
          (seq 0 n)
  && forallb (fun i => Nat.ltb i n) (gone ++ alive).

(* a returncode assignment (index, value) is right: the child's demanded code / None for a non-child,
   and the process had really ended by the instant wait_procs returned *)
Definition rc_ok (ps : list proc) (ret : Q) (x : nat * wres) : bool :=
  match nth_error ps (fst x) with
  | None => false
  | Some p =>
    match p_kind p, snd x with
    | Child, RInt z => ended_by p ret && (z =? spec_code (p_status p))%Z
    | NonChild, RNone => ended_by p ret
    | NeverExisted, RNone => true
    | _, _ => false
    end
  end.

(* the whole oracle for one wait_procs(ps, timeout, callback) call started at `start`:
   exc = what it raised, (gone, alive) = what it returned, rc / cbs = returncode assignments and
   callback calls (newest first), ret = the instant it came back *)
Definition spec_procs (ps : list proc) (cb : cbkind) (start : Q) (timeout : option Q)
    (exc : option wres) (gone alive : list nat) (rc : list (nat * wres)) (cbs : list nat) (ret : Q) : bool :=
  if bad_timeout timeout then match exc with Some RValueError => true | _ => false end
  else match cb with
  | CbBad => match exc with Some RTypeError => true | _ => false end
  | _ =>
    match exc with
    | Some _ => false
    | None =>
      spec_partition (length ps) (match cb with CbOk _ => true | _ => false end) gone alive rc cbs
      && forallb (rc_ok ps ret) rc
      && match timeout with Some t => Qlt_bool ret (start + t + cap) | None => true end
    end
  end.

(* ---- aliased input: `input` lists handles by the process they name (a process may occur several times, or
   not at all); the returned lists hold each PROCESS of the input once ---- *)
Definition spec_partition_in (input : list nat) (n : nat) (has_cb : bool) (gone alive : list nat)
    (rc : list (nat * wres)) (cbs : list nat) : bool :=
  forallb (fun i => Nat.eqb (count i gone + count i alive)%nat (if mem i input then 1 else 0)%nat
                    && Nat.eqb (count i (map fst rc)) (count i gone)
                    && Nat.eqb (count i cbs) (if has_cb then count i gone else 0))
          (seq 0 n)
  && forallb (fun i => mem i input) (gone ++ alive).

Definition spec_procs_in (input : list nat) (ps : list proc) (cb : cbkind) (start : Q) (timeout : option Q)
    (exc : option wres) (gone alive : list nat) (rc : list (nat * wres)) (cbs : list nat) (ret : Q) : bool :=
  if bad_timeout timeout then match exc with Some RValueError => true | _ => false end
  else match cb with
  | CbBad => match exc with Some RTypeError => true | _ => false end
  | _ =>
    match exc with
    | Some _ => false
    | None =>
      spec_partition_in input (length ps) (match cb with CbOk _ => true | _ => false end) gone alive rc cbs
      && forallb (rc_ok ps ret) rc
      && match timeout with Some t => Qlt_bool ret (start + t + cap) | None => true end
    end
  end.
