(* A small statement language for psutil/_psposix.py: wait_pid (and its local function sleep()).
   props/_c15_gen.py translates the CURRENT source of wait_pid into a [wprog] (coq/Gen/C15_Tables.v:
   gen_wait_pid), failing closed on every statement / expression shape it does not know;
   ProofsGen.v proves the interpreter below, run on the translated program, equal to the hand-written
   model [Model.wait_pid] for every kernel, PID, timeout, start instant and fuel.  No proofs here.

   What is translated statement by statement: the PID guard, the initial interval, the flags and
   the deadline computation; the body of sleep() (deadline test, what it raises, what it sleeps, the
   back-off expression it returns); the handler bodies of the try statement (InterruptedError,
   ChildProcessError with its inner `while _pid_exists(pid)` loop, else clause with the retpid test and
   the ORDER of the WIFEXITED / WIFSIGNALED tests, the sign of the signal number).
   What is fixed by the SHAPE of [wprog] (checked by the translator, not expressed as statements): the
   function ends in `while True:` whose body is one try statement around `retpid, status =
   os.waitpid(pid, flags)` with exactly the handlers InterruptedError, ChildProcessError and an else
   clause; the ChildProcessError handler is `while _pid_exists(pid): <body>` followed by <after>.
   The C macros os.WIFEXITED & co are primitives (glibc definitions, as in Model.decode_status). *)
From PV Require Export C15.Model.
Open Scope Z_scope.
Open Scope Q_scope.

(* float-valued expressions (exact rationals, as everywhere in C15) *)
Inductive qexpr :=
| QConst (q : Q)          (* a literal: 0.0001, 0.04, 2 *)
| QTimer                  (* _timer() *)
| QTimeout                (* timeout (TypeError when None: outside the model) *)
| QStopAt                 (* stop_at (NameError when never assigned: outside the model) *)
| QInterval               (* the variable `interval` of wait_pid *)
| QParam                  (* the parameter `interval` of the local function sleep() *)
| QAdd (a b : qexpr) | QMul (a b : qexpr)
| QMin (a b : qexpr).     (* _min(a, b) *)

(* int-valued expressions of the return statements *)
Inductive zexpr :=
| ZExitStatus             (* os.WEXITSTATUS(status) *)
| ZTermSig                (* os.WTERMSIG(status) *)
| ZNeg (a : zexpr)        (* -a *)
| ZNegsigEnum (a : zexpr).  (* negsig_to_enum(a): Negsignal(a) or a itself -- an IntEnum member equals its number *)

Inductive cond :=
| CPidLe (z : Z)          (* pid <= z *)
| CTimeoutNotNone         (* timeout is not None *)
| CGe (a b : qexpr)       (* a >= b *)
| CRetpidEq (z : Z)       (* retpid == z *)
| CIfExited               (* os.WIFEXITED(status) *)
| CIfSignaled.            (* os.WIFSIGNALED(status) *)

Inductive stmt :=
| SIf (c : cond) (th el : list stmt)
| SMsg                    (* msg = "..." : no effect *)
| SRaiseVE                (* raise ValueError(msg) *)
| SRaiseTimeout           (* raise TimeoutExpired(timeout, pid=pid, name=proc_name) *)
| SSetInterval (e : qexpr)  (* interval = e *)
| SSetFlags (z : Z)       (* flags = z *)
| SOrFlags (z : Z)        (* flags |= z   (os.WNOHANG = 1) *)
| SSetStopAt (e : qexpr)  (* stop_at = e *)
| SOsSleep (e : qexpr)    (* _sleep(e) *)
| SCallSleep              (* interval = sleep(interval) *)
| SReturnNone             (* return None *)
| SReturnZ (e : zexpr)    (* return e *)
| SReturnQ (e : qexpr)    (* return e  (inside sleep()) *)
| SContinue.

Record wprog := mk_wprog {
  g_pre : list stmt;            (* statements of wait_pid ahead of `def sleep` / `while True` *)
  g_sleep : list stmt;          (* body of the local function sleep(interval) *)
  g_eintr : list stmt;          (* except InterruptedError: *)
  g_exists_body : list stmt;    (* except ChildProcessError: while _pid_exists(pid): <this> *)
  g_exists_after : list stmt;   (*                           ... then <this> *)
  g_else : list stmt }.         (* else: *)

Record env := mk_env {
  e_now : Q;                (* virtual clock *)
  e_interval : option Q;    (* local variable interval (None = not assigned yet) *)
  e_calls : nat;            (* os.waitpid calls so far *)
  e_slept : list Q;         (* _sleep() arguments, newest first *)
  e_param : option Q;       (* parameter of the running sleep() call *)
  e_flags : Z;
  e_stop : option Q;        (* stop_at (None = never assigned) *)
  e_retpid : Z;
  e_status : Z }.

Inductive retv := VNone | VZ (z : Z) | VQ (q : Q).
Inductive res :=
| Normal (e : env)            (* fell through *)
| Continue (e : env)
| Return (v : retv) (e : env)
| Raise (r : wres) (e : env)  (* RValueError / RTimeout sec pid *)
| Unmodelled.                 (* NameError, TypeError, ...: outside the model *)

Definition set_interval e v := mk_env (e_now e) (Some v) (e_calls e) (e_slept e) (e_param e) (e_flags e) (e_stop e) (e_retpid e) (e_status e).
Definition set_param e v := mk_env (e_now e) (e_interval e) (e_calls e) (e_slept e) v (e_flags e) (e_stop e) (e_retpid e) (e_status e).
Definition set_flags e z := mk_env (e_now e) (e_interval e) (e_calls e) (e_slept e) (e_param e) z (e_stop e) (e_retpid e) (e_status e).
Definition set_stop e v := mk_env (e_now e) (e_interval e) (e_calls e) (e_slept e) (e_param e) (e_flags e) (Some v) (e_retpid e) (e_status e).
Definition set_now e t := mk_env t (e_interval e) (e_calls e) (e_slept e) (e_param e) (e_flags e) (e_stop e) (e_retpid e) (e_status e).
Definition set_calls e n := mk_env (e_now e) (e_interval e) n (e_slept e) (e_param e) (e_flags e) (e_stop e) (e_retpid e) (e_status e).
Definition set_ret e r s := mk_env (e_now e) (e_interval e) (e_calls e) (e_slept e) (e_param e) (e_flags e) (e_stop e) r s.
(* time.sleep(v) on the virtual clock *)
Definition os_sleep e v := mk_env (e_now e + v) (e_interval e) (e_calls e) (v :: e_slept e) (e_param e) (e_flags e) (e_stop e) (e_retpid e) (e_status e).

(* glibc: WIFEXITED = (st & 0x7f) == 0; WEXITSTATUS = (st & 0xff00) >> 8; WTERMSIG = st & 0x7f;
   WIFSIGNALED = ((signed char)((st & 0x7f) + 1) >> 1) > 0, i.e. 1 <= st & 0x7f <= 126 *)
Definition wifexited (st : Z) : bool := (Z.land st 127 =? 0)%Z.
Definition wexitstatus (st : Z) : Z := Z.land (Z.shiftr st 8) 255.
Definition wtermsig (st : Z) : Z := Z.land st 127.
Definition wifsignaled (st : Z) : bool := ((1 <=? Z.land st 127) && (Z.land st 127 <=? 126))%Z.

Section Exec.
  Variable pid : Z.
  Variable timeout : option Q.
  Variable callsleep : env -> res.   (* the local function sleep(), run with e_param bound *)

  Fixpoint qeval (x : qexpr) (e : env) : option Q :=
    let bin (f : Q -> Q -> Q) a b :=
      match qeval a e, qeval b e with Some u, Some v => Some (f u v) | _, _ => None end in
    match x with
    | QConst q => Some q
    | QTimer => Some (e_now e)
    | QTimeout => timeout
    | QStopAt => e_stop e
    | QInterval => e_interval e
    | QParam => e_param e
    | QAdd a b => bin Qplus a b
    | QMul a b => bin Qmult a b
    | QMin a b => bin qmin a b
    end.

  Fixpoint zeval (x : zexpr) (e : env) : Z :=
    match x with
    | ZExitStatus => wexitstatus (e_status e)
    | ZTermSig => wtermsig (e_status e)
    | ZNeg a => (- zeval a e)%Z
    | ZNegsigEnum a => zeval a e
    end.

  Definition ceval (c : cond) (e : env) : option bool :=
    match c with
    | CPidLe z => Some (pid <=? z)%Z
    | CTimeoutNotNone => Some (match timeout with Some _ => true | None => false end)
    | CGe a b => match qeval a e, qeval b e with Some u, Some v => Some (Qle_bool v u) | _, _ => None end
    | CRetpidEq z => Some (e_retpid e =? z)%Z
    | CIfExited => Some (wifexited (e_status e))
    | CIfSignaled => Some (wifsignaled (e_status e))
    end.

  Fixpoint exec (st : stmt) (e : env) {struct st} : res :=
    let run := fix run (l : list stmt) (e : env) {struct l} : res :=
      match l with
      | [] => Normal e
      | x :: r => match exec x e with Normal e' => run r e' | other => other end
      end in
    match st with
    | SIf c th el =>
        match ceval c e with
        | Some true => run th e
        | Some false => run el e
        | None => Unmodelled
        end
    | SMsg => Normal e
    | SRaiseVE => Raise RValueError e
    | SRaiseTimeout => match timeout with Some t => Raise (RTimeout t pid) e | None => Unmodelled end
    | SSetInterval q => match qeval q e with Some v => Normal (set_interval e v) | None => Unmodelled end
    | SSetFlags z => Normal (set_flags e z)
    | SOrFlags z => Normal (set_flags e (Z.lor (e_flags e) z))
    | SSetStopAt q => match qeval q e with Some v => Normal (set_stop e v) | None => Unmodelled end
    | SOsSleep q => match qeval q e with Some v => Normal (os_sleep e v) | None => Unmodelled end
    | SCallSleep =>
        match e_interval e with
        | None => Unmodelled
        | Some iv =>
          match callsleep (set_param e (Some iv)) with
          | Return (VQ v) e' => Normal (set_interval e' v)
          | Raise r e' => Raise r e'
          | _ => Unmodelled          (* sleep() returning None / an int: interval is no number any more *)
          end
        end
    | SReturnNone => Return VNone e
    | SReturnZ z => Return (VZ (zeval z e)) e
    | SReturnQ q => match qeval q e with Some v => Return (VQ v) e | None => Unmodelled end
    | SContinue => Continue e
    end.

  Fixpoint run_block (l : list stmt) (e : env) : res :=
    match l with
    | [] => Normal e
    | x :: r => match exec x e with Normal e' => run_block r e' | other => other end
    end.
End Exec.

Inductive gres := GDone (r : wres) (e : env) | GUnmodelled.

Definition finish (v : retv) (e : env) : gres :=
  match v with VNone => GDone RNone e | VZ z => GDone (RInt z) e | VQ _ => GUnmodelled end.

Section Loop.
  Variable p : wprog.
  Variable waitpid : nat -> Q -> bool -> wp.
  Variable pid_exists : Q -> bool.
  Variable pid : Z.
  Variable timeout : option Q.

  Definition no_sleep : env -> res := fun _ => Unmodelled.
  Definition sleepf : env -> res := run_block pid timeout no_sleep (g_sleep p).
  Definition blk : list stmt -> env -> res := run_block pid timeout sleepf.

  (* `while True: try: retpid, status = os.waitpid(pid, flags) ...` (PWait) and the inner
     `while _pid_exists(pid)` (PExists); one unit of fuel per loop test, as in Model.loop *)
  Fixpoint gloop (fuel : nat) (ph : phase) (e : env) : gres :=
    match fuel with
    | O => GDone ROutOfFuel e
    | S f =>
      match ph with
      | PWait =>
        let e1 := set_calls e (S (e_calls e)) in
        let after := fun r =>
          match r with
          | Normal e' | Continue e' => gloop f PWait e'
          | Return v e' => finish v e'
          | Raise r e' => GDone r e'
          | Unmodelled => GUnmodelled
          end in
        match waitpid (e_calls e) (e_now e) (Z.testbit (e_flags e) 0) with
        | WEintr t => after (blk (g_eintr p) (set_now e1 t))
        | WEchild => gloop f PExists e1
        | WRunning => after (blk (g_else p) (set_ret e1 0 0))
        | WStatus t st => after (blk (g_else p) (set_ret (set_now e1 t) pid st))
        | WForever => GDone RHang e1
        end
      | PExists =>
        if pid_exists (e_now e)
        then match blk (g_exists_body p) e with
             | Normal e' | Continue e' => gloop f PExists e'
             | Return v e' => finish v e'
             | Raise r e' => GDone r e'
             | Unmodelled => GUnmodelled
             end
        else match blk (g_exists_after p) e with
             | Normal e' | Continue e' => gloop f PWait e'
             | Return v e' => finish v e'
             | Raise r e' => GDone r e'
             | Unmodelled => GUnmodelled
             end
      end
    end.
End Loop.

Definition init_env (start : Q) (calls0 : nat) : env :=
  mk_env start None calls0 [] None 0 None 0 0.

Definition wait_pid_gen (p : wprog) (waitpid : nat -> Q -> bool -> wp) (pid_exists : Q -> bool) (pid : Z)
    (timeout : option Q) (fuel : nat) (start : Q) (calls0 : nat) : gres :=
  match run_block pid timeout no_sleep (g_pre p) (init_env start calls0) with
  | Normal e => gloop p waitpid pid_exists pid timeout fuel PWait e
  | Raise r e => GDone r e
  | Return v e => finish v e
  | Continue _ | Unmodelled => GUnmodelled
  end.

(* the model's state read off the interpreter's environment *)
Definition to_wst (e : env) : option wst :=
  match e_interval e with
  | Some iv => Some (mk_wst (e_now e) iv (e_calls e) (e_slept e))
  | None => None
  end.
Definition gproj (g : gres) : option (wres * option wst) :=
  match g with GDone r e => Some (r, to_wst e) | GUnmodelled => None end.
