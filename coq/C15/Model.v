(* C15 -- model of psutil's wait machinery (transcription, no proofs):
     psutil/_psposix.py   wait_pid (62-155), status decoding (129-137)
     psutil/__init__.py   Process.wait (1351-1357), wait_procs (1586-1638)
     psutil/_pslinux.py   Process.wait -> _psposix.wait_pid(self.pid, timeout, self._name)
   Virtual time in exact rationals; a call costs no time, only sleep() and a
   blocking waitpid() advance the clock.  The kernel is a pair of oracle
   functions (arguments, never axioms). *)
From PV Require Export Base.Prelude.
From Coq Require Export QArith.
Open Scope Z_scope.
Open Scope Q_scope.

(* what one os.waitpid(pid, flags) call does *)
Inductive wp :=
| WEintr (t : Q)            (* InterruptedError, raised at instant t (later than the call only when a
                               blocking call was interrupted) *)
| WEchild                   (* ChildProcessError *)
| WRunning                  (* (0, 0): WNOHANG and still running *)
| WStatus (t : Q) (st : Z)  (* (pid, st), the call returns at instant t *)
| WForever.                 (* blocking call on a child that never ends *)

(* what a wait()/wait_procs() call does *)
Inductive wres :=
| RInt (z : Z) | RNone
| RTimeout (sec : Q) (pid : Z)
| RValueError | RTypeError
| RHang          (* the call never returns *)
| ROutOfFuel.    (* artefact of the fuel; theorems bound the fuel that avoids it *)

Definition qmin (x y : Q) : Q := if Qle_bool x y then x else y.  (* Python min(x, y) *)
Definition interval0 : Q := 1 # 10000.   (* 0.0001 *)
Definition cap : Q := 1 # 25.            (* 0.04 *)

(* os.WIFEXITED / WEXITSTATUS / WIFSIGNALED / WTERMSIG (glibc macros) and negsig_to_enum
   (an IntEnum compares equal to the plain negative number) *)
Definition decode_status (st : Z) : wres :=
  let low := Z.land st 127 in
  if (low =? 0)%Z then RInt (Z.land (Z.shiftr st 8) 255)
  else if ((1 <=? low) && (low <=? 126))%Z then RInt (- low)%Z
  else RValueError.      (* "unknown process exit status" *)

Record wst := mk_wst {
  now : Q;            (* virtual clock *)
  interval : Q;       (* current polling interval *)
  calls : nat;        (* os.waitpid calls made so far on this PID *)
  slept : list Q }.   (* arguments of the sleep() calls, newest first *)

Inductive phase := PWait | PExists.   (* outer waitpid loop / inner pid_exists loop *)

Section WaitPid.
  Variable waitpid : nat -> Q -> bool -> wp.   (* call index, now, WNOHANG? *)
  Variable pid_exists : Q -> bool.
  Variable pid : Z.
  Variable timeout : option Q.
  Variable stop_at : Q.

  Definition nohang : bool := match timeout with Some _ => true | None => false end.

  (* the deadline test at the top of the local function sleep() *)
  Definition expired (s : wst) : bool :=
    match timeout with Some _ => Qle_bool stop_at (now s) | None => false end.

  Definition timeout_exc : wres :=
    match timeout with Some t => RTimeout t pid | None => RValueError end.

  (* _sleep(interval); return _min(interval * 2, 0.04) *)
  Definition do_sleep (s : wst) : wst :=
    {| now := now s + interval s; interval := qmin (interval s * 2) cap;
       calls := calls s; slept := interval s :: slept s |}.

  Definition bump (s : wst) : wst :=
    {| now := now s; interval := interval s; calls := S (calls s); slept := slept s |}.
  Definition at_time (s : wst) (t : Q) : wst :=
    {| now := t; interval := interval s; calls := calls s; slept := slept s |}.

  Fixpoint loop (fuel : nat) (ph : phase) (s : wst) : wres * wst :=
    match fuel with
    | O => (ROutOfFuel, s)
    | S f =>
      match ph with
      | PWait =>
        let s1 := bump s in
        match waitpid (calls s) (now s) nohang with
        | WEintr t =>
          let s2 := at_time s1 t in
          if expired s2 then (timeout_exc, s2) else loop f PWait (do_sleep s2)
        | WEchild => loop f PExists s1
        | WRunning => if expired s1 then (timeout_exc, s1) else loop f PWait (do_sleep s1)
        | WStatus t st => (decode_status st, at_time s1 t)
        | WForever => (RHang, s1)
        end
      | PExists =>
        if pid_exists (now s)
        then if expired s then (timeout_exc, s) else loop f PExists (do_sleep s)
        else (RNone, s)
      end
    end.
End WaitPid.

Definition init_wst (start : Q) (calls0 : nat) : wst :=
  {| now := start; interval := interval0; calls := calls0; slept := [] |}.

Definition wait_pid (waitpid : nat -> Q -> bool -> wp) (pid_exists : Q -> bool) (pid : Z)
    (timeout : option Q) (fuel : nat) (start : Q) (calls0 : nat) : wres * wst :=
  if (pid <=? 0)%Z then (RValueError, init_wst start calls0)
  else loop waitpid pid_exists pid timeout
            (match timeout with Some t => start + t | None => start end)
            fuel PWait (init_wst start calls0).

(* ---- Process.wait: validation and the _exitcode cache ---- *)
Record pobj := mk_pobj {
  exitcode : option wres;   (* None = _SENTINEL; Some r with r = RInt _ | RNone *)
  kcalls : nat }.           (* os.waitpid calls made on this PID so far *)

Definition new_pobj : pobj := {| exitcode := None; kcalls := 0 |}.

Definition is_value (r : wres) : bool := match r with RInt _ | RNone => true | _ => false end.

(* "timeout is not None and not timeout >= 0" *)
Definition bad_timeout (t : option Q) : bool :=
  match t with Some q => negb (Qle_bool 0 q) | None => false end.

(* result, object afterwards, clock afterwards, sleep() arguments in call order *)
Definition process_wait (waitpid : nat -> Q -> bool -> wp) (pid_exists : Q -> bool) (pid : Z)
    (o : pobj) (timeout : option Q) (fuel : nat) (t0 : Q) : wres * pobj * Q * list Q :=
  if bad_timeout timeout then (RValueError, o, t0, [])
  else match exitcode o with
       | Some r => (r, o, t0, [])
       | None =>
         let '(r, s) := wait_pid waitpid pid_exists pid timeout fuel t0 (kcalls o) in
         (r, {| exitcode := if is_value r then Some r else None; kcalls := calls s |},
          now s, rev (slept s))
       end.

(* ---- psutil.Popen: a Process that wraps a subprocess.Popen (psutil/__init__.py, class Popen) ----
   Two memos exist side by side: subprocess's `returncode` (set by poll()/wait()/communicate()/__exit__ of the
   wrapped object, which reap the child themselves) and psutil's `_exitcode`.  Popen.wait():
       if timeout is not None and not timeout >= 0: raise ValueError(...)      (fix 4baf627)
       if self.__subproc.returncode is not None: return self.__subproc.returncode
       ret = super().wait(timeout); self.__subproc.returncode = ret; return ret            *)
Record popen := mk_popen {
  sub_rc : option Z;    (* subprocess-side returncode; None = not collected yet (0 IS a status) *)
  ps_obj : pobj }.      (* the psutil side: _exitcode cache, waitpid calls made *)

Definition new_popen : popen := {| sub_rc := None; ps_obj := new_pobj |}.

(* the code before fix 4baf627: no validation of its own, so a collected status was returned even for wait(-1) *)
Definition popen_wait_legacy (waitpid : nat -> Q -> bool -> wp) (pid_exists : Q -> bool) (pid : Z)
    (st : popen) (timeout : option Q) (fuel : nat) (t0 : Q) : wres * popen * Q * list Q :=
  match sub_rc st with
  | Some z => (RInt z, st, t0, [])
  | None =>
    let '(r, o', t', sl) := process_wait waitpid pid_exists pid (ps_obj st) timeout fuel t0 in
    (r, {| sub_rc := match r with RInt z => Some z | _ => None end; ps_obj := o' |}, t', sl)
  end.

(* as is: "if timeout is not None and not timeout >= 0: raise ValueError" comes first *)
Definition popen_wait (waitpid : nat -> Q -> bool -> wp) (pid_exists : Q -> bool) (pid : Z)
    (st : popen) (timeout : option Q) (fuel : nat) (t0 : Q) : wres * popen * Q * list Q :=
  if bad_timeout timeout then (RValueError, st, t0, [])
  else popen_wait_legacy waitpid pid_exists pid st timeout fuel t0.

(* the wrapped object collects status z itself (poll / wait / communicate / leaving the `with` block):
   subprocess only asks the kernel while its returncode is still None *)
Definition popen_collect (st : popen) (z : Z) : popen :=
  match sub_rc st with
  | Some _ => st
  | None => {| sub_rc := Some z; ps_obj := ps_obj st |}
  end.

(* ---- wait_procs ---- *)
Record koracle := mk_ko {
  ko_wp : nat -> Q -> bool -> wp;
  ko_ex : Q -> bool;        (* pid_exists, also what is_running() answers (no PID reuse) *)
  ko_pid : Z }.

(* the callback argument: None / a callable / not callable.  A callable may be falsy in Python (an empty
   list subclass with __call__, __len__ = 0, __bool__ = False): `truthy` records bool(callback), and nothing in
   the code under model looks at it -- presence is tested with `is not None`, never with a truth test *)
Inductive cbkind := CbNone | CbOk (truthy : bool) | CbBad.

Record gst := mk_gst {
  g_now : Q;
  g_objs : list pobj;
  g_gone : list nat;              (* indices, in the order they were added *)
  g_rc : list (nat * wres);       (* proc.returncode = ... assignments, newest first *)
  g_cb : list nat;                (* callback(proc) calls, newest first *)
  g_sleeps : list Q;              (* all sleep() arguments, newest first *)
  g_waits : list (nat * Q) }.     (* proc.wait(timeout) calls, newest first *)

Definition set_nth {A} (n : nat) (x : A) (l : list A) : list A :=
  firstn n l ++ match skipn n l with [] => [] | _ :: r => x :: r end.

Definition mem (i : nat) (l : list nat) : bool := existsb (Nat.eqb i) l.

Section WaitProcs.
  Variable kos : list koracle.
  Variable cb : cbkind.
  Variable fuel : nat.                               (* fuel of every wait_pid loop *)
  Variable order : nat -> list nat -> list nat.      (* iteration order of the set `alive` in round r *)

  Definition dummy_ko : koracle := {| ko_wp := fun _ _ _ => WEchild; ko_ex := fun _ => false; ko_pid := 1 |}.

  (* check_gone(proc, timeout): an exception other than TimeoutExpired propagates *)
  Definition check_gone (i : nat) (tm : Q) (g : gst) : option wres * gst :=
    let k := nth i kos dummy_ko in
    let o := nth i (g_objs g) new_pobj in
    let '(r, o', t', sl) := process_wait (ko_wp k) (ko_ex k) (ko_pid k) o (Some tm) fuel (g_now g) in
    let g1 := {| g_now := t'; g_objs := set_nth i o' (g_objs g); g_gone := g_gone g; g_rc := g_rc g;
                 g_cb := g_cb g; g_sleeps := rev sl ++ g_sleeps g; g_waits := (i, tm) :: g_waits g |} in
    match r with
    | RTimeout _ _ => (None, g1)
    | RInt _ | RNone =>
      if (match r with RNone => negb (ko_ex k t') | _ => true end)
      then (None, {| g_now := t'; g_objs := g_objs g1; g_gone := g_gone g1 ++ [i];
                     g_rc := (i, r) :: g_rc g1;
                     g_cb := match cb with CbOk _ => i :: g_cb g1 | _ => g_cb g1 end;
                     g_sleeps := g_sleeps g1; g_waits := g_waits g1 |})
      else (None, g1)
    | e => (Some e, g1)
    end.

  Section Round.
    Variable deadline : option Q.   (* Some when a timeout was given *)
    Variable n : nat.               (* len(alive) at the start of the round *)

    (* for proc in alive: ...   returns (exception, state, value of the variable `timeout`) *)
    Fixpoint round (l : list nat) (g : gst) (cur : option Q) : option wres * gst * option Q :=
      match l with
      | [] => (None, g, cur)
      | i :: r =>
        let maxt := 1 # Pos.of_nat n in
        match deadline with
        | Some d =>
          let t := qmin (d - g_now g) maxt in
          if Qle_bool t 0 then (None, g, Some t)
          else match check_gone i t g with
               | (Some e, g') => (Some e, g', Some t)
               | (None, g') => round r g' (Some t)
               end
        | None =>
          match check_gone i maxt g with
          | (Some e, g') => (Some e, g', cur)
          | (None, g') => round r g' cur
          end
        end
      end.
  End Round.

  Definition minus (alive gone : list nat) : list nat := filter (fun i => negb (mem i gone)) alive.

  (* while alive: ...   returns (exception, alive, state, round number) *)
  Fixpoint outer (rounds : nat) (deadline : option Q) (alive : list nat) (g : gst) (cur : option Q) (r : nat)
      : option wres * list nat * gst * nat :=
    match alive with
    | [] => (None, alive, g, r)
    | _ =>
      if (match cur with Some t => Qle_bool t 0 | None => false end) then (None, alive, g, r)
      else match rounds with
           | O => (Some ROutOfFuel, alive, g, r)
           | S f =>
             match round deadline (length alive) (order r alive) g cur with
             | (Some e, g', _) => (Some e, alive, g', r)
             | (None, g', cur') => outer f deadline (minus alive (g_gone g')) g' cur' (S r)
             end
           end
    end.

  (* the last sweep: for proc in alive: check_gone(proc, 0) *)
  Fixpoint sweep (l : list nat) (g : gst) : option wres * gst :=
    match l with
    | [] => (None, g)
    | i :: r => match check_gone i 0 g with
                | (Some e, g') => (Some e, g')
                | (None, g') => sweep r g'
                end
    end.

  (* exception or (gone, alive) with the final state *)
  (* `alive = set(procs)`: the set holds one handle per PROCESS (Process.__eq__/__hash__ go by pid + start time),
     so listing an object twice, or two equal objects for one process, gives one element.  alive0 = the distinct
     processes of the input *)
  Definition wait_procs_from (alive0 : list nat) (timeout : option Q) (rounds : nat) (start : Q)
      : option wres * list nat * list nat * gst :=
    let g0 := {| g_now := start; g_objs := map (fun _ => new_pobj) kos; g_gone := []; g_rc := [];
                 g_cb := []; g_sleeps := []; g_waits := [] |} in
    if bad_timeout timeout then (Some RValueError, [], [], g0)
    else match cb with
    | CbBad => (Some RTypeError, [], [], g0)
    | _ =>
      let deadline := match timeout with Some t => Some (start + t) | None => None end in
      match outer rounds deadline alive0 g0 timeout 0 with
      | (Some e, alive, g, _) => (Some e, [], alive, g)
      | (None, alive, g, r) =>
        match sweep (order r alive) g with
        | (Some e, g') => (Some e, [], alive, g')
        | (None, g') => (None, g_gone g', minus alive (g_gone g'), g')
        end
      end
    end.

  (* the input as a list of handles, each naming its process: a multiset over the processes *)
  Definition wait_procs_of (input : list nat) : option Q -> nat -> Q -> option wres * list nat * list nat * gst :=
    wait_procs_from (nodup Nat.eq_dec input).

  (* every process listed once *)
  Definition wait_procs : option Q -> nat -> Q -> option wres * list nat * list nat * gst :=
    wait_procs_from (seq 0 (length kos)).
End WaitProcs.
