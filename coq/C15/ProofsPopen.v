(* C15 -- psutil.Popen: wait() returns the first collected status for every order of reaping. *)
From PV Require Import C15.Spec C15.Proofs.
Open Scope Z_scope.
Open Scope Q_scope.

(* once a status has been collected -- by whichever side, 0 included -- wait() returns it at once:
   no kernel call (the answer does not depend on the kernel), no sleep, no time, state untouched *)
Theorem popen_wait_collected : forall W E pid st tmo fuel t0 v,
  bad_timeout tmo = false ->
  sub_rc st = Some v -> popen_wait W E pid st tmo fuel t0 = (RInt v, st, t0, []).
Proof. intros W E pid st tmo fuel t0 v B H. unfold popen_wait, popen_wait_legacy. rewrite B, H. reflexivity. Qed.

(* a negative timeout raises ValueError in EVERY state, collected or not, and touches nothing *)
Theorem popen_negative_timeout : forall W E pid st t fuel t0,
  t < 0 -> popen_wait W E pid st (Some t) fuel t0 = (RValueError, st, t0, []).
Proof.
  intros W E pid st t fuel t0 H. unfold popen_wait, bad_timeout.
  destruct (Qle_bool 0 t) eqn:L; [apply Qle_bool_iff in L; exfalso; apply (Qlt_not_le _ _ H L) | reflexivity].
Qed.

(* the code before fix 4baf627 returned the collected status for wait(-1) *)
Theorem popen_legacy_negative_refuted :
  exists st v, sub_rc st = Some v /\
    forall W E pid fuel t0, popen_wait_legacy W E pid st (Some (-1 # 1)) fuel t0 = (RInt v, st, t0, []).
Proof. exists {| sub_rc := Some 0%Z; ps_obj := new_pobj |}, 0%Z. split; reflexivity. Qed.

Lemma popen_wait_value_valid : forall W E pid st tmo fuel t0 r st' t' sl,
  popen_wait W E pid st tmo fuel t0 = (r, st', t', sl) -> r <> RValueError ->
  bad_timeout tmo = false /\ popen_wait_legacy W E pid st tmo fuel t0 = (r, st', t', sl).
Proof.
  intros W E pid st tmo fuel t0 r st' t' sl H NV. unfold popen_wait in H.
  destruct (bad_timeout tmo); [inversion H; subst; contradiction | split; [reflexivity | exact H]].
Qed.

(* psutil's own wait collecting a status hands it to the subprocess side and to the psutil cache *)
Theorem popen_wait_collects : forall W E pid st tmo fuel t0 z st' t' sl,
  sub_rc st = None ->
  popen_wait W E pid st tmo fuel t0 = (RInt z, st', t', sl) ->
  sub_rc st' = Some z /\ exitcode (ps_obj st') = Some (RInt z).
Proof.
  intros W E pid st tmo fuel t0 z st' t' sl N H.
  destruct (popen_wait_value_valid _ _ _ _ _ _ _ _ _ _ _ H ltac:(discriminate)) as [_ HL]. clear H. rename HL into H.
  unfold popen_wait_legacy in H. rewrite N in H.
  destruct (process_wait W E pid (ps_obj st) tmo fuel t0) as [[[r o'] t1] sl1] eqn:PW.
  inversion H. subst r st' t1 sl1. cbn [sub_rc ps_obj]. split; [reflexivity|].
  unfold process_wait in PW. destruct (bad_timeout tmo); [inversion PW|].
  destruct (exitcode (ps_obj st)) as [c|] eqn:Ec.
  - inversion PW. subst. exact Ec.
  - destruct (wait_pid W E pid tmo fuel t0 (kcalls (ps_obj st))) as [r0 s0]. inversion PW. subst. reflexivity.
Qed.

(* ... anything else (TimeoutExpired, ValueError, None) leaves the subprocess side uncollected *)
Theorem popen_wait_no_status : forall W E pid st tmo fuel t0 r st' t' sl,
  sub_rc st = None ->
  popen_wait W E pid st tmo fuel t0 = (r, st', t', sl) ->
  (forall z, r <> RInt z) -> sub_rc st' = None.
Proof.
  intros W E pid st tmo fuel t0 r st' t' sl N H NR. unfold popen_wait in H.
  destruct (bad_timeout tmo); [inversion H; subst; exact N|].
  unfold popen_wait_legacy in H. rewrite N in H.
  destruct (process_wait W E pid (ps_obj st) tmo fuel t0) as [[[r1 o'] t1] sl1].
  inversion H. subst. cbn [sub_rc]. destruct r; try reflexivity. exfalso. eapply NR. reflexivity.
Qed.

Lemma popen_collect_some : forall st z v, sub_rc st = Some v -> popen_collect st z = st.
Proof. intros st z v H. unfold popen_collect. rewrite H. reflexivity. Qed.

Lemma popen_collect_none : forall st z, sub_rc st = None -> sub_rc (popen_collect st z) = Some z.
Proof. intros st z H. unfold popen_collect. rewrite H. reflexivity. Qed.

(* histories: the wrapped object collecting (whatever it thinks the status is), psutil waits over ANY
   kernel (ECHILD, a stranger owning the recycled PID, ...) with any timeout, time passing *)
Inductive pev :=
| EvCollect (z : Z)
| EvWait (W : nat -> Q -> bool -> wp) (E : Q -> bool) (tmo : option Q) (fuel : nat)
| EvAdvance (dt : Q).

(* every wait of the history: (timeout, result, instant before, instant after, sleeps) -- and the final state *)
Fixpoint run_pev (pid : Z) (h : list pev) (st : popen) (t : Q) : list (option Q * wres * Q * Q * list Q) * popen :=
  match h with
  | [] => ([], st)
  | EvCollect z :: r => run_pev pid r (popen_collect st z) t
  | EvAdvance dt :: r => run_pev pid r st (t + dt)
  | EvWait W E tmo fuel :: r =>
    let '(res, st', t', sl) := popen_wait W E pid st tmo fuel t in
    let '(l, fin) := run_pev pid r st' t' in
    ((tmo, res, t, t', sl) :: l, fin)
  end.

(* the collected status at once -- or ValueError at once when the timeout is negative *)
Definition at_once (v : Z) (x : option Q * wres * Q * Q * list Q) : Prop :=
  let '(tmo, r, t, t', sl) := x in
  r = (if bad_timeout tmo then RValueError else RInt v) /\ t' = t /\ sl = [].

Theorem popen_sticky : forall pid h st t v,
  sub_rc st = Some v ->
  Forall (at_once v) (fst (run_pev pid h st t)) /\ snd (run_pev pid h st t) = st.
Proof.
  intros pid h. induction h as [|e r IH]; intros st t v H.
  - cbn. split; [constructor | reflexivity].
  - destruct e as [z|W E tmo fuel|dt]; cbn [run_pev].
    + rewrite (popen_collect_some _ _ _ H). apply IH. exact H.
    + assert (PW : popen_wait W E pid st tmo fuel t = (if bad_timeout tmo then RValueError else RInt v, st, t, [])).
      { unfold popen_wait, popen_wait_legacy. rewrite H. destruct (bad_timeout tmo); reflexivity. }
      rewrite PW.
      destruct (IH st t v H) as [A B]. destruct (run_pev pid r st t) as [l fin]. cbn [fst snd] in *.
      split; [constructor; [cbn; auto | exact A] | exact B].
    + apply IH. exact H.
Qed.

(* every order of reaping.  (a) the wrapped object collects first (poll / communicate / __exit__): *)
Theorem popen_first_status_by_reap : forall pid st v h t,
  sub_rc st = None ->
  Forall (at_once v) (fst (run_pev pid h (popen_collect st v) t)).
Proof.
  intros pid st v h t N. apply popen_sticky. apply popen_collect_none. exact N.
Qed.

(* (b) psutil's wait() collects first, from the real child: it is the child's status, and every later
   wait -- whatever happened to the PID since -- returns it *)
Theorem popen_first_status_by_wait : forall p c0 tmo fuel t0 z st' t' sl,
  wf_proc p = true ->
  popen_wait (k_waitpid p) (k_exists p) (p_pid p) {| sub_rc := None; ps_obj := fresh c0 |} tmo fuel t0
    = (RInt z, st', t', sl) ->
  z = spec_code (p_status p) /\
  forall h t, Forall (at_once z) (fst (run_pev (p_pid p) h st' t)).
Proof.
  intros p c0 tmo fuel t0 z st' t' sl WF H.
  assert (N0 : sub_rc {| sub_rc := None; ps_obj := fresh c0 |} = None) by reflexivity.
  destruct (popen_wait_collects _ _ _ _ _ _ _ _ _ _ _ N0 H) as [S _].
  split.
  - destruct (popen_wait_value_valid _ _ _ _ _ _ _ _ _ _ _ H ltac:(discriminate)) as [_ HL].
    unfold popen_wait_legacy in HL. cbn [sub_rc ps_obj] in HL. rename H into H0. rename HL into H.
    destruct (process_wait (k_waitpid p) (k_exists p) (p_pid p) (fresh c0) tmo fuel t0) as [[[r o'] t1] sl1] eqn:PW.
    inversion H. subst r. destruct (never_early_status _ _ _ _ _ _ _ _ _ WF PW) as (_ & _ & Z). exact Z.
  - intros h t. apply popen_sticky. exact S.
Qed.

(* status 0 is a status: the instance the seeded change broke *)
Example popen_zero_is_a_status : forall W E pid tmo fuel t0 o, bad_timeout tmo = false ->
  popen_wait W E pid {| sub_rc := Some 0%Z; ps_obj := o |} tmo fuel t0
  = (RInt 0, {| sub_rc := Some 0%Z; ps_obj := o |}, t0, []).
Proof. intros. apply popen_wait_collected; [assumption | reflexivity]. Qed.
