(* C15 -- the boolean oracles the harness evaluates (spec_wait, spec_procs) hold of every model run. *)
From PV Require Import C15.Spec C15.Proofs C15.ProofsTerm C15.ProofsProcs.
From Coq Require Import Permutation Lqa Lia.
Open Scope Z_scope.
Open Scope Q_scope.

Lemma Qlt_bool_true : forall a b, a < b -> Qlt_bool a b = true.
Proof.
  intros a b H. unfold Qlt_bool. destruct (Qle_bool b a) eqn:E; [|reflexivity].
  apply Qle_bool_iff in E. lra.
Qed.

Lemma Qle_bool_true : forall a b, a <= b -> Qle_bool a b = true.
Proof. intros a b H. apply Qle_bool_iff. exact H. Qed.

Lemma Qeq_bool_true : forall a b, a == b -> Qeq_bool a b = true.
Proof. intros a b H. apply Qeq_bool_iff. exact H. Qed.

Lemma sleeps_ok_true : forall tmo sl,
  (forall k q, nth_error sl k = Some q -> q == ival k) ->
  (forall t, tmo = Some t -> t == 0 -> sl = []) ->
  sleeps_ok tmo sl = true.
Proof.
  intros tmo sl N Z. unfold sleeps_ok. apply andb_true_iff. split; [apply andb_true_iff; split|].
  - destruct sl as [|q r]; [reflexivity|]. apply Qeq_bool_true.
    rewrite (N 0%nat q eq_refl). exact ival_0.
  - apply forallb_forall. intros x Hx. apply In_nth_error in Hx. destruct Hx as [k Hk].
    pose proof (N _ _ Hk) as Ex. pose proof (ival_pos k). pose proof (ival_le_cap k).
    apply andb_true_iff. split; [apply Qlt_bool_true; lra | apply Qle_bool_true; unfold cap; lra].
  - destruct tmo as [t|]; [|reflexivity]. destruct (Qeq_bool t 0) eqn:E; [|reflexivity].
    apply Qeq_bool_iff in E. rewrite (Z t eq_refl E). reflexivity.
Qed.

(* (2) every un-cached Process.wait run of the model that comes back satisfies the oracle the harness
   applies to the implementation: the lenient oracle always, the strict one (TimeoutExpired only while
   alive) on EINTR-free schedules *)
Theorem wait_meets_oracle : forall p c0 tmo fuel t0 r o' t' sl,
  wf_proc p = true ->
  process_wait (k_waitpid p) (k_exists p) (p_pid p) (fresh c0) tmo fuel t0 = (r, o', t', sl) ->
  r <> ROutOfFuel ->
  spec_wait false p t0 tmo {| o_res := r; o_ret := t'; o_sleeps := sl |} = true /\
  (p_eintr p = [] -> spec_wait true p t0 tmo {| o_res := r; o_ret := t'; o_sleeps := sl |} = true).
Proof.
  intros p c0 tmo fuel t0 r o' t' sl WF H NO.
  destruct (process_wait_fresh _ _ _ _ _ _ _ _ _ WF H) as [(B & -> & -> & -> & _)|(B & s' & P & -> & -> & _)].
  - unfold spec_wait. rewrite B. cbn [o_res o_ret o_sleeps].
    rewrite (Qeq_bool_true t0 t0 (Qeq_refl _)). split; [reflexivity | intros _; reflexivity].
  - destruct P as (SO & Mono & _ & Z0 & Bd & _ & R). cbn [init_wst now] in Mono.
    assert (SL : sleeps_ok tmo (rev (slept s')) = true).
    { apply sleeps_ok_true.
      - intros k q N. eapply slept_ok_nth; eauto.
      - intros t T Z. rewrite (Z0 t T Z). reflexivity. }
    assert (MB : Qle_bool t0 (now s') = true) by (apply Qle_bool_true; exact Mono).
    assert (GEN : forall strict,
              (strict = true -> p_eintr p = []) ->
              spec_wait strict p t0 tmo {| o_res := r; o_ret := now s'; o_sleeps := rev (slept s') |} = true).
    { intros strict ST. unfold spec_wait. rewrite B. cbn [o_res o_ret o_sleeps]. rewrite SL, MB. cbn [andb].
      destruct r; try contradiction.
      - (* RInt *) destruct R as (K & En & Zq). rewrite K, En, Zq. rewrite Z.eqb_refl. reflexivity.
      - (* RNone *) destruct R as (K & Ex & AO). unfold k_exists in Ex.
        destruct (p_kind p) eqn:Kd; [contradiction| |].
        + apply negb_false_iff in Ex. exact Ex.
        + destruct (p_eintr p) eqn:Ei; [|reflexivity].
          destruct (AO eq_refl eq_refl) as [A1 A2]. rewrite A2. cbn [rev].
          rewrite (Qeq_bool_true _ _ A1). reflexivity.
      - (* RTimeout *) destruct R as (T & Pid & Le & Lt & Al). subst tmo pid.
        rewrite (Qeq_bool_true sec sec (Qeq_refl _)), Z.eqb_refl.
        rewrite (Qle_bool_true _ _ Le), (Qlt_bool_true _ _ Lt). cbn [andb].
        destruct strict; [|reflexivity]. cbn [negb orb].
        destruct (Al (ST eq_refl)) as [A1 A2]. rewrite A2.
        destruct (p_kind p); try reflexivity. contradiction.
      - (* RHang *) destruct R as (T & Ex & K). subst tmo. rewrite Ex, K. reflexivity. }
    split; [apply GEN; discriminate | intro Nil; apply GEN; intros _; exact Nil].
Qed.

(* with the fuel of the termination theorem nothing has to be assumed about the outcome *)
Theorem wait_meets_oracle_fuel : forall p c0 tm fuel t0 r o' t' sl,
  wf_proc p = true -> (polls_bound tm <= fuel)%nat ->
  process_wait (k_waitpid p) (k_exists p) (p_pid p) (fresh c0) (Some tm) fuel t0 = (r, o', t', sl) ->
  spec_wait false p t0 (Some tm) {| o_res := r; o_ret := t'; o_sleeps := sl |} = true /\
  (p_eintr p = [] -> spec_wait true p t0 (Some tm) {| o_res := r; o_ret := t'; o_sleeps := sl |} = true).
Proof.
  intros p c0 tm fuel t0 r o' t' sl WF B H.
  eapply wait_meets_oracle; eauto. eapply process_wait_terminates; eauto.
Qed.

(* ---- wait_procs over the virtual kernels of wf processes ---- *)
Lemma set_nth_length : forall A (l : list A) n x, (n < length l)%nat -> length (set_nth n x l) = length l.
Proof.
  induction l as [|a l IH]; intros n x H; [cbn in H; lia|].
  destruct n as [|n]; [reflexivity|]. unfold set_nth in *. cbn [firstn skipn app length].
  f_equal. apply IH. cbn in H. lia.
Qed.

Lemma set_nth_same : forall A (l : list A) n x d, (n < length l)%nat -> nth n (set_nth n x l) d = x.
Proof.
  induction l as [|a l IH]; intros n x d H; [cbn in H; lia|].
  destruct n as [|n]; [reflexivity|]. unfold set_nth in *. cbn [firstn skipn app nth].
  apply IH. cbn in H. lia.
Qed.

Lemma set_nth_other : forall A (l : list A) n m x d, n <> m -> nth m (set_nth n x l) d = nth m l d.
Proof.
  induction l as [|a l IH]; intros n m x d H.
  - unfold set_nth. destruct n; destruct m; reflexivity.
  - destruct n as [|n]; destruct m as [|m]; try reflexivity; [contradiction|].
    unfold set_nth in *. cbn [firstn skipn app nth]. apply IH. lia.
Qed.

Lemma ended_mono : forall p t t', ended_by p t = true -> t <= t' -> ended_by p t' = true.
Proof.
  intros p t t' H L. unfold ended_by in *. destruct (p_exit p) as [T|]; [|discriminate].
  apply Qle_bool_iff in H. apply Qle_bool_iff. lra.
Qed.

Lemma rc_ok_mono : forall ps t t' x, rc_ok ps t x = true -> t <= t' -> rc_ok ps t' x = true.
Proof.
  intros ps t t' x H L. unfold rc_ok in *. destruct (nth_error ps (fst x)) as [p|]; [|discriminate].
  destruct (p_kind p); destruct (snd x); try discriminate; try reflexivity.
  - apply andb_true_iff in H. destruct H as [A B]. rewrite (ended_mono _ _ _ A L), B. reflexivity.
  - eapply ended_mono; eauto.
Qed.

Lemma polls_bound_mono : forall a b, a <= b -> (polls_bound a <= polls_bound b)%nat.
Proof.
  intros a b H. unfold polls_bound.
  assert (Qceiling (a * 25) <= Qceiling (b * 25))%Z by (apply Qceiling_resp_le; lra). lia.
Qed.

Lemma count_notin : forall i l, ~ In i l -> count i l = 0%nat.
Proof.
  intros i l. unfold count. induction l as [|a l IH]; intro H; [reflexivity|]. cbn [filter].
  destruct (Nat.eqb i a) eqn:E.
  - apply Nat.eqb_eq in E. subst. exfalso. apply H. left. reflexivity.
  - apply IH. intro C. apply H. right. exact C.
Qed.

Lemma count_in : forall i l, NoDup l -> In i l -> count i l = 1%nat.
Proof.
  intros i l ND. induction ND as [|a l NI ND IH]; intro H; [destruct H|].
  unfold count in *. cbn [filter]. destruct (Nat.eqb i a) eqn:E.
  - apply Nat.eqb_eq in E. subst a. cbn [length]. f_equal. apply (count_notin i l NI).
  - apply Nat.eqb_neq in E. destruct H as [->|H]; [contradiction|]. apply IH. exact H.
Qed.

Lemma count_app : forall i l1 l2, count i (l1 ++ l2) = (count i l1 + count i l2)%nat.
Proof. intros. unfold count. rewrite filter_app, app_length. reflexivity. Qed.

Lemma count_rev : forall i l, count i (rev l) = count i l.
Proof.
  intros i l. induction l as [|a l IH]; [reflexivity|]. cbn [rev]. rewrite count_app, IH.
  unfold count. cbn [filter]. destruct (Nat.eqb i a); cbn [length]; lia.
Qed.

Lemma partition_bool : forall n (has_cb : bool) gone alive rc cbs,
  NoDup gone -> NoDup alive -> (forall i, In i gone -> ~ In i alive) ->
  (forall i, (i < n)%nat <-> In i gone \/ In i alive) ->
  map fst rc = rev gone -> cbs = (if has_cb then rev gone else []) ->
  spec_partition n has_cb gone alive rc cbs = true.
Proof.
  intros n has_cb gone alive rc cbs NG NA DJ COV RC CB. unfold spec_partition.
  apply andb_true_iff. split.
  - apply forallb_forall. intros i Hi. apply in_seq in Hi.
    assert (Li : (i < n)%nat) by lia. apply COV in Li.
    rewrite RC, count_rev. subst cbs.
    assert (CC : count i (if has_cb then rev gone else []) = (if has_cb then count i gone else 0)%nat).
    { destruct has_cb; [apply count_rev | reflexivity]. }
    rewrite CC. destruct Li as [G|A].
    + rewrite (count_in _ _ NG G), (count_notin _ _ (DJ _ G)). cbn. rewrite !Nat.eqb_refl. reflexivity.
    + assert (NGi : ~ In i gone) by (intro G; exact (DJ _ G A)).
      rewrite (count_notin _ _ NGi), (count_in _ _ NA A). cbn. destruct has_cb; reflexivity.
  - apply forallb_forall. intros x Hx. apply Nat.ltb_lt. apply COV. apply in_app_or. exact Hx.
Qed.

Lemma partition_in_bool : forall input n (has_cb : bool) gone alive rc cbs,
  NoDup gone -> NoDup alive -> (forall i, In i gone -> ~ In i alive) ->
  (forall i, In i input <-> In i gone \/ In i alive) ->
  map fst rc = rev gone -> cbs = (if has_cb then rev gone else []) ->
  spec_partition_in input n has_cb gone alive rc cbs = true.
Proof.
  intros input n has_cb gone alive rc cbs NG NA DJ COV RC CB. unfold spec_partition_in.
  apply andb_true_iff. split.
  - apply forallb_forall. intros i _.
    rewrite RC, count_rev. subst cbs.
    assert (CC : count i (if has_cb then rev gone else []) = (if has_cb then count i gone else 0)%nat).
    { destruct has_cb; [apply count_rev | reflexivity]. }
    rewrite CC. destruct (mem i input) eqn:M.
    + apply mem_In in M. apply COV in M. destruct M as [G|A].
      * rewrite (count_in _ _ NG G), (count_notin _ _ (DJ _ G)). cbn. rewrite !Nat.eqb_refl. reflexivity.
      * assert (NGi : ~ In i gone) by (intro G; exact (DJ _ G A)).
        rewrite (count_notin _ _ NGi), (count_in _ _ NA A). cbn. destruct has_cb; reflexivity.
    + assert (NI : ~ In i input) by (intro H; apply mem_In in H; congruence).
      assert (NGi : ~ In i gone) by (intro G; apply NI; apply COV; left; exact G).
      assert (NAi : ~ In i alive) by (intro A; apply NI; apply COV; right; exact A).
      rewrite (count_notin _ _ NGi), (count_notin _ _ NAi). cbn. destruct has_cb; reflexivity.
  - apply forallb_forall. intros x Hx. apply mem_In. apply COV. apply in_app_or. exact Hx.
Qed.

Section Procs.
  Variable ps : list proc.
  Variable cb : cbkind.
  Variable fuel : nat.
  Variable order : nat -> list nat -> list nat.
  Hypothesis order_perm : forall r l, Permutation (order r l) l.
  Hypothesis wf_all : forallb wf_proc ps = true.
  Let kos := map to_ko ps.
  Let N := length ps.

  (* processes not yet reported gone have never returned a value: their objects hold no cached result *)
  Definition CInv (g : gst) : Prop :=
    length (g_objs g) = N /\
    forall j, (j < N)%nat -> ~ In j (g_gone g) -> exitcode (nth j (g_objs g) new_pobj) = None.
  Definition RCI (g : gst) : Prop := forall x, In x (g_rc g) -> rc_ok ps (g_now g) x = true.
  Definition FI (g : gst) : Prop := CInv g /\ RCI g.

  Lemma check_gone_full : forall i tm g e g',
    (i < N)%nat -> 0 <= tm -> ~ In i (g_gone g) -> FI g ->
    check_gone kos cb fuel i tm g = (e, g') ->
    FI g' /\ g_now g <= g_now g' /\
    (g_gone g' = g_gone g \/ g_gone g' = g_gone g ++ [i]) /\
    (e = None \/ e = Some ROutOfFuel) /\
    (e = None -> In i (g_gone g') \/ g_now g + tm <= g_now g') /\
    ((polls_bound tm <= fuel)%nat -> e = None).
  Proof.
    intros i tm g e g' L NN NG ((CL & CE) & RC) H. unfold check_gone in H.
    destruct (kos_nth ps wf_all i L) as [KN WF]. fold kos in KN. rewrite KN in H.
    cbn [to_ko ko_wp ko_ex ko_pid] in H.
    set (p := nth i ps dproc) in *.
    pose proof (CE i L NG) as EC.
    destruct (nth i (g_objs g) new_pobj) as [ec kc] eqn:OB. cbn [exitcode] in EC. subst ec.
    change {| exitcode := None; kcalls := kc |} with (fresh kc) in H.
    destruct (process_wait (k_waitpid p) (k_exists p) (p_pid p) (fresh kc) (Some tm) fuel (g_now g))
      as [[[r o'] t'] sl] eqn:PW.
    assert (B : bad_timeout (Some tm) = false) by (cbn; apply negb_false_iff; apply Qle_bool_iff; exact NN).
    destruct (process_wait_fresh _ _ _ _ _ _ _ _ _ WF PW) as [(B' & _)|(_ & s' & P & -> & _ & ->)]; [congruence|].
    pose proof (fun Hb => process_wait_terminates p kc tm fuel (g_now g) r _ _ _ WF Hb PW) as TERM.
    destruct P as (_ & Mono & _ & _ & _ & _ & R). cbn [init_wst now] in Mono.
    assert (IL : (i < length (g_objs g))%nat) by lia.
    assert (NP : nth_error ps i = Some p).
    { unfold p. apply nth_error_nth'. exact L. }
    (* facts shared by all outcomes that do not add i to gone *)
    assert (KEEP : forall g1, g_now g1 = now s' -> g_gone g1 = g_gone g -> g_rc g1 = g_rc g ->
               g_objs g1 = set_nth i {| exitcode := None; kcalls := calls s' |} (g_objs g) -> FI g1).
    { intros g1 E1 E2 E3 E4. split; [split|].
      - rewrite E4. rewrite set_nth_length by exact IL. exact CL.
      - intros j Lj Nj. rewrite E4. rewrite E2 in Nj. destruct (Nat.eq_dec i j) as [<-|D].
        + rewrite set_nth_same by exact IL. reflexivity.
        + rewrite set_nth_other by exact D. apply CE; assumption.
      - intros x Hx. rewrite E3 in Hx. rewrite E1. eapply rc_ok_mono; [apply RC; exact Hx | exact Mono]. }
    assert (GONE : forall g1 v, g_now g1 = now s' -> g_gone g1 = g_gone g ++ [i] -> g_rc g1 = (i, v) :: g_rc g ->
               g_objs g1 = set_nth i {| exitcode := Some v; kcalls := calls s' |} (g_objs g) ->
               rc_ok ps (now s') (i, v) = true -> FI g1).
    { intros g1 v E1 E2 E3 E4 OK. split; [split|].
      - rewrite E4. rewrite set_nth_length by exact IL. exact CL.
      - intros j Lj Nj. rewrite E4. rewrite E2 in Nj. destruct (Nat.eq_dec i j) as [<-|D].
        + exfalso. apply Nj. apply in_or_app. right. left. reflexivity.
        + rewrite set_nth_other by exact D. apply CE; [exact Lj|]. intro In0. apply Nj. apply in_or_app. left. exact In0.
      - intros x Hx. rewrite E3 in Hx. rewrite E1. destruct Hx as [<-|Hx]; [exact OK|].
        eapply rc_ok_mono; [apply RC; exact Hx | exact Mono]. }
    destruct r; cbn [is_value] in H.
    - (* RInt *) inversion H. subst e g'. clear H. destruct R as (K & En & Zq).
      split; [|split; [exact Mono|split; [right; reflexivity|split; [left; reflexivity|split]]]].
      + eapply GONE; try reflexivity. unfold rc_ok. cbn [fst snd]. rewrite NP, K, En, Zq, Z.eqb_refl. reflexivity.
      + intros _. left. cbn [g_gone]. apply in_or_app. right. left. reflexivity.
      + intros _. reflexivity.
    - (* RNone *) destruct R as (K & Ex & _). rewrite Ex in H. cbn [negb] in H.
      inversion H. subst e g'. clear H.
      split; [|split; [exact Mono|split; [right; reflexivity|split; [left; reflexivity|split]]]].
      + eapply GONE; try reflexivity. unfold rc_ok. cbn [fst snd]. rewrite NP.
        unfold k_exists in Ex. destruct (p_kind p); [contradiction| |reflexivity].
        apply negb_false_iff in Ex. exact Ex.
      + intros _. left. cbn [g_gone]. apply in_or_app. right. left. reflexivity.
      + intros _. reflexivity.
    - (* RTimeout *) inversion H. subst e g'. clear H. destruct R as (T & _ & Le & _).
      split; [eapply KEEP; reflexivity|]. split; [exact Mono|]. split; [left; reflexivity|].
      split; [left; reflexivity|]. split; [|intros _; reflexivity].
      intros _. right. cbn [g_now]. inversion T. subst sec. exact Le.
    - contradiction.
    - contradiction.
    - destruct R as (T & _). discriminate.
    - (* ROutOfFuel *) inversion H. subst e g'. clear H.
      split; [eapply KEEP; reflexivity|]. split; [exact Mono|]. split; [left; reflexivity|].
      split; [right; reflexivity|]. split; [discriminate|].
      intro Hb. exfalso. apply (TERM Hb). reflexivity.
  Qed.

  (* a list of processes still to be visited: distinct, in range, none reported gone yet *)
  Definition LOK (l : list nat) (g : gst) : Prop :=
    NoDup l /\ (forall x, In x l -> (x < N)%nat /\ ~ In x (g_gone g)).

  Lemma lok_tail : forall i r g g1, LOK (i :: r) g ->
    (g_gone g1 = g_gone g \/ g_gone g1 = g_gone g ++ [i]) -> LOK r g1.
  Proof.
    intros i r g g1 [ND IN] G. inversion ND as [|? ? NI NDr]. subst. split; [exact NDr|].
    intros x Hx. destruct (IN x (or_intror Hx)) as [A B]. split; [exact A|].
    destruct G as [->| ->]; [exact B|]. intro C. apply in_app_or in C. destruct C as [C|[C|[]]]; [contradiction|].
    subst x. contradiction.
  Qed.

  Lemma lok_perm : forall r alive g, LOK alive g -> LOK (order r alive) g.
  Proof.
    intros r alive g [ND IN]. pose proof (order_perm r alive) as PM. split.
    - eapply Permutation_NoDup; [apply Permutation_sym; exact PM | exact ND].
    - intros x Hx. apply IN. eapply Permutation_in; eauto.
  Qed.

  Lemma lok_minus : forall alive g g1, LOK alive g -> LOK (minus alive (g_gone g1)) g1.
  Proof.
    intros alive g g1 [ND IN]. split; [apply NoDup_filter; exact ND|].
    intros x Hx. apply minus_In in Hx. destruct Hx as [A B]. split; [apply IN; exact A | exact B].
  Qed.

  Lemma gone_step : forall (g g1 : gst) i (l : list nat),
    (g_gone g1 = g_gone g \/ g_gone g1 = g_gone g ++ [i]) ->
    incl (g_gone g) (g_gone g1) /\ (forall x, In x (g_gone g1) -> In x (g_gone g) \/ x = i).
  Proof.
    intros g g1 i l [->| ->]; split.
    - apply incl_refl. - intros x Hx. left. exact Hx.
    - apply incl_appl. apply incl_refl.
    - intros x Hx. apply in_app_or in Hx. destruct Hx as [Hx|[Hx|[]]]; auto.
  Qed.

  Lemma maxt_pos : forall n, 0 < 1 # Pos.of_nat n.
  Proof. intro n. unfold Qlt. cbn. lia. Qed.
  Lemma maxt_le1 : forall n, 1 # Pos.of_nat n <= 1.
  Proof. intro n. unfold Qle. cbn. lia. Qed.

  Lemma round_full : forall dl n l g cur e g' cur',
    LOK l g -> FI g -> round kos cb fuel dl n l g cur = (e, g', cur') ->
    FI g' /\ g_now g <= g_now g' /\ (e = None \/ e = Some ROutOfFuel) /\
    incl (g_gone g) (g_gone g') /\ (forall x, In x (g_gone g') -> In x (g_gone g) \/ In x l).
  Proof.
    intros dl n l. induction l as [|i r IH]; intros g cur e g' cur' LK F H.
    - cbn in H. inversion H. subst. split; [exact F|]. split; [lra|]. split; [left; reflexivity|].
      split; [apply incl_refl|]. intros x Hx. left. exact Hx.
    - cbn [round] in H. destruct (proj2 LK i (or_introl eq_refl)) as [Li Ni].
      assert (STEP : forall tm e1 g1 c1, 0 <= tm -> check_gone kos cb fuel i tm g = (e1, g1) ->
                (e1 = None -> round kos cb fuel dl n r g1 c1 = (e, g', cur')) ->
                (e1 <> None -> e = e1 /\ g' = g1) ->
                FI g' /\ g_now g <= g_now g' /\ (e = None \/ e = Some ROutOfFuel) /\
                incl (g_gone g) (g_gone g') /\ (forall x, In x (g_gone g') -> In x (g_gone g) \/ In x (i :: r))).
      { intros tm e1 g1 c1 NN CG Hn Hs.
        destruct (check_gone_full i tm g e1 g1 Li NN Ni F CG) as (F1 & M1 & G1 & E1 & _ & _).
        destruct (gone_step g g1 i r G1) as [I1 S1].
        destruct E1 as [->| ->].
        - destruct (IH g1 c1 e g' cur' (lok_tail _ _ _ _ LK G1) F1 (Hn eq_refl)) as (F2 & M2 & E2 & I2 & S2).
          split; [exact F2|]. split; [lra|]. split; [exact E2|]. split; [eapply incl_tran; eauto|].
          intros x Hx. destruct (S2 x Hx) as [A|A].
          + destruct (S1 x A) as [B| ->]; [left; exact B | right; left; reflexivity].
          + right. right. exact A.
        - destruct (Hs ltac:(discriminate)) as [-> ->].
          split; [exact F1|]. split; [exact M1|]. split; [right; reflexivity|]. split; [exact I1|].
          intros x Hx. destruct (S1 x Hx) as [B| ->]; [left; exact B | right; left; reflexivity]. }
      destruct dl as [d|].
      + destruct (Qle_bool (qmin (d - g_now g) (1 # Pos.of_nat n)) 0) eqn:LE.
        * inversion H. subst. split; [exact F|]. split; [lra|]. split; [left; reflexivity|].
          split; [apply incl_refl|]. intros x Hx. left. exact Hx.
        * apply Qle_bool_false in LE.
          destruct (check_gone kos cb fuel i (qmin (d - g_now g) (1 # Pos.of_nat n)) g) as [[e1|] g1] eqn:CG.
          -- inversion H. subst. eapply (STEP _ _ _ None). 2: exact CG. 1: lra. 1: discriminate. intros _; split; reflexivity.
          -- eapply STEP. 2: exact CG. 1: lra. 1: (intros _; exact H). intro C; contradiction.
      + pose proof (maxt_pos n) as MP.
        destruct (check_gone kos cb fuel i (1 # Pos.of_nat n) g) as [[e1|] g1] eqn:CG.
        * inversion H. subst. eapply (STEP _ _ _ None). 2: exact CG. 1: lra. 1: discriminate. intros _; split; reflexivity.
        * eapply STEP. 2: exact CG. 1: lra. 1: (intros _; exact H). intro C; contradiction.
  Qed.

  Lemma sweep_full : forall l g e g',
    LOK l g -> FI g -> sweep kos cb fuel l g = (e, g') ->
    FI g' /\ g_now g <= g_now g' /\ (e = None \/ e = Some ROutOfFuel) /\
    ((polls_bound 0 <= fuel)%nat -> e = None).
  Proof.
    induction l as [|i r IH]; intros g e g' LK F H.
    - cbn in H. inversion H. subst. split; [exact F|]. split; [lra|]. split; [left; reflexivity|]. intros _. reflexivity.
    - cbn [sweep] in H. destruct (proj2 LK i (or_introl eq_refl)) as [Li Ni].
      destruct (check_gone kos cb fuel i 0 g) as [e1 g1] eqn:CG.
      assert (NN : 0 <= 0) by lra.
      destruct (check_gone_full i 0 g e1 g1 Li NN Ni F CG) as (F1 & M1 & G1 & E1 & _ & T1).
      destruct E1 as [->| ->].
      + destruct (IH g1 e g' (lok_tail _ _ _ _ LK G1) F1 H) as (F2 & M2 & E2 & T2).
        split; [exact F2|]. split; [lra|]. split; [exact E2|]. exact T2.
      + inversion H. subst. split; [exact F1|]. split; [exact M1|]. split; [right; reflexivity|].
        intro Hb. specialize (T1 Hb). discriminate.
  Qed.

  Lemma outer_full : forall f dl alive g cur r e alive' g' r',
    LOK alive g -> FI g -> outer kos cb fuel order f dl alive g cur r = (e, alive', g', r') ->
    FI g' /\ g_now g <= g_now g' /\ (e = None \/ e = Some ROutOfFuel) /\ (e = None -> LOK alive' g').
  Proof.
    induction f as [|f IH]; intros dl alive g cur r e alive' g' r' LK F H.
    - cbn [outer] in H. destruct alive as [|a al].
      + inversion H. subst. split; [exact F|]. split; [lra|]. split; [left; reflexivity|]. intros _. exact LK.
      + destruct (match cur with Some t => Qle_bool t 0 | None => false end); inversion H; subst.
        * split; [exact F|]. split; [lra|]. split; [left; reflexivity|]. intros _. exact LK.
        * split; [exact F|]. split; [lra|]. split; [right; reflexivity|]. discriminate.
    - cbn [outer] in H. destruct alive as [|a al].
      + inversion H. subst. split; [exact F|]. split; [lra|]. split; [left; reflexivity|]. intros _. exact LK.
      + destruct (match cur with Some t => Qle_bool t 0 | None => false end).
        * inversion H. subst. split; [exact F|]. split; [lra|]. split; [left; reflexivity|]. intros _. exact LK.
        * set (alive := a :: al) in *.
          destruct (round kos cb fuel dl (length alive) (order r alive) g cur) as [[e1 g1] cur1] eqn:RD.
          destruct (round_full _ _ _ _ _ _ _ _ (lok_perm r alive g LK) F RD) as (F1 & M1 & E1 & _ & _).
          destruct E1 as [->| ->].
          -- destruct (IH _ _ _ _ _ _ _ _ _ (lok_minus alive g g1 LK) F1 H) as (F2 & M2 & E2 & L2).
             split; [exact F2|]. split; [lra|]. split; [exact E2|]. exact L2.
          -- inversion H. subst. split; [exact F1|]. split; [exact M1|]. split; [right; reflexivity|]. discriminate.
  Qed.

  (* ---- progress of one round with a deadline ---- *)
  Lemma round_progress : forall d n l g cur e g' cur',
    (polls_bound 1 <= fuel)%nat -> LOK l g -> FI g ->
    round kos cb fuel (Some d) n l g cur = (e, g', cur') ->
    e = None /\
    ((exists t, cur' = Some t /\ t <= 0) \/ (exists x, In x l /\ In x (g_gone g')) \/ d <= g_now g' \/
     g_now g + inject_Z (Z.of_nat (length l)) * (1 # Pos.of_nat n) <= g_now g').
  Proof.
    intros d n l. induction l as [|i r IH]; intros g cur e g' cur' FU LK F H.
    - cbn in H. inversion H. subst. split; [reflexivity|]. right. right. right.
      cbn [length]. change (inject_Z (Z.of_nat 0)) with 0. lra.
    - cbn [round] in H. destruct (proj2 LK i (or_introl eq_refl)) as [Li Ni].
      pose proof (maxt_le1 n) as M1. pose proof (maxt_pos n) as M0.
      set (mt := 1 # Pos.of_nat n) in *.
      destruct (Qle_bool (qmin (d - g_now g) mt) 0) eqn:LE.
      + inversion H. subst. split; [reflexivity|]. left. eexists. split; [reflexivity|].
        apply Qle_bool_iff. exact LE.
      + apply Qle_bool_false in LE. set (t := qmin (d - g_now g) mt) in *.
        assert (TB : t <= mt /\ (t = mt \/ t = d - g_now g)).
        { subst t. destruct (qmin_cases (d - g_now g) mt) as [[A ->]|[A ->]]; split; auto; lra. }
        destruct TB as [TB TC].
        assert (FB : (polls_bound t <= fuel)%nat).
        { pose proof (polls_bound_mono t 1 ltac:(lra)). lia. }
        destruct (check_gone kos cb fuel i t g) as [e1 g1] eqn:CG.
        assert (NN : 0 <= t) by lra.
        destruct (check_gone_full i t g e1 g1 Li NN Ni F CG) as (F1 & Mo1 & G1 & _ & P1 & T1).
        specialize (T1 FB). subst e1. specialize (P1 eq_refl).
        pose proof (lok_tail _ _ _ _ LK G1) as LK1.
        destruct (IH g1 (Some t) e g' cur' FU LK1 F1 H) as (E2 & D2).
        destruct (round_full _ _ _ _ _ _ _ _ LK1 F1 H) as (_ & Mo2 & _ & I2 & _).
        split; [exact E2|].
        destruct P1 as [Gi|Adv].
        * right. left. exists i. split; [left; reflexivity | apply I2; exact Gi].
        * destruct D2 as [D2|[(x & Hx & Gx)|[D2|D2]]].
          -- left. exact D2.
          -- right. left. exists x. split; [right; exact Hx | exact Gx].
          -- right. right. left. exact D2.
          -- destruct TC as [TC|TC].
             ++ right. right. right. cbn [length]. rewrite inj_S. rewrite TC in Adv. lra.
             ++ right. right. left. rewrite TC in Adv. lra.
  Qed.

  Lemma outer_cur_stop : forall f dl alive g t r,
    t <= 0 -> outer kos cb fuel order f dl alive g (Some t) r = (None, alive, g, r).
  Proof.
    intros f dl alive g t r H. apply Qle_bool_true in H.
    destruct f; cbn [outer]; destruct alive; try reflexivity; rewrite H; reflexivity.
  Qed.

  Lemma outer_past_deadline : forall f d alive g cur r,
    d <= g_now g ->
    fst (fst (fst (outer kos cb fuel order (S f) (Some d) alive g cur r))) <> Some ROutOfFuel.
  Proof.
    intros f d alive g cur r H. cbn [outer]. destruct alive as [|a al]; [cbn; discriminate|].
    destruct (match cur with Some t => Qle_bool t 0 | None => false end); [cbn; discriminate|].
    destruct (order r (a :: al)) as [|i l] eqn:OR.
    - exfalso. pose proof (order_perm r (a :: al)) as PM. rewrite OR in PM.
      apply Permutation_nil in PM. discriminate.
    - cbn [round].
      assert (LE : Qle_bool (qmin (d - g_now g) (1 # Pos.of_nat (length (a :: al)))) 0 = true).
      { apply Qle_bool_true.
        destruct (qmin_cases (d - g_now g) (1 # Pos.of_nat (length (a :: al)))) as [[A ->]|[A ->]]; lra. }
      rewrite LE. rewrite outer_cur_stop; [cbn; discriminate|]. apply Qle_bool_iff. exact LE.
  Qed.

  Lemma filter_length_le : forall (f : nat -> bool) l, (length (filter f l) <= length l)%nat.
  Proof. induction l as [|a l IH]; cbn [filter length]; [lia|]. destruct (f a); cbn [length]; lia. Qed.

  Lemma filter_length_lt : forall (f : nat -> bool) l x, In x l -> f x = false ->
    (length (filter f l) < length l)%nat.
  Proof.
    induction l as [|a l IH]; intros x I Fx; [destruct I|]. cbn [filter length].
    pose proof (filter_length_le f l). destruct I as [->|I].
    - rewrite Fx. lia.
    - specialize (IH x I Fx). destruct (f a); cbn [length]; lia.
  Qed.

  Lemma n_times_inv : forall n, (1 <= n)%nat -> inject_Z (Z.of_nat n) * (1 # Pos.of_nat n) == 1.
  Proof.
    intros n H. unfold Qeq, Qmult, inject_Z. cbn [Qnum Qden].
    assert (E : Z.pos (Pos.of_nat n) = Z.of_nat n).
    { rewrite <- positive_nat_Z. rewrite Nat2Pos.id by lia. reflexivity. }
    rewrite Pos.mul_1_l. rewrite E. lia.
  Qed.

  (* rounds_bound: |alive| + whole seconds left + 1 rounds always suffice *)
  Lemma outer_terminates : forall f d alive g cur r m,
    (polls_bound 1 <= fuel)%nat -> LOK alive g -> FI g ->
    d - g_now g <= inject_Z (Z.of_nat m) -> (length alive + m + 1 <= f)%nat ->
    fst (fst (fst (outer kos cb fuel order f (Some d) alive g cur r))) <> Some ROutOfFuel.
  Proof.
    induction f as [|f IH]; intros d alive g cur r m FU LK F MB B; [lia|].
    destruct (Qlt_le_dec (g_now g) d) as [Lt|Ge]; [|apply outer_past_deadline; exact Ge].
    cbn [outer]. destruct alive as [|a al]; [cbn; discriminate|].
    destruct (match cur with Some t => Qle_bool t 0 | None => false end); [cbn; discriminate|].
    set (alive := a :: al) in *.
    destruct (round kos cb fuel (Some d) (length alive) (order r alive) g cur) as [[e1 g1] cur1] eqn:RD.
    pose proof (lok_perm r alive g LK) as LKo.
    destruct (round_progress _ _ _ _ _ _ _ _ FU LKo F RD) as (-> & PR).
    destruct (round_full _ _ _ _ _ _ _ _ LKo F RD) as (F1 & M1 & _ & I1 & _).
    pose proof (lok_minus alive g g1 LK) as LK1.
    assert (LEN : (length (minus alive (g_gone g1)) <= length alive)%nat) by (unfold minus; apply filter_length_le).
    destruct m as [|m'].
    { exfalso. change (inject_Z (Z.of_nat 0)) with 0 in MB. lra. }
    destruct PR as [(t & -> & T0)|[(x & Hx & Gx)|[D|A]]].
    - rewrite outer_cur_stop by exact T0. cbn. discriminate.
    - apply (IH d _ g1 _ _ (S m') FU LK1 F1); [lra|].
      assert ((length (minus alive (g_gone g1)) < length alive)%nat).
      { unfold minus. apply (filter_length_lt _ _ x).
        - eapply Permutation_in; [apply order_perm | exact Hx].
        - apply negb_false_iff. apply mem_In. exact Gx. }
      lia.
    - destruct f as [|f']; [cbn [length] in B; lia|]. apply outer_past_deadline. exact D.
    - assert (LN : length (order r alive) = length alive) by (apply Permutation_length; apply order_perm).
      rewrite LN in A. rewrite n_times_inv in A by (cbn [length alive]; lia).
      apply (IH d _ g1 _ _ m' FU LK1 F1); [rewrite inj_S in MB; lra | lia].
  Qed.

  Lemma fi_init : forall start,
    FI {| g_now := start; g_objs := map (fun _ => new_pobj) kos; g_gone := []; g_rc := [];
          g_cb := []; g_sleeps := []; g_waits := [] |}.
  Proof.
    intro start. split; [split|].
    - cbn [g_objs]. rewrite map_length. unfold kos. rewrite map_length. reflexivity.
    - intros j Lj _. cbn [g_objs]. clear. revert j.
      induction kos as [|k l IH]; intro j; destruct j; cbn; try reflexivity. apply IH.
    - intros x [].
  Qed.

  Lemma lok_init : forall g, g_gone g = [] -> LOK (seq 0 (length kos)) g.
  Proof.
    intros g G. split; [apply seq_NoDup|]. intros x Hx. apply in_seq in Hx. unfold kos in Hx.
    rewrite map_length in Hx. split; [unfold N; lia|]. rewrite G. intros [].
  Qed.

  (* (1c) wait_procs(timeout) never runs out of rounds: |procs| + ceil(timeout) + 1 rounds and the
     fuel of a one-second wait in every inner loop always suffice *)
  Theorem wait_procs_terminates : forall tm rounds start exc gone alive g,
    0 <= tm -> (polls_bound 1 <= fuel)%nat -> (rounds_bound N tm <= rounds)%nat ->
    wait_procs kos cb fuel order (Some tm) rounds start = (exc, gone, alive, g) ->
    exc <> Some ROutOfFuel.
  Proof.
    intros tm rounds start exc gone alive g NN FU RB H. unfold wait_procs, wait_procs_from in H.
    assert (B : bad_timeout (Some tm) = false) by (cbn; apply negb_false_iff; apply Qle_bool_iff; exact NN).
    rewrite B in H.
    set (g0 := {| g_now := start; g_objs := map (fun _ => new_pobj) kos; g_gone := []; g_rc := [];
                  g_cb := []; g_sleeps := []; g_waits := [] |}) in *.
    pose proof (fi_init start) as F0. fold g0 in F0.
    pose proof (lok_init g0 eq_refl) as LK0.
    assert (MAIN : forall X : option wres * list nat * list nat * gst,
      match outer kos cb fuel order rounds (Some (start + tm)) (seq 0 (length kos)) g0 (Some tm) 0 with
      | (Some e, alive, g, _) => (Some e, [], alive, g)
      | (None, alive, g, r) =>
        match sweep kos cb fuel (order r alive) g with
        | (Some e, g') => (Some e, [], alive, g')
        | (None, g') => (None, g_gone g', minus alive (g_gone g'), g')
        end
      end = X -> fst (fst (fst X)) <> Some ROutOfFuel).
    { intros X HX.
      pose proof (outer_terminates rounds (start + tm) (seq 0 (length kos)) g0 (Some tm) 0%nat
                    (Z.to_nat (Qceiling tm)) FU LK0 F0) as OT.
      destruct (outer kos cb fuel order rounds (Some (start + tm)) (seq 0 (length kos)) g0 (Some tm) 0)
        as [[[e1 alive1] g1] r1] eqn:OU.
      destruct (outer_full _ _ _ _ _ _ _ _ _ _ LK0 F0 OU) as (F1 & _ & E1 & L1).
      cbn [fst] in OT.
      assert (OK : e1 <> Some ROutOfFuel).
      { apply OT.
        - cbn [g0 g_now]. pose proof (Qle_ceiling tm) as C.
          assert (Z1 : (Qceiling tm <= Z.of_nat (Z.to_nat (Qceiling tm)))%Z) by lia.
          rewrite Zle_Qle in Z1. lra.
        - unfold rounds_bound in RB. rewrite seq_length. unfold kos. rewrite map_length. fold N. lia. }
      destruct E1 as [->| ->]; [|contradiction].
      destruct (sweep kos cb fuel (order r1 alive1) g1) as [e2 g2] eqn:SW.
      destruct (sweep_full _ _ _ _ (lok_perm r1 alive1 g1 (L1 eq_refl)) F1 SW) as (_ & _ & _ & T2).
      assert (P0 : (polls_bound 0 <= fuel)%nat) by (pose proof (polls_bound_mono 0 1 ltac:(lra)); lia).
      rewrite (T2 P0) in HX. subst X. cbn. discriminate. }
    destruct cb.
    - specialize (MAIN _ H). exact MAIN.
    - specialize (MAIN _ H). exact MAIN.
    - inversion H. discriminate.
  Qed.

  (* (2) every wait_procs run of the model that comes back satisfies the oracle the harness applies to
     the implementation: argument errors, partition, returncodes right and not early, callbacks, deadline *)
  Theorem wait_procs_meets_oracle : forall tmo rounds start exc gone alive g,
    wait_procs kos cb fuel order tmo rounds start = (exc, gone, alive, g) ->
    exc <> Some ROutOfFuel ->
    spec_procs ps cb start tmo exc gone alive (g_rc g) (g_cb g) (g_now g) = true.
  Proof.
    intros tmo rounds start exc gone alive g H NO. pose proof H as H0. unfold wait_procs, wait_procs_from in H.
    unfold spec_procs. destruct (bad_timeout tmo) eqn:B; [inversion H; reflexivity|].
    set (g0 := {| g_now := start; g_objs := map (fun _ => new_pobj) kos; g_gone := []; g_rc := [];
                  g_cb := []; g_sleeps := []; g_waits := [] |}) in *.
    pose proof (fi_init start) as F0. fold g0 in F0.
    pose proof (lok_init g0 eq_refl) as LK0.
    assert (MAIN : forall X : option wres * list nat * list nat * gst,
      match outer kos cb fuel order rounds (match tmo with Some t => Some (start + t) | None => None end)
                  (seq 0 (length kos)) g0 tmo 0 with
      | (Some e, alive, g, _) => (Some e, [], alive, g)
      | (None, alive, g, r) =>
        match sweep kos cb fuel (order r alive) g with
        | (Some e, g') => (Some e, [], alive, g')
        | (None, g') => (None, g_gone g', minus alive (g_gone g'), g')
        end
      end = X -> fst (fst (fst X)) <> Some ROutOfFuel ->
      fst (fst (fst X)) = None /\ RCI (snd X)).
    { intros X HX NX.
      destruct (outer kos cb fuel order rounds _ (seq 0 (length kos)) g0 tmo 0) as [[[e1 alive1] g1] r1] eqn:OU.
      destruct (outer_full _ _ _ _ _ _ _ _ _ _ LK0 F0 OU) as (F1 & _ & E1 & L1).
      destruct E1 as [->| ->]; [|subst X; cbn in NX; contradiction].
      destruct (sweep kos cb fuel (order r1 alive1) g1) as [e2 g2] eqn:SW.
      destruct (sweep_full _ _ _ _ (lok_perm r1 alive1 g1 (L1 eq_refl)) F1 SW) as (F2 & _ & E2 & _).
      destruct E2 as [->| ->]; [|subst X; cbn in NX; contradiction].
      subst X. cbn [fst snd]. split; [reflexivity | apply F2]. }
    assert (FIN : match cb with CbBad => False | _ => True end ->
                  exc = None /\ RCI g).
    { intro NB. destruct cb; try contradiction; destruct (MAIN _ H NO) as [A Bq]; cbn [fst snd] in A, Bq; split; assumption. }
    destruct cb eqn:CBE.
    1,2: destruct (FIN I) as [-> RC];
      destruct (wait_procs_partition kos _ fuel order order_perm _ _ _ _ _ _ H0) as (NG & NA & DJ & COV & RCm & CBm);
      (apply andb_true_iff; split; [apply andb_true_iff; split|]);
      [ apply partition_bool; try assumption; unfold kos in COV; rewrite map_length in COV; exact COV
      | apply forallb_forall; exact RC
      | destruct tmo as [t|]; [|reflexivity]; apply Qlt_bool_true; unfold cap;
        eapply (wait_procs_deadline ps _ fuel order order_perm wf_all); [eapply bad_timeout_false; eauto | exact H0] ].
    inversion H. reflexivity.
  Qed.

  (* the same for an input with aliases (handles over the processes 0 .. N-1, any multiplicity) *)
  Theorem wait_procs_of_meets_oracle : forall input tmo rounds start exc gone alive g,
    (forall x, In x input -> (x < N)%nat) ->
    wait_procs_of kos cb fuel order input tmo rounds start = (exc, gone, alive, g) ->
    exc <> Some ROutOfFuel ->
    spec_procs_in input ps cb start tmo exc gone alive (g_rc g) (g_cb g) (g_now g) = true.
  Proof.
    intros input tmo rounds start exc gone alive g RNG H NO. pose proof H as H0. unfold wait_procs_of, wait_procs_from in H.
    unfold spec_procs_in. destruct (bad_timeout tmo) eqn:B; [inversion H; reflexivity|].
    set (g0 := {| g_now := start; g_objs := map (fun _ => new_pobj) kos; g_gone := []; g_rc := [];
                  g_cb := []; g_sleeps := []; g_waits := [] |}) in *.
    pose proof (fi_init start) as F0. fold g0 in F0.
    assert (LK0 : LOK (nodup Nat.eq_dec input) g0).
    { split; [apply NoDup_nodup|]. intros x Hx. apply nodup_In in Hx. split; [apply RNG; exact Hx | intros []]. }
    assert (MAIN : forall X : option wres * list nat * list nat * gst,
      match outer kos cb fuel order rounds (match tmo with Some t => Some (start + t) | None => None end)
                  (nodup Nat.eq_dec input) g0 tmo 0 with
      | (Some e, alive, g, _) => (Some e, [], alive, g)
      | (None, alive, g, r) =>
        match sweep kos cb fuel (order r alive) g with
        | (Some e, g') => (Some e, [], alive, g')
        | (None, g') => (None, g_gone g', minus alive (g_gone g'), g')
        end
      end = X -> fst (fst (fst X)) <> Some ROutOfFuel ->
      fst (fst (fst X)) = None /\ RCI (snd X)).
    { intros X HX NX.
      destruct (outer kos cb fuel order rounds _ (nodup Nat.eq_dec input) g0 tmo 0) as [[[e1 alive1] g1] r1] eqn:OU.
      destruct (outer_full _ _ _ _ _ _ _ _ _ _ LK0 F0 OU) as (F1 & _ & E1 & L1).
      destruct E1 as [->| ->]; [|subst X; cbn in NX; contradiction].
      destruct (sweep kos cb fuel (order r1 alive1) g1) as [e2 g2] eqn:SW.
      destruct (sweep_full _ _ _ _ (lok_perm r1 alive1 g1 (L1 eq_refl)) F1 SW) as (F2 & _ & E2 & _).
      destruct E2 as [->| ->]; [|subst X; cbn in NX; contradiction].
      subst X. cbn [fst snd]. split; [reflexivity | apply F2]. }
    assert (FIN : match cb with CbBad => False | _ => True end ->
                  exc = None /\ RCI g).
    { intro NB. destruct cb; try contradiction; destruct (MAIN _ H NO) as [A Bq]; cbn [fst snd] in A, Bq; split; assumption. }
    destruct cb eqn:CBE.
    1,2: destruct (FIN I) as [-> RC];
      destruct (wait_procs_of_partition kos _ fuel order order_perm _ _ _ _ _ _ _ H0) as (NG & NA & DJ & COV & _ & RCm & CBm);
      (apply andb_true_iff; split; [apply andb_true_iff; split|]);
      [ apply partition_in_bool; assumption
      | apply forallb_forall; exact RC
      | destruct tmo as [t|]; [|reflexivity]; apply Qlt_bool_true; unfold cap;
        eapply (wait_procs_from_deadline ps _ fuel order order_perm wf_all); [eapply bad_timeout_false; eauto | | exact H0];
        intros x Hx; apply nodup_In in Hx; apply RNG; exact Hx ].
    inversion H. reflexivity.
  Qed.
End Procs.

Theorem wait_procs_meets_oracle_fuel : forall ps cb fuel order,
  (forall r l, Permutation (order r l) l) -> forallb wf_proc ps = true ->
  forall tm rounds start exc gone alive g,
  0 <= tm -> (polls_bound 1 <= fuel)%nat -> (rounds_bound (length ps) tm <= rounds)%nat ->
  wait_procs (map to_ko ps) cb fuel order (Some tm) rounds start = (exc, gone, alive, g) ->
  spec_procs ps cb start (Some tm) exc gone alive (g_rc g) (g_cb g) (g_now g) = true.
Proof.
  intros ps cb fuel order OP WF tm rounds start exc gone alive g NN FU RB H.
  eapply wait_procs_meets_oracle; eauto. eapply wait_procs_terminates; eauto.
Qed.

(* the fuel hypotheses are not vacuous: with too little fuel the artefact does appear *)
Example ex_fuel_needed :
  fst (wait_pid (k_waitpid ex_stuck) (k_exists ex_stuck) (p_pid ex_stuck) (Some (1 # 10)) 5 0 0) = ROutOfFuel
  /\ (polls_bound (1 # 10) = 15)%nat
  /\ fst (wait_pid (k_waitpid ex_stuck) (k_exists ex_stuck) (p_pid ex_stuck) (Some (1 # 10)) 15 0 0) = RTimeout (1 # 10) 8.
Proof. split; [vm_compute; reflexivity|]. split; vm_compute; reflexivity. Qed.
