(* C08 -- one call = ONE reading of /proc/meminfo.  The file may change between two opens made inside one call
   (the kernel regenerates it on every open); [serve n] is what the n-th open of {procfs}/meminfo inside the call
   delivers (None: that open fails).  The code as it is opens the file once, at the start of virtual_memory() /
   swap_memory(), and hands the parsed dict to calculate_avail_vmem(mems) (coq/Gen/C08_Tables.v: the translated body
   contains no other read); the model of a call over such a changing file therefore looks at [serve 0] only. *)
From PV Require Import C08.Spec C08.ProofsVM C08.ProofsSwap.

Definition virtual_memory_opens (pagesize : Z) (serve : nat -> option bytes) (zoneinfo : option bytes) : outcome vmres :=
  match serve 0%nat with Some mi => virtual_memory pagesize mi zoneinfo | None => Exc OSError end.
Definition swap_memory_opens (pagesize : Z) (serve : nat -> option bytes) (sysinfo : Z * Z * Z) (vmstat : option bytes) : outcome swapres :=
  match serve 0%nat with Some mi => swap_memory pagesize mi sysinfo vmstat | None => Exc OSError end.

(* whatever the later opens deliver (other figures, malformed bytes, nothing), every field -- total/free/cached/used AND
   available/percent, also on the fallback path that consults /proc/zoneinfo -- is the demanded answer for the FIRST snapshot *)
Lemma vm_first_snapshot k serve :
  wf_kernel k = true -> has_total_free k = true -> float_exact k = true ->
  serve 0%nat = Some (k_meminfo (k_mem k)) ->
  virtual_memory_opens (k_pagesize k) serve (option_map k_zoneinfo (k_zone k)) = Val (spec_vm k).
Proof. intros Hwf Htf Hfl Hs. unfold virtual_memory_opens. rewrite Hs. now apply vm_exact. Qed.

Lemma swap_first_snapshot k serve :
  wf_kernel k = true -> serve 0%nat = Some (k_meminfo (k_mem k)) ->
  swap_memory_opens (k_pagesize k) serve (k_sysinfo k) (option_map k_vmstat (k_vm k)) = Val (spec_swap k).
Proof. intros Hwf Hs. unfold swap_memory_opens. rewrite Hs. now apply swap_exact. Qed.
