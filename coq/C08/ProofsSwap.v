(* C08 -- swap_memory(): the model meets the specification for every kernel record. *)
From PV Require Import C08.Spec C08.Lib C08.ProofsRound C08.ProofsVM.
Require Import ZifyBool.

(* ================================================================ /proc/vmstat lines *)
Lemma wf_vline_inv v : wf_vline v = true ->
  no_ws (vl_name v) = true /\ vname_ok (vl_name v) = true /\ is_dec (vl_val v) = true /\ vrest_ok (vl_rest v) = true.
Proof.
  unfold wf_vline. intros H. apply andb_true_iff in H as [H Hr]. apply andb_true_iff in H as [H Hv].
  apply andb_true_iff in H as [Hn Ho]. apply tok_ok_spec in Hn as [_ Hn]. auto.
Qed.

Lemma vitem_body i : wf_vitem i = true ->
  exists body, k_vitem i = body ++ [10] /\ contains 10 body = false.
Proof.
  destruct i as [v|b]; cbn [wf_vitem k_vitem]; intros H.
  - apply wf_vline_inv in H as [Hn [_ [Hv Hr]]].
    unfold vrest_ok in Hr. apply andb_true_iff in Hr as [Hr _]. apply negb_true_iff in Hr.
    exists (vl_name v ++ 32 :: vl_val v ++ vl_rest v). split.
    + unfold k_vline. rewrite <- app_assoc. cbn [app]. now rewrite <- app_assoc.
    + rewrite contains_app, contains_cons, contains_app.
      rewrite (no_ws_contains 10 _ eq_refl Hn), (dec_no_nl _ Hv), Hr. reflexivity.
  - apply andb_true_iff in H as [H _]. apply andb_true_iff in H as [H _]. apply negb_true_iff in H. eauto.
Qed.

(* int(line.split(b' ')[1]): the value, also when further columns follow *)
Lemma vm_field_line mul v : wf_vline v = true ->
  vm_field mul (k_vline v) = Val (dec_val (vl_val v) * mul).
Proof.
  intros H. apply wf_vline_inv in H as [Hn [_ [Hv Hr]]].
  unfold vm_field, k_vline. rewrite split_on_app by (now apply no_ws_contains).
  unfold vrest_ok in Hr. apply andb_true_iff in Hr as [_ Hr].
  destruct (vl_rest v) as [|c r].
  - cbn [app]. rewrite split_on_nosep.
    + cbn [nth_error of_option obind]. unfold py_int. rewrite (parse_int_dec_nl _ Hv). reflexivity.
    + rewrite contains_app, (dec_no_sp _ Hv). reflexivity.
  - apply Z.eqb_eq in Hr. subst c. cbn [app]. rewrite split_on_app by (now apply dec_no_sp).
    cbn [nth_error of_option obind]. rewrite (py_int_dec _ Hv). reflexivity.
Qed.

Definition vstep (mul : Z) (st : option Z * option Z) (i : vitem) : option Z * option Z :=
  match i with
  | VLine v =>
    if beqb (vl_name v) K_pswpin then (Some (dec_val (vl_val v) * mul), snd st)
    else if beqb (vl_name v) K_pswpout then (fst st, Some (dec_val (vl_val v) * mul))
    else st
  | VJunk _ => st
  end.

Fixpoint vloop (mul : Z) (sin sout : option Z) (vs : list vitem) : option (Z * Z) :=
  match vs with
  | [] => None
  | v :: r =>
    match vstep mul (sin, sout) v with
    | (Some a, Some b) => Some (a, b)
    | (a, b) => vloop mul a b r
    end
  end.

Lemma vmstat_loop_lines mul vs : forall sin sout, forallb wf_vitem vs = true ->
  vmstat_loop mul sin sout (map k_vitem vs) = Val (vloop mul sin sout vs).
Proof.
  induction vs as [|i vs IH]; intros sin sout H; [reflexivity|].
  cbn [forallb] in H. apply andb_true_iff in H as [Hv Hr].
  cbn [map vmstat_loop vloop]. destruct i as [v|b].
  - cbn [k_vitem wf_vitem] in *.
    pose proof (vm_field_line mul v Hv) as HF.
    apply wf_vline_inv in Hv as [Hn [Ho [Hd _]]].
    assert (P1 : prefixb K_pswpin (k_vline v) = prefixb K_pswpin (vl_name v))
      by (unfold k_vline; apply prefixb_app_sep; reflexivity).
    assert (P2 : prefixb K_pswpout (k_vline v) = prefixb K_pswpout (vl_name v))
      by (unfold k_vline; apply prefixb_app_sep; reflexivity).
    rewrite P1, P2. clear P1 P2.
    unfold vstep, vname_ok in *.
    destruct (beqb (vl_name v) K_pswpin) eqn:E1.
    + apply beqb_eq in E1. rewrite E1. change (prefixb K_pswpin K_pswpin) with true. cbv iota.
      rewrite HF. cbn [obind snd]. destruct sout; [reflexivity|]. now apply IH.
    + destruct (beqb (vl_name v) K_pswpout) eqn:E2.
      * apply beqb_eq in E2. rewrite E2.
        change (prefixb K_pswpin K_pswpout) with false. change (prefixb K_pswpout K_pswpout) with true. cbv iota.
        rewrite HF. cbn [obind fst]. destruct sin; [reflexivity|]. now apply IH.
      * change (bs "pswpin") with K_pswpin in Ho. change (bs "pswpout") with K_pswpout in Ho.
        rewrite E1, E2 in Ho. cbn [orb] in Ho. apply andb_true_iff in Ho as [O1 O2].
        apply negb_true_iff in O1. apply negb_true_iff in O2. rewrite O1, O2. cbn [obind].
        destruct sin as [a|]; [destruct sout as [b0|]|]; try now apply IH.
        reflexivity.
  - cbn [k_vitem wf_vitem vstep] in *.
    apply andb_true_iff in Hv as [Hv O2]. apply andb_true_iff in Hv as [_ O1].
    apply negb_true_iff in O1. apply negb_true_iff in O2.
    change (b ++ [10]) with (b ++ 10 :: []).
    rewrite !prefixb_app_sep by reflexivity.
    change (bs "pswpin") with K_pswpin in O1. change (bs "pswpout") with K_pswpout in O2.
    rewrite O1, O2. cbn [obind].
    destruct sin as [a|]; [destruct sout as [b0|]|]; try now apply IH.
    reflexivity.
Qed.

(* the loop of the code is the log reading of the specification, in bytes *)
Definition scale (mul : Z) (o : option Z) : option Z := option_map (fun p => p * mul) o.
Lemma vloop_scan mul vs : forall i o,
  vloop mul (scale mul i) (scale mul o) vs =
  match sw_scan i o vs with Some (a, b) => Some (a * mul, b * mul) | None => None end.
Proof.
  induction vs as [|it vs IH]; intros i o; [reflexivity|].
  cbn [vloop sw_scan]. destruct it as [v|b]; cbn [vstep fst snd].
  - change (bs "pswpin") with K_pswpin. change (bs "pswpout") with K_pswpout.
    destruct (beqb (vl_name v) K_pswpin).
    + destruct o as [y|]; cbn [scale option_map]; [reflexivity|].
      apply (IH (Some (dec_val (vl_val v))) None).
    + destruct (beqb (vl_name v) K_pswpout).
      * destruct i as [x|]; cbn [scale option_map]; [reflexivity|].
        apply (IH None (Some (dec_val (vl_val v)))).
      * destruct i as [x|]; [destruct o as [y|]|]; cbn [scale option_map]; try reflexivity;
          try apply (IH (Some x) None); try apply (IH None o).
  - destruct i as [x|]; [destruct o as [y|]|]; cbn [scale option_map]; try reflexivity;
      try apply (IH (Some x) None); try apply (IH None o).
Qed.

Theorem vmstat_printed mul vs : wf_vmstat vs = true ->
  vmstat_loop mul None None (lines_keep (k_vmstat vs))
  = Val match sw_scan None None vs with Some (a, b) => Some (a * mul, b * mul) | None => None end.
Proof.
  intros Hw. unfold wf_vmstat in Hw. unfold k_vmstat. rewrite lines_keep_concat.
  - rewrite vmstat_loop_lines by exact Hw. f_equal. apply (vloop_scan mul vs None None).
  - intros v Hv. apply vitem_body. rewrite forallb_forall in Hw. now apply Hw.
Qed.

(* with distinct names (what every kernel prints) the log reading is the lookup by name *)
Definition orelse (a b : option Z) : option Z := match a with Some _ => a | None => b end.
Definition both (a b : option Z) : option (Z * Z) :=
  match a, b with Some x, Some y => Some (x, y) | _, _ => None end.

Lemma sw_scan_lookup vs : forall sa sb,
  nodupb (vnames vs) = true ->
  (sa <> None -> existsb (beqb K_pswpin) (vnames vs) = false) ->
  (sb <> None -> existsb (beqb K_pswpout) (vnames vs) = false) ->
  (sa = None \/ sb = None) ->
  sw_scan sa sb vs = both (orelse sa (vfind K_pswpin vs)) (orelse sb (vfind K_pswpout vs)).
Proof.
  induction vs as [|it vs IH]; intros sa sb Hn Ha Hb Hab.
  - cbn. destruct Hab as [-> | ->]; [reflexivity|]. destruct sa; reflexivity.
  - destruct it as [v|b].
    + cbn [vnames nodupb] in Hn. apply andb_true_iff in Hn as [Hn1 Hn2]. apply negb_true_iff in Hn1.
      cbn [sw_scan vfind]. change (bs "pswpin") with K_pswpin. change (bs "pswpout") with K_pswpout.
      rewrite (beqb_sym K_pswpin (vl_name v)), (beqb_sym K_pswpout (vl_name v)).
      destruct (beqb (vl_name v) K_pswpin) eqn:E1.
      * apply beqb_eq in E1.
        assert (sa = None) as ->.
        { destruct sa; [|reflexivity]. specialize (Ha ltac:(discriminate)).
          cbn [vnames existsb] in Ha. rewrite E1, beqb_refl in Ha. discriminate. }
        assert (E2 : beqb (vl_name v) K_pswpout = false) by (rewrite E1; reflexivity).
        rewrite E2. cbn [orelse].
        destruct sb as [b|]; [reflexivity|].
        assert (X1 : Some (dec_val (vl_val v)) <> None -> existsb (beqb K_pswpin) (vnames vs) = false)
          by (intros _; rewrite <- E1; exact Hn1).
        assert (X2 : @None Z <> None -> existsb (beqb K_pswpout) (vnames vs) = false) by (intros X; congruence).
        rewrite (IH _ _ Hn2 X1 X2 (or_intror eq_refl)). reflexivity.
      * destruct (beqb (vl_name v) K_pswpout) eqn:E2.
        -- apply beqb_eq in E2.
           assert (sb = None) as ->.
           { destruct sb; [|reflexivity]. specialize (Hb ltac:(discriminate)).
             cbn [vnames existsb] in Hb. rewrite E2, beqb_refl in Hb. discriminate. }
           cbn [orelse]. destruct sa as [a|]; [reflexivity|].
           assert (X1 : @None Z <> None -> existsb (beqb K_pswpin) (vnames vs) = false) by (intros X; congruence).
           assert (X2 : Some (dec_val (vl_val v)) <> None -> existsb (beqb K_pswpout) (vnames vs) = false)
             by (intros _; rewrite <- E2; exact Hn1).
           rewrite (IH _ _ Hn2 X1 X2 (or_introl eq_refl)). reflexivity.
        -- assert (IHx : sw_scan sa sb vs =
                         both (orelse sa (vfind K_pswpin vs)) (orelse sb (vfind K_pswpout vs))).
           { apply IH; auto.
             - intros X. specialize (Ha X). cbn [vnames existsb] in Ha. now apply orb_false_iff in Ha as [_ Ha].
             - intros X. specialize (Hb X). cbn [vnames existsb] in Hb. now apply orb_false_iff in Hb as [_ Hb]. }
           destruct sa as [a|]; [destruct sb as [b|]|]; try exact IHx.
           destruct Hab; discriminate.
    + cbn [vnames] in *. cbn [sw_scan vfind].
      assert (IHx : sw_scan sa sb vs =
                    both (orelse sa (vfind K_pswpin vs)) (orelse sb (vfind K_pswpout vs))) by (apply IH; auto).
      destruct sa as [a|]; [destruct sb as [b0|]|]; try exact IHx.
      destruct Hab; discriminate.
Qed.

Theorem sw_scan_distinct vs : nodupb (vnames vs) = true ->
  sw_scan None None vs = both (vfind (bs "pswpin") vs) (vfind (bs "pswpout") vs).
Proof. intros H. rewrite sw_scan_lookup; auto; congruence. Qed.

(* ================================================================ main theorems *)
Local Set Warnings "-variable-collision".
(* [mul] = what the code multiplies the page counts by; [len] = lenient meminfo parser *)
Lemma swap_general len mul k : wf_kernel k = true -> (len = true \/ no_junk (k_mem k) = true) ->
  swap_memory_gen len mul (k_meminfo (k_mem k)) (k_sysinfo k) (option_map k_vmstat (k_vm k))
  = Val (spec_swap {| k_mem := k_mem k; k_zone := k_zone k; k_vm := k_vm k;
                      k_pagesize := mul; k_sysinfo := k_sysinfo k |}).
Proof.
  intros Hwf HL. apply wf_kernel_inv in Hwf as [Hm [_ Hv]].
  destruct (parse_meminfo_printed len (k_mem k) Hm HL) as [d [Hp Hd]].
  unfold swap_memory_gen. rewrite Hp. cbn [obind]. unfold K_SwapTotal, K_SwapFree. rewrite !Hd.
  unfold spec_swap, sw_io, sw_percent10, sw_used, sw_total, sw_free, sw_total_free.
  cbn [k_mem k_vm k_pagesize k_sysinfo].
  set (tf := match kbytes (k_mem k) "SwapTotal:" with
             | Some t => match kbytes (k_mem k) "SwapFree:" with
                         | Some f => (t, f)
                         | None => let '(st, sf, unit) := k_sysinfo k in (st * unit, sf * unit)
                         end
             | None => let '(st, sf, unit) := k_sysinfo k in (st * unit, sf * unit)
             end).
  destruct tf as [t f]. cbn [fst snd].
  destruct (k_vm k) as [vs|]; cbn [option_map opt_forall] in *.
  - rewrite (vmstat_printed mul vs Hv). cbn [obind].
    destruct (sw_scan None None vs) as [[i o]|]; reflexivity.
  - reflexivity.
Qed.

Theorem swap_exact_gen len k : wf_kernel k = true -> (len = true \/ no_junk (k_mem k) = true) ->
  swap_memory_gen len (k_pagesize k) (k_meminfo (k_mem k)) (k_sysinfo k) (option_map k_vmstat (k_vm k))
  = Val (spec_swap k).
Proof. intros Hwf HL. rewrite (swap_general len (k_pagesize k) k Hwf HL). destruct k; reflexivity. Qed.

(* the code as it is now (fe3ce75: page size; db3d5fc: lenient meminfo parser) *)
Theorem swap_exact k : wf_kernel k = true ->
  swap_memory (k_pagesize k) (k_meminfo (k_mem k)) (k_sysinfo k) (option_map k_vmstat (k_vm k))
  = Val (spec_swap k).
Proof. intros Hwf. apply (swap_exact_gen true); auto. Qed.

(* the code before fe3ce75 multiplied by the literal 4096 whatever the page size: on a
   64K-page kernel the demanded bytes (pages * page size) were not what it reported *)
Definition vl (n v : string) : vitem := VLine {| vl_name := bs n; vl_val := bs v; vl_rest := [] |}.
Definition bigpage_kernel : kernel :=
  {| k_mem := [ ml "SwapTotal:" 5 "2097148"; ml "SwapFree:" 6 "2000000" ];
     k_zone := None;
     k_vm := Some [ vl "pgpgin" "7"; vl "pswpin" "1"; vl "pswpout" "2" ];
     k_pagesize := 65536; k_sysinfo := (0, 0, 1) |}.
Theorem swap_literal_4096_refuted :
  exists k r, wf_kernel k = true /\ k_pagesize k = 65536 /\
    swap_memory 4096 (k_meminfo (k_mem k)) (k_sysinfo k) (option_map k_vmstat (k_vm k)) = Val r /\
    s_sin r = 4096 /\ s_sin (spec_swap k) = 65536 /\ s_sout r = 8192 /\ s_sout (spec_swap k) = 131072.
Proof. exists bigpage_kernel. eexists. repeat split; vm_compute; reflexivity. Qed.

(* free <= total (and a non-negative total)  ->  0 <= percent <= 100 *)
Theorem swap_range k : 0 <= sw_free k <= sw_total k -> 0 <= sw_percent10 k <= 1000.
Proof.
  intros H. unfold sw_percent10, sw_used.
  destruct (sw_total k =? 0) eqn:E0; [lia|].
  assert (0 <? sw_total k = true) as -> by lia.
  apply round_he_range; nia.
Qed.

(* swap percent is the exact ratio used*100/total rounded half-to-even to one decimal *)
Theorem swap_percent_half_even k : 0 < sw_total k ->
  nearest_even (sw_percent10 k) ((sw_total k - sw_free k) * 1000) (sw_total k).
Proof.
  intros Ht. unfold sw_percent10, sw_used. assert (sw_total k =? 0 = false) as -> by lia.
  assert (0 <? sw_total k = true) as -> by lia. now apply round_he_nearest.
Qed.

(* whichever of vmstat / the two counters is missing: the call succeeds, sin = sout = 0, warning *)
Theorem swap_missing_counters k r : wf_kernel k = true ->
  swap_memory (k_pagesize k) (k_meminfo (k_mem k)) (k_sysinfo k) (option_map k_vmstat (k_vm k)) = Val r ->
  (k_vm k = None \/
   (exists vs, k_vm k = Some vs /\ nodupb (vnames vs) = true /\
               (vfind (bs "pswpin") vs = None \/ vfind (bs "pswpout") vs = None))) ->
  s_sin r = 0 /\ s_sout r = 0 /\ s_warned r = true /\
  s_total r = sw_total k /\ s_free r = sw_free k /\ s_used r = sw_total k - sw_free k.
Proof.
  intros Hwf Hr H. rewrite (swap_exact k Hwf) in Hr. injection Hr as <-.
  unfold spec_swap, sw_io, sw_used. destruct H as [-> | [vs [-> [Hn [E|E]]]]].
  - cbn [s_sin s_sout s_warned s_total s_free s_used]. repeat split; reflexivity.
  - rewrite (sw_scan_distinct vs Hn), E. cbn [both s_sin s_sout s_warned s_total s_free s_used]. repeat split; reflexivity.
  - rewrite (sw_scan_distinct vs Hn), E. destruct (vfind (bs "pswpin") vs);
      cbn [both s_sin s_sout s_warned s_total s_free s_used]; repeat split; reflexivity.
Qed.

(* the ordinary case, spelled out: distinct names, both counters present *)
Theorem swap_counters_distinct k vs i o : wf_kernel k = true ->
  k_vm k = Some vs -> nodupb (vnames vs) = true ->
  vfind (bs "pswpin") vs = Some i -> vfind (bs "pswpout") vs = Some o ->
  exists r, swap_memory (k_pagesize k) (k_meminfo (k_mem k)) (k_sysinfo k) (option_map k_vmstat (k_vm k)) = Val r /\
            s_sin r = i * k_pagesize k /\ s_sout r = o * k_pagesize k /\ s_warned r = false.
Proof.
  intros Hwf Hv Hn Hi Ho. eexists. split; [apply (swap_exact k Hwf)|].
  unfold spec_swap, sw_io. rewrite Hv, (sw_scan_distinct vs Hn), Hi, Ho. cbn. auto.
Qed.

(* repeated counter lines and extra columns: "pswpin 1 / pswpin 2 x / pswpout 3 / pswpin 9" is read
   as sin = 2 pages, sout = 3 pages (the last pswpin before both are known) *)
Example swap_duplicates_example :
  let k := {| k_mem := [ ml "SwapTotal:" 5 "100"; ml "SwapFree:" 6 "40" ]; k_zone := None;
              k_vm := Some [ vl "pswpin" "1"; VJunk (bs "nr_foo");
                             VLine {| vl_name := bs "pswpin"; vl_val := bs "2"; vl_rest := bs " x" |};
                             vl "pswpout" "3"; vl "pswpin" "9" ];
              k_pagesize := 4096; k_sysinfo := (0, 0, 1) |} in
  wf_kernel k = true /\
  swap_memory 4096 (k_meminfo (k_mem k)) (k_sysinfo k) (option_map k_vmstat (k_vm k)) =
    Val {| s_total := 102400; s_used := 61440; s_free := 40960; s_percent10 := 600;
           s_sin := 8192; s_sout := 12288; s_warned := false |}.
Proof. vm_compute. split; reflexivity. Qed.
