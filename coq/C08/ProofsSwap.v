(* C08 -- swap_memory(): the model meets the specification for every kernel record. *)
From PV Require Import C08.Spec C08.Lib C08.ProofsRound C08.ProofsVM.
Require Import ZifyBool.
Local Set Warnings "-variable-collision".

(* ================================================================ /proc/vmstat lines *)
Lemma wf_vline_inv v : wf_vline v = true ->
  no_ws (vl_name v) = true /\ vname_ok (vl_name v) = true /\ is_dec (vl_val v) = true.
Proof.
  unfold wf_vline. intros H. apply andb_true_iff in H as [H Hv]. apply andb_true_iff in H as [Hn Ho].
  apply tok_ok_spec in Hn as [_ Hn]. auto.
Qed.

Lemma vline_body v : wf_vline v = true ->
  exists body, k_vline v = body ++ [10] /\ contains 10 body = false.
Proof.
  intros H. apply wf_vline_inv in H as [Hn [_ Hv]].
  exists (vl_name v ++ 32 :: vl_val v). split.
  - unfold k_vline. rewrite <- app_assoc. reflexivity.
  - rewrite contains_app, contains_cons. rewrite (no_ws_contains 10 _ eq_refl Hn), (dec_no_nl _ Hv). reflexivity.
Qed.

Lemma vm_field_line mul v : wf_vline v = true ->
  vm_field mul (k_vline v) = Val (dec_val (vl_val v) * mul).
Proof.
  intros H. apply wf_vline_inv in H as [Hn [_ Hv]].
  unfold vm_field, k_vline. rewrite split_on_app by (now apply no_ws_contains).
  rewrite split_on_nosep.
  - cbn [nth_error of_option obind]. unfold py_int. rewrite (parse_int_dec_nl _ Hv). reflexivity.
  - rewrite contains_app, (dec_no_sp _ Hv). reflexivity.
Qed.

Definition vstep (mul : Z) (st : option Z * option Z) (v : vline) : option Z * option Z :=
  if beqb (vl_name v) K_pswpin then (Some (dec_val (vl_val v) * mul), snd st)
  else if beqb (vl_name v) K_pswpout then (fst st, Some (dec_val (vl_val v) * mul))
  else st.

Fixpoint vloop (mul : Z) (sin sout : option Z) (vs : list vline) : option (Z * Z) :=
  match vs with
  | [] => None
  | v :: r =>
    match vstep mul (sin, sout) v with
    | (Some a, Some b) => Some (a, b)
    | (a, b) => vloop mul a b r
    end
  end.

Lemma vmstat_loop_lines mul vs : forall sin sout, forallb wf_vline vs = true ->
  vmstat_loop mul sin sout (map k_vline vs) = Val (vloop mul sin sout vs).
Proof.
  induction vs as [|v vs IH]; intros sin sout H; [reflexivity|].
  cbn [forallb] in H. apply andb_true_iff in H as [Hv Hr].
  cbn [map vmstat_loop vloop].
  pose proof (vm_field_line mul v Hv) as HF.
  apply wf_vline_inv in Hv as [Hn [Ho Hd]].
  assert (P1 : prefixb K_pswpin (k_vline v) = prefixb K_pswpin (vl_name v))
    by (unfold k_vline; apply prefixb_app_sep; reflexivity).
  assert (P2 : prefixb K_pswpout (k_vline v) = prefixb K_pswpout (vl_name v))
    by (unfold k_vline; apply prefixb_app_sep; reflexivity).
  rewrite P1, P2. clear P1 P2.
  unfold vstep, vname_ok in *.
  destruct (beqb (vl_name v) K_pswpin) eqn:E1.
  - apply beqb_eq in E1. rewrite E1. change (prefixb K_pswpin K_pswpin) with true. cbv iota.
    rewrite HF. cbn [obind snd]. destruct sout; [reflexivity|]. now apply IH.
  - destruct (beqb (vl_name v) K_pswpout) eqn:E2.
    + apply beqb_eq in E2. rewrite E2.
      change (prefixb K_pswpin K_pswpout) with false. change (prefixb K_pswpout K_pswpout) with true. cbv iota.
      rewrite HF. cbn [obind fst]. destruct sin; [reflexivity|]. now apply IH.
    + change (bs "pswpin") with K_pswpin in Ho. change (bs "pswpout") with K_pswpout in Ho.
      rewrite E1, E2 in Ho. cbn [orb] in Ho. apply andb_true_iff in Ho as [O1 O2].
      apply negb_true_iff in O1. apply negb_true_iff in O2. rewrite O1, O2. cbn [obind].
      destruct sin as [a|]; [destruct sout as [b|]|]; try now apply IH.
      (* both already set cannot be reached by the loop, but the equation still holds *)
      reflexivity.
Qed.

Definition orelse (a b : option Z) : option Z := match a with Some _ => a | None => b end.
Definition pages4k (mul : Z) (o : option Z) : option Z := option_map (fun p => p * mul) o.
Definition both (a b : option Z) : option (Z * Z) :=
  match a, b with Some x, Some y => Some (x, y) | _, _ => None end.

Lemma vfind_notin name vs : existsb (beqb name) (map vl_name vs) = false -> vfind name vs = None.
Proof.
  induction vs as [|v vs IH]; intros H; [reflexivity|].
  cbn [map existsb] in H. apply orb_false_iff in H as [H1 H2]. cbn [vfind]. rewrite H1. now apply IH.
Qed.

Lemma vloop_spec mul vs : forall sa sb,
  nodupb (map vl_name vs) = true ->
  (sa <> None -> existsb (beqb K_pswpin) (map vl_name vs) = false) ->
  (sb <> None -> existsb (beqb K_pswpout) (map vl_name vs) = false) ->
  (sa = None \/ sb = None) ->
  vloop mul sa sb vs = both (orelse sa (pages4k mul (vfind K_pswpin vs))) (orelse sb (pages4k mul (vfind K_pswpout vs))).
Proof.
  induction vs as [|v vs IH]; intros sa sb Hn Ha Hb Hab.
  - cbn. destruct Hab as [-> | ->]; [reflexivity|]. destruct sa; reflexivity.
  - cbn [map nodupb] in Hn. apply andb_true_iff in Hn as [Hn1 Hn2]. apply negb_true_iff in Hn1.
    cbn [vloop vfind]. unfold vstep. cbn [fst snd].
    rewrite (beqb_sym K_pswpin (vl_name v)), (beqb_sym K_pswpout (vl_name v)).
    destruct (beqb (vl_name v) K_pswpin) eqn:E1.
    + apply beqb_eq in E1.
      assert (sa = None) as ->.
      { destruct sa; [|reflexivity]. specialize (Ha ltac:(discriminate)).
        cbn [map existsb] in Ha. rewrite E1, beqb_refl in Ha. discriminate. }
      assert (E2 : beqb (vl_name v) K_pswpout = false) by (rewrite E1; reflexivity).
      rewrite E2. cbn [orelse pages4k option_map].
      destruct sb as [b|].
      * reflexivity.
      * assert (X1 : Some (dec_val (vl_val v) * mul) <> None ->
                     existsb (beqb K_pswpin) (map vl_name vs) = false)
          by (intros _; rewrite <- E1; exact Hn1).
        assert (X2 : @None Z <> None -> existsb (beqb K_pswpout) (map vl_name vs) = false)
          by (intros X; congruence).
        rewrite (IH _ _ Hn2 X1 X2 (or_intror eq_refl)). reflexivity.
    + destruct (beqb (vl_name v) K_pswpout) eqn:E2.
      * apply beqb_eq in E2.
        assert (sb = None) as ->.
        { destruct sb; [|reflexivity]. specialize (Hb ltac:(discriminate)).
          cbn [map existsb] in Hb. rewrite E2, beqb_refl in Hb. discriminate. }
        cbn [orelse pages4k option_map].
        destruct sa as [a|].
        -- reflexivity.
        -- assert (X1 : @None Z <> None -> existsb (beqb K_pswpin) (map vl_name vs) = false)
             by (intros X; congruence).
           assert (X2 : Some (dec_val (vl_val v) * mul) <> None ->
                        existsb (beqb K_pswpout) (map vl_name vs) = false)
             by (intros _; rewrite <- E2; exact Hn1).
           rewrite (IH _ _ Hn2 X1 X2 (or_introl eq_refl)). reflexivity.
      * assert (IHx : vloop mul sa sb vs =
                      both (orelse sa (pages4k mul (vfind K_pswpin vs))) (orelse sb (pages4k mul (vfind K_pswpout vs)))).
        { apply IH; auto.
          - intros X. specialize (Ha X). cbn [map existsb] in Ha. now apply orb_false_iff in Ha as [_ Ha].
          - intros X. specialize (Hb X). cbn [map existsb] in Hb. now apply orb_false_iff in Hb as [_ Hb]. }
        destruct sa as [a|]; [destruct sb as [b|]|]; try exact IHx.
        destruct Hab; discriminate.
Qed.

Theorem vmstat_printed mul vs : wf_vmstat vs = true ->
  vmstat_loop mul None None (lines_keep (k_vmstat vs))
  = Val (both (pages4k mul (vfind K_pswpin vs)) (pages4k mul (vfind K_pswpout vs))).
Proof.
  intros H. unfold wf_vmstat in H. apply andb_true_iff in H as [Hw Hn].
  unfold k_vmstat. rewrite lines_keep_concat.
  - rewrite vmstat_loop_lines by exact Hw. f_equal.
    rewrite vloop_spec; auto; congruence.
  - intros v Hv. apply vline_body. rewrite forallb_forall in Hw. now apply Hw.
Qed.

(* ================================================================ main theorems *)
(* [mul] = what the code multiplies the page counts by *)
Lemma swap_general mul k : wf_kernel k = true ->
  swap_memory mul (k_meminfo (k_mem k)) (k_sysinfo k) (option_map k_vmstat (k_vm k))
  = Val (spec_swap {| k_mem := k_mem k; k_zone := k_zone k; k_vm := k_vm k;
                      k_pagesize := mul; k_sysinfo := k_sysinfo k |}).
Proof.
  intros Hwf. unfold wf_kernel in Hwf.
  apply andb_true_iff in Hwf as [Hwf Hv]. apply andb_true_iff in Hwf as [Hm _].
  destruct (parse_meminfo_printed (k_mem k) Hm) as [d [Hp Hd]].
  unfold swap_memory. rewrite Hp. cbn [obind]. unfold K_SwapTotal, K_SwapFree. rewrite !Hd.
  unfold spec_swap, sw_io, sw_percent10, sw_used, sw_total, sw_free, sw_total_free.
  cbn [k_mem k_vm k_pagesize k_sysinfo].
  set (tf := match kbytes (k_mem k) "SwapTotal:" with
             | Some t => match kbytes (k_mem k) "SwapFree:" with
                         | Some f => (t, f)
                         | None => let '(st, sf, unit) := k_sysinfo k in (st * unit, sf * unit)
                         end
             | None => let '(st, sf, unit) := k_sysinfo k in (st * unit, sf * unit)
             end).
  destruct tf as [t f]. cbn [fst snd].
  destruct (k_vm k) as [vs|]; cbn [option_map opt_forall] in *.
  - rewrite (vmstat_printed mul vs Hv). cbn [obind].
    change (bs "pswpin") with K_pswpin. change (bs "pswpout") with K_pswpout.
    destruct (vfind K_pswpin vs) as [i|]; [|reflexivity].
    destruct (vfind K_pswpout vs) as [o|]; reflexivity.
  - reflexivity.
Qed.

(* the code as it is now (commit fe3ce75) multiplies by the page size: full strength *)
Theorem swap_exact k : wf_kernel k = true ->
  swap_memory (k_pagesize k) (k_meminfo (k_mem k)) (k_sysinfo k) (option_map k_vmstat (k_vm k))
  = Val (spec_swap k).
Proof. intros Hwf. rewrite (swap_general (k_pagesize k) k Hwf). destruct k; reflexivity. Qed.

(* the code before fe3ce75 multiplied by the literal 4096 whatever the page size: on a
   64K-page kernel the demanded bytes (pages * page size) were not what it reported *)
Definition bigpage_kernel : kernel :=
  {| k_mem := [ ml "SwapTotal:" 5 "2097148"; ml "SwapFree:" 6 "2000000" ];
     k_zone := None;
     k_vm := Some [ {| vl_name := bs "pgpgin"; vl_val := bs "7" |}; {| vl_name := bs "pswpin"; vl_val := bs "1" |};
                    {| vl_name := bs "pswpout"; vl_val := bs "2" |} ];
     k_pagesize := 65536; k_sysinfo := (0, 0, 1) |}.
Theorem swap_literal_4096_refuted :
  exists k r, wf_kernel k = true /\ k_pagesize k = 65536 /\
    swap_memory 4096 (k_meminfo (k_mem k)) (k_sysinfo k) (option_map k_vmstat (k_vm k)) = Val r /\
    s_sin r = 4096 /\ s_sin (spec_swap k) = 65536 /\ s_sout r = 8192 /\ s_sout (spec_swap k) = 131072.
Proof. exists bigpage_kernel. eexists. repeat split; vm_compute; reflexivity. Qed.

(* free <= total (and a non-negative total)  ->  0 <= percent <= 100 *)
Theorem swap_range k : 0 <= sw_free k <= sw_total k -> 0 <= sw_percent10 k <= 1000.
Proof.
  intros H. unfold sw_percent10, sw_used.
  destruct (sw_total k =? 0) eqn:E0; [lia|].
  assert (0 <? sw_total k = true) as -> by lia.
  apply round_he_range; nia.
Qed.

(* whichever of vmstat / the two counters is missing: the call succeeds, sin = sout = 0, warning *)
Theorem swap_missing_counters k r : wf_kernel k = true ->
  swap_memory (k_pagesize k) (k_meminfo (k_mem k)) (k_sysinfo k) (option_map k_vmstat (k_vm k)) = Val r ->
  (k_vm k = None \/
   (exists vs, k_vm k = Some vs /\ (vfind (bs "pswpin") vs = None \/ vfind (bs "pswpout") vs = None))) ->
  s_sin r = 0 /\ s_sout r = 0 /\ s_warned r = true /\
  s_total r = sw_total k /\ s_free r = sw_free k /\ s_used r = sw_total k - sw_free k.
Proof.
  intros Hwf Hr H. rewrite (swap_exact k Hwf) in Hr. injection Hr as <-.
  unfold spec_swap, sw_io, sw_used. destruct H as [-> | [vs [-> [E|E]]]].
  - cbn [s_sin s_sout s_warned s_total s_free s_used]. repeat split; reflexivity.
  - rewrite E. cbn [s_sin s_sout s_warned s_total s_free s_used]. repeat split; reflexivity.
  - rewrite E. destruct (vfind (bs "pswpin") vs);
      cbn [s_sin s_sout s_warned s_total s_free s_used]; repeat split; reflexivity.
Qed.

Example sample_swap_ok :
  0 <= sw_free sample_kernel <= sw_total sample_kernel /\
  spec_swap sample_kernel =
    {| s_total := 2097148 * 1024; s_used := 97148 * 1024; s_free := 2000000 * 1024; s_percent10 := 46;
       s_sin := 5 * 4096; s_sout := 17 * 4096; s_warned := false |}.
Proof. vm_compute. split; [split; congruence|reflexivity]. Qed.
