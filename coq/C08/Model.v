(* C08 -- model of psutil/_pslinux.py: calculate_avail_vmem, virtual_memory,
   swap_memory and psutil/_common.py: usage_percent (transcribed from the code
   that is in /repo now, line by line; Python dict = association list, later
   assignment wins; file iteration = lines_keep). No proofs here. *)
From PV Require Export Base.Dec.

(* ------------------------------------------------ the [mems] dict *)
Definition dict := list (bytes * Z).
Fixpoint dset (k : bytes) (v : Z) (d : dict) : dict :=
  match d with
  | [] => [(k, v)]
  | (k', v') :: r => if beqb k k' then (k, v) :: r else (k', v') :: dset k v r
  end.
Fixpoint dget (k : bytes) (d : dict) : option Z :=
  match d with
  | [] => None
  | (k', v') :: r => if beqb k k' then Some v' else dget k r
  end.
Definition default0 (o : option Z) : Z := match o with Some v => v | None => 0 end.

(*  for line in f:
       fields = line.split()
       try: mems[fields[0]] = int(fields[1]) * 1024
       except (IndexError, ValueError): continue
   [lenient] = true is the code as it is now (commit db3d5fc): a line with fewer than two fields
   or a non-numeric second field is skipped.  [lenient] = false is the code before that repair
   (no try/except: IndexError / ValueError escape; RHS is evaluated first); it is kept
   expressible for the refuted theorems, like C14's [strict]. *)
Definition mem_step (lenient : bool) (d : dict) (line : bytes) : outcome dict :=
  let fields := split_ws line in
  match nth_error fields 1 with
  | None => if lenient then Val d else Exc IndexError
  | Some v =>
    match parse_int v with
    | None => if lenient then Val d else Exc ValueError
    | Some n =>
      do k <- of_option IndexError (nth_error fields 0);
      Val (dset k (n * 1024) d)
    end
  end.
Fixpoint mem_fold (lenient : bool) (d : dict) (ls : list bytes) : outcome dict :=
  match ls with
  | [] => Val d
  | l :: r => do d' <- mem_step lenient d l; mem_fold lenient d' r
  end.
Definition parse_meminfo (lenient : bool) (content : bytes) : outcome dict :=
  mem_fold lenient [] (lines_keep content).

(* ------------------------------------------------ usage_percent(used, total, round_=1)
   The result is a float with one decimal; the model returns it in TENTHS, computed
   on the exact rational used*100/total and rounded half-to-even (Python's round()).
   ZeroDivisionError -> 0.0. *)
Definition round_he (n d : Z) : Z :=        (* nearest integer to n/d, d > 0 *)
  let q := n / d in
  let r := n mod d in
  if 2 * r <? d then q
  else if d <? 2 * r then q + 1
  else if Z.even q then q else q + 1.
Definition usage_percent10 (used total : Z) : Z :=
  if total =? 0 then 0
  else if 0 <? total then round_he (used * 1000) total
  else round_he (- (used * 1000)) (- total).

(* ------------------------------------------------ keys *)
Definition K_MemTotal := bs "MemTotal:".
Definition K_MemFree := bs "MemFree:".
Definition K_Buffers := bs "Buffers:".
Definition K_Cached := bs "Cached:".
Definition K_SReclaimable := bs "SReclaimable:".
Definition K_Shmem := bs "Shmem:".
Definition K_MemShared := bs "MemShared:".
Definition K_Active := bs "Active:".
Definition K_Inactive := bs "Inactive:".
Definition K_Inact_dirty := bs "Inact_dirty:".
Definition K_Inact_clean := bs "Inact_clean:".
Definition K_Inact_laundry := bs "Inact_laundry:".
Definition K_Slab := bs "Slab:".
Definition K_MemAvailable := bs "MemAvailable:".
Definition K_ActiveFile := bs "Active(file):".
Definition K_InactiveFile := bs "Inactive(file):".
Definition K_SwapTotal := bs "SwapTotal:".
Definition K_SwapFree := bs "SwapFree:".
Definition K_low := bs "low".
Definition K_pswpin := bs "pswpin".
Definition K_pswpout := bs "pswpout".

(* ------------------------------------------------ calculate_avail_vmem(mems)
       try:    f = open_binary(f"{get_procfs_path()}/zoneinfo")
       except OSError: return fallback
       with f:
           for line in f: line = line.strip(); if line.startswith(b'low'): watermark_low += int(line.split()[1])
   What /proc/zoneinfo does when it is opened and read is the state [zstate]: the file does not
   exist, open() fails with another errno (every one is an OSError: same branch), the content is
   delivered, or reading fails after [b] was delivered (the loop is outside the try: OSError escapes). *)
Inductive zerr := EACCES | EIO | EISDIR.
Inductive zstate :=
| ZAbsent                 (* ENOENT *)
| ZOpenErr (e : zerr)     (* open() raises PermissionError / OSError(EIO) / IsADirectoryError *)
| ZContent (b : bytes)
| ZReadErr (b : bytes).   (* [b] is read, then read() raises OSError(EIO) *)
Definition zs_of_opt (o : option bytes) : zstate :=
  match o with Some b => ZContent b | None => ZAbsent end.
Fixpoint zone_low (acc : Z) (ls : list bytes) : outcome Z :=
  match ls with
  | [] => Val acc
  | l :: r =>
    let s := strip l in
    if prefixb K_low s then
      do t <- of_option IndexError (nth_error (split_ws s) 1);
      do v <- py_int t;
      zone_low (acc + v) r
    else zone_low acc r
  end.

(* Python numbers in this function are ints or floats (pagecache / 2 and
   slab_reclaimable / 2.0 are floats, and so is everything computed from them).
   A float is kept as TWICE its value ([PF h] is the double h/2: every float that
   occurs here is an integer or a half-integer).  [rnd] is the rounding of an exact
   result (in half units) to a double; it is a parameter: [rnd53] below is IEEE-754
   binary64 round-to-nearest-even, the theorems only need that it leaves
   representable numbers alone. *)
Inductive pynum := PI (z : Z) | PF (h : Z).
Definition half2 (x : pynum) : Z := match x with PI z => 2 * z | PF h => h end.
Section FloatPath.
  Variable rnd : Z -> Z.
  Definition to_f (x : pynum) : Z := match x with PI z => rnd (2 * z) | PF h => h end.   (* float(x) *)
  Definition py_sub (a b : pynum) : pynum :=
    match a, b with
    | PI x, PI y => PI (x - y)
    | _, _ => PF (rnd (to_f a - to_f b))
    end.
  Definition py_add (a b : pynum) : pynum :=
    match a, b with
    | PI x, PI y => PI (x + y)
    | _, _ => PF (rnd (to_f a + to_f b))
    end.
  (* min(a, b): b only when b < a (exact comparison of int and float) *)
  Definition py_min (a b : pynum) : pynum := if half2 b <? half2 a then b else a.
  (* int(x): truncation toward zero *)
  Definition py_trunc (x : pynum) : Z := match x with PI z => z | PF h => Z.quot h 2 end.

  (* None: the except OSError branch; Some o: outcome of the with/for block *)
  Definition zone_open (z : zstate) : option (outcome Z) :=
    match z with
    | ZAbsent | ZOpenErr _ => None
    | ZContent c => Some (zone_low 0 (lines_keep c))
    | ZReadErr c => Some (do _ <- zone_low 0 (lines_keep c); Exc OSError)
    end.

  Definition calc_avail_gen (pagesize : Z) (d : dict) (zoneinfo : zstate) : outcome Z :=
    do free <- of_option KeyError (dget K_MemFree d);
    let fallback := free + default0 (dget K_Cached d) in
    match dget K_ActiveFile d, dget K_InactiveFile d, dget K_SReclaimable d with
    | Some lru_active_file, Some lru_inactive_file, Some slab_reclaimable =>
      match zone_open zoneinfo with
      | None => Val fallback
      | Some rd =>
        do wl0 <- rd;
        let watermark_low := wl0 * pagesize in
        let avail := PI (free - watermark_low) in
        let pagecache := lru_active_file + lru_inactive_file in
        (* pagecache / 2 : true division of ints, correctly rounded *)
        let pagecache' := py_sub (PI pagecache) (py_min (PF (rnd pagecache)) (PI watermark_low)) in
        let avail := py_add avail pagecache' in
        (* slab_reclaimable / 2.0 : float(slab_reclaimable), halved exactly *)
        let avail := py_add avail (py_sub (PI slab_reclaimable)
                                          (py_min (PF (rnd (2 * slab_reclaimable) / 2)) (PI watermark_low))) in
        Val (py_trunc avail)
      end
    | _, _, _ => Val fallback
    end.
End FloatPath.

(* IEEE-754 binary64 rounding of an integer (here: a value in half units; scaling by 2
   does not change which numbers are representable): 53 significant bits, ties to even *)
Definition rnd53 (x : Z) : Z :=
  let a := Z.abs x in
  if a <? 2 ^ 53 then x
  else let p := 2 ^ (Z.log2 a - 52) in Z.sgn x * (round_he a p * p).

Definition calc_avail := calc_avail_gen rnd53.

(* ------------------------------------------------ virtual_memory() *)
Record vmres := {
  v_total : Z; v_available : Z; v_percent10 : Z; v_used : Z; v_free : Z;
  v_active : Z; v_inactive : Z; v_buffers : Z; v_cached : Z; v_shared : Z; v_slab : Z;
  v_missing : list bytes    (* names in the RuntimeWarning, [] = no warning *)
}.

Definition miss (name : bytes) (o : option Z) : list bytes :=
  match o with Some _ => [] | None => [name] end.

Definition vm_of_dict (pagesize : Z) (d : dict) (zoneinfo : zstate) : outcome vmres :=
  do total <- of_option KeyError (dget K_MemTotal d);
  do free <- of_option KeyError (dget K_MemFree d);
  let buffers_o := dget K_Buffers d in
  let cached_o := match dget K_Cached d with
                  | Some c => Some (c + default0 (dget K_SReclaimable d))
                  | None => None end in
  let shared_o := match dget K_Shmem d with
                  | Some s => Some s
                  | None => dget K_MemShared d end in
  let active_o := dget K_Active d in
  let inactive_o := match dget K_Inactive d with
                    | Some i => Some i
                    | None =>
                      match dget K_Inact_dirty d, dget K_Inact_clean d, dget K_Inact_laundry d with
                      | Some a, Some b, Some c => Some (a + b + c)
                      | _, _, _ => None
                      end
                    end in
  let slab := default0 (dget K_Slab d) in
  let buffers := default0 buffers_o in
  let cached := default0 cached_o in
  let used0 := total - free - cached - buffers in
  let used := if used0 <? 0 then total - free else used0 in
  do avail0 <- match dget K_MemAvailable d with
               | Some a => if a =? 0 then calc_avail pagesize d zoneinfo else Val a
               | None => calc_avail pagesize d zoneinfo
               end;
  let neg := avail0 <? 0 in
  let avail := if neg then 0 else if total <? avail0 then free else avail0 in
  Val {| v_total := total; v_available := avail;
         v_percent10 := usage_percent10 (total - avail) total;
         v_used := used; v_free := free;
         v_active := default0 active_o; v_inactive := default0 inactive_o;
         v_buffers := buffers; v_cached := cached; v_shared := default0 shared_o; v_slab := slab;
         v_missing := miss (bs "buffers") buffers_o ++ miss (bs "cached") cached_o ++
                      miss (bs "shared") shared_o ++ miss (bs "active") active_o ++
                      miss (bs "inactive") inactive_o ++
                      (if neg then [bs "available"] else []) |}.

Definition virtual_memory_z (lenient : bool) (pagesize : Z) (meminfo : bytes) (zoneinfo : zstate) : outcome vmres :=
  do d <- parse_meminfo lenient meminfo;
  vm_of_dict pagesize d zoneinfo.
(* the two ordinary states: the file is there (Some content) or not (None) *)
Definition virtual_memory_gen (lenient : bool) (pagesize : Z) (meminfo : bytes) (zoneinfo : option bytes) : outcome vmres :=
  virtual_memory_z lenient pagesize meminfo (zs_of_opt zoneinfo).
(* the code as it is now *)
Definition virtual_memory := virtual_memory_gen true.

(* ------------------------------------------------ swap_memory()
   mul = PAGESIZE (see vm_field);
   sysinfo = (swap total, swap free, mem_unit) as cext.linux_sysinfo() returns them;
   vmstat = None : open() raised OSError. *)
Record swapres := {
  s_total : Z; s_used : Z; s_free : Z; s_percent10 : Z; s_sin : Z; s_sout : Z;
  s_warned : bool
}.

(* int(line.split(b' ')[1]) * PAGESIZE
   [mul] is the multiplier: the page size in the code as it is now (commit fe3ce75);
   before that repair the code multiplied by the literal 4 * 1024 whatever the page size. *)
Definition vm_field (mul : Z) (line : bytes) : outcome Z :=
  do t <- of_option IndexError (nth_error (split_on 32 line) 1);
  do v <- py_int t;
  Val (v * mul).

(* for line in f: ...; if sin is not None and sout is not None: break;  else: (zeros, warning) *)
Fixpoint vmstat_loop (mul : Z) (sin sout : option Z) (ls : list bytes) : outcome (option (Z * Z)) :=
  match ls with
  | [] => Val None
  | l :: r =>
    do st <- (if prefixb K_pswpin l then do v <- vm_field mul l; Val (Some v, sout)
              else if prefixb K_pswpout l then do v <- vm_field mul l; Val (sin, Some v)
              else Val (sin, sout));
    match st with
    | (Some a, Some b) => Val (Some (a, b))
    | (a, b) => vmstat_loop mul a b r
    end
  end.

Definition swap_memory_gen (lenient : bool) (mul : Z) (meminfo : bytes) (sysinfo : Z * Z * Z) (vmstat : option bytes) : outcome swapres :=
  do d <- parse_meminfo lenient meminfo;
  let '(total, free) :=
    match dget K_SwapTotal d, dget K_SwapFree d with
    | Some t, Some f => (t, f)
    | _, _ => let '(st, sf, unit) := sysinfo in (st * unit, sf * unit)
    end in
  let used := total - free in
  let percent := usage_percent10 used total in
  do io <- match vmstat with
           | None => Val None
           | Some c => vmstat_loop mul None None (lines_keep c)
           end;
  Val match io with
      | Some (sin, sout) =>
        {| s_total := total; s_used := used; s_free := free; s_percent10 := percent;
           s_sin := sin; s_sout := sout; s_warned := false |}
      | None =>
        {| s_total := total; s_used := used; s_free := free; s_percent10 := percent;
           s_sin := 0; s_sout := 0; s_warned := true |}
      end.
Definition swap_memory := swap_memory_gen true.

(* ------------------------------------------------ psutil/__init__.py: _TOTAL_PHYMEM
   virtual_memory():  ret = _psplatform.virtual_memory(); _TOTAL_PHYMEM = ret.total; return ret
   Process.memory_percent():  total_phymem = _TOTAL_PHYMEM or virtual_memory().total
                              if not total_phymem > 0: raise ValueError
                              return (value / float(total_phymem)) * 100
   The module global is the state [cache : option Z] (None at import).  [value] is the
   process figure (rss by default).  The result is returned as the exact ratio
   (numerator, denominator) of the percentage: value*100 / total. *)
Definition front_vm (cache : option Z) (pagesize : Z) (meminfo : bytes) (zoneinfo : option bytes)
  : option Z * outcome vmres :=
  match virtual_memory pagesize meminfo zoneinfo with
  | Val r => (Some (v_total r), Val r)
  | o => (cache, o)
  end.
Definition memory_percent (cache : option Z) (value : Z) (pagesize : Z) (meminfo : bytes) (zoneinfo : option bytes)
  : option Z * outcome (Z * Z) :=
  let fresh := let '(c, o) := front_vm cache pagesize meminfo zoneinfo in (c, omap v_total o) in
  let '(c, tot) := match cache with
                   | Some t => if t =? 0 then fresh else (cache, Val t)     (* "x or y": 0 is falsy *)
                   | None => fresh
                   end in
  (c, do t <- tot; if 0 <? t then Val (value * 100, t) else Exc ValueError).
