(* C08 -- the big /proc/zoneinfo files built by Spec.big_zoneinfo are inside the specification's
   domain for EVERY number of nodes, zones and CPUs (so C08_vm_exact applies to all of them). *)
From PV Require Import C08.Spec C08.Lib C08.ProofsVM C08.ProofsVM2.
Require Import ZifyBool.

Lemma dec_digits_digits fuel : forall n acc, 0 <= n -> all_digits acc = true ->
  all_digits (dec_digits fuel n acc) = true.
Proof.
  induction fuel as [|f IH]; intros n acc Hn Ha; [exact Ha|].
  cbn [dec_digits].
  assert (D : is_digit (48 + n mod 10) = true).
  { pose proof (Z.mod_pos_bound n 10 ltac:(lia)). unfold is_digit. lia. }
  destruct (n <? 10).
  - cbn [all_digits forallb]. now rewrite D.
  - apply IH.
    + apply Z.div_pos; lia.
    + cbn [all_digits forallb]. now rewrite D.
Qed.

Lemma dec_digits_nonempty fuel : forall n acc, acc <> [] -> dec_digits fuel n acc <> [].
Proof.
  induction fuel as [|f IH]; intros n acc Ha; [exact Ha|].
  cbn [dec_digits]. destruct (n <? 10); [discriminate|]. apply IH. discriminate.
Qed.

Lemma dec_digits_S_nonempty f n acc : dec_digits (S f) n acc <> [].
Proof.
  change (dec_digits (S f) n acc)
    with (if n <? 10 then (48 + n mod 10) :: acc else dec_digits f (n / 10) ((48 + n mod 10) :: acc)).
  destruct (n <? 10); [discriminate|]. apply dec_digits_nonempty. discriminate.
Qed.

Lemma dec_of_is_dec n : is_dec (dec_of n) = true.
Proof.
  unfold dec_of. assert (H : all_digits (dec_digits 100 (Z.abs n) []) = true)
    by (apply dec_digits_digits; [lia|reflexivity]).
  pose proof (dec_digits_S_nonempty 99 (Z.abs n) []) as N.
  destruct (dec_digits 100 (Z.abs n) []) as [|c l]; [congruence|exact H].
Qed.

Lemma lstrip_snoc_nonws x c : is_ws c = false -> lstrip (x ++ [c]) = lstrip x ++ [c].
Proof.
  intros Hc. induction x as [|y x IH].
  - cbn [app lstrip]. now rewrite Hc.
  - cbn [app lstrip]. destruct (is_ws y); [exact IH|reflexivity].
Qed.
Lemma rstrip_cons_nonws c t : is_ws c = false -> rstrip (c :: t) = c :: rstrip t.
Proof.
  intros Hc. unfold rstrip. cbn [rev]. rewrite lstrip_snoc_nonws by exact Hc.
  rewrite rev_app_distr. reflexivity.
Qed.

(* a line whose first non-blank byte is not 'l' does not start with "low" once stripped *)
Lemma nolow_line b c t : lstrip b = c :: t -> is_ws c = false -> (c =? 108) = false ->
  prefixb (bs "low") (strip b) = false.
Proof.
  intros E Hc Hl. unfold strip. rewrite E, rstrip_cons_nonws by exact Hc.
  cbn [bs prefixb]. change (byte_of_ascii "l") with 108. now rewrite Z.eqb_sym, Hl.
Qed.

Lemma repeat_no_nl n : contains 10 (repeat 35 n) = false.
Proof. induction n as [|n IH]; [reflexivity|]. cbn [repeat]. rewrite contains_cons, IH. reflexivity. Qed.

(* "<literal><number>" lines *)
Lemma zo_wf (lit : bytes) n c t :
  contains 10 lit = false -> (forall x, lstrip (lit ++ x) = c :: t ++ x) -> is_ws c = false -> (c =? 108) = false ->
  wf_zline (ZOther (lit ++ dec_of n)) = true.
Proof.
  intros Hn Hl Hc Hc2. cbn [wf_zline]. rewrite contains_app, Hn, (dec_no_nl _ (dec_of_is_dec n)).
  cbn [orb negb andb]. rewrite (nolow_line _ c (t ++ dec_of n)); auto.
Qed.

Ltac zo_tac := unfold zo; eapply zo_wf; [reflexivity|intros x; reflexivity|reflexivity|reflexivity].
Ltac lit_tac := cbn [wf_zline]; apply andb_true_iff; split;
  [reflexivity | apply negb_true_iff; eapply nolow_line; [reflexivity|reflexivity|reflexivity]].

Ltac split_all := repeat match goal with |- (_ && _) = true => apply andb_true_iff; split end.
Ltac leaf := first [ reflexivity | zo_tac | lit_tac ].

Lemma cpu_block_wf c : forallb wf_zline (cpu_block c) = true.
Proof. unfold cpu_block. cbn [forallb]. split_all; leaf. Qed.

Lemma forallb_concat_map {A} (f : A -> list zline) l :
  (forall a, forallb wf_zline (f a) = true) -> forallb wf_zline (concat (map f l)) = true.
Proof.
  intros H. induction l as [|a l IH]; [reflexivity|]. cbn [map concat]. now rewrite forallb_app, H, IH.
Qed.

Lemma node_line_wf node zn : In zn zone_names ->
  wf_zline (ZOther (bs "Node " ++ dec_of (Z.of_nat node) ++ bs ", zone " ++ bs zn)) = true.
Proof.
  intros Hin. cbn [wf_zline]. apply andb_true_iff; split.
  - apply negb_true_iff. rewrite !contains_app, (dec_no_nl _ (dec_of_is_dec _)).
    cbn [zone_names In] in Hin.
    destruct Hin as [<-|[<-|[<-|[<-|[<-|[]]]]]]; reflexivity.
  - apply negb_true_iff. eapply nolow_line; reflexivity.
Qed.

Lemma zone_block_wf node zn cpus low : In zn zone_names -> forallb wf_zline (zone_block node zn cpus low) = true.
Proof.
  intros Hin. unfold zone_block. rewrite !forallb_app. apply andb_true_iff; split; [|apply andb_true_iff; split].
  - cbn [forallb]. rewrite (node_line_wf node zn Hin). cbn [andb].
    split_all; try leaf.
    cbn [wf_zline]. now rewrite (dec_of_is_dec low).
  - apply forallb_concat_map. apply cpu_block_wf.
  - cbn [forallb]. split_all; leaf.
Qed.

Lemma zone_blocks_wf node names cpus lowf : (forall zn, In zn names -> In zn zone_names) ->
  forall i, forallb wf_zline (zone_blocks node names cpus lowf i) = true.
Proof.
  induction names as [|zn r IH]; intros Hin i; [reflexivity|].
  cbn [zone_blocks]. rewrite forallb_app, zone_block_wf by (apply Hin; now left).
  apply IH. intros z Hz. apply Hin. now right.
Qed.

Lemma firstn_In {A} n (l : list A) x : In x (firstn n l) -> In x l.
Proof.
  revert l. induction n as [|n IH]; intros [|y l] H; cbn in *; try contradiction.
  destruct H as [->|H]; [now left|right; now apply IH].
Qed.

Lemma node_blocks_wf nodes : forall node zones cpus lowf,
  forallb wf_zline (node_blocks nodes node zones cpus lowf) = true.
Proof.
  induction nodes as [|n IH]; intros node zones cpus lowf; [reflexivity|].
  cbn [node_blocks]. rewrite forallb_app, IH, zone_blocks_wf; [reflexivity|].
  intros zn. apply firstn_In.
Qed.

(* every big file the harness builds is a list of well-formed zone lines: any number of nodes, zones per
   node (up to the five zone types), CPUs, any watermarks, any filler *)
Theorem big_zoneinfo_wf nodes zones cpus lowf fill :
  forallb wf_zline (big_zoneinfo nodes zones cpus lowf fill) = true.
Proof.
  unfold big_zoneinfo. rewrite forallb_app, node_blocks_wf, andb_true_r.
  destruct fill as [|m]; [reflexivity|]. cbn [filler forallb wf_zline]. rewrite repeat_no_nl, andb_true_r.
  cbn [negb andb]. apply negb_true_iff. destruct m as [|m]; [reflexivity|].
  eapply nolow_line; cbn [repeat]; reflexivity.
Qed.

(* hence the theorem about virtual_memory() applies to every such machine size: the answer is the
   demanded one, with the watermarks of all nodes x zones summed *)
Lemma low_pages_cpu c : low_pages (cpu_block c) = 0.
Proof. reflexivity. Qed.
Lemma low_pages_concat_cpu l : low_pages (concat (map cpu_block l)) = 0.
Proof. induction l as [|c l IH]; [reflexivity|]. cbn [map concat]. now rewrite ProofsVM2.low_pages_app, IH. Qed.

Theorem vm_exact_big ms ps nodes zones cpus lowf fill :
  let k := {| k_mem := ms; k_zone := Some (big_zoneinfo nodes zones cpus lowf fill); k_vm := None;
              k_pagesize := ps; k_sysinfo := (0, 0, 1) |} in
  wf_meminfo ms = true -> has_total_free k = true -> float_exact k = true ->
  virtual_memory ps (k_meminfo ms) (Some (k_zoneinfo (big_zoneinfo nodes zones cpus lowf fill))) = Val (spec_vm k).
Proof.
  intros k Hm Htf Hfl.
  assert (Hwf : wf_kernel k = true).
  { unfold wf_kernel, k. cbn [k_mem k_zone k_vm opt_forall]. now rewrite Hm, big_zoneinfo_wf. }
  exact (ProofsVM.vm_exact k Hwf Htf Hfl).
Qed.
