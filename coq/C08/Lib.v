(* C08 -- byte-level lemmas used by the parser proofs (nothing psutil-specific). *)
From PV Require Import C08.Spec.

Lemma spaces_S n : spaces (S n) = 32 :: spaces n.
Proof. reflexivity. Qed.

Lemma contains_spaces b n : (b =? 32) = false -> contains b (spaces n) = false.
Proof.
  intros H. induction n as [|n IH]; [reflexivity|].
  rewrite spaces_S, contains_cons, H, IH. reflexivity.
Qed.

Lemma split_ws_spaces n x : split_ws (spaces n ++ x) = split_ws x.
Proof.
  induction n as [|n IH]; [reflexivity|].
  rewrite spaces_S. cbn [app]. rewrite split_ws_leading by reflexivity. exact IH.
Qed.

Lemma lstrip_spaces n x : lstrip (spaces n ++ x) = lstrip x.
Proof. induction n as [|n IH]; [reflexivity|]. rewrite spaces_S. cbn [app lstrip is_ws]. exact IH. Qed.

Lemma strip_snoc_ws b c : is_ws c = true -> strip (b ++ [c]) = strip b.
Proof.
  intros Hc. unfold strip. induction b as [|x b IH].
  - cbn [app lstrip]. rewrite Hc. reflexivity.
  - cbn [app lstrip]. destruct (is_ws x) eqn:E.
    + exact IH.
    + change (x :: b ++ [c]) with ((x :: b) ++ [c]). rewrite rstrip_snoc, Hc. reflexivity.
Qed.

(* startswith(p) on "name<sep>rest" where sep does not occur in p *)
Lemma prefixb_app_sep p : forall n s rest,
  contains s p = false -> prefixb p (n ++ s :: rest) = prefixb p n.
Proof.
  induction p as [|x p IH]; intros n s rest H; [reflexivity|].
  rewrite contains_cons in H. apply orb_false_iff in H as [Hx Hp].
  destruct n as [|y n].
  - cbn [app prefixb]. rewrite Z.eqb_sym, Hx. reflexivity.
  - cbn [app prefixb]. now rewrite IH.
Qed.

(* a file made of newline-terminated, newline-free lines iterates as those lines *)
Lemma lines_keep_concat {A} (f : A -> bytes) (items : list A) :
  (forall i, In i items -> exists body, f i = body ++ [10] /\ contains 10 body = false) ->
  lines_keep (concat (map f items)) = map f items.
Proof.
  induction items as [|i items IH]; intros H; [reflexivity|].
  cbn [map concat]. destruct (H i (or_introl eq_refl)) as [body [-> Hb]].
  rewrite <- app_assoc. cbn [app]. rewrite lines_keep_line by exact Hb.
  rewrite IH; [reflexivity|]. intros j Hj. apply H. now right.
Qed.

Lemma parse_int_strip a b : strip a = strip b -> parse_int a = parse_int b.
Proof. intros H. unfold parse_int, parse_signed. now rewrite H. Qed.

Lemma parse_int_dec_nl v : is_dec v = true -> parse_int (v ++ [10]) = Some (dec_val v).
Proof.
  intros H. rewrite (parse_int_strip (v ++ [10]) v); [now apply parse_int_dec|].
  now apply strip_snoc_ws.
Qed.

Lemma py_int_dec v : is_dec v = true -> py_int v = Val (dec_val v).
Proof. intros H. unfold py_int. now rewrite parse_int_dec. Qed.

Lemma dec_no_nl v : is_dec v = true -> contains 10 v = false.
Proof. intros H. apply is_dec_tok in H as [_ H]. now apply no_ws_contains. Qed.
Lemma dec_no_sp v : is_dec v = true -> contains 32 v = false.
Proof. intros H. apply is_dec_tok in H as [_ H]. now apply no_ws_contains. Qed.

(* ---------------------------------------------------------------- nodupb *)
Lemma existsb_beqb_false k l : existsb (beqb k) l = false -> forall x, In x l -> beqb k x = false.
Proof.
  induction l as [|y l IH]; intros H x Hx; [destruct Hx|].
  cbn [existsb] in H. apply orb_false_iff in H as [H1 H2].
  destruct Hx as [->|Hx]; auto.
Qed.

Lemma beqb_sym a b : beqb a b = beqb b a.
Proof.
  destruct (beqb a b) eqn:E.
  - apply beqb_eq in E. subst. now rewrite beqb_refl.
  - destruct (beqb b a) eqn:E2; [|reflexivity]. apply beqb_eq in E2. subst. now rewrite beqb_refl in E.
Qed.

(* ---------------------------------------------------------------- the dict *)
Lemma dget_dset k n v d : dget k (dset n v d) = if beqb k n then Some v else dget k d.
Proof.
  induction d as [|[k' v'] d IH]; cbn [dset dget].
  - reflexivity.
  - destruct (beqb n k') eqn:E.
    + apply beqb_eq in E. subst k'. cbn [dget]. destruct (beqb k n); reflexivity.
    + cbn [dget]. rewrite IH. destruct (beqb k k') eqn:E2; [|reflexivity].
      apply beqb_eq in E2. subst k'. assert (beqb k n = false) as ->; [|reflexivity].
      destruct (beqb k n) eqn:E3; [|reflexivity]. apply beqb_eq in E3. subst.
      rewrite beqb_refl in E. discriminate.
Qed.

(* ---------------------------------------------------------------- blanks *)
Lemma blank_is_ws c : blank c = true -> is_ws c = true.
Proof. unfold blank, is_ws. lia. Qed.
Lemma blanks_ws w : blanks w = true -> forallb is_ws w = true.
Proof.
  induction w as [|c w IH]; [reflexivity|]. cbn [blanks forallb]. intros H.
  apply andb_true_iff in H as [Hc Hw]. rewrite (blank_is_ws _ Hc). now apply IH.
Qed.
Lemma blanks_no_nl w : blanks w = true -> contains 10 w = false.
Proof.
  induction w as [|c w IH]; [reflexivity|]. cbn [blanks forallb]. intros H.
  apply andb_true_iff in H as [Hc Hw]. rewrite contains_cons, (IH Hw). unfold blank in Hc. lia.
Qed.

Lemma lstrip_ws_prefix w x : forallb is_ws w = true -> lstrip (w ++ x) = lstrip x.
Proof.
  induction w as [|c w IH]; [reflexivity|]. cbn [forallb]. intros H.
  apply andb_true_iff in H as [Hc Hw]. cbn [app lstrip]. rewrite Hc. now apply IH.
Qed.
Lemma split_ws_ws_prefix w x : forallb is_ws w = true -> split_ws (w ++ x) = split_ws x.
Proof.
  induction w as [|c w IH]; [reflexivity|]. cbn [forallb]. intros H.
  apply andb_true_iff in H as [Hc Hw]. cbn [app]. rewrite split_ws_leading by exact Hc. now apply IH.
Qed.
Lemma rstrip_ws_suffix x w : forallb is_ws w = true -> rstrip (x ++ w) = rstrip x.
Proof.
  revert x. induction w as [|c w IH] using rev_ind; intros x H.
  - now rewrite app_nil_r.
  - rewrite forallb_app in H. apply andb_true_iff in H as [Hw Hc].
    cbn [forallb] in Hc. rewrite andb_true_r in Hc.
    rewrite app_assoc, rstrip_snoc, Hc. now apply IH.
Qed.

Lemma split_ws_cons2 x d r : is_ws x = false ->
  split_ws (x :: d :: r) = if is_ws d then [x] :: split_ws (d :: r)
                           else match split_ws (d :: r) with t :: ts => (x :: t) :: ts | [] => [[x]] end.
Proof.
  intros H. remember (d :: r) as w eqn:Hw. cbn [split_ws]. rewrite H. rewrite Hw at 1. reflexivity.
Qed.

Lemma split_ws_snoc_ws b c : is_ws c = true -> split_ws (b ++ [c]) = split_ws b.
Proof.
  intros Hc. induction b as [|x b IH].
  - cbn [app split_ws]. now rewrite Hc.
  - cbn [app]. destruct (is_ws x) eqn:Ex.
    + rewrite !split_ws_leading by exact Ex. exact IH.
    + destruct b as [|d b'].
      * cbn [app split_ws]. rewrite Ex, Hc. reflexivity.
      * change ((d :: b') ++ [c]) with (d :: (b' ++ [c])) in *.
        rewrite !split_ws_cons2 by exact Ex. rewrite IH. reflexivity.
Qed.

(* ---------------------------------------------------------------- IEEE rounding leaves representable numbers alone *)
Require Import ZifyBool.
Lemma round_he_exact a p : 0 < p -> a mod p = 0 -> round_he a p * p = a.
Proof.
  intros Hp Hm. unfold round_he. rewrite Hm.
  assert (2 * 0 <? p = true) as -> by lia.
  pose proof (Z.div_mod a p ltac:(lia)). lia.
Qed.

Lemma rnd53_exact x : x mod 1024 = 0 -> - 2 ^ 63 < x < 2 ^ 63 -> rnd53 x = x.
Proof.
  intros Hm Hb. unfold rnd53.
  destruct (Z.abs x <? 2 ^ 53) eqn:E; [reflexivity|].
  set (a := Z.abs x) in *.
  assert (Ha : 2 ^ 53 <= a < 2 ^ 63) by (unfold a; lia).
  assert (L1 : 53 <= Z.log2 a) by (apply Z.log2_le_pow2; lia).
  assert (L2 : Z.log2 a < 63) by (apply Z.log2_lt_pow2; lia).
  assert (Am : a mod 1024 = 0).
  { unfold a. destruct (Z.abs_spec x) as [[_ ->]|[_ ->]]; [exact Hm|].
    rewrite Z.mod_opp_l_z; lia. }
  set (s := Z.log2 a - 52) in *.
  assert (Hs : s = 1 \/ s = 2 \/ s = 3 \/ s = 4 \/ s = 5 \/ s = 6 \/ s = 7 \/ s = 8 \/ s = 9 \/ s = 10) by lia.
  assert (R : round_he a (2 ^ s) * 2 ^ s = a).
  { apply round_he_exact.
    - apply Z.pow_pos_nonneg; lia.
    - destruct Hs as [->|[->|[->|[->|[->|[->|[->|[->|[->| ->]]]]]]]]];
        change (2 ^ 1) with 2; change (2 ^ 2) with 4; change (2 ^ 3) with 8; change (2 ^ 4) with 16;
        change (2 ^ 5) with 32; change (2 ^ 6) with 64; change (2 ^ 7) with 128; change (2 ^ 8) with 256;
        change (2 ^ 9) with 512; change (2 ^ 10) with 1024;
        clear -Am; revert Am; generalize a; intros z Hz;
        pose proof (Z.div_mod z 1024 ltac:(lia)) as D; rewrite Hz in D;
        rewrite D, Z.add_0_r;
        match goal with |- (1024 * ?q) mod ?m = 0 =>
          let f := eval vm_compute in (1024 / m) in
          replace (1024 * q) with (f * q * m) by lia; apply Z.mod_mul; lia end. }
  rewrite R. unfold a. lia.
Qed.
