(* C08 -- byte-level lemmas used by the parser proofs (nothing psutil-specific). *)
From PV Require Import C08.Spec.

Lemma spaces_S n : spaces (S n) = 32 :: spaces n.
Proof. reflexivity. Qed.

Lemma contains_spaces b n : (b =? 32) = false -> contains b (spaces n) = false.
Proof.
  intros H. induction n as [|n IH]; [reflexivity|].
  rewrite spaces_S, contains_cons, H, IH. reflexivity.
Qed.

Lemma split_ws_spaces n x : split_ws (spaces n ++ x) = split_ws x.
Proof.
  induction n as [|n IH]; [reflexivity|].
  rewrite spaces_S. cbn [app]. rewrite split_ws_leading by reflexivity. exact IH.
Qed.

Lemma lstrip_spaces n x : lstrip (spaces n ++ x) = lstrip x.
Proof. induction n as [|n IH]; [reflexivity|]. rewrite spaces_S. cbn [app lstrip is_ws]. exact IH. Qed.

Lemma strip_snoc_ws b c : is_ws c = true -> strip (b ++ [c]) = strip b.
Proof.
  intros Hc. unfold strip. induction b as [|x b IH].
  - cbn [app lstrip]. rewrite Hc. reflexivity.
  - cbn [app lstrip]. destruct (is_ws x) eqn:E.
    + exact IH.
    + change (x :: b ++ [c]) with ((x :: b) ++ [c]). rewrite rstrip_snoc, Hc. reflexivity.
Qed.

(* startswith(p) on "name<sep>rest" where sep does not occur in p *)
Lemma prefixb_app_sep p : forall n s rest,
  contains s p = false -> prefixb p (n ++ s :: rest) = prefixb p n.
Proof.
  induction p as [|x p IH]; intros n s rest H; [reflexivity|].
  rewrite contains_cons in H. apply orb_false_iff in H as [Hx Hp].
  destruct n as [|y n].
  - cbn [app prefixb]. rewrite Z.eqb_sym, Hx. reflexivity.
  - cbn [app prefixb]. now rewrite IH.
Qed.

(* a file made of newline-terminated, newline-free lines iterates as those lines *)
Lemma lines_keep_concat {A} (f : A -> bytes) (items : list A) :
  (forall i, In i items -> exists body, f i = body ++ [10] /\ contains 10 body = false) ->
  lines_keep (concat (map f items)) = map f items.
Proof.
  induction items as [|i items IH]; intros H; [reflexivity|].
  cbn [map concat]. destruct (H i (or_introl eq_refl)) as [body [-> Hb]].
  rewrite <- app_assoc. cbn [app]. rewrite lines_keep_line by exact Hb.
  rewrite IH; [reflexivity|]. intros j Hj. apply H. now right.
Qed.

Lemma parse_int_strip a b : strip a = strip b -> parse_int a = parse_int b.
Proof. intros H. unfold parse_int, parse_signed. now rewrite H. Qed.

Lemma parse_int_dec_nl v : is_dec v = true -> parse_int (v ++ [10]) = Some (dec_val v).
Proof.
  intros H. rewrite (parse_int_strip (v ++ [10]) v); [now apply parse_int_dec|].
  now apply strip_snoc_ws.
Qed.

Lemma py_int_dec v : is_dec v = true -> py_int v = Val (dec_val v).
Proof. intros H. unfold py_int. now rewrite parse_int_dec. Qed.

Lemma dec_no_nl v : is_dec v = true -> contains 10 v = false.
Proof. intros H. apply is_dec_tok in H as [_ H]. now apply no_ws_contains. Qed.
Lemma dec_no_sp v : is_dec v = true -> contains 32 v = false.
Proof. intros H. apply is_dec_tok in H as [_ H]. now apply no_ws_contains. Qed.

(* ---------------------------------------------------------------- nodupb *)
Lemma existsb_beqb_false k l : existsb (beqb k) l = false -> forall x, In x l -> beqb k x = false.
Proof.
  induction l as [|y l IH]; intros H x Hx; [destruct Hx|].
  cbn [existsb] in H. apply orb_false_iff in H as [H1 H2].
  destruct Hx as [->|Hx]; auto.
Qed.

Lemma beqb_sym a b : beqb a b = beqb b a.
Proof.
  destruct (beqb a b) eqn:E.
  - apply beqb_eq in E. subst. now rewrite beqb_refl.
  - destruct (beqb b a) eqn:E2; [|reflexivity]. apply beqb_eq in E2. subst. now rewrite beqb_refl in E.
Qed.

(* ---------------------------------------------------------------- the dict *)
Lemma dget_dset k n v d : dget k (dset n v d) = if beqb k n then Some v else dget k d.
Proof.
  induction d as [|[k' v'] d IH]; cbn [dset dget].
  - reflexivity.
  - destruct (beqb n k') eqn:E.
    + apply beqb_eq in E. subst k'. cbn [dget]. destruct (beqb k n); reflexivity.
    + cbn [dget]. rewrite IH. destruct (beqb k k') eqn:E2; [|reflexivity].
      apply beqb_eq in E2. subst k'. assert (beqb k n = false) as ->; [|reflexivity].
      destruct (beqb k n) eqn:E3; [|reflexivity]. apply beqb_eq in E3. subst.
      rewrite beqb_refl in E. discriminate.
Qed.
