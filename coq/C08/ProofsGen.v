(* C08 -- the program translated from the CURRENT psutil/_pslinux.py:virtual_memory() (coq/Gen/C08_Tables.v,
   written by props/_c08_gen.py on every run) computes, under the interpreter of PyGen.v, exactly what the
   hand-written model [Model.vm_of_dict] computes -- for every [mems] dict, every page size, every zoneinfo state.
   A semantic edit of the translated statements changes the generated program and this file no longer compiles. *)
From PV Require Import C08.PyGen Gen.C08_Tables C08.Spec C08.ProofsVM.
Require Import String Lia.

Lemma upd_upd x v1 v2 l : updf x v2 (updf x v1 l) = updf x v2 l.
Proof.
  induction l as [|[y w] r IH]; cbn [updf].
  - rewrite String.eqb_refl. reflexivity.
  - destruct (String.eqb x y) eqn:E; cbn [updf].
    + rewrite String.eqb_refl. reflexivity.
    + rewrite E, IH. reflexivity.
Qed.
Lemma look_upd x v l : look x (updf x v l) = Some v.
Proof.
  induction l as [|[y w] r IH]; cbn [updf look].
  - rewrite String.eqb_refl. reflexivity.
  - destruct (String.eqb x y) eqn:E; cbn [look].
    + rewrite String.eqb_refl. reflexivity.
    + rewrite E. exact IH.
Qed.

Section Shapes.
  Variable d : dict.
  Variable calc : outcome Z.

  Lemma exec_block_cons s r st :
    exec_block d calc (BCons s r) st =
    match exec d calc s st with RNorm st' => exec_block d calc r st' | o => o end.
  Proof. reflexivity. Qed.

  Lemma sh_reset st : exec d calc SMissReset st = RNorm {| env := env st; ms := [] |}.
  Proof. reflexivity. Qed.

  (* x = mems[k] *)
  Lemma sh_key x k st :
    exec d calc (SAssign x (EKey k)) st =
    match dget k d with
    | Some v => RNorm {| env := updf x v (env st); ms := ms st |}
    | None => RExc KeyError st
    end.
  Proof. cbn. destruct (dget k d); reflexivity. Qed.

  (* try: x = mems[k]  except KeyError: x = 0; missing_fields.append(n) *)
  Lemma sh_try_key x k n st :
    exec d calc (STry (BCons (SAssign x (EKey k)) BNil)
                      (BCons (SAssign x (EInt 0)) (BCons (SMiss n) BNil)) BNil) st =
    RNorm {| env := updf x (default0 (dget k d)) (env st); ms := ms st ++ miss n (dget k d) |}.
  Proof. cbn. destruct (dget k d); cbn; [rewrite app_nil_r|]; reflexivity. Qed.

  (* try: x = mems[k]  except KeyError: x = 0 *)
  Lemma sh_try_key_silent x k st :
    exec d calc (STry (BCons (SAssign x (EKey k)) BNil) (BCons (SAssign x (EInt 0)) BNil) BNil) st =
    RNorm {| env := updf x (default0 (dget k d)) (env st); ms := ms st |}.
  Proof. cbn. destruct (dget k d); reflexivity. Qed.

  (* try: x = mems[k]  except KeyError: x = 0; append(n)  else: x += mems.get(k2, 0) *)
  Lemma sh_try_key_else x k n k2 st :
    exec d calc (STry (BCons (SAssign x (EKey k)) BNil)
                      (BCons (SAssign x (EInt 0)) (BCons (SMiss n) BNil))
                      (BCons (SAssign x (EAdd (EVar x) (EGet k2 0))) BNil)) st =
    RNorm {| env := updf x (default0 (match dget k d with Some c => Some (c + default0 (dget k2 d)) | None => None end)) (env st);
             ms := ms st ++ miss n (match dget k d with Some c => Some (c + default0 (dget k2 d)) | None => None end) |}.
  Proof.
    cbn. destruct (dget k d) as [c|]; cbn; [|reflexivity].
    rewrite look_upd. cbn. rewrite upd_upd, app_nil_r. reflexivity.
  Qed.

  (* try: x = mems[k1]  except KeyError:  try: x = mems[k2]  except KeyError: x = 0; append(n) *)
  Lemma sh_try_key2 x k1 k2 n st :
    exec d calc (STry (BCons (SAssign x (EKey k1)) BNil)
                      (BCons (STry (BCons (SAssign x (EKey k2)) BNil)
                                   (BCons (SAssign x (EInt 0)) (BCons (SMiss n) BNil)) BNil) BNil) BNil) st =
    RNorm {| env := updf x (default0 (match dget k1 d with Some s => Some s | None => dget k2 d end)) (env st);
             ms := ms st ++ miss n (match dget k1 d with Some s => Some s | None => dget k2 d end) |}.
  Proof.
    cbn. destruct (dget k1 d); cbn; [rewrite app_nil_r; reflexivity|].
    destruct (dget k2 d); cbn; [rewrite app_nil_r|]; reflexivity.
  Qed.

  (* try: x = mems[k]  except KeyError:  try: x = mems[a] + mems[b] + mems[c]  except KeyError: x = 0; append(n) *)
  Lemma sh_try_key_sum3 x k a b c n st :
    exec d calc (STry (BCons (SAssign x (EKey k)) BNil)
                      (BCons (STry (BCons (SAssign x (EAdd (EAdd (EKey a) (EKey b)) (EKey c))) BNil)
                                   (BCons (SAssign x (EInt 0)) (BCons (SMiss n) BNil)) BNil) BNil) BNil) st =
    RNorm {| env := updf x (default0 (match dget k d with
                                      | Some i => Some i
                                      | None => match dget a d, dget b d, dget c d with
                                                | Some u, Some v, Some w => Some (u + v + w)
                                                | _, _, _ => None
                                                end
                                      end)) (env st);
             ms := ms st ++ miss n (match dget k d with
                                    | Some i => Some i
                                    | None => match dget a d, dget b d, dget c d with
                                              | Some u, Some v, Some w => Some (u + v + w)
                                              | _, _, _ => None
                                              end
                                    end) |}.
  Proof.
    cbn. destruct (dget k d); cbn; [rewrite app_nil_r; reflexivity|].
    destruct (dget a d); cbn; [|reflexivity].
    destruct (dget b d); cbn; [|reflexivity].
    destruct (dget c d); cbn; [rewrite app_nil_r|]; reflexivity.
  Qed.
  Lemma exec_block_nil st : exec_block d calc BNil st = RNorm st.
  Proof. reflexivity. Qed.
  Lemma sh_assign x e st :
    exec d calc (SAssign x e) st =
    lift st (eval d calc (env st) e) (fun v => RNorm {| env := updf x v (env st); ms := ms st |}).
  Proof. reflexivity. Qed.
  Lemma sh_miss n st : exec d calc (SMiss n) st = RNorm {| env := env st; ms := ms st ++ [n] |}.
  Proof. reflexivity. Qed.
  Lemma sh_warn st : exec d calc SWarn st = RNorm st.
  Proof. reflexivity. Qed.
  Lemma sh_if c a b th el st :
    exec d calc (SIf c a b th el) st =
    lift st (eval d calc (env st) a) (fun x => lift st (eval d calc (env st) b) (fun y =>
      if cmpb c x y then exec_block d calc th st else exec_block d calc el st)).
  Proof. reflexivity. Qed.
  Lemma sh_try b h e st :
    exec d calc (STry b h e) st =
    match exec_block d calc b st with
    | RNorm st' => exec_block d calc e st'
    | RExc KeyError st' => exec_block d calc h st'
    | o => o
    end.
  Proof. reflexivity. Qed.
  Lemma sh_return es st :
    exec d calc (SReturn es) st =
    match evals d calc (env st) es with Val vs => RRet vs (ms st) | Exc e => RExc e st | OutOfModel => ROut end.
  Proof. reflexivity. Qed.
End Shapes.

Ltac step L := rewrite exec_block_cons, L; cbv beta iota.

Ltac simp := cbn -[exec exec_block Z.sub Z.add Z.ltb Z.eqb usage_percent10 default0 miss app bs].
Ltac go1 :=
  first [ rewrite exec_block_cons | rewrite exec_block_nil | rewrite sh_assign | rewrite sh_miss | rewrite sh_warn
        | rewrite sh_if | rewrite sh_try | rewrite sh_return ]; simp.
Ltac split1 :=
  match goal with
  | |- context [lift _ (of_option _ ?o) _] => destruct o
  | |- context [lift _ ?c _] => is_var c; destruct c
  | |- context [if ?c then _ else _] => destruct c eqn:?
  end; simp.
Ltac go := repeat (repeat go1; try split1).

Lemma gen_vm_prog_model pagesize d zoneinfo :
  run_vm d (calc_avail pagesize d zoneinfo) gen_vm_prog = omap vm_tuple (vm_of_dict pagesize d zoneinfo).
Proof.
  unfold run_vm, gen_vm_prog, vm_of_dict.
  unfold K_MemTotal, K_MemFree, K_Buffers, K_Cached, K_SReclaimable, K_Shmem, K_MemShared, K_Active, K_Inactive,
    K_Inact_dirty, K_Inact_clean, K_Inact_laundry, K_Slab, K_MemAvailable.
  set (calc := calc_avail pagesize d zoneinfo). clearbody calc.
  step sh_reset.
  rewrite exec_block_cons, sh_key.
  destruct (dget (bs "MemTotal:") d) as [total|]; [cbv beta iota|reflexivity].
  rewrite exec_block_cons, sh_key.
  destruct (dget (bs "MemFree:") d) as [free|]; [cbv beta iota|reflexivity].
  step sh_try_key. step sh_try_key_else. step sh_try_key2. step sh_try_key. step sh_try_key_sum3.
  step sh_try_key_silent.
  cbn [env ms app].
  set (oB := dget (bs "Buffers:") d). set (oC := match dget (bs "Cached:") d with Some _ => _ | None => _ end).
  set (oS := match dget (bs "Shmem:") d with Some _ => _ | None => _ end). set (oA := dget (bs "Active:") d).
  set (oI := match dget (bs "Inactive:") d with Some _ => _ | None => _ end). set (oL := dget (bs "Slab:") d).
  clearbody oB oC oS oA oI oL.
  go.
  all: unfold vm_tuple; simp; rewrite ?app_nil_r, <- ?app_assoc; reflexivity.
Qed.

(* with the (hand-written) parser in front: the translated body run on the dict parsed from ANY meminfo bytes is the
   model's virtual_memory on those bytes, for every zoneinfo state (absent, unopenable, content, read error) *)
Definition gen_virtual_memory_z (lenient : bool) (pagesize : Z) (meminfo : bytes) (zoneinfo : zstate)
  : outcome (list Z * list bytes) :=
  do d <- parse_meminfo lenient meminfo;
  run_vm d (calc_avail pagesize d zoneinfo) gen_vm_prog.

Lemma gen_virtual_memory_model lenient pagesize meminfo zoneinfo :
  gen_virtual_memory_z lenient pagesize meminfo zoneinfo =
  omap vm_tuple (virtual_memory_z lenient pagesize meminfo zoneinfo).
Proof.
  unfold gen_virtual_memory_z, virtual_memory_z.
  destruct (parse_meminfo lenient meminfo) as [d'| |]; cbn [obind omap]; [|reflexivity|reflexivity].
  apply gen_vm_prog_model.
Qed.

(* the translated body against the SPECIFICATION: on every well-formed kernel record it returns the demanded tuple
   and the demanded warning names *)
Lemma gen_virtual_memory_spec k :
  wf_kernel k = true -> has_total_free k = true -> float_exact k = true ->
  gen_virtual_memory_z true (k_pagesize k) (k_meminfo (k_mem k)) (zs_of_opt (option_map k_zoneinfo (k_zone k)))
  = Val (vm_tuple (spec_vm k)).
Proof.
  intros Hwf Htf Hfl. rewrite gen_virtual_memory_model.
  change (virtual_memory_z true (k_pagesize k) (k_meminfo (k_mem k)) (zs_of_opt (option_map k_zoneinfo (k_zone k))))
    with (virtual_memory (k_pagesize k) (k_meminfo (k_mem k)) (option_map k_zoneinfo (k_zone k))).
  rewrite (vm_exact k Hwf Htf Hfl). reflexivity.
Qed.

(* the tuple layout: svmem's field names in the order [vm_tuple] lists the model's record *)
Lemma gen_svmem_fields_model :
  gen_svmem_fields = [bs "total"; bs "available"; bs "percent"; bs "used"; bs "free"; bs "active"; bs "inactive";
                      bs "buffers"; bs "cached"; bs "shared"; bs "slab"].
Proof. reflexivity. Qed.
