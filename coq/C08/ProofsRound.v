(* C08 -- the rounding function shared by model and specification really is
   "nearest, ties to even", and rounding keeps a value inside integer bounds. *)
From PV Require Import C08.Spec.
Require Import ZifyBool.

Lemma round_he_nearest n d : 0 < d -> nearest_even (round_he n d) n d.
Proof.
  intros Hd. unfold nearest_even, round_he.
  pose proof (Z.div_mod n d ltac:(lia)) as E.
  pose proof (Z.mod_pos_bound n d Hd) as B.
  set (q := n / d) in *. set (r := n mod d) in *.
  destruct (2 * r <? d) eqn:E1; [split; [lia|lia]|].
  destruct (d <? 2 * r) eqn:E2; [split; [lia|lia]|].
  destruct (Z.even q) eqn:E3.
  - split; [lia|auto].
  - split; [lia|]. intros _. rewrite Z.add_1_r, Z.even_succ. rewrite <- Z.negb_even, E3. reflexivity.
Qed.

(* the nearest integer is unique up to the tie rule: the relation determines the value *)
Lemma nearest_even_unique t1 t2 n d : 0 < d -> nearest_even t1 n d -> nearest_even t2 n d -> t1 = t2.
Proof.
  intros Hd [A1 B1] [A2 B2].
  assert (H : t1 = t2 \/ t1 = t2 + 1 \/ t2 = t1 + 1) by nia.
  destruct H as [H|[H|H]]; [exact H| |].
  - subst t1. assert (X : 2 * Z.abs ((t2 + 1) * d - n) = d) by nia.
    assert (Y : 2 * Z.abs (t2 * d - n) = d) by nia.
    specialize (B1 X). specialize (B2 Y). rewrite Z.add_1_r, Z.even_succ, <- Z.negb_even, B2 in B1. discriminate.
  - subst t2. assert (X : 2 * Z.abs ((t1 + 1) * d - n) = d) by nia.
    assert (Y : 2 * Z.abs (t1 * d - n) = d) by nia.
    specialize (B1 Y). specialize (B2 X). rewrite Z.add_1_r, Z.even_succ, <- Z.negb_even, B1 in B2. discriminate.
Qed.

(* rounding is monotone enough to keep a ratio in [0,1] inside [0,1000] tenths of a percent *)
Lemma round_he_range n d m : 0 < d -> 0 <= n <= m * d -> 0 <= round_he n d <= m.
Proof.
  intros Hd Hn. unfold round_he.
  pose proof (Z.div_mod n d ltac:(lia)) as E.
  pose proof (Z.mod_pos_bound n d Hd) as B.
  set (q := n / d) in *. set (r := n mod d) in *.
  assert (Hq : 0 <= q) by nia.
  assert (Hq2 : q <= m) by nia.
  assert (Hq3 : q = m -> r = 0) by nia.
  destruct (2 * r <? d) eqn:E1; [lia|].
  destruct (d <? 2 * r) eqn:E2; [lia|].
  destruct (Z.even q); lia.
Qed.
