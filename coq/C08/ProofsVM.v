(* C08 -- virtual_memory(): the model meets the specification for every kernel record. *)
From PV Require Import C08.Spec C08.Lib C08.ProofsRound.
Require Import ZifyBool.

(* ================================================================ /proc/meminfo *)
Lemma mline_body m : wf_mline m = true ->
  exists body, k_mline m = body ++ [10] /\ contains 10 body = false.
Proof.
  intros H. unfold wf_mline in H. apply andb_true_iff in H as [Hn Hv].
  apply tok_ok_spec in Hn as [_ Hn].
  exists (ml_name m ++ spaces (S (ml_pad m)) ++ ml_val m ++ (if ml_kb m then bs " kB" else [])).
  split.
  - unfold k_mline. now rewrite <- !app_assoc.
  - rewrite !contains_app. rewrite (no_ws_contains 10 _ eq_refl Hn).
    rewrite contains_spaces by reflexivity. rewrite (dec_no_nl _ Hv).
    destruct (ml_kb m); reflexivity.
Qed.

Lemma split_ws_mline m : wf_mline m = true ->
  exists rest, split_ws (k_mline m) = ml_name m :: ml_val m :: rest.
Proof.
  intros H. unfold wf_mline in H. apply andb_true_iff in H as [Hn Hv].
  apply tok_ok_spec in Hn as [Hn1 Hn2]. apply is_dec_tok in Hv as [Hv1 Hv2].
  unfold k_mline. rewrite spaces_S. cbn [app].
  rewrite split_ws_token_sep by auto. rewrite split_ws_spaces.
  destruct (ml_kb m).
  - change (bs " kB" ++ [10]) with (32 :: [107; 66; 10]).
    rewrite split_ws_token_sep by auto. eauto.
  - cbn [app]. rewrite split_ws_token_sep by auto. eauto.
Qed.

Definition mstep (d : dict) (m : mline) : dict := dset (ml_name m) (dec_val (ml_val m) * 1024) d.

Lemma mem_step_line d m : wf_mline m = true -> mem_step d (k_mline m) = Val (mstep d m).
Proof.
  intros H. destruct (split_ws_mline m H) as [rest E].
  unfold mem_step. rewrite E. cbn [nth_error of_option obind].
  unfold wf_mline in H. apply andb_true_iff in H as [_ Hv].
  rewrite (py_int_dec _ Hv). reflexivity.
Qed.

Lemma mem_fold_lines ms : forall d, forallb wf_mline ms = true ->
  mem_fold d (map k_mline ms) = Val (fold_left mstep ms d).
Proof.
  induction ms as [|m ms IH]; intros d H; [reflexivity|].
  cbn [forallb] in H. apply andb_true_iff in H as [Hm Hr].
  cbn [map mem_fold fold_left]. rewrite (mem_step_line d m Hm). cbn [obind]. now apply IH.
Qed.

Fixpoint mlast (k : bytes) (ms : list mline) (acc : option Z) : option Z :=
  match ms with
  | [] => acc
  | m :: r => mlast k r (if beqb k (ml_name m) then Some (dec_val (ml_val m) * 1024) else acc)
  end.

Lemma dget_fold ms : forall d k, dget k (fold_left mstep ms d) = mlast k ms (dget k d).
Proof.
  induction ms as [|m ms IH]; intros d k; [reflexivity|].
  cbn [fold_left mlast]. rewrite IH. f_equal. unfold mstep. apply dget_dset.
Qed.

Lemma mlast_notin k ms : forall acc,
  existsb (beqb k) (map ml_name ms) = false -> mlast k ms acc = acc.
Proof.
  induction ms as [|m ms IH]; intros acc H; [reflexivity|].
  cbn [map existsb] in H. apply orb_false_iff in H as [H1 H2].
  cbn [mlast]. rewrite H1. now apply IH.
Qed.

Lemma mlast_nodup k ms : nodupb (map ml_name ms) = true ->
  mlast k ms None = option_map (fun v => v * 1024) (kfind k ms).
Proof.
  induction ms as [|m ms IH]; intros H; [reflexivity|].
  cbn [map nodupb] in H. apply andb_true_iff in H as [H1 H2]. apply negb_true_iff in H1.
  cbn [mlast kfind]. destruct (beqb k (ml_name m)) eqn:E.
  - apply beqb_eq in E. subst k. rewrite mlast_notin by exact H1. reflexivity.
  - now apply IH.
Qed.

Theorem parse_meminfo_printed ms : wf_meminfo ms = true ->
  exists d, parse_meminfo (k_meminfo ms) = Val d /\
            forall name, dget (bs name) d = kbytes ms name.
Proof.
  intros H. unfold wf_meminfo in H. apply andb_true_iff in H as [Hw Hn].
  exists (fold_left mstep ms []). split.
  - unfold parse_meminfo, k_meminfo. rewrite lines_keep_concat.
    + now apply mem_fold_lines.
    + intros m Hm. apply mline_body. rewrite forallb_forall in Hw. now apply Hw.
  - intros name. rewrite dget_fold. cbn [dget]. unfold kbytes. now apply mlast_nodup.
Qed.

(* every byte figure of meminfo is a multiple of 1024 (so "/ 2" below is exact) *)
Lemma kbytes_mult ms name v : kbytes ms name = Some v -> exists a, v = a * 1024.
Proof.
  unfold kbytes. destruct (kfind (bs name) ms) as [a|]; cbn [option_map]; [|discriminate].
  intros E. injection E as <-. eauto.
Qed.

(* the kernel prints unsigned numbers *)
Lemma kbytes_nonneg ms name v : wf_meminfo ms = true -> kbytes ms name = Some v -> 0 <= v.
Proof.
  unfold wf_meminfo, kbytes. intros H. apply andb_true_iff in H as [H _].
  induction ms as [|m ms IH]; [discriminate|].
  cbn [forallb] in H. apply andb_true_iff in H as [Hm Hr].
  cbn [kfind]. destruct (beqb (bs name) (ml_name m)); [|now apply IH].
  cbn [option_map]. intros E. injection E as <-.
  unfold wf_mline in Hm. apply andb_true_iff in Hm as [_ Hv].
  destruct (ml_val m) as [|c l] eqn:E; [discriminate|]. cbn [is_dec] in Hv.
  pose proof (dec_val_nonneg _ Hv). lia.
Qed.

(* ================================================================ /proc/zoneinfo *)
Lemma zline_body z : wf_zline z = true ->
  exists body, k_zline z = body ++ [10] /\ contains 10 body = false.
Proof.
  destruct z as [p1 p2 v|b]; cbn [wf_zline k_zline]; intros H.
  - exists (spaces p1 ++ bs "low" ++ spaces (S p2) ++ v). split.
    + now rewrite <- !app_assoc.
    + rewrite !contains_app, !contains_spaces by reflexivity. now rewrite (dec_no_nl _ H).
  - apply andb_true_iff in H as [H _]. apply negb_true_iff in H. eauto.
Qed.

Lemma strip_zlow p1 p2 v : is_dec v = true ->
  strip (k_zline (ZLow p1 p2 v)) = bs "low" ++ spaces (S p2) ++ v.
Proof.
  intros H. apply is_dec_tok in H as [Hv1 Hv2]. cbn [k_zline].
  replace (spaces p1 ++ bs "low" ++ spaces (S p2) ++ v ++ [10])
    with ((spaces p1 ++ bs "low" ++ spaces (S p2) ++ v) ++ [10]) by (now rewrite <- !app_assoc).
  rewrite strip_snoc_ws by reflexivity. unfold strip. rewrite lstrip_spaces.
  change (lstrip (bs "low" ++ spaces (S p2) ++ v)) with (bs "low" ++ spaces (S p2) ++ v).
  rewrite app_assoc. now apply rstrip_no_ws_tail.
Qed.

Lemma zone_low_lines zs : forall acc, forallb wf_zline zs = true ->
  zone_low acc (map k_zline zs) = Val (acc + low_pages zs).
Proof.
  induction zs as [|z zs IH]; intros acc H.
  - cbn. f_equal. lia.
  - cbn [forallb] in H. apply andb_true_iff in H as [Hz Hr].
    cbn [map zone_low]. destruct z as [p1 p2 v|b]; cbn [wf_zline] in Hz.
    + rewrite (strip_zlow p1 p2 v Hz). unfold K_low. rewrite prefixb_app.
      destruct (is_dec_tok _ Hz) as [Hv1 Hv2].
      rewrite spaces_S. cbn [app]. rewrite split_ws_token_sep by (try reflexivity; discriminate).
      rewrite split_ws_spaces, split_ws_token by auto.
      cbn [nth_error of_option obind]. rewrite (py_int_dec _ Hz). cbn [obind].
      rewrite IH by exact Hr. cbn [low_pages]. f_equal. lia.
    + apply andb_true_iff in Hz as [_ Hz]. apply negb_true_iff in Hz.
      cbn [k_zline]. rewrite strip_snoc_ws by reflexivity. unfold K_low. rewrite Hz.
      rewrite IH by exact Hr. reflexivity.
Qed.

Lemma zone_low_printed zs : forallb wf_zline zs = true ->
  zone_low 0 (lines_keep (k_zoneinfo zs)) = Val (low_pages zs).
Proof.
  intros H. unfold k_zoneinfo. rewrite lines_keep_concat.
  - now rewrite zone_low_lines.
  - intros z Hz. apply zline_body. rewrite forallb_forall in H. now apply H.
Qed.

(* ================================================================ the fallback estimate *)
Lemma half_exact a : a * 1024 / 2 = a * 512.
Proof. replace (a * 1024) with (a * 512 * 2) by lia. apply Z.div_mul. lia. Qed.

Lemma avail_arith f wl a b c :
  Z.quot (2 * (f - wl) + (2 * (a * 1024 + b * 1024) - Z.min (a * 1024 + b * 1024) (2 * wl))
          + (2 * (c * 1024) - Z.min (c * 1024) (2 * wl))) 2
  = (f - wl) + ((a * 1024 + b * 1024) - Z.min ((a * 1024 + b * 1024) / 2) wl)
    + (c * 1024 - Z.min (c * 1024 / 2) wl).
Proof.
  replace (a * 1024 + b * 1024) with ((a + b) * 1024) by lia.
  rewrite !half_exact.
  match goal with |- Z.quot ?x 2 = ?y => replace x with (y * 2) by lia end.
  apply Z.quot_mul. lia.
Qed.

Section VMProof.
  Variable k : kernel.
  Variable d : dict.
  Hypothesis Hd : forall name, dget (bs name) d = kbytes (k_mem k) name.
  Hypothesis Hz : opt_forall (forallb wf_zline) (k_zone k) = true.
  Hypothesis Hw : wf_meminfo (k_mem k) = true.

  Lemma calc_avail_spec f : kbytes (k_mem k) "MemFree:" = Some f ->
    calc_avail (k_pagesize k) d (option_map k_zoneinfo (k_zone k)) = Val (sp_fallback k).
  Proof.
    intros Hf. unfold calc_avail, sp_fallback, sp_free.
    unfold K_MemFree, K_Cached, K_ActiveFile, K_InactiveFile, K_SReclaimable.
    rewrite !Hd, Hf. cbn [of_option obind default0].
    destruct (kbytes (k_mem k) "Active(file):") as [af|] eqn:E1; [|reflexivity].
    destruct (kbytes (k_mem k) "Inactive(file):") as [inf|] eqn:E2; [|reflexivity].
    destruct (kbytes (k_mem k) "SReclaimable:") as [sr|] eqn:E3; [|reflexivity].
    destruct (k_zone k) as [zs|] eqn:E4; [|reflexivity].
    cbn [option_map]. cbn [opt_forall] in Hz. rewrite (zone_low_printed zs Hz). cbn [obind].
    apply kbytes_mult in E1 as [a ->]. apply kbytes_mult in E2 as [b ->]. apply kbytes_mult in E3 as [c ->].
    f_equal. apply avail_arith.
  Qed.

  Theorem vm_of_dict_spec : has_total_free k = true ->
    vm_of_dict (k_pagesize k) d (option_map k_zoneinfo (k_zone k)) = Val (spec_vm k).
  Proof.
    intros Htf. unfold has_total_free in Htf.
    destruct (kbytes (k_mem k) "MemTotal:") as [t|] eqn:Et; [|discriminate].
    destruct (kbytes (k_mem k) "MemFree:") as [f|] eqn:Ef; [|discriminate].
    unfold vm_of_dict.
    unfold K_MemTotal, K_MemFree, K_Buffers, K_Cached, K_SReclaimable, K_Shmem, K_MemShared, K_Active,
      K_Inactive, K_Inact_dirty, K_Inact_clean, K_Inact_laundry, K_Slab, K_MemAvailable.
    rewrite !Hd, Et, Ef. cbn [of_option obind].
    rewrite !(calc_avail_spec f Ef).
    assert (HA : match kbytes (k_mem k) "MemAvailable:" with
                 | Some a => if a =? 0 then Val (sp_fallback k) else Val a
                 | None => Val (sp_fallback k) end = Val (sp_avail_raw k)).
    { unfold sp_avail_raw. destruct (kbytes (k_mem k) "MemAvailable:") as [a|]; [|reflexivity].
      destruct (a =? 0); reflexivity. }
    rewrite HA. cbn [obind]. clear HA.
    assert (Ht : sp_total k = t) by (unfold sp_total; now rewrite Et).
    assert (Hf : sp_free k = f) by (unfold sp_free; now rewrite Ef).
    assert (Hb : default0 (kbytes (k_mem k) "Buffers:") = sp_buffers k) by reflexivity.
    assert (Hc : default0 match kbytes (k_mem k) "Cached:" with
                          | Some c => Some (c + default0 (kbytes (k_mem k) "SReclaimable:"))
                          | None => None end = sp_cached k).
    { unfold sp_cached. destruct (kbytes (k_mem k) "Cached:"); reflexivity. }
    assert (Hav : (if sp_avail_raw k <? 0 then 0 else if t <? sp_avail_raw k then f else sp_avail_raw k)
                  = sp_available k).
    { unfold sp_available. now rewrite Ht, Hf. }
    rewrite Hb, Hc, Hav. f_equal. unfold spec_vm. f_equal.
    - now rewrite Ht.
    - unfold sp_percent10, usage_percent10. rewrite Ht.
      destruct (t =? 0) eqn:E0; [reflexivity|].
      assert (0 <? t = true) as ->; [|reflexivity].
      pose proof (kbytes_nonneg _ _ _ Hw Et). lia.
    - unfold sp_used. now rewrite Ht, Hf.
    - now rewrite Hf.
    - unfold sp_shared. destruct (kbytes (k_mem k) "Shmem:"); reflexivity.
    - unfold sp_missing, absent, miss.
      destruct (kbytes (k_mem k) "Cached:"); reflexivity.
  Qed.
End VMProof.

(* ================================================================ main theorems *)
Theorem vm_exact k : wf_kernel k = true -> has_total_free k = true ->
  virtual_memory (k_pagesize k) (k_meminfo (k_mem k)) (option_map k_zoneinfo (k_zone k))
  = Val (spec_vm k).
Proof.
  intros Hwf Htf. unfold wf_kernel in Hwf.
  apply andb_true_iff in Hwf as [Hwf _]. apply andb_true_iff in Hwf as [Hm Hz].
  destruct (parse_meminfo_printed (k_mem k) Hm) as [d [Hp Hd]].
  unfold virtual_memory. rewrite Hp. cbn [obind].
  now apply vm_of_dict_spec.
Qed.

Lemma default0_nonneg ms name : wf_meminfo ms = true -> 0 <= default0 (kbytes ms name).
Proof.
  intros H. destruct (kbytes ms name) as [v|] eqn:E; cbn [default0]; [|lia].
  now apply (kbytes_nonneg ms name).
Qed.

(* free <= total  ->  0 <= available <= total  and  0 <= percent <= 100 *)
Theorem vm_range k : wf_kernel k = true -> sp_free k <= sp_total k ->
  0 <= sp_available k <= sp_total k /\ 0 <= sp_percent10 k <= 1000.
Proof.
  intros Hwf Hle. unfold wf_kernel in Hwf.
  apply andb_true_iff in Hwf as [Hwf _]. apply andb_true_iff in Hwf as [Hm _].
  assert (H0 : 0 <= sp_free k) by (apply default0_nonneg; exact Hm).
  assert (HA : 0 <= sp_available k <= sp_total k).
  { unfold sp_available. destruct (sp_avail_raw k <? 0) eqn:E1; [lia|].
    destruct (sp_total k <? sp_avail_raw k) eqn:E2; lia. }
  split; [exact HA|]. unfold sp_percent10.
  destruct (sp_total k =? 0) eqn:E0; [lia|].
  apply round_he_range; nia.
Qed.

(* the hypothesis free <= total cannot be dropped: a container-distorted meminfo with
   MemFree > MemTotal and MemAvailable > MemTotal is answered with available = free > total *)
Definition distorted_kernel : kernel :=
  {| k_mem := [ {| ml_name := bs "MemTotal:"; ml_pad := 7; ml_val := bs "7"; ml_kb := true |};
                {| ml_name := bs "MemFree:"; ml_pad := 8; ml_val := bs "9"; ml_kb := true |};
                {| ml_name := bs "MemAvailable:"; ml_pad := 3; ml_val := bs "9"; ml_kb := true |} ];
     k_zone := None; k_vm := None; k_pagesize := 4096; k_sysinfo := (0, 0, 1) |}.
Theorem vm_range_needs_free_le_total :
  exists k, wf_kernel k = true /\ has_total_free k = true /\ sp_total k < sp_free k /\
    exists r, virtual_memory (k_pagesize k) (k_meminfo (k_mem k)) (option_map k_zoneinfo (k_zone k)) = Val r /\
              v_total r < v_available r /\ v_percent10 r < 0.
Proof.
  exists distorted_kernel. split; [reflexivity|]. split; [reflexivity|]. split; [vm_compute; reflexivity|].
  eexists. split; [vm_compute; reflexivity|]. split; vm_compute; reflexivity.
Qed.

(* what the demanded record says when an optional counter does not exist: the metric is 0 and
   (slab excepted) it is named in the warning -- for EVERY other content of the files *)
Theorem vm_missing_fields k r : wf_kernel k = true -> has_total_free k = true ->
  virtual_memory (k_pagesize k) (k_meminfo (k_mem k)) (option_map k_zoneinfo (k_zone k)) = Val r ->
  (kbytes (k_mem k) "Buffers:" = None -> v_buffers r = 0 /\ In (bs "buffers") (v_missing r)) /\
  (kbytes (k_mem k) "Cached:" = None -> v_cached r = 0 /\ In (bs "cached") (v_missing r)) /\
  (kbytes (k_mem k) "Shmem:" = None -> kbytes (k_mem k) "MemShared:" = None -> v_shared r = 0 /\ In (bs "shared") (v_missing r)) /\
  (kbytes (k_mem k) "Active:" = None -> v_active r = 0 /\ In (bs "active") (v_missing r)) /\
  (kbytes (k_mem k) "Inactive:" = None -> (kbytes (k_mem k) "Inact_dirty:" = None \/ kbytes (k_mem k) "Inact_clean:" = None \/ kbytes (k_mem k) "Inact_laundry:" = None) ->
     v_inactive r = 0 /\ In (bs "inactive") (v_missing r)) /\
  (kbytes (k_mem k) "Slab:" = None -> v_slab r = 0) /\
  (kbytes (k_mem k) "SReclaimable:" = None -> forall c, kbytes (k_mem k) "Cached:" = Some c -> v_cached r = c).
Proof.
  intros Hwf Htf Hr. rewrite (vm_exact k Hwf Htf) in Hr. injection Hr as <-.
  cbn [spec_vm v_buffers v_cached v_shared v_active v_inactive v_slab v_missing].
  unfold sp_missing, sp_buffers, sp_cached, sp_shared, sp_active, sp_inactive, sp_inactive_o, sp_slab, absent.
  assert (IN : forall (x : bytes) a b c d e f, In x a \/ In x b \/ In x c \/ In x d \/ In x e \/ In x f ->
                In x (a ++ b ++ c ++ d ++ e ++ f)).
  { intros. rewrite !in_app_iff. tauto. }
  split; [intros H; rewrite H; split; [reflexivity|apply IN; cbn [In]; auto 10]|].
  split; [intros H; rewrite H; split; [reflexivity|apply IN; cbn [In]; auto 10]|].
  split; [intros H H0; rewrite H, H0; split; [reflexivity|apply IN; cbn [In]; auto 10]|].
  split; [intros H; rewrite H; split; [reflexivity|apply IN; cbn [In]; auto 10]|].
  split.
  { intros H H0. rewrite H.
    destruct (kbytes (k_mem k) "Inact_dirty:") as [x1|], (kbytes (k_mem k) "Inact_clean:") as [x2|],
      (kbytes (k_mem k) "Inact_laundry:") as [x3|];
      try (destruct H0 as [E|[E|E]]; discriminate E);
      (split; [reflexivity|apply IN; cbn [In]; auto 10]). }
  split; [intros H; now rewrite H|].
  intros H c Hc. rewrite Hc, H. cbn [default0]. lia.
Qed.

(* conversely the warning names nothing else: a name in it is a metric reported as 0 *)
Theorem vm_warning_sound k r : wf_kernel k = true -> has_total_free k = true ->
  virtual_memory (k_pagesize k) (k_meminfo (k_mem k)) (option_map k_zoneinfo (k_zone k)) = Val r ->
  forall n, In n (v_missing r) ->
    (n = bs "buffers" /\ v_buffers r = 0) \/ (n = bs "cached" /\ v_cached r = 0) \/
    (n = bs "shared" /\ v_shared r = 0) \/ (n = bs "active" /\ v_active r = 0) \/
    (n = bs "inactive" /\ v_inactive r = 0) \/ (n = bs "available" /\ v_available r = 0).
Proof.
  intros Hwf Htf Hr n Hn. rewrite (vm_exact k Hwf Htf) in Hr. injection Hr as <-.
  cbn [spec_vm v_buffers v_cached v_shared v_active v_inactive v_available v_missing] in *.
  unfold sp_missing, absent in Hn. rewrite !in_app_iff in Hn.
  destruct Hn as [Hn|[Hn|[Hn|[Hn|[Hn|Hn]]]]].
  - left. unfold sp_buffers. destruct (kbytes (k_mem k) "Buffers:"); [destruct Hn|].
    destruct Hn as [<-|[]]. auto.
  - right. left. unfold sp_cached. destruct (kbytes (k_mem k) "Cached:"); [destruct Hn|].
    destruct Hn as [<-|[]]. auto.
  - right. right. left. unfold sp_shared. destruct (kbytes (k_mem k) "Shmem:"); [destruct Hn|].
    destruct (kbytes (k_mem k) "MemShared:"); [destruct Hn|]. destruct Hn as [<-|[]]. auto.
  - right. right. right. left. unfold sp_active. destruct (kbytes (k_mem k) "Active:"); [destruct Hn|].
    destruct Hn as [<-|[]]. auto.
  - right. right. right. right. left. unfold sp_inactive. destruct (sp_inactive_o k); [destruct Hn|].
    destruct Hn as [<-|[]]. auto.
  - right. right. right. right. right. unfold sp_available.
    destruct (sp_avail_raw k <? 0); [|destruct Hn]. destruct Hn as [<-|[]]. auto.
Qed.

(* the hypotheses are satisfiable by an ordinary meminfo / zoneinfo *)
Definition ml (n : string) (p : nat) (v : string) : mline :=
  {| ml_name := bs n; ml_pad := p; ml_val := bs v; ml_kb := true |}.
Definition sample_kernel : kernel :=
  {| k_mem := [ ml "MemTotal:" 7 "16384256"; ml "MemFree:" 9 "1234568"; ml "Buffers:" 9 "204800";
                ml "Cached:" 10 "4000000"; ml "Active(file):" 3 "2000000"; ml "Inactive(file):" 1 "1500000";
                {| ml_name := bs "HugePages_Total:"; ml_pad := 7; ml_val := bs "0"; ml_kb := false |};
                ml "Shmem:" 11 "300000"; ml "Slab:" 12 "600000"; ml "SReclaimable:" 4 "400000";
                ml "SwapTotal:" 5 "2097148"; ml "SwapFree:" 6 "2000000" ];
     k_zone := Some [ ZOther (bs "Node 0, zone      DMA"); ZOther (bs "  pages free     3840");
                      ZOther (bs "        min      6"); ZLow 8 5 (bs "9"); ZOther (bs "        high     12");
                      ZOther (bs "Node 0, zone   Normal"); ZLow 8 5 (bs "16912"); ZOther (bs "      nr_free_pages 3840") ];
     k_vm := Some [ {| vl_name := bs "pgpgout"; vl_val := bs "83" |}; {| vl_name := bs "pswpin"; vl_val := bs "5" |};
                    {| vl_name := bs "pswpout"; vl_val := bs "17" |}; {| vl_name := bs "pgfault"; vl_val := bs "9" |} ];
     k_pagesize := 4096; k_sysinfo := (0, 0, 1) |}.
Example sample_kernel_ok :
  wf_kernel sample_kernel = true /\ has_total_free sample_kernel = true /\
  sp_free sample_kernel <= sp_total sample_kernel /\
  (* MemAvailable absent: the watermark estimate *)
  sp_available sample_kernel = (1234568 + 2000000 + 1500000 + 400000) * 1024 - 3 * (16921 * 4096) /\
  sp_missing sample_kernel = [bs "active"; bs "inactive"].
Proof. vm_compute. repeat split; congruence. Qed.
