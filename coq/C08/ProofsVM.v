(* C08 -- virtual_memory(): the model meets the specification for every kernel record. *)
From PV Require Import C08.Spec C08.Lib C08.ProofsRound.
Require Import ZifyBool.

(* ================================================================ /proc/meminfo *)
Lemma wf_mline_inv m : wf_mline m = true ->
  (ml_name m <> [] /\ no_ws (ml_name m) = true) /\ is_dec (ml_val m) = true /\ rest_ok (ml_rest m) = true.
Proof.
  unfold wf_mline. intros H. apply andb_true_iff in H as [H Hr]. apply andb_true_iff in H as [Hn Hv].
  apply tok_ok_spec in Hn. auto.
Qed.

Lemma mitem_body i : wf_mitem i = true ->
  exists body, k_mitem i = body ++ [10] /\ contains 10 body = false.
Proof.
  destruct i as [m|b]; cbn [wf_mitem k_mitem]; intros H.
  - apply wf_mline_inv in H as [[_ Hn] [Hv Hr]].
    unfold rest_ok in Hr. apply andb_true_iff in Hr as [Hr _]. apply negb_true_iff in Hr.
    exists (ml_name m ++ spaces (S (ml_pad m)) ++ ml_val m ++ ml_rest m). split.
    + unfold k_mline. now rewrite <- !app_assoc.
    + rewrite !contains_app. rewrite (no_ws_contains 10 _ eq_refl Hn).
      rewrite contains_spaces by reflexivity. now rewrite (dec_no_nl _ Hv), Hr.
  - apply andb_true_iff in H as [H _]. apply negb_true_iff in H. eauto.
Qed.

Lemma split_ws_mline m : wf_mline m = true ->
  exists rest, split_ws (k_mline m) = ml_name m :: ml_val m :: rest.
Proof.
  intros H. apply wf_mline_inv in H as [[Hn1 Hn2] [Hv Hr]]. apply is_dec_tok in Hv as [Hv1 Hv2].
  unfold k_mline. rewrite spaces_S. cbn [app].
  rewrite split_ws_token_sep by auto. rewrite split_ws_spaces.
  unfold rest_ok in Hr. apply andb_true_iff in Hr as [_ Hr].
  destruct (ml_rest m) as [|c r].
  - cbn [app]. rewrite split_ws_token_sep by auto. eauto.
  - cbn [app]. rewrite split_ws_token_sep by auto. eauto.
Qed.

Definition mstep (d : dict) (i : mitem) : dict :=
  match i with
  | MLine m => dset (ml_name m) (dec_val (ml_val m) * 1024) d
  | MJunk _ => d
  end.

(* a "name number ..." line is stored whatever [lenient] is; any other line is skipped by the
   lenient code and makes the strict code raise *)
Lemma mem_step_line len d m : wf_mline m = true -> mem_step len d (k_mline m) = Val (mstep d (MLine m)).
Proof.
  intros H. destruct (split_ws_mline m H) as [rest E].
  unfold mem_step. rewrite E. cbn [nth_error].
  apply wf_mline_inv in H as [_ [Hv _]]. rewrite (parse_int_dec _ Hv). reflexivity.
Qed.

Lemma mem_step_junk_lenient d b : wf_mitem (MJunk b) = true -> mem_step true d (b ++ [10]) = Val d.
Proof.
  cbn [wf_mitem]. intros H. apply andb_true_iff in H as [_ H]. unfold not_name_number in H.
  unfold mem_step. rewrite split_ws_snoc_ws by reflexivity.
  destruct (nth_error (split_ws b) 1) as [t|]; [|reflexivity].
  destruct (parse_int t); [discriminate|reflexivity].
Qed.

Lemma mem_step_junk_strict d b : wf_mitem (MJunk b) = true ->
  mem_step false d (b ++ [10]) = Exc IndexError \/ mem_step false d (b ++ [10]) = Exc ValueError.
Proof.
  cbn [wf_mitem]. intros H. apply andb_true_iff in H as [_ H]. unfold not_name_number in H.
  unfold mem_step. rewrite split_ws_snoc_ws by reflexivity.
  destruct (nth_error (split_ws b) 1) as [t|]; [|now left].
  destruct (parse_int t); [discriminate|now right].
Qed.

Lemma mem_fold_lines len ms : forall d, forallb wf_mitem ms = true -> (len = true \/ no_junk ms = true) ->
  mem_fold len d (map k_mitem ms) = Val (fold_left mstep ms d).
Proof.
  induction ms as [|i ms IH]; intros d H HL; [reflexivity|].
  cbn [forallb] in H. apply andb_true_iff in H as [Hi Hr].
  assert (HL' : len = true \/ no_junk ms = true).
  { destruct HL as [HL|HL]; [now left|]. unfold no_junk in HL. cbn [forallb] in HL.
    apply andb_true_iff in HL as [_ HL]. now right. }
  cbn [map mem_fold fold_left]. destruct i as [m|b].
  - cbn [k_mitem]. rewrite (mem_step_line len d m Hi). cbn [obind]. now apply IH.
  - destruct HL as [-> | HL]; [|discriminate HL].
    cbn [k_mitem]. rewrite (mem_step_junk_lenient d b Hi). cbn [obind mstep]. now apply IH.
Qed.

Fixpoint mlast (k : bytes) (ms : list mitem) (acc : option Z) : option Z :=
  match ms with
  | [] => acc
  | MLine m :: r => mlast k r (if beqb k (ml_name m) then Some (dec_val (ml_val m) * 1024) else acc)
  | MJunk _ :: r => mlast k r acc
  end.

Lemma dget_fold ms : forall d k, dget k (fold_left mstep ms d) = mlast k ms (dget k d).
Proof.
  induction ms as [|i ms IH]; intros d k; [reflexivity|].
  cbn [fold_left]. rewrite IH. destruct i as [m|b]; cbn [mlast mstep]; [|reflexivity].
  f_equal. apply dget_dset.
Qed.

Lemma mlast_notin k ms : forall acc,
  existsb (beqb k) (mnames ms) = false -> mlast k ms acc = acc.
Proof.
  induction ms as [|i ms IH]; intros acc H; [reflexivity|]. destruct i as [m|b].
  - cbn [mnames existsb] in H. apply orb_false_iff in H as [H1 H2].
    cbn [mlast]. rewrite H1. now apply IH.
  - cbn [mlast]. now apply IH.
Qed.

Lemma mlast_nodup k ms : nodupb (mnames ms) = true ->
  mlast k ms None = option_map (fun v => v * 1024) (kfind k ms).
Proof.
  induction ms as [|i ms IH]; intros H; [reflexivity|]. destruct i as [m|b].
  - cbn [mnames nodupb] in H. apply andb_true_iff in H as [H1 H2]. apply negb_true_iff in H1.
    cbn [mlast kfind]. destruct (beqb k (ml_name m)) eqn:E.
    + apply beqb_eq in E. subst k. rewrite mlast_notin by exact H1. reflexivity.
    + now apply IH.
  - cbn [mlast kfind]. now apply IH.
Qed.

Theorem parse_meminfo_printed len ms : wf_meminfo ms = true -> (len = true \/ no_junk ms = true) ->
  exists d, parse_meminfo len (k_meminfo ms) = Val d /\
            forall name, dget (bs name) d = kbytes ms name.
Proof.
  intros H HL. unfold wf_meminfo in H. apply andb_true_iff in H as [Hw Hn].
  exists (fold_left mstep ms []). split.
  - unfold parse_meminfo, k_meminfo. rewrite lines_keep_concat.
    + now apply mem_fold_lines.
    + intros m Hm. apply mitem_body. rewrite forallb_forall in Hw. now apply Hw.
  - intros name. rewrite dget_fold. cbn [dget]. unfold kbytes. now apply mlast_nodup.
Qed.

(* the code as it is now stops at the first line that is not "name number ..." *)
Lemma mem_fold_strict_junk ms1 b ms2 : forall d,
  forallb wf_mitem ms1 = true -> no_junk ms1 = true -> wf_mitem (MJunk b) = true ->
  mem_fold false d (map k_mitem (ms1 ++ MJunk b :: ms2)) = Exc IndexError \/
  mem_fold false d (map k_mitem (ms1 ++ MJunk b :: ms2)) = Exc ValueError.
Proof.
  induction ms1 as [|i ms1 IH]; intros d H1 H2 Hb.
  - cbn [app map mem_fold k_mitem].
    destruct (mem_step_junk_strict d b Hb) as [-> | ->]; [now left|now right].
  - cbn [forallb] in H1. apply andb_true_iff in H1 as [Hi H1].
    unfold no_junk in H2. cbn [forallb] in H2. apply andb_true_iff in H2 as [Hj H2].
    destruct i as [m|x]; [|discriminate Hj].
    cbn [app map mem_fold k_mitem]. rewrite (mem_step_line false d m Hi). cbn [obind]. now apply IH.
Qed.

(* every byte figure of meminfo is a multiple of 1024 (so "/ 2" below is exact) *)
Lemma kbytes_mult ms name v : kbytes ms name = Some v -> exists a, v = a * 1024.
Proof.
  unfold kbytes. destruct (kfind (bs name) ms) as [a|]; cbn [option_map]; [|discriminate].
  intros E. injection E as <-. eauto.
Qed.

(* the kernel prints unsigned numbers *)
Lemma kbytes_nonneg ms name v : wf_meminfo ms = true -> kbytes ms name = Some v -> 0 <= v.
Proof.
  unfold wf_meminfo, kbytes. intros H. apply andb_true_iff in H as [H _].
  induction ms as [|i ms IH]; [discriminate|].
  cbn [forallb] in H. apply andb_true_iff in H as [Hm Hr].
  destruct i as [m|b]; cbn [kfind]; [|now apply IH].
  destruct (beqb (bs name) (ml_name m)); [|now apply IH].
  cbn [option_map]. intros E. injection E as <-.
  apply wf_mline_inv in Hm as [_ [Hv _]].
  destruct (ml_val m) as [|c l] eqn:E; [discriminate|]. cbn [is_dec] in Hv.
  pose proof (dec_val_nonneg _ Hv). lia.
Qed.

(* ================================================================ /proc/zoneinfo *)
Lemma zline_body z : wf_zline z = true ->
  exists body, k_zline z = body ++ [10] /\ contains 10 body = false.
Proof.
  destruct z as [w1 w2 v w3|b]; cbn [wf_zline k_zline]; intros H.
  - apply andb_true_iff in H as [H H3]. apply andb_true_iff in H as [H Hv].
    apply andb_true_iff in H as [H _]. apply andb_true_iff in H as [H1 H2].
    exists (w1 ++ bs "low" ++ w2 ++ v ++ w3). split.
    + now rewrite <- !app_assoc.
    + rewrite !contains_app, (blanks_no_nl _ H1), (blanks_no_nl _ H2), (blanks_no_nl _ H3), (dec_no_nl _ Hv).
      reflexivity.
  - apply andb_true_iff in H as [H _]. apply negb_true_iff in H. eauto.
Qed.

Lemma strip_zlow w1 w2 v w3 : blanks w1 = true -> blanks w3 = true -> is_dec v = true ->
  strip (k_zline (ZLow w1 w2 v w3)) = bs "low" ++ w2 ++ v.
Proof.
  intros H1 H3 H. apply is_dec_tok in H as [Hv1 Hv2]. cbn [k_zline].
  replace (w1 ++ bs "low" ++ w2 ++ v ++ w3 ++ [10])
    with (w1 ++ (bs "low" ++ w2 ++ v) ++ (w3 ++ [10])) by (now rewrite <- !app_assoc).
  unfold strip. rewrite lstrip_ws_prefix by (now apply blanks_ws).
  change (lstrip ((bs "low" ++ w2 ++ v) ++ w3 ++ [10])) with ((bs "low" ++ w2 ++ v) ++ w3 ++ [10]).
  rewrite rstrip_ws_suffix.
  - rewrite app_assoc. rewrite rstrip_no_ws_tail by assumption. now rewrite <- app_assoc.
  - rewrite forallb_app, (blanks_ws _ H3). reflexivity.
Qed.

Lemma zone_low_lines zs : forall acc, forallb wf_zline zs = true ->
  zone_low acc (map k_zline zs) = Val (acc + low_pages zs).
Proof.
  induction zs as [|z zs IH]; intros acc H.
  - cbn. f_equal. lia.
  - cbn [forallb] in H. apply andb_true_iff in H as [Hz Hr].
    cbn [map zone_low]. destruct z as [w1 w2 v w3|b]; cbn [wf_zline] in Hz.
    + apply andb_true_iff in Hz as [Hz H3]. apply andb_true_iff in Hz as [Hz Hv].
      apply andb_true_iff in Hz as [Hz Hne]. apply andb_true_iff in Hz as [H1 H2].
      rewrite (strip_zlow w1 w2 v w3 H1 H3 Hv). unfold K_low. rewrite prefixb_app.
      destruct (is_dec_tok _ Hv) as [Hv1 Hv2].
      destruct w2 as [|c w2']; [discriminate|].
      cbn [blanks forallb] in H2. apply andb_true_iff in H2 as [Hc H2].
      cbn [app]. rewrite split_ws_token_sep by (try reflexivity; try discriminate; now apply blank_is_ws).
      rewrite split_ws_ws_prefix by (now apply blanks_ws). rewrite split_ws_token by auto.
      cbn [nth_error of_option obind]. rewrite (py_int_dec _ Hv). cbn [obind].
      rewrite IH by exact Hr. cbn [low_pages]. f_equal. lia.
    + apply andb_true_iff in Hz as [_ Hz]. apply negb_true_iff in Hz.
      cbn [k_zline]. rewrite strip_snoc_ws by reflexivity. unfold K_low. rewrite Hz.
      rewrite IH by exact Hr. reflexivity.
Qed.

Lemma zone_low_printed zs : forallb wf_zline zs = true ->
  zone_low 0 (lines_keep (k_zoneinfo zs)) = Val (low_pages zs).
Proof.
  intros H. unfold k_zoneinfo. rewrite lines_keep_concat.
  - now rewrite zone_low_lines.
  - intros z Hz. apply zline_body. rewrite forallb_forall in H. now apply H.
Qed.

Lemma low_pages_nonneg zs : forallb wf_zline zs = true -> 0 <= low_pages zs.
Proof.
  induction zs as [|z zs IH]; intros H; [cbn; lia|].
  cbn [forallb] in H. apply andb_true_iff in H as [Hz Hr]. specialize (IH Hr).
  destruct z as [w1 w2 v w3|b]; cbn [low_pages]; [|exact IH].
  cbn [wf_zline] in Hz. apply andb_true_iff in Hz as [Hz _]. apply andb_true_iff in Hz as [_ Hv].
  destruct v as [|c l]; [discriminate|]. cbn [is_dec] in Hv. pose proof (dec_val_nonneg _ Hv). lia.
Qed.

(* whatever bytes the file holds, reading the watermarks either yields a number or raises
   IndexError ("low" without a second field) / ValueError (second field not a number) *)
Lemma zone_low_outcomes ls : forall acc,
  (exists n, zone_low acc ls = Val n) \/ zone_low acc ls = Exc IndexError \/ zone_low acc ls = Exc ValueError.
Proof.
  induction ls as [|l ls IH]; intros acc; [left; eexists; reflexivity|].
  cbn [zone_low]. destruct (prefixb K_low (strip l)); [|apply IH].
  destruct (nth_error (split_ws (strip l)) 1) as [t|]; cbn [of_option obind]; [|right; now left].
  unfold py_int. destruct (parse_int t); cbn [of_option obind]; [apply IH|right; now right].
Qed.

(* ================================================================ the fallback estimate *)
Lemma half_exact a : a * 1024 / 2 = a * 512.
Proof. replace (a * 1024) with (a * 512 * 2) by lia. apply Z.div_mul. lia. Qed.

(* the double-precision evaluation is exact for every rounding operator that leaves
   multiples of 1024 (in half units: multiples of 512) below 2^63 alone *)
Ltac Zify.zify_post_hook ::= Z.to_euclidean_division_equations.
Section FloatExact.
  Variable rnd : Z -> Z.
  Hypothesis Hr : forall x, x mod 1024 = 0 -> - 2 ^ 63 < x < 2 ^ 63 -> rnd x = x.

  Lemma fl_path_exact F W P S :
    0 <= F -> 0 <= W -> 0 <= P -> 0 <= S -> F * 1024 + W * 512 + P * 1024 + S * 1024 < 2 ^ 61 ->
    let free := F * 1024 in let wl := W * 512 in let pc := P * 1024 in let sr := S * 1024 in
    py_trunc (py_add rnd (py_add rnd (PI (free - wl)) (py_sub rnd (PI pc) (py_min (PF (rnd pc)) (PI wl))))
                     (py_sub rnd (PI sr) (py_min (PF (rnd (2 * sr) / 2)) (PI wl))))
    = (free - wl) + (pc - Z.min (pc / 2) wl) + (sr - Z.min (sr / 2) wl).
  Proof.
    intros HF HW HP HS HB free wl pc sr. subst free wl pc sr.
    assert (B : 2 ^ 61 = 2305843009213693952) by reflexivity.
    assert (B3 : 2 ^ 63 = 9223372036854775808) by reflexivity.
    rewrite !half_exact.
    assert (R : forall x, x mod 1024 = 0 -> - 9223372036854775808 < x < 9223372036854775808 -> rnd x = x)
      by (intros; apply Hr; lia).
    rewrite (R (P * 1024)) by lia.
    rewrite (R (2 * (S * 1024))) by lia.
    replace (2 * (S * 1024) / 2) with (S * 1024) by lia.
    unfold py_min. cbn [half2].
    destruct (2 * (W * 512) <? P * 1024) eqn:E1; destruct (2 * (W * 512) <? S * 1024) eqn:E2;
      cbn [py_sub py_add to_f py_trunc];
      repeat (match goal with |- context [rnd ?x] => rewrite (R x) by lia end);
      lia.
  Qed.
End FloatExact.

Section VMProof.
  Variable k : kernel.
  Variable d : dict.
  Hypothesis Hd : forall name, dget (bs name) d = kbytes (k_mem k) name.
  Hypothesis Hz : opt_forall (forallb wf_zline) (k_zone k) = true.
  Hypothesis Hw : wf_meminfo (k_mem k) = true.
  Hypothesis Hfl : float_exact k = true.

  Lemma calc_avail_spec f : kbytes (k_mem k) "MemFree:" = Some f -> needs_estimate k = true ->
    calc_avail (k_pagesize k) d (zs_of_opt (option_map k_zoneinfo (k_zone k))) = Val (sp_fallback k).
  Proof.
    intros Hf Hne. unfold calc_avail, calc_avail_gen, sp_fallback, sp_free.
    unfold K_MemFree, K_Cached, K_ActiveFile, K_InactiveFile, K_SReclaimable.
    rewrite !Hd, Hf. cbn [of_option obind default0].
    unfold float_exact in Hfl. rewrite Hne in Hfl. unfold sp_free in Hfl. rewrite Hf in Hfl. cbn [default0 negb orb] in Hfl.
    destruct (kbytes (k_mem k) "Active(file):") as [af|] eqn:E1; [|reflexivity].
    destruct (kbytes (k_mem k) "Inactive(file):") as [inf|] eqn:E2; [|reflexivity].
    destruct (kbytes (k_mem k) "SReclaimable:") as [sr|] eqn:E3; [|reflexivity].
    destruct (k_zone k) as [zs|] eqn:E4; [|reflexivity].
    cbn [option_map zs_of_opt zone_open]. cbn [opt_forall] in Hz. rewrite (zone_low_printed zs Hz). cbn [obind].
    pose proof (low_pages_nonneg zs Hz) as HL.
    pose proof (kbytes_nonneg _ _ _ Hw Hf) as N0. pose proof (kbytes_nonneg _ _ _ Hw E1) as N1.
    pose proof (kbytes_nonneg _ _ _ Hw E2) as N2. pose proof (kbytes_nonneg _ _ _ Hw E3) as N3.
    apply kbytes_mult in E1 as [a ->]. apply kbytes_mult in E2 as [b ->]. apply kbytes_mult in E3 as [c ->].
    apply kbytes_mult in Hf as [F ->].
    apply andb_true_iff in Hfl as [Hfl HB]. apply andb_true_iff in Hfl as [P0 P5].
    set (ps := k_pagesize k) in *. set (q := ps / 512).
    assert (Hq : ps = q * 512) by (subst q; lia).
    assert (Q0 : 0 <= q) by lia.
    replace (low_pages zs * ps) with ((low_pages zs * q) * 512) in * by (rewrite Hq; ring).
    replace (a * 1024 + b * 1024) with ((a + b) * 1024) in * by lia.
    assert (W0 : 0 <= low_pages zs * q) by nia.
    pose proof (fl_path_exact rnd53 rnd53_exact F (low_pages zs * q) (a + b) c
                  ltac:(lia) W0 ltac:(lia) ltac:(lia) ltac:(lia)) as X.
    cbv zeta in X. rewrite X. reflexivity.
  Qed.

  Theorem vm_of_dict_spec : has_total_free k = true ->
    vm_of_dict (k_pagesize k) d (zs_of_opt (option_map k_zoneinfo (k_zone k))) = Val (spec_vm k).
  Proof.
    intros Htf. unfold has_total_free in Htf.
    destruct (kbytes (k_mem k) "MemTotal:") as [t|] eqn:Et; [|discriminate].
    destruct (kbytes (k_mem k) "MemFree:") as [f|] eqn:Ef; [|discriminate].
    unfold vm_of_dict.
    unfold K_MemTotal, K_MemFree, K_Buffers, K_Cached, K_SReclaimable, K_Shmem, K_MemShared, K_Active,
      K_Inactive, K_Inact_dirty, K_Inact_clean, K_Inact_laundry, K_Slab, K_MemAvailable.
    rewrite !Hd, Et, Ef. cbn [of_option obind].
    assert (HA : match kbytes (k_mem k) "MemAvailable:" with
                 | Some a => if a =? 0 then calc_avail (k_pagesize k) d (zs_of_opt (option_map k_zoneinfo (k_zone k))) else Val a
                 | None => calc_avail (k_pagesize k) d (zs_of_opt (option_map k_zoneinfo (k_zone k))) end
                 = Val (sp_avail_raw k)).
    { unfold sp_avail_raw. pose proof (calc_avail_spec f Ef) as C. unfold needs_estimate in C.
      destruct (kbytes (k_mem k) "MemAvailable:") as [a|]; [|now apply C].
      destruct (a =? 0); [now apply C|reflexivity]. }
    rewrite HA. cbn [obind]. clear HA.
    assert (Ht : sp_total k = t) by (unfold sp_total; now rewrite Et).
    assert (Hf : sp_free k = f) by (unfold sp_free; now rewrite Ef).
    assert (Hb : default0 (kbytes (k_mem k) "Buffers:") = sp_buffers k) by reflexivity.
    assert (Hc : default0 match kbytes (k_mem k) "Cached:" with
                          | Some c => Some (c + default0 (kbytes (k_mem k) "SReclaimable:"))
                          | None => None end = sp_cached k).
    { unfold sp_cached. destruct (kbytes (k_mem k) "Cached:"); reflexivity. }
    assert (Hav : (if sp_avail_raw k <? 0 then 0 else if t <? sp_avail_raw k then f else sp_avail_raw k)
                  = sp_available k).
    { unfold sp_available. now rewrite Ht, Hf. }
    rewrite Hb, Hc, Hav. f_equal. unfold spec_vm. f_equal.
    - now rewrite Ht.
    - unfold sp_percent10, usage_percent10. rewrite Ht.
      destruct (t =? 0) eqn:E0; [reflexivity|].
      assert (0 <? t = true) as ->; [|reflexivity].
      pose proof (kbytes_nonneg _ _ _ Hw Et). lia.
    - unfold sp_used. now rewrite Ht, Hf.
    - now rewrite Hf.
    - unfold sp_shared. destruct (kbytes (k_mem k) "Shmem:"); reflexivity.
    - unfold sp_missing, absent, miss.
      destruct (kbytes (k_mem k) "Cached:"); reflexivity.
  Qed.
End VMProof.
Ltac Zify.zify_post_hook ::= idtac.

(* ================================================================ main theorems *)
Lemma wf_kernel_inv k : wf_kernel k = true ->
  wf_meminfo (k_mem k) = true /\ opt_forall (forallb wf_zline) (k_zone k) = true /\ opt_forall wf_vmstat (k_vm k) = true.
Proof.
  unfold wf_kernel. intros H. apply andb_true_iff in H as [H Hv]. apply andb_true_iff in H as [Hm Hz]. auto.
Qed.

(* [len] = true: the code as it is now (db3d5fc), any well-formed file;
   [len] = false: the parser before that repair, files made of "name number ..." lines only *)
Theorem vm_exact_gen len k : wf_kernel k = true -> has_total_free k = true -> float_exact k = true ->
  (len = true \/ no_junk (k_mem k) = true) ->
  virtual_memory_gen len (k_pagesize k) (k_meminfo (k_mem k)) (option_map k_zoneinfo (k_zone k))
  = Val (spec_vm k).
Proof.
  intros Hwf Htf Hfl HL. apply wf_kernel_inv in Hwf as [Hm [Hz _]].
  destruct (parse_meminfo_printed len (k_mem k) Hm HL) as [d [Hp Hd]].
  unfold virtual_memory_gen, virtual_memory_z. rewrite Hp. cbn [obind].
  now apply vm_of_dict_spec.
Qed.

Theorem vm_exact k : wf_kernel k = true -> has_total_free k = true -> float_exact k = true ->
  virtual_memory (k_pagesize k) (k_meminfo (k_mem k)) (option_map k_zoneinfo (k_zone k))
  = Val (spec_vm k).
Proof. intros Hwf Htf Hfl. apply (vm_exact_gen true); auto. Qed.

(* when /proc/zoneinfo is not consulted (MemAvailable present and non-zero, or an input of the
   estimate missing) its state -- present, absent, unopenable, unreadable, unparsable, any bytes --
   does not matter *)
Theorem vm_zoneinfo_unread len k (z : zstate) :
  wf_kernel k = true -> has_total_free k = true -> (len = true \/ no_junk (k_mem k) = true) ->
  zone_read k = false ->
  virtual_memory_z len (k_pagesize k) (k_meminfo (k_mem k)) z = Val (spec_vm k).
Proof.
  intros Hwf Htf HL Hzr.
  (* the same kernel without zoneinfo has the same demanded answer and the same model run *)
  pose (k0 := {| k_mem := k_mem k; k_zone := None; k_vm := k_vm k; k_pagesize := k_pagesize k; k_sysinfo := k_sysinfo k |}).
  assert (W0 : wf_kernel k0 = true).
  { apply wf_kernel_inv in Hwf as [Hm [_ Hv]]. unfold wf_kernel, k0. cbn [k_mem k_zone k_vm opt_forall].
    now rewrite Hm, Hv. }
  assert (F0 : float_exact k0 = true).
  { unfold float_exact, k0. cbn [k_mem k_zone].
    destruct (kbytes (k_mem k) "Active(file):"), (kbytes (k_mem k) "Inactive(file):"), (kbytes (k_mem k) "SReclaimable:"); reflexivity. }
  pose proof (vm_exact_gen len k0 W0 Htf F0 HL) as E0. cbn [k0 k_mem k_zone k_pagesize option_map] in E0.
  assert (S0 : spec_vm k0 = spec_vm k).
  { unfold spec_vm, sp_available, sp_percent10, sp_missing, sp_available, sp_avail_raw, sp_fallback, sp_used,
      sp_cached, sp_buffers, sp_total, sp_free, sp_active, sp_inactive, sp_inactive_o, sp_shared, sp_slab, k0.
    cbn [k_mem k_zone k_pagesize].
    unfold zone_read, needs_estimate in Hzr.
    destruct (kbytes (k_mem k) "MemAvailable:") as [a|]; [destruct (a =? 0) eqn:Ea|];
      cbn [andb] in Hzr; try reflexivity;
      destruct (kbytes (k_mem k) "Active(file):"), (kbytes (k_mem k) "Inactive(file):"),
        (kbytes (k_mem k) "SReclaimable:"); try discriminate Hzr; reflexivity. }
  rewrite <- S0, <- E0.
  (* the model does not look at z *)
  unfold virtual_memory_gen, virtual_memory_z. destruct (parse_meminfo len (k_meminfo (k_mem k))) as [d| |] eqn:Ep; try reflexivity.
  cbn [obind].
  apply wf_kernel_inv in Hwf as [Hm _].
  destruct (parse_meminfo_printed len (k_mem k) Hm HL) as [d' [Hp Hd]]. rewrite Hp in Ep. injection Ep as ->.
  unfold vm_of_dict, calc_avail, calc_avail_gen.
  unfold K_MemAvailable, K_ActiveFile, K_InactiveFile, K_SReclaimable. rewrite !Hd.
  unfold zone_read, needs_estimate in Hzr.
  destruct (dget K_MemTotal d); [|reflexivity]. destruct (dget K_MemFree d); [|reflexivity]. cbn [of_option obind].
  destruct (kbytes (k_mem k) "MemAvailable:") as [a|]; [destruct (a =? 0) eqn:Ea|];
    cbn [andb] in Hzr; try reflexivity;
    destruct (kbytes (k_mem k) "Active(file):"), (kbytes (k_mem k) "Inactive(file):"),
      (kbytes (k_mem k) "SReclaimable:"); try discriminate Hzr; reflexivity.
Qed.

(* when it IS consulted, an arbitrary file either yields a watermark or raises IndexError / ValueError *)
Theorem vm_zoneinfo_raw_outcomes len k (z : bytes) :
  wf_kernel k = true -> has_total_free k = true -> (len = true \/ no_junk (k_mem k) = true) ->
  (exists r, virtual_memory_gen len (k_pagesize k) (k_meminfo (k_mem k)) (Some z) = Val r) \/
  virtual_memory_gen len (k_pagesize k) (k_meminfo (k_mem k)) (Some z) = Exc IndexError \/
  virtual_memory_gen len (k_pagesize k) (k_meminfo (k_mem k)) (Some z) = Exc ValueError.
Proof.
  intros Hwf Htf HL. apply wf_kernel_inv in Hwf as [Hm _].
  destruct (parse_meminfo_printed len (k_mem k) Hm HL) as [d [Hp Hd]].
  unfold virtual_memory_gen, virtual_memory_z. rewrite Hp. cbn [obind zs_of_opt].
  unfold has_total_free in Htf.
  destruct (kbytes (k_mem k) "MemTotal:") as [t|] eqn:Et; [|discriminate].
  destruct (kbytes (k_mem k) "MemFree:") as [f|] eqn:Ef; [|discriminate].
  unfold vm_of_dict. unfold K_MemTotal, K_MemFree. rewrite !Hd, Et, Ef. cbn [of_option obind].
  assert (C : (exists n, calc_avail (k_pagesize k) d (ZContent z) = Val n) \/
              calc_avail (k_pagesize k) d (ZContent z) = Exc IndexError \/
              calc_avail (k_pagesize k) d (ZContent z) = Exc ValueError).
  { unfold calc_avail, calc_avail_gen. unfold K_MemFree. rewrite Hd, Ef. cbn [of_option obind].
    destruct (dget K_ActiveFile d); [|left; eexists; reflexivity].
    destruct (dget K_InactiveFile d); [|left; eexists; reflexivity].
    destruct (dget K_SReclaimable d); [|left; eexists; reflexivity].
    cbn [zone_open].
    destruct (zone_low_outcomes (lines_keep z) 0) as [[n ->]|[-> | ->]]; cbn [obind]; eauto. }
  destruct (dget K_MemAvailable d) as [a|]; [destruct (a =? 0)|].
  - destruct C as [[n ->]|[-> | ->]]; cbn [obind]; eauto.
  - cbn [obind]. eauto.
  - destruct C as [[n ->]|[-> | ->]]; cbn [obind]; eauto.
Qed.

Lemma default0_nonneg ms name : wf_meminfo ms = true -> 0 <= default0 (kbytes ms name).
Proof.
  intros H. destruct (kbytes ms name) as [v|] eqn:E; cbn [default0]; [|lia].
  now apply (kbytes_nonneg ms name).
Qed.

(* free <= total  ->  0 <= available <= total  and  0 <= percent <= 100 *)
Theorem vm_range k : wf_kernel k = true -> sp_free k <= sp_total k ->
  0 <= sp_available k <= sp_total k /\ 0 <= sp_percent10 k <= 1000.
Proof.
  intros Hwf Hle. apply wf_kernel_inv in Hwf as [Hm _].
  assert (H0 : 0 <= sp_free k) by (apply default0_nonneg; exact Hm).
  assert (HA : 0 <= sp_available k <= sp_total k).
  { unfold sp_available. destruct (sp_avail_raw k <? 0) eqn:E1; [lia|].
    destruct (sp_total k <? sp_avail_raw k) eqn:E2; lia. }
  split; [exact HA|]. unfold sp_percent10.
  destruct (sp_total k =? 0) eqn:E0; [lia|].
  apply round_he_range; nia.
Qed.

(* percent is the exact ratio (total-available)*100/total rounded half-to-even to one decimal *)
Theorem vm_percent_half_even k : wf_kernel k = true -> 0 < sp_total k ->
  nearest_even (sp_percent10 k) ((sp_total k - sp_available k) * 1000) (sp_total k).
Proof.
  intros _ Ht. unfold sp_percent10. assert (sp_total k =? 0 = false) as -> by lia.
  now apply round_he_nearest.
Qed.

Definition ml (n : string) (p : nat) (v : string) : mitem :=
  MLine {| ml_name := bs n; ml_pad := p; ml_val := bs v; ml_rest := bs " kB" |}.

(* the hypothesis free <= total cannot be dropped: a container-distorted meminfo with
   MemFree > MemTotal and MemAvailable > MemTotal is answered with available = free > total *)
Definition distorted_kernel : kernel :=
  {| k_mem := [ ml "MemTotal:" 7 "7"; ml "MemFree:" 8 "9"; ml "MemAvailable:" 3 "9" ];
     k_zone := None; k_vm := None; k_pagesize := 4096; k_sysinfo := (0, 0, 1) |}.
Theorem vm_range_needs_free_le_total :
  exists k, wf_kernel k = true /\ has_total_free k = true /\ sp_total k < sp_free k /\
    exists r, virtual_memory (k_pagesize k) (k_meminfo (k_mem k)) (option_map k_zoneinfo (k_zone k)) = Val r /\
              v_total r < v_available r /\ v_percent10 r < 0.
Proof.
  exists distorted_kernel. split; [reflexivity|]. split; [reflexivity|]. split; [vm_compute; reflexivity|].
  eexists. split; [vm_compute; reflexivity|]. split; vm_compute; reflexivity.
Qed.

