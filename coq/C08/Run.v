(* Entry points evaluated by the correspondence harness (props/C08.py). *)
From PV Require Export C08.Spec.

Definition jv_vm (r : vmres) : jv :=
  JL [JZ (v_total r); JZ (v_available r); JZ (v_percent10 r); JZ (v_used r); JZ (v_free r);
      JZ (v_active r); JZ (v_inactive r); JZ (v_buffers r); JZ (v_cached r); JZ (v_shared r);
      JZ (v_slab r); JL (map JB (v_missing r))].
Definition jv_swap (r : swapres) : jv :=
  JL [JZ (s_total r); JZ (s_used r); JZ (s_free r); JZ (s_percent10 r); JZ (s_sin r); JZ (s_sout r);
      jbool (s_warned r)].

Definition mk_kernel ms zs vs ps si : kernel :=
  {| k_mem := ms; k_zone := zs; k_vm := vs; k_pagesize := ps; k_sysinfo := si |}.

(* kernel-shaped input: printed files, model answer, demanded answer (when the record is well formed) *)
Definition run_vm (ps : Z) (ms : list mline) (zs : option (list zline)) : jv :=
  let k := mk_kernel ms zs None ps (0, 0, 1) in
  let mi := k_meminfo ms in
  let zi := option_map k_zoneinfo zs in
  JL [ JB mi; jopt JB zi;
       jv_outcome jv_vm (virtual_memory ps mi zi);
       (if wf_kernel k && has_total_free k then JC "Val" [jv_vm (spec_vm k)] else jnone) ].

Definition run_swap (ps : Z) (ms : list mline) (si : Z * Z * Z) (vs : option (list vline)) : jv :=
  let k := mk_kernel ms None vs ps si in
  let mi := k_meminfo ms in
  let vi := option_map k_vmstat vs in
  JL [ JB mi; jopt JB vi;
       jv_outcome jv_swap (swap_memory ps mi si vi);
       (if wf_kernel k then JC "Val" [jv_swap (spec_swap k)] else jnone) ].

(* arbitrary (possibly malformed) bytes: model answer only *)
Definition run_vm_raw (ps : Z) (mi : bytes) (zi : option bytes) : jv :=
  JL [ jv_outcome jv_vm (virtual_memory ps mi zi) ].
Definition run_swap_raw (ps : Z) (mi : bytes) (si : Z * Z * Z) (vi : option bytes) : jv :=
  JL [ jv_outcome jv_swap (swap_memory ps mi si vi) ].
