(* Entry points evaluated by the correspondence harness (props/C08.py). *)
From PV Require Export C08.Spec.

Definition jv_vm (r : vmres) : jv :=
  JL [JZ (v_total r); JZ (v_available r); JZ (v_percent10 r); JZ (v_used r); JZ (v_free r);
      JZ (v_active r); JZ (v_inactive r); JZ (v_buffers r); JZ (v_cached r); JZ (v_shared r);
      JZ (v_slab r); JL (map JB (v_missing r))].
Definition jv_swap (r : swapres) : jv :=
  JL [JZ (s_total r); JZ (s_used r); JZ (s_free r); JZ (s_percent10 r); JZ (s_sin r); JZ (s_sout r);
      jbool (s_warned r)].

Definition mk_kernel ms zs vs ps si : kernel :=
  {| k_mem := ms; k_zone := zs; k_vm := vs; k_pagesize := ps; k_sysinfo := si |}.

(* kernel-shaped input: printed files, model answer, demanded answer (when the record is well formed),
   flags [junk present; float_exact].  [len] selects the lenient meminfo parser (see Model.mem_step). *)
Definition run_vm (len : bool) (ps : Z) (ms : list mitem) (zs : option (list zline)) : jv :=
  let k := mk_kernel ms zs None ps (0, 0, 1) in
  let mi := k_meminfo ms in
  let zi := option_map k_zoneinfo zs in
  JL [ JB mi; jopt JB zi;
       jv_outcome jv_vm (virtual_memory_gen len ps mi zi);
       (if wf_kernel k && has_total_free k && float_exact k then JC "Val" [jv_vm (spec_vm k)] else jnone);
       jbool (negb (no_junk ms)); jbool (float_exact k) ].

(* /proc/zoneinfo cannot be opened (any errno) or read: the demanded answer is that of the kernel
   without zoneinfo; for a read error it is demanded only when the file is not consulted (the escaping
   OSError of the other case is an observation, compared with the model only) *)
Definition run_vm_z (len : bool) (ps : Z) (ms : list mitem) (z : zstate) : jv :=
  let k := mk_kernel ms None None ps (0, 0, 1) in
  let mi := k_meminfo ms in
  let demanded := match z with
                  | ZAbsent | ZOpenErr _ => true
                  | ZReadErr _ => negb (zone_read k)
                  | ZContent _ => false
                  end in
  JL [ JB mi; jnone;
       jv_outcome jv_vm (virtual_memory_z len ps mi z);
       (if wf_kernel k && has_total_free k && demanded then JC "Val" [jv_vm (spec_vm k)] else jnone);
       jbool (negb (no_junk ms)); jbool (float_exact k) ].

(* live snapshots of the running kernel: the big files are not printed back; instead the bytes the kernel
   printer produces for the parsed record are compared, inside Coq, with the real file given line by line *)
Definition unlines (ls : list bytes) : bytes := concat (map (fun l => l ++ [10]) ls).
Definition same_as (printed : option bytes) (real : option (list bytes)) : jv :=
  match real with
  | None => jnone
  | Some ls => jbool (match printed with Some b => beqb b (unlines ls) | None => false end)
  end.
Definition run_vm_live (len : bool) (ps : Z) (ms : list mitem) (zs : option (list zline))
                       (real_mi real_zi : option (list bytes)) : jv :=
  let k := mk_kernel ms zs None ps (0, 0, 1) in
  let mi := k_meminfo ms in
  let zi := option_map k_zoneinfo zs in
  JL [ JB mi; same_as zi real_zi;
       jv_outcome jv_vm (virtual_memory_gen len ps mi zi);
       (if wf_kernel k && has_total_free k && float_exact k then JC "Val" [jv_vm (spec_vm k)] else jnone);
       jbool (negb (no_junk ms)); jbool (float_exact k); same_as (Some mi) real_mi ].
Definition run_swap_live (len : bool) (ps : Z) (ms : list mitem) (si : Z * Z * Z) (vs : option (list vitem))
                         (real_mi real_vi : option (list bytes)) : jv :=
  let k := mk_kernel ms None vs ps si in
  let mi := k_meminfo ms in
  let vi := option_map k_vmstat vs in
  JL [ JB mi; same_as vi real_vi;
       jv_outcome jv_swap (swap_memory_gen len ps mi si vi);
       (if wf_kernel k then JC "Val" [jv_swap (spec_swap k)] else jnone);
       jbool (negb (no_junk ms)); same_as (Some mi) real_mi ].

(* big files are handed to the harness as text (a Coq string prints in linear time; a list of 40 000
   numbers does not): JC "<text>" [] *)
Fixpoint string_of_bytes (b : bytes) : string :=
  match b with
  | [] => EmptyString
  | c :: r => String (ascii_of_N (Z.to_N c)) (string_of_bytes r)
  end.
Definition jtext (b : bytes) : jv := JC (string_of_bytes b) [].
Definition jlines {A} (f : A -> bytes) (l : list A) : jv := JL (map (fun x => jtext (f x)) l).
(* byte offset of the first digit of the j-th "low" line and of the end of that line *)
Definition zlen (b : bytes) : Z := Z.of_nat (length b).
Fixpoint low_span (j : nat) (zs : list zline) (off : Z) : option (Z * Z) :=
  match zs with
  | [] => None
  | z :: r =>
    let n := zlen (k_zline z) in
    match z, j with
    | ZLow w1 w2 _ _, O => Some (off + zlen w1 + 3 + zlen w2, off + n)
    | ZLow _ _ _ _, S j' => low_span j' r (off + n)
    | ZOther _, _ => low_span j r (off + n)
    end
  end.
(* choose the filler so that byte offset [at] falls  mode 0: nowhere special (no filler)
   1: after the first digit of the j-th low line   2: exactly at the end of that line (after its newline)
   3: exactly at its first digit   4: before the last digit *)
Definition big_fill (mode j : nat) (at_ : Z) (zs0 : list zline) : nat :=
  match mode, low_span j zs0 0 with
  | O, _ | _, None => O
  | 1%nat, Some (d, e) => Z.to_nat (at_ - (d + 1))
  | 2%nat, Some (d, e) => Z.to_nat (at_ - e)
  | 3%nat, Some (d, e) => Z.to_nat (at_ - d)
  | _, Some (d, e) => Z.to_nat (at_ - (e - 2))
  end.
Definition run_vm_big (len : bool) (ps : Z) (ms : list mitem) (nodes zones cpus : nat) (seed : Z)
                      (mode j : nat) (at_ : Z) : jv :=
  let zs0 := big_zoneinfo nodes zones cpus (seed_low seed) 0 in
  let zs := big_zoneinfo nodes zones cpus (seed_low seed) (big_fill mode j at_ zs0) in
  let k := mk_kernel ms (Some zs) None ps (0, 0, 1) in
  let mi := k_meminfo ms in
  let zi := k_zoneinfo zs in
  JL [ JB mi; jlines k_zline zs;
       jv_outcome jv_vm (virtual_memory_gen len ps mi (Some zi));
       (if wf_kernel k && has_total_free k && float_exact k then JC "Val" [jv_vm (spec_vm k)] else jnone);
       jbool (negb (no_junk ms)); jbool (float_exact k);
       JL [JZ (zlen zi); JZ (low_pages zs);
           jopt (fun p => JL [JZ (fst p); JZ (snd p)]) (low_span j zs 0)] ].

(* meminfo and vmstat beyond 32 KiB: [n] extra counter lines of [w] further bytes each in front of the
   lines that matter (wide lines keep the number of distinct names, hence the cost of the dict, small) *)
Definition big_mem (n w : nat) (tail : list mitem) : list mitem :=
  map (fun i => MLine {| ml_name := bs "Extra" ++ dec_of (Z.of_nat i) ++ [58]; ml_pad := 3;
                         ml_val := dec_of (Z.of_nat i * 3); ml_rest := bs " kB " ++ repeat 35 w |}) (seq 0 n) ++ tail.
Definition big_vm (n w : nat) (tail : list vitem) : list vitem :=
  map (fun i => VLine {| vl_name := bs "nr_extra_counter_" ++ dec_of (Z.of_nat i);
                         vl_val := dec_of (Z.of_nat i * 5); vl_rest := 32 :: repeat 35 w |}) (seq 0 n) ++ tail.
Definition run_swap_big (len : bool) (ps : Z) (nm w : nat) (mtail : list mitem) (si : Z * Z * Z)
                        (nv : nat) (vtail : list vitem) : jv :=
  let ms := big_mem nm w mtail in
  let vs := big_vm nv w vtail in
  let k := mk_kernel ms None (Some vs) ps si in
  let mi := k_meminfo ms in
  let vi := k_vmstat vs in
  JL [ jlines k_mitem ms; jlines k_vitem vs;
       jv_outcome jv_swap (swap_memory_gen len ps mi si (Some vi));
       (if wf_kernel k then JC "Val" [jv_swap (spec_swap k)] else jnone);
       jbool (negb (no_junk ms)); JL [JZ (zlen mi); JZ (zlen vi)] ].
(* big meminfo for virtual_memory(): the lines that matter come after [nm] extra counters *)
Definition run_vm_bigmem (len : bool) (ps : Z) (nm w : nat) (mtail : list mitem) (zs : option (list zline)) : jv :=
  let ms := big_mem nm w mtail in
  let k := mk_kernel ms zs None ps (0, 0, 1) in
  let mi := k_meminfo ms in
  let zi := option_map k_zoneinfo zs in
  JL [ jlines k_mitem ms; jopt JB zi;
       jv_outcome jv_vm (virtual_memory_gen len ps mi zi);
       (if wf_kernel k && has_total_free k && float_exact k then JC "Val" [jv_vm (spec_vm k)] else jnone);
       jbool (negb (no_junk ms)); jbool (float_exact k); JL [JZ (zlen mi)] ].

Definition run_swap (len : bool) (ps : Z) (ms : list mitem) (si : Z * Z * Z) (vs : option (list vitem)) : jv :=
  let k := mk_kernel ms None vs ps si in
  let mi := k_meminfo ms in
  let vi := option_map k_vmstat vs in
  JL [ JB mi; jopt JB vi;
       jv_outcome jv_swap (swap_memory_gen len ps mi si vi);
       (if wf_kernel k then JC "Val" [jv_swap (spec_swap k)] else jnone);
       jbool (negb (no_junk ms)) ].

(* arbitrary (possibly malformed) bytes: model answer only *)
Definition run_vm_raw (len : bool) (ps : Z) (mi : bytes) (zi : option bytes) : jv :=
  JL [ jv_outcome jv_vm (virtual_memory_gen len ps mi zi) ].
Definition run_swap_raw (len : bool) (ps : Z) (mi : bytes) (si : Z * Z * Z) (vi : option bytes) : jv :=
  JL [ jv_outcome jv_swap (swap_memory_gen len ps mi si vi) ].

(* a history of virtual_memory() / Process.memory_percent() calls, each over its own meminfo:
   per step [cache after; outcome] of the model and of the specification *)
Inductive pev := PVm (ms : list mitem) | PMp (value : Z) (ms : list mitem).
Definition pev_mem (e : pev) : list mitem := match e with PVm ms => ms | PMp _ ms => ms end.
Definition jv_ratio (p : Z * Z) : jv := JL [JZ (fst p); JZ (snd p)].
Fixpoint run_phy (c : option Z) (es : list pev) : list jv :=
  match es with
  | [] => []
  | PVm ms :: r =>
    let '(c', o) := front_vm c 4096 (k_meminfo ms) None in
    JL [jopt JZ c'; jv_outcome (fun x => JZ (v_total x)) o] :: run_phy c' r
  | PMp v ms :: r =>
    let '(c', o) := memory_percent c v 4096 (k_meminfo ms) None in
    JL [jopt JZ c'; jv_outcome jv_ratio o] :: run_phy c' r
  end.
Fixpoint spec_phy (c : option Z) (es : list pev) : list jv :=
  match es with
  | [] => []
  | PVm ms :: r =>
    let k := mk_kernel ms None None 4096 (0, 0, 1) in
    JL [JZ (sp_total k); JC "Val" [JZ (sp_total k)]] :: spec_phy (Some (sp_total k)) r
  | PMp v ms :: r =>
    let k := mk_kernel ms None None 4096 (0, 0, 1) in
    let '(c', o) := sp_memory_percent c v k in
    JL [jopt JZ c'; jv_outcome jv_ratio o] :: spec_phy c' r
  end.
Definition run_phymem (es : list pev) : jv :=
  let ok := forallb (fun e => let k := mk_kernel (pev_mem e) None None 4096 (0, 0, 1) in
                              wf_kernel k && has_total_free k) es in
  JL [ JL (map (fun e => JB (k_meminfo (pev_mem e))) es); JL (run_phy None es);
       (if ok then JL (spec_phy None es) else jnone) ].
