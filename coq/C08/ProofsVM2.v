(* C08 -- consequences and witnesses for virtual_memory(), the legacy meminfo header, the
   float bound of the estimate, and the cached total used by Process.memory_percent(). *)
From PV Require Import C08.Spec C08.Lib C08.ProofsRound C08.ProofsVM C08.ProofsSwap.
Require Import ZifyBool.

(* what the demanded record says when an optional counter does not exist: the metric is 0 and
   (slab excepted) it is named in the warning -- for EVERY other content of the files *)
Theorem vm_missing_fields k r : wf_kernel k = true -> has_total_free k = true -> float_exact k = true ->
  virtual_memory (k_pagesize k) (k_meminfo (k_mem k)) (option_map k_zoneinfo (k_zone k)) = Val r ->
  (kbytes (k_mem k) "Buffers:" = None -> v_buffers r = 0 /\ In (bs "buffers") (v_missing r)) /\
  (kbytes (k_mem k) "Cached:" = None -> v_cached r = 0 /\ In (bs "cached") (v_missing r)) /\
  (kbytes (k_mem k) "Shmem:" = None -> kbytes (k_mem k) "MemShared:" = None -> v_shared r = 0 /\ In (bs "shared") (v_missing r)) /\
  (kbytes (k_mem k) "Active:" = None -> v_active r = 0 /\ In (bs "active") (v_missing r)) /\
  (kbytes (k_mem k) "Inactive:" = None -> (kbytes (k_mem k) "Inact_dirty:" = None \/ kbytes (k_mem k) "Inact_clean:" = None \/ kbytes (k_mem k) "Inact_laundry:" = None) ->
     v_inactive r = 0 /\ In (bs "inactive") (v_missing r)) /\
  (kbytes (k_mem k) "Slab:" = None -> v_slab r = 0) /\
  (kbytes (k_mem k) "SReclaimable:" = None -> forall c, kbytes (k_mem k) "Cached:" = Some c -> v_cached r = c).
Proof.
  intros Hwf Htf Hfl Hr. rewrite (vm_exact k Hwf Htf Hfl) in Hr. injection Hr as <-.
  cbn [spec_vm v_buffers v_cached v_shared v_active v_inactive v_slab v_missing].
  unfold sp_missing, sp_buffers, sp_cached, sp_shared, sp_active, sp_inactive, sp_inactive_o, sp_slab, absent.
  assert (IN : forall (x : bytes) a b c d e f, In x a \/ In x b \/ In x c \/ In x d \/ In x e \/ In x f ->
                In x (a ++ b ++ c ++ d ++ e ++ f)).
  { intros. rewrite !in_app_iff. tauto. }
  split; [intros H; rewrite H; split; [reflexivity|apply IN; cbn [In]; auto 10]|].
  split; [intros H; rewrite H; split; [reflexivity|apply IN; cbn [In]; auto 10]|].
  split; [intros H H0; rewrite H, H0; split; [reflexivity|apply IN; cbn [In]; auto 10]|].
  split; [intros H; rewrite H; split; [reflexivity|apply IN; cbn [In]; auto 10]|].
  split.
  { intros H H0. rewrite H.
    destruct (kbytes (k_mem k) "Inact_dirty:") as [x1|], (kbytes (k_mem k) "Inact_clean:") as [x2|],
      (kbytes (k_mem k) "Inact_laundry:") as [x3|];
      try (destruct H0 as [E|[E|E]]; discriminate E);
      (split; [reflexivity|apply IN; cbn [In]; auto 10]). }
  split; [intros H; now rewrite H|].
  intros H c Hc. rewrite Hc, H. cbn [default0]. lia.
Qed.

(* conversely the warning names nothing else: a name in it is a metric reported as 0 *)
Theorem vm_warning_sound k r : wf_kernel k = true -> has_total_free k = true -> float_exact k = true ->
  virtual_memory (k_pagesize k) (k_meminfo (k_mem k)) (option_map k_zoneinfo (k_zone k)) = Val r ->
  forall n, In n (v_missing r) ->
    (n = bs "buffers" /\ v_buffers r = 0) \/ (n = bs "cached" /\ v_cached r = 0) \/
    (n = bs "shared" /\ v_shared r = 0) \/ (n = bs "active" /\ v_active r = 0) \/
    (n = bs "inactive" /\ v_inactive r = 0) \/ (n = bs "available" /\ v_available r = 0).
Proof.
  intros Hwf Htf Hfl Hr n Hn. rewrite (vm_exact k Hwf Htf Hfl) in Hr. injection Hr as <-.
  cbn [spec_vm v_buffers v_cached v_shared v_active v_inactive v_available v_missing] in *.
  unfold sp_missing, absent in Hn. rewrite !in_app_iff in Hn.
  destruct Hn as [Hn|[Hn|[Hn|[Hn|[Hn|Hn]]]]].
  - left. unfold sp_buffers. destruct (kbytes (k_mem k) "Buffers:"); [destruct Hn|].
    destruct Hn as [<-|[]]. auto.
  - right. left. unfold sp_cached. destruct (kbytes (k_mem k) "Cached:"); [destruct Hn|].
    destruct Hn as [<-|[]]. auto.
  - right. right. left. unfold sp_shared. destruct (kbytes (k_mem k) "Shmem:"); [destruct Hn|].
    destruct (kbytes (k_mem k) "MemShared:"); [destruct Hn|]. destruct Hn as [<-|[]]. auto.
  - right. right. right. left. unfold sp_active. destruct (kbytes (k_mem k) "Active:"); [destruct Hn|].
    destruct Hn as [<-|[]]. auto.
  - right. right. right. right. left. unfold sp_inactive. destruct (sp_inactive_o k); [destruct Hn|].
    destruct Hn as [<-|[]]. auto.
  - right. right. right. right. right. unfold sp_available.
    destruct (sp_avail_raw k <? 0); [|destruct Hn]. destruct Hn as [<-|[]]. auto.
Qed.


(* the hypotheses are satisfiable by an ordinary meminfo / zoneinfo / vmstat *)
Definition zlow (v : string) : zline := ZLow (bs "        ") (bs "      ") (bs v) [].
Definition sample_kernel : kernel :=
  {| k_mem := [ ml "MemTotal:" 7 "16384256"; ml "MemFree:" 9 "1234568"; ml "Buffers:" 9 "204800";
                ml "Cached:" 10 "4000000"; ml "Active(file):" 3 "2000000"; ml "Inactive(file):" 1 "1500000";
                MLine {| ml_name := bs "HugePages_Total:"; ml_pad := 7; ml_val := bs "0"; ml_rest := [] |};
                ml "Shmem:" 11 "300000"; ml "Slab:" 12 "600000"; ml "SReclaimable:" 4 "400000";
                ml "SwapTotal:" 5 "2097148"; ml "SwapFree:" 6 "2000000" ];
     k_zone := Some [ ZOther (bs "Node 0, zone      DMA"); ZOther (bs "  pages free     3840");
                      ZOther (bs "        min      6"); zlow "9"; ZOther (bs "        high     12");
                      ZOther (bs "Node 0, zone   Normal"); ZLow [9] [9; 32] (bs "16912") [32];
                      ZOther (bs "      nr_free_pages 3840") ];
     k_vm := Some [ vl "pgpgout" "83"; vl "pswpin" "5"; vl "pswpout" "17"; vl "pgfault" "9" ];
     k_pagesize := 4096; k_sysinfo := (0, 0, 1) |}.
Example sample_kernel_ok :
  wf_kernel sample_kernel = true /\ has_total_free sample_kernel = true /\
  no_junk (k_mem sample_kernel) = true /\ float_exact sample_kernel = true /\
  sp_free sample_kernel <= sp_total sample_kernel /\
  (* MemAvailable absent: the watermark estimate *)
  sp_available sample_kernel = (1234568 + 2000000 + 1500000 + 400000) * 1024 - 3 * (16921 * 4096) /\
  sp_missing sample_kernel = [bs "active"; bs "inactive"].
Proof. vm_compute. repeat split; congruence. Qed.
Example sample_swap_ok :
  0 <= sw_free sample_kernel <= sw_total sample_kernel /\
  spec_swap sample_kernel =
    {| s_total := 2097148 * 1024; s_used := 97148 * 1024; s_free := 2000000 * 1024; s_percent10 := 46;
       s_sin := 5 * 4096; s_sout := 17 * 4096; s_warned := false |}.
Proof. vm_compute. split; [split; congruence|reflexivity]. Qed.

(* ================================================================ lines that are not "name number ..." *)
(* the parser before db3d5fc raised on the first such line -- for every file that contains one *)
Theorem legacy_parser_junk_raises k ms1 b ms2 (z : option bytes) :
  wf_kernel k = true -> k_mem k = ms1 ++ MJunk b :: ms2 -> no_junk ms1 = true ->
  (virtual_memory_gen false (k_pagesize k) (k_meminfo (k_mem k)) z = Exc IndexError \/
   virtual_memory_gen false (k_pagesize k) (k_meminfo (k_mem k)) z = Exc ValueError) /\
  (forall si v, swap_memory_gen false (k_pagesize k) (k_meminfo (k_mem k)) si v = Exc IndexError \/
                swap_memory_gen false (k_pagesize k) (k_meminfo (k_mem k)) si v = Exc ValueError).
Proof.
  intros Hwf Hk Hj. apply wf_kernel_inv in Hwf as [Hm _]. unfold wf_meminfo in Hm.
  apply andb_true_iff in Hm as [Hw _]. rewrite Hk in *.
  assert (L : lines_keep (k_meminfo (ms1 ++ MJunk b :: ms2)) = map k_mitem (ms1 ++ MJunk b :: ms2)).
  { unfold k_meminfo. apply lines_keep_concat. intros m Hin. apply mitem_body.
    rewrite forallb_forall in Hw. now apply Hw. }
  rewrite forallb_app in Hw. apply andb_true_iff in Hw as [Hw1 Hw2].
  cbn [forallb] in Hw2. apply andb_true_iff in Hw2 as [Hb _].
  pose proof (mem_fold_strict_junk ms1 b ms2 [] Hw1 Hj Hb) as F.
  split.
  - unfold virtual_memory_gen, virtual_memory_z, parse_meminfo. rewrite L.
    destruct F as [-> | ->]; [now left|now right].
  - intros si v. unfold swap_memory_gen, parse_meminfo. rewrite L.
    destruct F as [-> | ->]; [now left|now right].
Qed.

(* the witness: /proc/meminfo of a Linux 2.4 kernel (three legacy lines first).  The parser before
   db3d5fc raised ValueError at "total: used: ..."; the code as it is now returns the demanded record,
   reaching the MemShared / Inact_* branches that exist for exactly these kernels *)
Definition legacy_kernel : kernel :=
  {| k_mem := legacy_header (bs "1050001408") (bs "1031790592") (bs "18210816") (bs "2097434624") ++
              [ ml "MemTotal:" 5 "1025392"; ml "MemFree:" 8 "17784"; ml "MemShared:" 11 "0";
                ml "Buffers:" 7 "131244"; ml "Cached:" 8 "574656"; ml "SwapCached:" 10 "464";
                ml "Active:" 8 "400000"; ml "Inact_dirty:" 2 "100000"; ml "Inact_clean:" 2 "50000";
                ml "Inact_laundry:" 1 "2000"; ml "SwapTotal:" 3 "2048276"; ml "SwapFree:" 4 "2047700" ];
     k_zone := None; k_vm := None; k_pagesize := 4096; k_sysinfo := (0, 0, 1) |}.
Theorem vm_legacy_parser_refuted :
  exists k, wf_kernel k = true /\ has_total_free k = true /\ float_exact k = true /\
    virtual_memory_gen false (k_pagesize k) (k_meminfo (k_mem k)) (option_map k_zoneinfo (k_zone k)) = Exc ValueError /\
    swap_memory_gen false (k_pagesize k) (k_meminfo (k_mem k)) (k_sysinfo k) (option_map k_vmstat (k_vm k)) = Exc ValueError /\
    virtual_memory (k_pagesize k) (k_meminfo (k_mem k)) (option_map k_zoneinfo (k_zone k)) = Val (spec_vm k) /\
    v_shared (spec_vm k) = 0 /\ v_inactive (spec_vm k) = 152000 * 1024 /\ v_missing (spec_vm k) = [].
Proof.
  exists legacy_kernel. repeat split; vm_compute; reflexivity.
Qed.

(* ================================================================ the float bound of the estimate is needed *)
Definition float_kernel : kernel :=
  {| k_mem := [ ml "MemTotal:" 1 "2305843009213693952"; ml "MemFree:" 1 "9007199254740997";
                ml "Active(file):" 1 "2"; ml "Inactive(file):" 1 "0"; ml "SReclaimable:" 1 "0" ];
     k_zone := Some [ zlow "1" ]; k_vm := None; k_pagesize := 4096; k_sysinfo := (0, 0, 1) |}.
Theorem vm_float_bound_needed :
  exists k r, wf_kernel k = true /\ has_total_free k = true /\ float_exact k = false /\
    virtual_memory (k_pagesize k) (k_meminfo (k_mem k)) (option_map k_zoneinfo (k_zone k)) = Val r /\
    v_available r = 2 ^ 63 /\ sp_available k = 2 ^ 63 + 2048.
Proof. exists float_kernel. eexists. repeat split; vm_compute; reflexivity. Qed.

(* ================================================================ the cached total *)
Section Phymem.
  Variable k : kernel.
  Hypothesis Hwf : wf_kernel k = true.
  Hypothesis Htf : has_total_free k = true.
  Hypothesis Hfl : float_exact k = true.
  Let mi := k_meminfo (k_mem k).
  Let zi := option_map k_zoneinfo (k_zone k).

  (* psutil.virtual_memory() stores the total it reports *)
  Theorem front_vm_sets c :
    front_vm c (k_pagesize k) mi zi = (Some (sp_total k), Val (spec_vm k)).
  Proof. unfold front_vm, mi, zi. rewrite (vm_exact k Hwf Htf Hfl). reflexivity. Qed.

  (* Process.memory_percent(): value*100/total against the cached total; re-reads only when
     nothing (or 0) is cached; ValueError for a total that is not positive *)
  Theorem memory_percent_spec c value :
    memory_percent c value (k_pagesize k) mi zi = sp_memory_percent c value k.
  Proof.
    unfold memory_percent, sp_memory_percent. rewrite front_vm_sets. cbn [omap obind spec_vm v_total].
    destruct c as [t|]; [destruct (t =? 0) eqn:E|]; cbn [default0 obind]; reflexivity.
  Qed.
End Phymem.

(* a positive cached total is used without looking at the kernel at all: whatever the files hold now *)
Theorem memory_percent_cached t value ps (mi : bytes) (zi : option bytes) : 0 < t ->
  memory_percent (Some t) value ps mi zi = (Some t, Val (value * 100, t)).
Proof.
  intros Ht. unfold memory_percent. assert (t =? 0 = false) as -> by lia.
  cbn [obind]. assert (0 <? t = true) as -> by lia. reflexivity.
Qed.

(* hence the figure is stale after MemTotal changed (memory hot-plug, balloon, another PROCFS_PATH)
   until virtual_memory() is called again: observation *)
Theorem memory_percent_stale :
  exists k1 k2 value c1 r,
    wf_kernel k1 = true /\ wf_kernel k2 = true /\ sp_total k1 = 1000 * 1024 /\ sp_total k2 = 4000 * 1024 /\
    front_vm None 4096 (k_meminfo (k_mem k1)) None = (c1, Val (spec_vm k1)) /\
    memory_percent c1 value 4096 (k_meminfo (k_mem k2)) None = (c1, Val r) /\
    r = (value * 100, 1000 * 1024) /\ value = 500 * 1024.
Proof.
  exists {| k_mem := [ ml "MemTotal:" 1 "1000"; ml "MemFree:" 1 "10"; ml "MemAvailable:" 1 "10" ];
            k_zone := None; k_vm := None; k_pagesize := 4096; k_sysinfo := (0, 0, 1) |}.
  exists {| k_mem := [ ml "MemTotal:" 1 "4000"; ml "MemFree:" 1 "10"; ml "MemAvailable:" 1 "10" ];
            k_zone := None; k_vm := None; k_pagesize := 4096; k_sysinfo := (0, 0, 1) |}.
  exists (500 * 1024). eexists. eexists. repeat split; vm_compute; reflexivity.
Qed.

(* 0 <= value <= total  ->  the percentage is within [0,100] *)
Theorem memory_percent_range t value : 0 < t -> 0 <= value <= t -> 0 <= value * 100 <= 100 * t.
Proof. intros. lia. Qed.

(* any history of virtual_memory() / memory_percent() calls, each over its own kernel state:
   the module global evolves as the ghost state of the specification *)
Inductive pcall := CVm (k : kernel) | CMp (value : Z) (k : kernel).
Definition pcall_kernel (e : pcall) : kernel := match e with CVm k => k | CMp _ k => k end.
Definition pcall_ok (e : pcall) : bool :=
  let k := pcall_kernel e in wf_kernel k && has_total_free k && float_exact k.
Fixpoint m_cache (c : option Z) (h : list pcall) : option Z :=
  match h with
  | [] => c
  | CVm k :: r => m_cache (fst (front_vm c (k_pagesize k) (k_meminfo (k_mem k)) (option_map k_zoneinfo (k_zone k)))) r
  | CMp v k :: r => m_cache (fst (memory_percent c v (k_pagesize k) (k_meminfo (k_mem k)) (option_map k_zoneinfo (k_zone k)))) r
  end.
Fixpoint s_cache (c : option Z) (h : list pcall) : option Z :=
  match h with
  | [] => c
  | CVm k :: r => s_cache (Some (sp_total k)) r
  | CMp v k :: r => s_cache (fst (sp_memory_percent c v k)) r
  end.
Theorem phymem_history h : forall c, forallb pcall_ok h = true -> m_cache c h = s_cache c h.
Proof.
  induction h as [|e h IH]; intros c H; [reflexivity|].
  cbn [forallb] in H. apply andb_true_iff in H as [He Hr].
  unfold pcall_ok in He. apply andb_true_iff in He as [He H4]. apply andb_true_iff in He as [H1 H2].
  destruct e as [k|v k]; cbn [pcall_kernel] in *; cbn [m_cache s_cache].
  - rewrite (front_vm_sets k H1 H2 H4). cbn [fst]. now apply IH.
  - rewrite (memory_percent_spec k H1 H2 H4). now apply IH.
Qed.

(* ================================================================ /proc/zoneinfo exists but cannot be opened / read *)
Lemma wf_no_zone k : wf_kernel k = true -> wf_kernel (no_zone k) = true.
Proof.
  intros Hwf. apply wf_kernel_inv in Hwf as [Hm [_ Hv]]. unfold wf_kernel, no_zone.
  cbn [k_mem k_zone k_vm opt_forall]. now rewrite Hm, Hv.
Qed.
Lemma float_exact_no_zone k : float_exact (no_zone k) = true.
Proof.
  unfold float_exact, no_zone. cbn [k_mem k_zone].
  destruct (kbytes (k_mem k) "Active(file):"), (kbytes (k_mem k) "Inactive(file):"), (kbytes (k_mem k) "SReclaimable:"); reflexivity.
Qed.
(* without zoneinfo the estimate is free + page cache *)
Lemma fallback_no_zone k : sp_fallback (no_zone k) = sp_free k + default0 (kbytes (k_mem k) "Cached:").
Proof.
  unfold sp_fallback, sp_free, no_zone. cbn [k_mem k_zone].
  destruct (kbytes (k_mem k) "Active(file):"), (kbytes (k_mem k) "Inactive(file):"), (kbytes (k_mem k) "SReclaimable:"); reflexivity.
Qed.

(* open() failing with ANY errno (EACCES, EIO, EISDIR ...) is answered like a missing file: the
   demanded record of the kernel without zoneinfo -- estimate = free + cached, never an exception *)
Theorem vm_zoneinfo_open_error k e : wf_kernel k = true -> has_total_free k = true ->
  virtual_memory_z true (k_pagesize k) (k_meminfo (k_mem k)) (ZOpenErr e) = Val (spec_vm (no_zone k)) /\
  virtual_memory_z true (k_pagesize k) (k_meminfo (k_mem k)) ZAbsent = Val (spec_vm (no_zone k)) /\
  sp_fallback (no_zone k) = sp_free k + default0 (kbytes (k_mem k) "Cached:").
Proof.
  intros Hwf Htf.
  pose proof (vm_exact_gen true (no_zone k) (wf_no_zone k Hwf) Htf (float_exact_no_zone k) (or_introl eq_refl)) as E.
  cbn [no_zone k_mem k_zone k_pagesize option_map] in E. fold (no_zone k) in E.
  split; [|split; [exact E|apply fallback_no_zone]].
  rewrite <- E. reflexivity.
Qed.

(* observation: a read() error after a successful open escapes as OSError when the file is consulted
   (the for loop is not inside the try) *)
Theorem vm_zoneinfo_read_error k : wf_kernel k = true -> has_total_free k = true -> zone_read k = true ->
  virtual_memory_z true (k_pagesize k) (k_meminfo (k_mem k)) (ZReadErr []) = Exc OSError.
Proof.
  intros Hwf Htf Hzr. apply wf_kernel_inv in Hwf as [Hm _].
  destruct (parse_meminfo_printed true (k_mem k) Hm (or_introl eq_refl)) as [d [Hp Hd]].
  unfold virtual_memory_z. rewrite Hp. cbn [obind].
  unfold has_total_free in Htf.
  destruct (kbytes (k_mem k) "MemTotal:") as [t|] eqn:Et; [|discriminate].
  destruct (kbytes (k_mem k) "MemFree:") as [f|] eqn:Ef; [|discriminate].
  unfold vm_of_dict, calc_avail, calc_avail_gen.
  unfold K_MemTotal, K_MemFree, K_MemAvailable, K_ActiveFile, K_InactiveFile, K_SReclaimable.
  rewrite !Hd, Et, Ef. cbn [of_option obind].
  unfold zone_read, needs_estimate in Hzr.
  destruct (kbytes (k_mem k) "Active(file):"), (kbytes (k_mem k) "Inactive(file):"), (kbytes (k_mem k) "SReclaimable:");
    try (rewrite andb_false_r in Hzr; discriminate Hzr).
  cbn [zone_open lines_keep zone_low obind].
  destruct (kbytes (k_mem k) "MemAvailable:") as [a|]; [|reflexivity].
  destruct (a =? 0); [reflexivity|discriminate Hzr].
Qed.

(* ================================================================ every virtual_memory() call refreshes the cached total *)
(* after ANY successful virtual_memory() call -- whatever was cached before -- the next
   memory_percent() divides by that call's total, whatever the files hold by then *)
Theorem phymem_refresh k c value ps' (mi' : bytes) (zi' : option bytes) :
  wf_kernel k = true -> has_total_free k = true -> float_exact k = true -> 0 < sp_total k ->
  memory_percent (fst (front_vm c (k_pagesize k) (k_meminfo (k_mem k)) (option_map k_zoneinfo (k_zone k))))
                 value ps' mi' zi'
  = (Some (sp_total k), Val (value * 100, sp_total k)).
Proof.
  intros Hwf Htf Hfl Ht. rewrite (front_vm_sets k Hwf Htf Hfl c). cbn [fst].
  now apply memory_percent_cached.
Qed.

(* ================================================================ /proc/zoneinfo of any size *)
(* the watermark sum runs over ALL zones, however long the file is: zones after any prefix of the
   file (e.g. after its first 32768 bytes) count exactly like the ones before *)
Lemma low_pages_app zs1 zs2 : low_pages (zs1 ++ zs2) = low_pages zs1 + low_pages zs2.
Proof.
  induction zs1 as [|z zs1 IH]; [reflexivity|].
  cbn [app low_pages]. destruct z; rewrite IH; lia.
Qed.

Theorem vm_zoneinfo_any_size k zs1 zs2 :
  wf_kernel k = true -> has_total_free k = true -> float_exact k = true -> k_zone k = Some (zs1 ++ zs2) ->
  virtual_memory (k_pagesize k) (k_meminfo (k_mem k)) (Some (k_zoneinfo zs1 ++ k_zoneinfo zs2)) = Val (spec_vm k) /\
  (forall af inf sr, kbytes (k_mem k) "Active(file):" = Some af -> kbytes (k_mem k) "Inactive(file):" = Some inf ->
     kbytes (k_mem k) "SReclaimable:" = Some sr ->
     let wl := (low_pages zs1 + low_pages zs2) * k_pagesize k in
     sp_fallback k = (sp_free k - wl) + ((af + inf) - Z.min ((af + inf) / 2) wl) + (sr - Z.min (sr / 2) wl)).
Proof.
  intros Hwf Htf Hfl Hz. split.
  - pose proof (vm_exact k Hwf Htf Hfl) as E. rewrite Hz in E. cbn [option_map] in E.
    unfold k_zoneinfo in E. rewrite map_app, concat_app in E. exact E.
  - intros af inf sr E1 E2 E3 wl. unfold sp_fallback. rewrite E1, E2, E3, Hz, low_pages_app. reflexivity.
Qed.
