(* C08 -- a small statement language for the decision tail of psutil/_pslinux.py:virtual_memory()
   (everything after the meminfo parsing loop: the field selection with its try/except KeyError
   ladders and missing_fields.append calls, used with its negative fallback, the MemAvailable
   handling, the clamps, percent, the returned tuple).  props/_c08_gen.py translates the CURRENT
   source of that function into a [block] (coq/Gen/C08_Tables.v), failing closed on any statement
   or expression it does not know; ProofsGen.v proves the interpreter on the translated program
   equal to the hand-written model [Model.vm_of_dict] for every [mems] dict.  No proofs here.

   Variables are Python local names (strings) holding ints; [mems] is the dict the parsing loop
   built (an argument); calculate_avail_vmem(mems) is an argument too (its outcome for this dict:
   the model's [calc_avail]); usage_percent(a, b, round_=1) is [Model.usage_percent10] (tenths). *)
From PV Require Export C08.Model.
Require Import String.

Inductive expr :=
| EInt (z : Z)                      (* integer literal *)
| EVar (x : string)                 (* local variable *)
| EKey (k : bytes)                  (* mems[k]          -- KeyError when absent *)
| EGet (k : bytes) (dflt : Z)       (* mems.get(k, dflt) *)
| EAdd (a b : expr)
| ESub (a b : expr)
| ECalcAvail                        (* calculate_avail_vmem(mems) *)
| EPercent1 (a b : expr).           (* usage_percent(a, b, round_=1), in tenths *)

Inductive cmp := CLt | CGt | CEq.

Inductive stmt :=
| SMissReset                                    (* missing_fields = [] *)
| SAssign (x : string) (e : expr)               (* x = e   (x += e is x = x + e) *)
| SMiss (name : bytes)                          (* missing_fields.append(name) *)
| STry (body handler orelse : block)            (* try: body  except KeyError: handler  else: orelse *)
| SIf (c : cmp) (a b : expr) (th el : block)    (* if a <c> b: th  else: el *)
| SWarn                                         (* if missing_fields: warnings.warn(<message built from missing_fields>, RuntimeWarning) *)
| SReturn (es : list expr)                      (* return svmem(e1, ..., en) *)
with block := BNil | BCons (s : stmt) (r : block).

(* the local variables: association list, an assignment replaces the binding *)
Definition locals := list (string * Z).
Fixpoint updf (x : string) (v : Z) (l : locals) : locals :=
  match l with
  | [] => [(x, v)]
  | (y, w) :: r => if String.eqb x y then (x, v) :: r else (y, w) :: updf x v r
  end.
Fixpoint look (x : string) (l : locals) : option Z :=
  match l with
  | [] => None
  | (y, w) :: r => if String.eqb x y then Some w else look x r
  end.
Record state := { env : locals; ms : list bytes }.

Inductive res :=
| RNorm (st : state)                      (* fell through *)
| RExc (e : exn) (st : state)             (* an exception propagates; assignments made so far stay *)
| RRet (vals : list Z) (warned : list bytes)
| ROut.                                   (* unbound local: outside the language *)

Definition cmpb (c : cmp) (x y : Z) : bool :=
  match c with CLt => x <? y | CGt => y <? x | CEq => x =? y end.

Section Interp.
  Variable d : dict.               (* mems *)
  Variable calc : outcome Z.       (* what calculate_avail_vmem(mems) does *)

  Fixpoint eval (f : locals) (e : expr) : outcome Z :=
    match e with
    | EInt z => Val z
    | EVar x => match look x f with Some v => Val v | None => OutOfModel end
    | EKey k => of_option KeyError (dget k d)
    | EGet k dv => Val (match dget k d with Some v => v | None => dv end)
    | EAdd a b => do x <- eval f a; do y <- eval f b; Val (x + y)
    | ESub a b => do x <- eval f a; do y <- eval f b; Val (x - y)
    | ECalcAvail => calc
    | EPercent1 a b => do x <- eval f a; do y <- eval f b; Val (usage_percent10 x y)
    end.

  Fixpoint evals (f : locals) (es : list expr) : outcome (list Z) :=
    match es with
    | [] => Val []
    | e :: r => do v <- eval f e; do vs <- evals f r; Val (v :: vs)
    end.

  Definition lift (st : state) (o : outcome Z) (k : Z -> res) : res :=
    match o with Val v => k v | Exc e => RExc e st | OutOfModel => ROut end.

  Fixpoint exec (s : stmt) (st : state) {struct s} : res :=
    match s with
    | SMissReset => RNorm {| env := env st; ms := [] |}
    | SAssign x e => lift st (eval (env st) e) (fun v => RNorm {| env := updf x v (env st); ms := ms st |})
    | SMiss n => RNorm {| env := env st; ms := ms st ++ [n] |}
    | STry b h e =>
      match exec_block b st with
      | RNorm st' => exec_block e st'                 (* exceptions of the else block are not caught *)
      | RExc KeyError st' => exec_block h st'         (* nor those of the handler *)
      | o => o
      end
    | SIf c a b th el =>
      lift st (eval (env st) a) (fun x =>
      lift st (eval (env st) b) (fun y =>
      if cmpb c x y then exec_block th st else exec_block el st))
    | SWarn => RNorm st
    | SReturn es =>
      match evals (env st) es with
      | Val vs => RRet vs (ms st)
      | Exc e => RExc e st
      | OutOfModel => ROut
      end
    end
  with exec_block (b : block) (st : state) {struct b} : res :=
    match b with
    | BNil => RNorm st
    | BCons s r => match exec s st with RNorm st' => exec_block r st' | o => o end
    end.

  (* the function body: (returned tuple, names warned about); falling off the end returns None,
     which no caller of virtual_memory() expects: outside the model *)
  Definition run_vm (p : block) : outcome (list Z * list bytes) :=
    match exec_block p {| env := []; ms := [] |} with
    | RRet vs w => Val (vs, w)
    | RExc e _ => Exc e
    | RNorm _ => OutOfModel
    | ROut => OutOfModel
    end.
End Interp.

(* the model's record in the order of the svmem tuple *)
Definition vm_tuple (r : vmres) : list Z * list bytes :=
  ([v_total r; v_available r; v_percent10 r; v_used r; v_free r; v_active r; v_inactive r;
    v_buffers r; v_cached r; v_shared r; v_slab r], v_missing r).
