(* C08 -- what the kernel holds and prints (/proc/meminfo, /proc/zoneinfo,
   /proc/vmstat, sysinfo(2)) and what the property text says virtual_memory()
   and swap_memory() must report.  Written from proc(5), fs/proc/meminfo.c
   ("%-16s%8lu kB\n" / hugetlb lines without unit), mm/vmstat.c ("%s %lu\n";
   "\n        low      %lu" inside each zone block), the documented fallback
   (kernel commit 34e431b0ae39, as quoted in psutil's docs) and the property
   text -- not from psutil's code.  The only things shared with the model are
   the byte-level vocabulary of Base and the rounding function [round_he],
   whose meaning (nearest, ties to even) is itself a theorem (C08_round1_nearest). *)
From PV Require Export C08.Model.

Definition spaces (n : nat) : bytes := repeat 32 n.

Definition blank (c : Z) : bool := (c =? 32) || (c =? 9).
Definition blanks (l : bytes) : bool := forallb blank l.

(* ---------------------------------------------------------------- /proc/meminfo
   One line per counter: name token (with its colon), at least one blank, the value
   in decimal, then nothing or a blank followed by anything (" kB" for sizes, nothing for
   HugePages_* counts, further columns on the "Mem:"/"Swap:" lines of Linux 2.4).
   The kernel prints every name once; which names exist depends on version and
   configuration, so the record is simply the list of lines: every subset and every
   order is a value of it.  [MJunk] is a line that is NOT "name number ...": fewer than two
   fields or a second field that is not a number -- Linux 2.4 starts the file with
   "        total:    used:    free:  shared: buffers:  cached:". *)
Record mline := { ml_name : bytes; ml_pad : nat; ml_val : bytes; ml_rest : bytes }.
Inductive mitem := MLine (m : mline) | MJunk (b : bytes).
Definition k_mline (m : mline) : bytes :=
  ml_name m ++ spaces (S (ml_pad m)) ++ ml_val m ++ ml_rest m ++ [10].
Definition k_mitem (i : mitem) : bytes :=
  match i with MLine m => k_mline m | MJunk b => b ++ [10] end.
Definition k_meminfo (ms : list mitem) : bytes := concat (map k_mitem ms).

Definition rest_ok (r : bytes) : bool :=
  negb (contains 10 r) && match r with [] => true | c :: _ => is_ws c end.
Definition wf_mline (m : mline) : bool := tok_ok (ml_name m) && is_dec (ml_val m) && rest_ok (ml_rest m).
Definition not_name_number (b : bytes) : bool :=
  match nth_error (split_ws b) 1 with
  | None => true
  | Some t => match parse_int t with None => true | Some _ => false end
  end.
Definition wf_mitem (i : mitem) : bool :=
  match i with
  | MLine m => wf_mline m
  | MJunk b => negb (contains 10 b) && not_name_number b
  end.
Definition is_mline (i : mitem) : bool := match i with MLine _ => true | MJunk _ => false end.
Definition no_junk (ms : list mitem) : bool := forallb is_mline ms.
Fixpoint mnames (ms : list mitem) : list bytes :=
  match ms with
  | [] => []
  | MLine m :: r => ml_name m :: mnames r
  | MJunk _ :: r => mnames r
  end.
Fixpoint nodupb (l : list bytes) : bool :=
  match l with
  | [] => true
  | x :: r => negb (existsb (beqb x) r) && nodupb r
  end.
Definition wf_meminfo (ms : list mitem) : bool :=
  forallb wf_mitem ms && nodupb (mnames ms).

(* the kernel's figure for a counter, in bytes (meminfo is in kB) *)
Fixpoint kfind (name : bytes) (ms : list mitem) : option Z :=
  match ms with
  | [] => None
  | MLine m :: r => if beqb name (ml_name m) then Some (dec_val (ml_val m)) else kfind name r
  | MJunk _ :: r => kfind name r
  end.
Definition kbytes (ms : list mitem) (name : string) : option Z :=
  option_map (fun v => v * 1024) (kfind (bs name) ms).

(* the first three lines of /proc/meminfo on Linux 2.4 (fs/proc/proc_misc.c, meminfo_read_proc) *)
Definition legacy_header (mem_total mem_used mem_free swap_total : bytes) : list mitem :=
  [ MJunk (bs "        total:    used:    free:  shared: buffers:  cached:");
    MLine {| ml_name := bs "Mem:"; ml_pad := 1; ml_val := mem_total;
             ml_rest := 32 :: mem_used ++ 32 :: mem_free ++ bs "        0 134393856 588922880" |};
    MLine {| ml_name := bs "Swap:"; ml_pad := 0; ml_val := swap_total; ml_rest := bs "   589824 2096844800" |} ].

(* ---------------------------------------------------------------- /proc/zoneinfo
   Only the per-zone "low" watermark lines matter: blanks (spaces or tabs, any number),
   "low", at least one blank, the page count, optional trailing blanks.  Every other line
   is an arbitrary newline-free byte string that does not begin (after blanks) with "low"
   (the kernel's other keys are Node, pages free, min, high, spanned, present, managed,
   protection, nr_*, pagesets, cpu, count, batch, ...).  Any number of zones. *)
Inductive zline :=
| ZLow (w1 w2 : bytes) (v : bytes) (w3 : bytes)      (* "        low      <pages>" *)
| ZOther (b : bytes).
Definition k_zline (z : zline) : bytes :=
  match z with
  | ZLow w1 w2 v w3 => w1 ++ bs "low" ++ w2 ++ v ++ w3 ++ [10]
  | ZOther b => b ++ [10]
  end.
Definition k_zoneinfo (zs : list zline) : bytes := concat (map k_zline zs).
Definition wf_zline (z : zline) : bool :=
  match z with
  | ZLow w1 w2 v w3 => blanks w1 && blanks w2 && match w2 with [] => false | _ => true end
                       && is_dec v && blanks w3
  | ZOther b => negb (contains 10 b) && negb (prefixb (bs "low") (strip b))
  end.
Fixpoint low_pages (zs : list zline) : Z :=
  match zs with
  | [] => 0
  | ZLow _ _ v _ :: r => dec_val v + low_pages r
  | ZOther _ :: r => low_pages r
  end.

(* ---------------------------------------------------------------- /proc/vmstat
   "name value\n" lines (a further blank-separated column is tolerated); pswpin/pswpout
   count PAGES.  No other counter name begins with "pswpin"/"pswpout" (true of every
   vmstat_text so far).  [VJunk]: any other newline-free line not beginning with those two
   names (blank lines, names without value, ...).  Names MAY repeat (no kernel does that):
   the file is then read as a log -- see [sw_scan]. *)
Record vline := { vl_name : bytes; vl_val : bytes; vl_rest : bytes }.
Inductive vitem := VLine (v : vline) | VJunk (b : bytes).
Definition k_vline (v : vline) : bytes := vl_name v ++ 32 :: vl_val v ++ vl_rest v ++ [10].
Definition k_vitem (i : vitem) : bytes := match i with VLine v => k_vline v | VJunk b => b ++ [10] end.
Definition k_vmstat (vs : list vitem) : bytes := concat (map k_vitem vs).
Definition vname_ok (n : bytes) : bool :=
  beqb n (bs "pswpin") || beqb n (bs "pswpout") ||
  (negb (prefixb (bs "pswpin") n) && negb (prefixb (bs "pswpout") n)).
Definition vrest_ok (r : bytes) : bool :=
  negb (contains 10 r) && match r with [] => true | c :: _ => c =? 32 end.
Definition wf_vline (v : vline) : bool :=
  tok_ok (vl_name v) && vname_ok (vl_name v) && is_dec (vl_val v) && vrest_ok (vl_rest v).
Definition wf_vitem (i : vitem) : bool :=
  match i with
  | VLine v => wf_vline v
  | VJunk b => negb (contains 10 b) && negb (prefixb (bs "pswpin") b) && negb (prefixb (bs "pswpout") b)
  end.
Definition wf_vmstat (vs : list vitem) : bool := forallb wf_vitem vs.
Fixpoint vnames (vs : list vitem) : list bytes :=
  match vs with
  | [] => []
  | VLine v :: r => vl_name v :: vnames r
  | VJunk _ :: r => vnames r
  end.
(* lookup by name (meaningful when names are distinct) *)
Fixpoint vfind (name : bytes) (vs : list vitem) : option Z :=
  match vs with
  | [] => None
  | VLine v :: r => if beqb name (vl_name v) then Some (dec_val (vl_val v)) else vfind name r
  | VJunk _ :: r => vfind name r
  end.
(* reading the file as a log: a pswpin / pswpout line sets that counter (replacing an earlier
   one); the answer is known at the first line after which both counters have been seen *)
Fixpoint sw_scan (i o : option Z) (vs : list vitem) : option (Z * Z) :=
  match vs with
  | [] => None
  | it :: r =>
    let '(i', o') :=
      match it with
      | VLine v => if beqb (vl_name v) (bs "pswpin") then (Some (dec_val (vl_val v)), o)
                   else if beqb (vl_name v) (bs "pswpout") then (i, Some (dec_val (vl_val v)))
                   else (i, o)
      | VJunk _ => (i, o)
      end in
    match i', o' with
    | Some a, Some b => Some (a, b)
    | _, _ => sw_scan i' o' r
    end
  end.

(* ---------------------------------------------------------------- the kernel *)
Record kernel := {
  k_mem : list mitem;
  k_zone : option (list zline);       (* None: no /proc/zoneinfo (open fails) *)
  k_vm : option (list vitem);         (* None: no /proc/vmstat *)
  k_pagesize : Z;
  k_sysinfo : Z * Z * Z               (* sysinfo(2): totalswap, freeswap, mem_unit *)
}.
Definition opt_forall {A} (f : A -> bool) (o : option A) : bool :=
  match o with Some a => f a | None => true end.
Definition wf_kernel (k : kernel) : bool :=
  wf_meminfo (k_mem k) && opt_forall (forallb wf_zline) (k_zone k) && opt_forall wf_vmstat (k_vm k).
(* MemTotal and MemFree are the two counters every kernel has (they are sysinfo(2) fields) *)
Definition has_total_free (k : kernel) : bool :=
  match kbytes (k_mem k) "MemTotal:", kbytes (k_mem k) "MemFree:" with
  | Some _, Some _ => true
  | _, _ => false
  end.

(* ---------------------------------------------------------------- virtual_memory(): demanded answer *)
Section VM.
  Variable k : kernel.
  Let G := kbytes (k_mem k).

  Definition sp_total := default0 (G "MemTotal:").
  Definition sp_free := default0 (G "MemFree:").
  Definition sp_buffers := default0 (G "Buffers:").
  (* page cache plus reclaimable slab; 0 when the page cache figure is missing *)
  Definition sp_cached :=
    match G "Cached:" with
    | Some c => c + default0 (G "SReclaimable:")
    | None => 0
    end.
  (* Shmem (2.6.32+), MemShared on 2.4 *)
  Definition sp_shared :=
    match G "Shmem:" with
    | Some s => s
    | None => default0 (G "MemShared:")
    end.
  Definition sp_active := default0 (G "Active:").
  (* Inactive, or on 2.4 kernels the sum of the three inactive lists *)
  Definition sp_inactive_o :=
    match G "Inactive:" with
    | Some i => Some i
    | None =>
      match G "Inact_dirty:", G "Inact_clean:", G "Inact_laundry:" with
      | Some a, Some b, Some c => Some (a + b + c)
      | _, _, _ => None
      end
    end.
  Definition sp_inactive := default0 sp_inactive_o.
  Definition sp_slab := default0 (G "Slab:").

  (* used = total-free-cached-buffers (total-free when that is negative) *)
  Definition sp_used :=
    let u := sp_total - sp_free - sp_cached - sp_buffers in
    if u <? 0 then sp_total - sp_free else u.

  (* the documented fallback estimate: kernel commit 34e431b0ae39
       available = free - wmark_low
       pagecache = active_file + inactive_file;  pagecache -= min(pagecache / 2, wmark_low)
       available += pagecache
       available += slab_reclaimable - min(slab_reclaimable / 2, wmark_low)
     wmark_low = sum of the zones' low watermarks, in pages, times the page size;
     when one of its inputs does not exist (kernels before 2.6.28 / 2.6.19 / 2.6.13):
     free + page cache.  (All byte figures are multiples of 1024, so "/ 2" is exact.) *)
  Definition sp_fallback :=
    match G "Active(file):", G "Inactive(file):", G "SReclaimable:", k_zone k with
    | Some af, Some inf, Some sr, Some zs =>
      let wmark_low := low_pages zs * k_pagesize k in
      let pagecache := af + inf in
      (sp_free - wmark_low) + (pagecache - Z.min (pagecache / 2) wmark_low)
      + (sr - Z.min (sr / 2) wmark_low)
    | _, _, _, _ => sp_free + default0 (G "Cached:")
    end.
  (* psutil evaluates the watermark formula in double precision (pagecache / 2 and
     slab_reclaimable / 2.0 are floats).  Doubles represent every multiple of 512 below 2^62
     exactly, so the evaluation is exact when the watermark is a multiple of 512 (page size
     a multiple of 512) and free + watermark + pagecache + reclaimable slab < 2^61 bytes (2 EiB).
     [float_exact] is that condition; it is vacuous when the formula is not evaluated. *)
  Definition needs_estimate : bool :=
    match G "MemAvailable:" with Some a => a =? 0 | None => true end.
  Definition float_exact : bool :=
    match G "Active(file):", G "Inactive(file):", G "SReclaimable:", k_zone k with
    | Some af, Some inf, Some sr, Some zs =>
      negb needs_estimate ||
      ((0 <=? k_pagesize k) && (k_pagesize k mod 512 =? 0) &&
       (sp_free + low_pages zs * k_pagesize k + (af + inf) + sr <? 2 ^ 61))
    | _, _, _, _ => true
    end.
  (* is /proc/zoneinfo read at all? *)
  Definition zone_read : bool :=
    needs_estimate &&
    match G "Active(file):", G "Inactive(file):", G "SReclaimable:" with
    | Some _, Some _, Some _ => true
    | _, _, _ => false
    end.

  (* the kernel's estimate; the fallback when it is absent or zero *)
  Definition sp_avail_raw :=
    match G "MemAvailable:" with
    | Some a => if a =? 0 then sp_fallback else a
    | None => sp_fallback
    end.
  (* forced into [0,total]: negative -> 0, above total -> free (as free(1) does) *)
  Definition sp_available :=
    if sp_avail_raw <? 0 then 0
    else if sp_total <? sp_avail_raw then sp_free
    else sp_avail_raw.
  (* percent, in tenths: (total-available)/total*100 rounded to one decimal; 0 when total = 0 *)
  Definition sp_percent10 :=
    if sp_total =? 0 then 0 else round_he ((sp_total - sp_available) * 1000) sp_total.

  (* metrics reported as 0 because the kernel does not provide them: named in the warning
     (slab excepted); "available" is named when the estimate had to be forced up to 0 *)
  Definition absent {A} (name : string) (o : option A) : list bytes :=
    match o with Some _ => [] | None => [bs name] end.
  Definition sp_missing : list bytes :=
    absent "buffers" (G "Buffers:") ++ absent "cached" (G "Cached:") ++
    absent "shared" (match G "Shmem:" with Some s => Some s | None => G "MemShared:" end) ++
    absent "active" (G "Active:") ++ absent "inactive" sp_inactive_o ++
    (if sp_avail_raw <? 0 then [bs "available"] else []).

  Definition spec_vm : vmres :=
    {| v_total := sp_total; v_available := sp_available; v_percent10 := sp_percent10;
       v_used := sp_used; v_free := sp_free; v_active := sp_active; v_inactive := sp_inactive;
       v_buffers := sp_buffers; v_cached := sp_cached; v_shared := sp_shared; v_slab := sp_slab;
       v_missing := sp_missing |}.

  (* ---------------------------------------------------------------- swap_memory(): demanded answer *)
  (* SwapTotal/SwapFree of meminfo; the sysinfo(2) figures when meminfo lacks either *)
  Definition sw_total_free : Z * Z :=
    match G "SwapTotal:", G "SwapFree:" with
    | Some t, Some f => (t, f)
    | _, _ => let '(st, sf, unit) := k_sysinfo k in (st * unit, sf * unit)
    end.
  Definition sw_total := fst sw_total_free.
  Definition sw_free := snd sw_total_free.
  Definition sw_used := sw_total - sw_free.
  Definition sw_percent10 :=
    if sw_total =? 0 then 0
    else if 0 <? sw_total then round_he (sw_used * 1000) sw_total
    else round_he (- (sw_used * 1000)) (- sw_total).
  (* cumulative swapped-in/out BYTES = pages * page size; both 0 (and a warning) when
     the kernel has no vmstat or no swap event counters *)
  Definition sw_io : option (Z * Z) :=
    match k_vm k with
    | None => None
    | Some vs =>
      match sw_scan None None vs with
      | Some (i, o) => Some (i * k_pagesize k, o * k_pagesize k)
      | None => None
      end
    end.
  Definition spec_swap : swapres :=
    match sw_io with
    | Some (i, o) =>
      {| s_total := sw_total; s_used := sw_used; s_free := sw_free; s_percent10 := sw_percent10;
         s_sin := i; s_sout := o; s_warned := false |}
    | None =>
      {| s_total := sw_total; s_used := sw_used; s_free := sw_free; s_percent10 := sw_percent10;
         s_sin := 0; s_sout := 0; s_warned := true |}
    end.
End VM.

(* nearest integer to n/d (d > 0), ties to the even one: what "rounded" means *)
Definition nearest_even (t n d : Z) : Prop :=
  2 * Z.abs (t * d - n) <= d /\ (2 * Z.abs (t * d - n) = d -> Z.even t = true).

(* ---------------------------------------------------------------- the cached total (psutil._TOTAL_PHYMEM)
   Ghost state [c]: the total reported by the most recent successful virtual_memory()
   (None before the first one).  Process.memory_percent() compares the process figure with
   that total; it evaluates virtual_memory() itself only when nothing (or 0) is cached, and
   refuses a total that is not positive.  Result: the exact ratio value*100 / total. *)
Definition sp_memory_percent (c : option Z) (value : Z) (k : kernel) : option Z * outcome (Z * Z) :=
  let reread := match c with Some t => t =? 0 | None => true end in
  let t := if reread then sp_total k else default0 c in
  (if reread then Some (sp_total k) else c,
   if 0 <? t then Val (value * 100, t) else Exc ValueError).

(* the same kernel state without a readable /proc/zoneinfo *)
Definition no_zone (k : kernel) : kernel :=
  {| k_mem := k_mem k; k_zone := None; k_vm := k_vm k; k_pagesize := k_pagesize k; k_sysinfo := k_sysinfo k |}.

(* ---------------------------------------------------------------- /proc/zoneinfo of big machines
   zoneinfo_show_print(): every zone block carries a "pagesets" section with one 7-line entry per
   possible CPU, so the file grows with nodes x zones x CPUs (12.8 KB for 16 CPUs x 5 zones, beyond
   32 KiB from ~48 CPUs, beyond 64 KiB for 2 nodes x 128 CPUs).  [big_zoneinfo] builds such a file
   (line shapes as validated against the running 6.18 kernel by the live cases) for ANY number of
   nodes, zones per node and CPUs; the low watermark of zone number i is [lowf i].  [fill] > 0 puts a
   filler line of that many bytes in front (used to move a chosen byte offset -- e.g. the 32768th --
   into the digits of a "low" line or exactly onto a line end). *)
Fixpoint dec_digits (fuel : nat) (n : Z) (acc : bytes) : bytes :=
  match fuel with
  | O => acc
  | S f => let d := 48 + n mod 10 in
           if n <? 10 then d :: acc else dec_digits f (n / 10) (d :: acc)
  end.
Definition dec_of (n : Z) : bytes := dec_digits 100 (Z.abs n) [].

Definition zo (s : string) (n : Z) : zline := ZOther (bs s ++ dec_of n).
Definition cpu_block (c : nat) : list zline :=
  [ zo "    cpu: " (Z.of_nat c); zo "              count:    " (Z.of_nat c * 7);
    zo "              high:     " 0; zo "              batch:    " 1;
    zo "              high_min: " 4; zo "              high_max: " 30;
    zo "  vm stats threshold: " 10 ].
Definition zone_names : list string := ["DMA"; "DMA32"; "Normal"; "Movable"; "Device"]%string.
Definition zone_block (node : nat) (zname : string) (cpus : nat) (low : Z) : list zline :=
  [ ZOther (bs "Node " ++ dec_of (Z.of_nat node) ++ bs ", zone " ++ bs zname);
    zo "  pages free     " (low * 3);
    zo "        boost    " 0;
    zo "        min      " (low / 2);
    ZLow (bs "        ") (bs "      ") (dec_of low) [];
    zo "        high     " (low + low / 2);
    zo "        promo    " (low * 2);
    zo "        spanned  " (low * 100);
    ZOther (bs "        protection: (0, 3026, 64461, 64461, 64461)");
    zo "      nr_free_pages " (low * 3);
    zo "      nr_zone_inactive_file " 0;
    zo "      numa_local   " 0;
    ZOther (bs "  pagesets") ]
  ++ concat (map cpu_block (seq 0 cpus))
  ++ [ zo "  node_unreclaimable:  " 0; zo "  start_pfn:           " (Z.of_nat node * 1048576 + 1) ].
Fixpoint zone_blocks (node : nat) (names : list string) (cpus : nat) (lowf : nat -> Z) (i : nat) : list zline :=
  match names with
  | [] => []
  | zn :: r => zone_block node zn cpus (lowf i) ++ zone_blocks node r cpus lowf (S i)
  end.
Fixpoint node_blocks (nodes : nat) (node : nat) (zones cpus : nat) (lowf : nat -> Z) : list zline :=
  match nodes with
  | O => []
  | S n => zone_blocks node (firstn zones zone_names) cpus lowf (node * zones)
           ++ node_blocks n (S node) zones cpus lowf
  end.
Definition filler (n : nat) : list zline :=
  match n with O => [] | S m => [ZOther (repeat 35 m)] end.     (* '#' x (n-1) + newline = n bytes *)
Definition big_zoneinfo (nodes zones cpus : nat) (lowf : nat -> Z) (fill : nat) : list zline :=
  filler fill ++ node_blocks nodes 0 zones cpus lowf.
(* watermark of zone i for a seed: 4-6 digit numbers *)
Definition seed_low (seed : Z) (i : nat) : Z := 1000 + (seed * 7919 + Z.of_nat i * 104729) mod 900000.
