(* C18 -- the named theorems, derived from the per-request lemmas. *)
From PV Require Import C18.Spec C18.Legacy C18.Proofs C18.ProofsReq C18.ProofsElig.
Require Import Lia.

Lemma ssortedb_cons_iff a l : ssortedb (a :: l) = true <-> (forall x, In x l -> a < x) /\ ssortedb l = true.
Proof.
  split.
  - intros H. split; [apply ssortedb_lt; exact H|apply (ssortedb_tail a); exact H].
  - intros [H1 H2]. destruct l as [|b r]; [reflexivity|].
    change (ssortedb (a :: b :: r)) with ((a <? b) && ssortedb (b :: r)). rewrite H2.
    replace (a <? b) with true by (symmetry; apply Z.ltb_lt; apply H1; left; reflexivity). reflexivity.
Qed.
Lemma ssortedb_filter f l : ssortedb l = true -> ssortedb (filter f l) = true.
Proof.
  induction l as [|a r IH]; intros H; [reflexivity|].
  apply ssortedb_cons_iff in H. destruct H as [H1 H2]. cbn [filter]. destruct (f a); [|apply IH; exact H2].
  apply ssortedb_cons_iff. split; [|apply IH; exact H2].
  intros x Hx. apply filter_In in Hx. apply H1. tauto.
Qed.

Lemma nth_error_upd_same {A} (x : A) l : forall n, (n < length l)%nat -> nth_error (upd_nth n x l) n = Some x.
Proof.
  induction l as [|y r IH]; intros n Hn; cbn [length] in Hn; [lia|].
  destruct n as [|n]; cbn [upd_nth nth_error]; [reflexivity|]. apply IH. lia.
Qed.
Lemma nth_error_upd_other {A} (x : A) l : forall n m, n <> m -> nth_error (upd_nth n x l) m = nth_error l m.
Proof.
  induction l as [|y r IH]; intros n m Hnm; [destruct n; reflexivity|].
  destruct n as [|n], m as [|m]; cbn [upd_nth nth_error]; try reflexivity; try congruence.
  apply IH. congruence.
Qed.

Lemma length_upd_nth {A} (x : A) l : forall n, length (upd_nth n x l) = length l.
Proof.
  induction l as [|y r IH]; intros n; [destruct n; reflexivity|].
  destruct n; cbn [upd_nth length]; [reflexivity|]. rewrite IH. reflexivity.
Qed.

(* ------------------------------------------------ get reads the kernel *)
Theorem get_reads_kernel k pid p : wf_kernelb k = true -> kget pid k = Some p -> wf_procb k p = true -> pid <> 0 ->
  run_req pid (Nice None) k = (Val (RInt (p_nice p)), k)
  /\ run_req pid (Ionice None None) k = (Val (RPair (reported_ioprio k p / 8192) (reported_ioprio k p mod 8192)), k)
  /\ run_req pid (Affinity None) k = (Val (RList (p_mask p)), k)
  /\ forall res s h, 0 <= res < 16 -> nth_error (p_rlim p) (Z.to_nat res) = Some (s, h) ->
       run_req pid (Rlimit res None) k = (Val (RPair (rlim2py s) (rlim2py h)), k).
Proof.
  intros Hk Hg Hwf Hpid.
  assert (M : forall r exp, spec_req pid r k = Some exp -> run_req pid r k = exp).
  { intros r exp. apply (model_meets_spec k pid p r exp Hk Hg Hwf Hpid). }
  repeat split.
  - apply M. unfold spec_req, spec_get. rewrite Hg. reflexivity.
  - apply M. unfold spec_req, spec_get. rewrite Hg. reflexivity.
  - apply M. unfold spec_req, spec_get. rewrite Hg. reflexivity.
  - intros res s h Hres Hn. apply M. unfold spec_req, spec_get. rewrite Hg.
    unfold res_ok, RLIM_NLIMITS.
    replace ((0 <=? res) && (res <? 16)) with true by (symmetry; apply andb_true_iff; split; [apply Z.leb_le|apply Z.ltb_lt]; lia).
    rewrite Hn. reflexivity.
Qed.

(* ------------------------------------------------ nice *)
Theorem nice_set_then_get k pid p v : kget pid k = Some p -> -20 <= v <= 19 ->
  p_nice p <= v \/ can_nice k p v = true ->
  let k' := kupd pid (set_nice v) k in
  run_req pid (Nice (Some v)) k = (Val RNone, k')
  /\ kget pid k' = Some (set_nice v p)
  /\ (forall q, q <> pid -> kget q k' = kget q k)
  /\ run_req pid (Nice None) k' = (Val (RInt v), k').
Proof.
  intros Hg Hv Hperm k'.
  assert (Hg' : kget pid k' = Some (set_nice v p)) by (unfold k'; rewrite kget_kupd_same, Hg; reflexivity).
  repeat split.
  - apply (meets_nice k pid p _ _ Hg). unfold spec_req. rewrite Hg.
    replace ((-20 <=? v) && (v <=? 19)) with true by (symmetry; apply andb_true_iff; split; apply Z.leb_le; lia).
    replace ((p_nice p <=? v) || can_nice k p v) with true; [reflexivity|].
    symmetry. apply orb_true_iff. destruct Hperm as [H|H]; [left; apply Z.leb_le; exact H|right; exact H].
  - exact Hg'.
  - intros q Hq. apply kget_kupd_other. exact Hq.
  - apply (meets_nice k' pid _ _ _ Hg'). unfold spec_req, spec_get. rewrite Hg'. reflexivity.
Qed.

(* lowering the nice value without CAP_SYS_NICE and beyond RLIMIT_NICE: AccessDenied carrying
   the pid, nothing changed *)
Theorem nice_denied k pid p v : kget pid k = Some p -> fits_int v = true ->
  clamp_nice v < p_nice p -> can_nice k p (clamp_nice v) = false ->
  run_req pid (Nice (Some v)) k = (Exc AccessDenied, k) /\ exc_pid pid AccessDenied = Some pid.
Proof.
  intros Hg Hf Hlt Hc. split; [|reflexivity]. unfold run_req, nice, c_setpriority, sys_setpriority. rewrite Hf, Hg, Hc.
  replace (clamp_nice v <? p_nice p) with true by (symmetry; apply Z.ltb_lt; exact Hlt). reflexivity.
Qed.

Theorem getpriority_minus_one k pid p : kget pid k = Some p -> p_nice p = -1 ->
  run_req pid (Nice None) k = (Val (RInt (-1)), k).
Proof.
  intros Hg Hn. rewrite <- Hn. apply (meets_nice k pid p _ _ Hg). unfold spec_req, spec_get. rewrite Hg. reflexivity.
Qed.

(* ------------------------------------------------ ionice *)
Definition level_of (v : option Z) : Z := match v with Some x => x | None => 0 end.

Theorem ionice_set_then_get k pid p c v : kget pid k = Some p -> -20 <= p_nice p <= 19 ->
  0 <= c <= 3 -> 0 <= level_of v <= 7 -> (c = 0 \/ c = 3 -> level_of v = 0) ->
  (c = 1 -> k_cap_admin k || k_cap_nice k = true) ->
  let raw := c * 8192 + level_of v in
  let k' := kupd pid (set_ioprio raw) k in
  let w := reported_ioprio k' (set_ioprio raw p) in
  run_req pid (Ionice (Some c) v) k = (Val RNone, k')
  /\ kget pid k' = Some (set_ioprio raw p)
  /\ (forall q, q <> pid -> kget q k' = kget q k)
  /\ run_req pid (Ionice None None) k' = (Val (RPair (w / 8192) (w mod 8192)), k')
  /\ (c <> 0 \/ k_ioget_effective k = false -> w = raw /\ w / 8192 = c /\ w mod 8192 = level_of v).
Proof.
  intros Hg Hn Hc Hl H03 Hperm raw k' w.
  assert (Hg' : kget pid k' = Some (set_ioprio raw p)) by (unfold k'; rewrite kget_kupd_same, Hg; reflexivity).
  assert (Hio : 0 <= raw < 32768) by (unfold raw; lia).
  destruct (ioprio_valid_ok c (level_of v)) as [Hp [Hv Hs]]; [lia|lia|exact H03|].
  split; [|split; [exact Hg'|split; [intros q Hq; apply kget_kupd_other; exact Hq|split]]].
  - unfold run_req, ionice, ionice_set. fold (level_of v).
    assert (Hsw : negb (level_of v =? 0) && ((c =? 3) || (c =? 0)) = false).
    { destruct (Z.eq_dec c 0) as [->|N0]; [rewrite H03 by lia; reflexivity|].
      destruct (Z.eq_dec c 3) as [->|N3]; [rewrite H03 by lia; reflexivity|].
      replace (c =? 3) with false by (symmetry; apply Z.eqb_neq; exact N3).
      replace (c =? 0) with false by (symmetry; apply Z.eqb_neq; exact N0). apply andb_false_r. }
    rewrite Hsw.
    replace ((level_of v <? 0) || (7 <? level_of v)) with false
      by (symmetry; apply orb_false_iff; split; apply Z.ltb_ge; lia).
    replace ((0 <=? c) && (c <=? 3)) with true by (symmetry; apply andb_true_iff; split; apply Z.leb_le; lia).
    cbn [negb].
    unfold c_ioprio_set, fits_int.
    replace ((-2147483648 <=? c) && (c <=? 2147483647)) with true
      by (symmetry; apply andb_true_iff; split; apply Z.leb_le; lia).
    replace ((-2147483648 <=? level_of v) && (level_of v <=? 2147483647)) with true
      by (symmetry; apply andb_true_iff; split; apply Z.leb_le; lia).
    cbn [andb]. rewrite Hp. unfold sys_ioprio_set, ioprio_perm. rewrite Hg, Hs, Hv.
    replace (negb (c =? 1) || k_cap_admin k || k_cap_nice k) with true; [reflexivity|].
    symmetry. destruct (Z.eq_dec c 1) as [E|N].
    + specialize (Hperm E). rewrite <- orb_assoc, Hperm. apply orb_true_r.
    + replace (c =? 1) with false by (symmetry; apply Z.eqb_neq; exact N). reflexivity.
  - unfold run_req, ionice.
    rewrite (ionice_get_ok k' pid _ Hg'); [reflexivity|].
    apply reported_range; cbn [p_nice p_ioprio set_ioprio]; [exact Hn|exact Hio].
  - intros Hleg. assert (W : w = raw).
    { unfold w, reported_ioprio. cbn [p_ioprio set_ioprio p_nice]. fold raw. unfold raw at 1. rewrite Hs.
      change (k_ioget_effective k') with (k_ioget_effective k).
      destruct Hleg as [N|E].
      - replace (c =? 0) with false by (symmetry; apply Z.eqb_neq; exact N). rewrite andb_false_r. reflexivity.
      - rewrite E. reflexivity. }
    split; [exact W|]. rewrite W. unfold raw. split.
    + rewrite Z.div_add_l by lia. rewrite Z.div_small by lia. lia.
    + rewrite Z.add_comm, Z.mod_add by lia. apply Z.mod_small. lia.
Qed.

(* the RT class without CAP_SYS_ADMIN / CAP_SYS_NICE: AccessDenied carrying the pid, nothing changed *)
Theorem ionice_rt_denied k pid p v : kget pid k = Some p -> 0 <= level_of v <= 7 ->
  k_cap_admin k = false -> k_cap_nice k = false ->
  run_req pid (Ionice (Some 1) v) k = (Exc AccessDenied, k) /\ exc_pid pid AccessDenied = Some pid.
Proof.
  intros Hg Hl Ha Hn. split; [|reflexivity].
  destruct (ioprio_valid_ok 1 (level_of v)) as [Hp [Hv Hs]]; [lia|lia|lia|].
  unfold run_req, ionice, ionice_set. fold (level_of v). cbn [Z.eqb orb andb]. rewrite andb_false_r.
  replace ((level_of v <? 0) || (7 <? level_of v)) with false
    by (symmetry; apply orb_false_iff; split; apply Z.ltb_ge; lia).
  cbn [Z.leb andb negb]. unfold c_ioprio_set, fits_int.
  replace ((-2147483648 <=? level_of v) && (level_of v <=? 2147483647)) with true
    by (symmetry; apply andb_true_iff; split; apply Z.leb_le; lia).
  cbn [Z.leb andb]. rewrite Hp. unfold sys_ioprio_set, ioprio_perm. rewrite Hg, Hs, Ha, Hn. reflexivity.
Qed.

(* ------------------------------------------------ cpu_affinity *)
Theorem affinity_set_then_get k pid p cpus : wf_kernelb k = true -> kget pid k = Some p -> wf_procb k p = true ->
  cpus <> [] -> (forall c, In c cpus -> In c (p_elig p)) ->
  exists m, let k' := kupd pid (set_mask m) k in
  ssortedb m = true /\ (forall c, In c m <-> In c cpus)
  /\ run_req pid (Affinity (Some cpus)) k = (Val RNone, k')
  /\ kget pid k' = Some (set_mask m p)
  /\ (forall q, q <> pid -> kget q k' = kget q k)
  /\ run_req pid (Affinity None) k' = (Val (RList m), k').
Proof.
  intros Hk Hg Hwf Hne Hin. pose proof (wf_procb_facts k p Hwf) as F.
  exists (filter (fun c => memz c cpus) (p_elig p)). intros k'.
  set (m := filter (fun c => memz c cpus) (p_elig p)) in *.
  assert (Hs : ssortedb m = true) by (apply ssortedb_filter; exact (wf_elig_sorted p F)).
  assert (Hg' : kget pid k' = Some (set_mask m p)) by (unfold k'; rewrite kget_kupd_same, Hg; reflexivity).
  unfold wf_kernelb in Hk. apply andb_split in Hk. destruct Hk as [_ Hnr]. apply Z.leb_le in Hnr.
  split; [exact Hs|]. split.
  { intros c. unfold m. rewrite filter_In, memz_In. split; [tauto|]. intros H. split; [apply Hin; exact H|exact H]. }
  split.
  { destruct cpus as [|c cs]; [congruence|].
    apply (meets_aff_valid k pid p c cs _ Hg (wf_elig_rng p F)).
    - unfold all_in. apply forallb_forall. intros x Hx. apply memz_In. apply Hin. exact Hx.
    - unfold spec_req, spec_aff_set. rewrite Hg.
      replace (all_in (c :: cs) (p_elig p)) with true; [reflexivity|].
      symmetry. unfold all_in. apply forallb_forall. intros x Hx. apply memz_In. apply Hin. exact Hx. }
  split; [exact Hg'|]. split.
  { intros q Hq. apply kget_kupd_other. exact Hq. }
  apply (meets_aff_get k' pid _ _ Hg' Hnr Hs). unfold spec_req, spec_get. rewrite Hg'. reflexivity.
Qed.

Theorem empty_affinity_all_eligible k pid p : kget pid k = Some p -> wf_procb k p = true ->
  let k' := kupd pid (set_mask (p_elig p)) k in
  run_req pid (Affinity (Some [])) k = (Val RNone, k')
  /\ kget pid k' = Some (set_mask (p_elig p) p)
  /\ (forall q, q <> pid -> kget q k' = kget q k).
Proof.
  intros Hg Hwf k'. pose proof (wf_procb_facts k p Hwf) as F.
  assert (Hne : p_elig p <> []).
  { intros E. pose proof (wf_mask_ne p F) as Hm. pose proof (wf_mask_sub p F) as Hs.
    destruct (p_mask p) as [|x xs]; [congruence|]. specialize (Hs x (or_introl eq_refl)). rewrite E in Hs. destruct Hs. }
  repeat split.
  - apply (meets_aff_empty k pid p _ Hg (wf_elig_rng p F) Hne). unfold spec_req. rewrite Hg. reflexivity.
  - unfold k'. rewrite kget_kupd_same, Hg. reflexivity.
  - intros q Hq. apply kget_kupd_other. exact Hq.
Qed.

(* ------------------------------------------------ rlimit *)
(* the Python <-> rlim_t representation: -1 is RLIM_INFINITY = 2^64-1, both directions lossless *)
Theorem rlim_roundtrip :
  u64 (-1) = RLIM_INFINITY /\ rlim2py RLIM_INFINITY = -1
  /\ (forall v, fits_long v = true -> 0 <= u64 v <= RLIM_INFINITY /\ rlim2py (u64 v) = v)
  /\ (forall u, 0 <= u <= RLIM_INFINITY -> fits_long (rlim2py u) = true /\ u64 (rlim2py u) = u).
Proof.
  split; [reflexivity|]. split; [reflexivity|]. unfold u64, rlim2py, fits_long, RLIM_INFINITY.
  change (2 ^ 64) with 18446744073709551616. change (2 ^ 63) with 9223372036854775808. split.
  - intros v H. apply andb_split in H. destruct H as [A B]. apply Z.leb_le in A. apply Z.ltb_lt in B.
    destruct (v <? 0) eqn:E; [apply Z.ltb_lt in E|apply Z.ltb_ge in E].
    + replace (9223372036854775808 <=? v + 18446744073709551616) with true by (symmetry; apply Z.leb_le; lia). lia.
    + replace (9223372036854775808 <=? v) with false by (symmetry; apply Z.leb_gt; lia). lia.
  - intros u H. destruct (9223372036854775808 <=? u) eqn:E; [apply Z.leb_le in E|apply Z.leb_gt in E].
    + replace (u - 18446744073709551616 <? 0) with true by (symmetry; apply Z.ltb_lt; lia).
      split; [|lia]. apply andb_true_iff. split; [apply Z.leb_le|apply Z.ltb_lt]; lia.
    + replace (u <? 0) with false by (symmetry; apply Z.ltb_ge; lia).
      split; [|lia]. apply andb_true_iff. split; [apply Z.leb_le|apply Z.ltb_lt]; lia.
Qed.

Theorem rlimit_set_then_get k pid p res s h : kget pid k = Some p -> wf_procb k p = true -> pid <> 0 ->
  0 <= res < 16 -> fits_long s = true -> fits_long h = true -> u64 s <= u64 h ->
  (res = RLIMIT_NOFILE -> u64 h <= k_nr_open k) ->
  (forall os om, nth_error (p_rlim p) (Z.to_nat res) = Some (os, om) -> u64 h <= om \/ k_cap_resource k = true) ->
  let l' := upd_nth (Z.to_nat res) (u64 s, u64 h) (p_rlim p) in
  let k' := kupd pid (fun p => set_rlim (upd_nth (Z.to_nat res) (u64 s, u64 h) (p_rlim p)) p) k in
  run_req pid (Rlimit res (Some [s; h])) k = (Val RNone, k')
  /\ kget pid k' = Some (set_rlim l' p)
  /\ nth_error l' (Z.to_nat res) = Some (u64 s, u64 h)
  /\ (forall r, r <> Z.to_nat res -> nth_error l' r = nth_error (p_rlim p) r)
  /\ (forall q, q <> pid -> kget q k' = kget q k)
  /\ run_req pid (Rlimit res None) k' = (Val (RPair s h), k').
Proof.
  intros Hg Hwf Hpid Hres Hs Hh Hsh Hnof Hraise l' k'. pose proof (wf_procb_facts k p Hwf) as F.
  assert (Hg' : kget pid k' = Some (set_rlim l' p)) by (unfold k'; rewrite kget_kupd_same, Hg; reflexivity).
  assert (Hok : res_ok res = true).
  { unfold res_ok, RLIM_NLIMITS. apply andb_true_iff. split; [apply Z.leb_le|apply Z.ltb_lt]; lia. }
  assert (Hlt : (Z.to_nat res < length (p_rlim p))%nat) by (rewrite (wf_rlim_len p F); lia).
  assert (Hn : nth_error l' (Z.to_nat res) = Some (u64 s, u64 h)).
  { unfold l'. apply nth_error_upd_same. exact Hlt. }
  destruct rlim_roundtrip as [_ [_ [RT _]]].
  repeat split.
  - apply (meets_rlimit k pid p _ _ _ Hg Hpid (wf_rlim_len p F)). unfold spec_req. rewrite Hg, Hok, Hs, Hh.
    replace (u64 s <=? u64 h) with true by (symmetry; apply Z.leb_le; exact Hsh).
    replace (negb (res =? RLIMIT_NOFILE) || (u64 h <=? k_nr_open k)) with true.
    2: { symmetry. destruct (Z.eq_dec res RLIMIT_NOFILE) as [E|N].
         - replace (u64 h <=? k_nr_open k) with true by (symmetry; apply Z.leb_le; apply Hnof; exact E). apply orb_true_r.
         - replace (res =? RLIMIT_NOFILE) with false by (symmetry; apply Z.eqb_neq; exact N). reflexivity. }
    destruct (nth_error (p_rlim p) (Z.to_nat res)) as [[os om]|] eqn:En; [|apply nth_error_None in En; lia].
    rewrite (nth_nth_error _ _ (0, 0) _ En). cbn [snd andb].
    replace ((u64 h <=? om) || k_cap_resource k) with true; [reflexivity|].
    symmetry. apply orb_true_iff. destruct (Hraise os om eq_refl) as [H|H]; [left; apply Z.leb_le; exact H|right; exact H].
  - exact Hg'.
  - exact Hn.
  - intros r Hr. unfold l'. apply nth_error_upd_other. congruence.
  - intros q Hq. apply kget_kupd_other. exact Hq.
  - assert (Hlen' : length (p_rlim (set_rlim l' p)) = 16%nat).
    { cbn [p_rlim set_rlim]. unfold l'. rewrite length_upd_nth. exact (wf_rlim_len p F). }
    apply (meets_rlimit k' pid _ _ _ _ Hg' Hpid Hlen'). unfold spec_req, spec_get. rewrite Hg', Hok.
    cbn [p_rlim set_rlim]. rewrite Hn.
    destruct (RT s Hs) as [_ ->]. destruct (RT h Hh) as [_ ->]. reflexivity.
Qed.

(* ------------------------------------------------ invalid requests *)
Theorem invalid_rejected k pid p : kget pid k = Some p -> wf_procb k p = true -> pid <> 0 ->
  (* I/O priority level outside 0-7 *)
  (forall c v, v < 0 \/ 7 < v -> run_req pid (Ionice (Some c) (Some v)) k = (Exc ValueError, k))
  (* a level given for the idle / none class *)
  /\ (forall c v, c = 0 \/ c = 3 -> v <> 0 -> run_req pid (Ionice (Some c) (Some v)) k = (Exc ValueError, k))
  (* a level without a class *)
  /\ (forall v, run_req pid (Ionice None (Some v)) k = (Exc ValueError, k))
  (* a class outside 0-3, with or without a level *)
  /\ (forall c v, c < 0 \/ 3 < c -> run_req pid (Ionice (Some c) v) k = (Exc ValueError, k))
  (* a CPU list naming only nonexistent or ineligible CPUs *)
  /\ (forall cpus, cpus <> [] -> (forall c, In c cpus -> ~ In c (p_elig p)) ->
        run_req pid (Affinity (Some cpus)) k = (Exc ValueError, k))
  (* a limits argument that is not a pair *)
  /\ (forall res l, length l <> 2%nat -> run_req pid (Rlimit res (Some l)) k = (Exc ValueError, k)).
Proof.
  intros Hg Hwf Hpid. pose proof (wf_procb_facts k p Hwf) as F.
  split; [|split; [|split; [|split; [|split]]]].
  - intros c v Hv. apply (meets_ionice k pid p _ _ _ Hg (reported_range k p (wf_nice p F) (wf_io p F))). unfold spec_req. rewrite Hg.
    replace ((v <? 0) || (7 <? v)) with true; [reflexivity|].
    symmetry. apply orb_true_iff. destruct Hv; [left|right]; apply Z.ltb_lt; lia.
  - intros c v Hc Hv. apply (meets_ionice k pid p _ _ _ Hg (reported_range k p (wf_nice p F) (wf_io p F))). unfold spec_req. rewrite Hg.
    destruct ((v <? 0) || (7 <? v)); [reflexivity|].
    replace (((c =? 0) || (c =? 3)) && negb (v =? 0)) with true; [reflexivity|].
    symmetry. apply andb_true_iff. split.
    + apply orb_true_iff. destruct Hc; [left|right]; apply Z.eqb_eq; assumption.
    + apply negb_true_iff. apply Z.eqb_neq. exact Hv.
  - intros v. reflexivity.
  - intros c v Hc. unfold run_req, ionice, ionice_set.
    destruct (negb _ && _); [reflexivity|]. destruct (_ || _); [reflexivity|].
    replace ((0 <=? c) && (c <=? 3)) with false; [reflexivity|].
    symmetry. apply andb_false_iff. destruct Hc; [left; apply Z.leb_gt|right; apply Z.leb_gt]; lia.
  - intros cpus Hne Hout. destruct cpus as [|c cs]; [congruence|].
    assert (Hall : all_in (c :: cs) (p_elig p) = false).
    { unfold all_in. cbn [forallb]. replace (memz c (p_elig p)) with false; [reflexivity|].
      symmetry. apply memz_false. apply Hout. left. reflexivity. }
    apply (meets_aff_invalid k pid p c cs _ Hg Hall).
    unfold spec_req, spec_aff_set. rewrite Hg, Hall.
    replace (none_in (c :: cs) (p_elig p)) with true; [reflexivity|].
    symmetry. unfold none_in. apply forallb_forall. intros x Hx. apply negb_true_iff. apply memz_false. apply Hout. exact Hx.
  - intros res l Hl. apply (meets_rlimit k pid p _ _ _ Hg Hpid (wf_rlim_len p F)). unfold spec_req. rewrite Hg.
    destruct l as [|s [|h [|x r]]]; try reflexivity. cbn [length] in Hl. congruence.
Qed.

(* ------------------------------------------------ the repaired defects: legacy code refuted, current code right *)
Definition rl0 : list (Z * Z) := repeat (RLIM_INFINITY, RLIM_INFINITY) 16.
Definition mkp (mask elig : list Z) : proc :=
  {| p_nice := 0; p_ioprio := 0; p_mask := mask; p_elig := elig; p_rlim := rl0 |}.
Definition mkk (p : proc) (ncpu : Z) : kernel :=
  {| k_procs := [(10, p)]; k_ncpu := ncpu; k_nr_cpu_ids := 64; k_cap_nice := true; k_cap_admin := true;
     k_cap_resource := true; k_nr_open := 1048576; k_ioget_effective := false |}.

(* LEGACY: a cpuset of two ranges: only the first range was selected *)
Theorem legacy_empty_affinity_refuted_multirange :
  exists k pid p, wf_kernelb k = true /\ kget pid k = Some p /\ wf_procb k p = true /\ p_mask p = p_elig p
    /\ p_elig p = [0; 1; 2; 3; 8; 9; 10; 11]
    /\ (exists k', leg_cpu_affinity pid (Some []) k = (Val RNone, k') /\ kget pid k' = Some (set_mask [0; 1; 2; 3] p))
    /\ run_req pid (Affinity (Some [])) k = (Val RNone, kupd pid (set_mask (p_elig p)) k).
Proof.
  exists (mkk (mkp [0;1;2;3;8;9;10;11] [0;1;2;3;8;9;10;11]) 12), 10, (mkp [0;1;2;3;8;9;10;11] [0;1;2;3;8;9;10;11]).
  split; [vm_compute; reflexivity|]. split; [vm_compute; reflexivity|]. split; [vm_compute; reflexivity|].
  split; [reflexivity|]. split; [reflexivity|]. split; [|vm_compute; reflexivity].
  eexists. split; vm_compute; reflexivity.
Qed.

(* LEGACY: a process narrowed to [0,1] earlier stayed there *)
Theorem legacy_empty_affinity_refuted_narrowed :
  exists k pid p, wf_kernelb k = true /\ kget pid k = Some p /\ wf_procb k p = true
    /\ p_elig p = [0; 1; 2; 3; 4; 5; 6; 7] /\ p_mask p = [0; 1]
    /\ (exists k', leg_cpu_affinity pid (Some []) k = (Val RNone, k') /\ kget pid k' = Some p)
    /\ run_req pid (Affinity (Some [])) k = (Val RNone, kupd pid (set_mask (p_elig p)) k).
Proof.
  exists (mkk (mkp [0;1] [0;1;2;3;4;5;6;7]) 8), 10, (mkp [0;1] [0;1;2;3;4;5;6;7]).
  split; [vm_compute; reflexivity|]. split; [vm_compute; reflexivity|]. split; [vm_compute; reflexivity|].
  split; [reflexivity|]. split; [reflexivity|]. split; [|vm_compute; reflexivity].
  eexists. split; vm_compute; reflexivity.
Qed.

(* LEGACY: cpuset "0,2", request [1]: OSError(EINVAL) instead of ValueError *)
Theorem legacy_invalid_cpu_refuted :
  exists k pid p, wf_kernelb k = true /\ kget pid k = Some p /\ wf_procb k p = true /\ p_elig p = [0; 2]
    /\ leg_cpu_affinity pid (Some [1]) k = (Exc OSError, k)
    /\ run_req pid (Affinity (Some [1])) k = (Exc ValueError, k).
Proof.
  exists (mkk (mkp [0;2] [0;2]) 4), 10, (mkp [0;2] [0;2]).
  repeat split; vm_compute; reflexivity.
Qed.

(* LEGACY: a CPU id beyond a C long: OverflowError instead of ValueError *)
Theorem legacy_huge_cpu_refuted :
  exists k pid p, wf_kernelb k = true /\ kget pid k = Some p /\ wf_procb k p = true
    /\ leg_cpu_affinity pid (Some [2 ^ 70]) k = (Exc OverflowError, k)
    /\ run_req pid (Affinity (Some [2 ^ 70])) k = (Exc ValueError, k).
Proof.
  exists (mkk (mkp [0;1;2;3] [0;1;2;3]) 4), 10, (mkp [0;1;2;3] [0;1;2;3]).
  repeat split; vm_compute; reflexivity.
Qed.

(* the hypotheses of the theorems above are satisfiable by a non-trivial state *)
Definition ex_p : proc :=
  {| p_nice := 3; p_ioprio := 16389; p_mask := [2; 5]; p_elig := [2; 3; 5; 8; 9];
     p_rlim := [(0,0);(1,2);(RLIM_INFINITY,RLIM_INFINITY);(5,RLIM_INFINITY);(0,0);(0,0);(0,0);(1024,4096);(0,0);(0,0);(0,0);(0,0);(0,0);(0,0);(0,0);(7,RLIM_INFINITY)] |}.
Definition ex_k : kernel :=
  {| k_procs := [(7, mkp [0] [0; 1]); (4242, ex_p)]; k_ncpu := 8; k_nr_cpu_ids := 128; k_cap_nice := false; k_cap_admin := false;
     k_cap_resource := false; k_nr_open := 1048576; k_ioget_effective := true |}.
Example hypotheses_satisfiable :
  wf_kernelb ex_k = true /\ kget 4242 ex_k = Some ex_p /\ wf_procb ex_k ex_p = true
  /\ (exists exp, spec_req 4242 (Affinity (Some [])) ex_k = Some exp)
  /\ (exists exp, spec_req 4242 (Affinity (Some [5; 2; 5])) ex_k = Some exp)
  /\ (exists exp, spec_req 4242 (Affinity (Some [4; 99])) ex_k = Some exp)
  /\ (exists exp, spec_req 4242 (Rlimit 3 (Some [7; -1])) ex_k = Some exp).
Proof. repeat split; try (vm_compute; reflexivity); eexists; vm_compute; reflexivity. Qed.

(* ------------------------------------------------ CPU numbers are not narrowed to an int *)
Theorem cpu_numbers_not_narrowed l :
  (forall v, In v l -> fits_long v = true /\ v <> -1 /\ (v < 0 \/ 1024 <= v)) -> c_build_set l = Val [].
Proof.
  intros H. unfold c_build_set.
  replace (existsb (fun v => v =? -1) l) with false.
  2: { symmetry. apply not_true_iff_false. intros E. apply existsb_exists in E. destruct E as [x [Hx E]].
       apply Z.eqb_eq in E. destruct (H x Hx) as [_ [N _]]. congruence. }
  replace (existsb (fun v => negb (fits_long v)) l) with false.
  2: { symmetry. apply not_true_iff_false. intros E. apply existsb_exists in E. destruct E as [x [Hx E]].
       destruct (H x Hx) as [F _]. rewrite F in E. discriminate. }
  f_equal. apply filter_none. intros x Hx. destruct (H x Hx) as [_ [_ R]]. unfold cpu_set_bit.
  apply andb_false_iff. destruct R; [left; apply Z.leb_gt|right; apply Z.ltb_ge]; lia.
Qed.

Theorem nonexistent_cpus_rejected k pid p cpus : kget pid k = Some p -> wf_procb k p = true -> pid <> 0 ->
  cpus <> [] -> (forall c, In c cpus -> c < 0 \/ 1024 <= c) ->
  run_req pid (Affinity (Some cpus)) k = (Exc ValueError, k).
Proof.
  intros Hg Hwf Hpid Hne Hr. pose proof (wf_procb_facts k p Hwf) as F.
  destruct (invalid_rejected k pid p Hg Hwf Hpid) as [_ [_ [_ [_ [H _]]]]].
  apply H; [exact Hne|]. intros c Hc Hin. pose proof (wf_elig_rng p F c Hin). specialize (Hr c Hc). lia.
Qed.

Example wide_cpu_numbers_name_nothing :
  c_build_set [2 ^ 31; 2 ^ 32; 2 ^ 32 + 1; 2 ^ 62; 2 ^ 63 - 1; -5] = Val []
  /\ c_build_set [2 ^ 32; 0] = Val [0].
Proof. split; vm_compute; reflexivity. Qed.

(* ------------------------------------------------ rlimit: denied, malformed *)
Lemma rlimit_set_unfold k pid p res s h : kget pid k = Some p -> pid <> 0 -> 0 <= res < 16 ->
  fits_long s = true -> fits_long h = true ->
  run_req pid (Rlimit res (Some [s; h])) k =
  match sys_prlimit_set pid res (u64 s) (u64 h) k with
  | (SOk _, k') => (Val RNone, k')
  | (SErr EINVAL, _) => (Exc ValueError, k)
  | (SErr e, _) => (Exc (wrap e), k)
  end.
Proof.
  intros Hg Hp Hres Hs Hh. unfold run_req, rlimit.
  replace (pid =? 0) with false by (symmetry; apply Z.eqb_neq; exact Hp). cbn [length Nat.eqb negb].
  assert (Hok : res_ok res = true).
  { unfold res_ok, RLIM_NLIMITS. apply andb_true_iff. split; [apply Z.leb_le|apply Z.ltb_lt]; lia. }
  unfold py_prlimit. rewrite (res_ok_fits res Hok), Hok, Hs, Hh. reflexivity.
Qed.

(* raising the hard limit without CAP_SYS_RESOURCE, or RLIMIT_NOFILE above fs.nr_open *)
Theorem rlimit_denied k pid p res s h os om : kget pid k = Some p -> pid <> 0 -> 0 <= res < 16 ->
  fits_long s = true -> fits_long h = true -> u64 s <= u64 h ->
  nth_error (p_rlim p) (Z.to_nat res) = Some (os, om) ->
  (res = RLIMIT_NOFILE /\ k_nr_open k < u64 h) \/ (om < u64 h /\ k_cap_resource k = false) ->
  run_req pid (Rlimit res (Some [s; h])) k = (Exc AccessDenied, k) /\ exc_pid pid AccessDenied = Some pid.
Proof.
  intros Hg Hp Hres Hs Hh Hsh Hn Hd. split; [|reflexivity].
  rewrite (rlimit_set_unfold k pid p res s h Hg Hp Hres Hs Hh). unfold sys_prlimit_set. rewrite Hg.
  replace (res_ok res) with true
    by (symmetry; unfold res_ok, RLIM_NLIMITS; apply andb_true_iff; split; [apply Z.leb_le|apply Z.ltb_lt]; lia).
  cbn [negb]. replace (u64 h <? u64 s) with false by (symmetry; apply Z.ltb_ge; lia).
  destruct ((res =? RLIMIT_NOFILE) && (k_nr_open k <? u64 h)) eqn:E; [reflexivity|].
  rewrite Hn. destruct Hd as [[E1 E2]|[E1 E2]].
  - exfalso. apply andb_false_iff in E. destruct E as [E|E]; [apply Z.eqb_neq in E; congruence|apply Z.ltb_ge in E; lia].
  - rewrite E2. replace (om <? u64 h) with true by (symmetry; apply Z.ltb_lt; exact E1). reflexivity.
Qed.

(* soft above hard (as rlim_t): the kernel's EINVAL surfaces as ValueError, nothing changed *)
Theorem rlimit_soft_above_hard k pid p res s h : kget pid k = Some p -> pid <> 0 -> 0 <= res < 16 ->
  fits_long s = true -> fits_long h = true -> u64 h < u64 s ->
  run_req pid (Rlimit res (Some [s; h])) k = (Exc ValueError, k).
Proof.
  intros Hg Hp Hres Hs Hh Hsh.
  rewrite (rlimit_set_unfold k pid p res s h Hg Hp Hres Hs Hh). unfold sys_prlimit_set. rewrite Hg.
  replace (res_ok res) with true
    by (symmetry; unfold res_ok, RLIM_NLIMITS; apply andb_true_iff; split; [apply Z.leb_le|apply Z.ltb_lt]; lia).
  cbn [negb]. replace (u64 h <? u64 s) with true by (symmetry; apply Z.ltb_lt; exact Hsh). reflexivity.
Qed.

(* a value outside a C long long (e.g. 2^63 .. 2^64-1, which is how C spells RLIM_INFINITY): OverflowError *)
Theorem rlimit_value_overflow k pid res s h : pid <> 0 -> 0 <= res < 16 ->
  fits_long s = false \/ fits_long h = false ->
  run_req pid (Rlimit res (Some [s; h])) k = (Exc OverflowError, k).
Proof.
  intros Hp Hres Hf. unfold run_req, rlimit.
  replace (pid =? 0) with false by (symmetry; apply Z.eqb_neq; exact Hp). cbn [length Nat.eqb negb].
  assert (Hok : res_ok res = true).
  { unfold res_ok, RLIM_NLIMITS. apply andb_true_iff. split; [apply Z.leb_le|apply Z.ltb_lt]; lia. }
  unfold py_prlimit. rewrite (res_ok_fits res Hok), Hok. cbn [negb].
  replace (fits_long s && fits_long h) with false; [reflexivity|].
  symmetry. apply andb_false_iff. exact Hf.
Qed.

(* an int instead of a sequence: TypeError (from len()), no system call *)
Theorem rlimit_scalar_typeerror k pid res v : pid <> 0 -> run_req pid (RlimitScalar res v) k = (Exc TypeError, k).
Proof.
  intros Hp. unfold run_req, rlimit_scalar. replace (pid =? 0) with false by (symmetry; apply Z.eqb_neq; exact Hp). reflexivity.
Qed.

(* negative values other than -1 are large unsigned limits: (-5, -3) is a valid pair and reads
   back as (-5, -3); (-3, -5) has soft above hard *)
Example rlimit_negative_values :
  u64 (-5) = 2 ^ 64 - 5
  /\ fst (run_req 4242 (Rlimit 3 (Some [-5; -3])) ex_k) = Val RNone
  /\ fst (run_req 4242 (Rlimit 3 None) (snd (run_req 4242 (Rlimit 3 (Some [-5; -3])) ex_k))) = Val (RPair (-5) (-3))
  /\ run_req 4242 (Rlimit 3 (Some [-3; -5])) ex_k = (Exc ValueError, ex_k)
  /\ run_req 4242 (Rlimit 3 (Some [5; 2 ^ 64 - 1])) ex_k = (Exc OverflowError, ex_k)
  /\ run_req 4242 (Rlimit 7 (Some [5; 8192])) ex_k = (Exc AccessDenied, ex_k).
Proof. repeat split; vm_compute; reflexivity. Qed.


(* ------------------------------------------------ cpu_affinity(<any iterable>) *)
(* for every shape of the argument -- list, tuple, set, frozenset, range, dict view, iterator,
   generator, map, chain, line iterator -- what counts is the sequence it yields on its first
   (and only) traversal *)
Theorem affinity_any_iterable k pid p sh items :
  wf_kernelb k = true -> kget pid k = Some p -> wf_procb k p = true ->
  (* a non-empty yield: the same as the list of the yielded items *)
  (items <> [] -> run_req pid (AffinityIt sh items) k = run_req pid (Affinity (Some items)) k)
  (* ... in particular eligible CPUs: the mask becomes exactly the set of the first traversal *)
  /\ (items <> [] -> (forall c, In c items -> In c (p_elig p)) ->
      exists m, ssortedb m = true /\ (forall c, In c m <-> In c items)
        /\ run_req pid (AffinityIt sh items) k = (Val RNone, kupd pid (set_mask m) k)
        /\ run_req pid (Affinity None) (kupd pid (set_mask m) k) = (Val (RList m), kupd pid (set_mask m) k))
  (* ... and only nonexistent / ineligible CPUs: ValueError, nothing changed -- never "all CPUs" *)
  /\ (items <> [] -> (forall c, In c items -> ~ In c (p_elig p)) -> pid <> 0 ->
      run_req pid (AffinityIt sh items) k = (Exc ValueError, k))
  (* an empty sized container is the empty list: all eligible CPUs *)
  /\ (oneshot sh = false -> run_req pid (AffinityIt sh []) k = run_req pid (Affinity (Some [])) k)
  (* an empty one-shot iterator (truthy, yields nothing): ValueError, nothing changed *)
  /\ (oneshot sh = true -> run_req pid (AffinityIt sh []) k = (Exc ValueError, k)).
Proof.
  intros Hk Hg Hwf.
  assert (NE : forall l, l <> [] -> oneshot sh && is_nil l = false).
  { intros l Hl. destruct l; [congruence|]. apply andb_false_r. }
  split; [|split; [|split; [|split]]].
  - intros Hne. apply aff_shape_as_list. apply NE. exact Hne.
  - intros Hne Hin. destruct (affinity_set_then_get k pid p items Hk Hg Hwf Hne Hin) as [m [Hs [Hm [Hr [_ [_ Hget]]]]]].
    exists m. split; [exact Hs|]. split; [exact Hm|]. split; [|exact Hget].
    rewrite (aff_shape_as_list pid sh items k (NE items Hne)). exact Hr.
  - intros Hne Hout Hpid. rewrite (aff_shape_as_list pid sh items k (NE items Hne)).
    destruct (invalid_rejected k pid p Hg Hwf Hpid) as [_ [_ [_ [_ [H _]]]]]. apply H; assumption.
  - intros Ho. apply aff_shape_as_list. rewrite Ho. reflexivity.
  - intros Ho. exact (aff_oneshot_empty k pid p sh Hg Ho).
Qed.
