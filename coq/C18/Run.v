(* Entry points evaluated by the correspondence harness (props/C18.py). *)
From PV Require Export C18.Spec C18.Handle C18.Call.

Definition jv_zs (l : list Z) : jv := JL (map JZ l).
Definition jv_resv (r : resv) : jv :=
  match r with
  | RNone => jnone
  | RInt z => JZ z
  | RPair a b => JL [JZ a; JZ b]
  | RList l => jv_zs l
  end.
(* a process as the kernel shows it: nice, the I/O priority word ioprio_get reports, mask,
   eligible CPUs, limits as rlim_t *)
Definition jv_proc (k : kernel) (qp : Z * proc) : jv :=
  let (q, p) := qp in
  JL [JZ q; JZ (p_nice p); JZ (reported_ioprio k p); jv_zs (p_mask p); jv_zs (p_elig p);
      JL (map (fun sh => JL [JZ (fst sh); JZ (snd sh)]) (p_rlim p))].
Fixpoint pairs_eqb (a b : list (Z * Z)) : bool :=
  match a, b with
  | [], [] => true
  | (x1, y1) :: r1, (x2, y2) :: r2 => (x1 =? x2) && (y1 =? y2) && pairs_eqb r1 r2
  | _, _ => false
  end.
Definition proc_eqb (p q : proc) : bool :=
  (p_nice p =? p_nice q) && (p_ioprio p =? p_ioprio q) && beqb (p_mask p) (p_mask q) && beqb (p_elig p) (p_elig q)
  && pairs_eqb (p_rlim p) (p_rlim q).
(* a kernel state relative to the start state [k0]: an entry that is the same as at the start is
   printed as the marker Same pid (the harness expands it from the case), a changed one in full *)
Definition jv_kernel_rel (k0 k : kernel) : jv :=
  JL (map (fun qp => match kget (fst qp) k0 with
                     | Some p0 => if proc_eqb p0 (snd qp) then JC "Same" [JZ (fst qp)] else jv_proc k qp
                     | None => jv_proc k qp
                     end) (k_procs k)).
(* outcome; psutil's own exceptions carry the pid *)
Definition jv_out {A} (pid : Z) (f : A -> jv) (o : outcome A) : jv :=
  match o with
  | Exc e => match exc_pid pid e with
             | Some q => JC "Exc" [JC (exn_name e) [JZ q]]
             | None => jv_outcome f o
             end
  | _ => jv_outcome f o
  end.

Definition wf_allb (k : kernel) : bool :=
  wf_kernelb k && forallb (fun qp => wf_procb k (snd qp)) (k_procs k).

(* one public call on one process of a kernel:
   [status file of the process as printed by the kernel; answer; get form afterwards; kernel afterwards;
    what _get_eligible_cpus() returns on the start state;
    the same three as the property demands them (or None); well-formedness of the start state] *)
Definition run_case (k : kernel) (pid : Z) (r : req) : jv :=
  let '(o, k1) := run_req pid r k in
  let '(g, k2) := run_req pid (get_form r) k1 in
  JL [ JL (match kget pid k with Some p => [JL [JZ pid; JB (k_status p)]] | None => [] end);
       jv_out pid jv_resv o; jv_out pid jv_resv g; jv_kernel_rel k k2;
       jv_out pid jv_zs (get_eligible_cpus pid k);
       match spec_req pid r k with
       | Some (so, sk) =>
         match spec_get pid r sk with
         | Some sg => JL [jv_out pid jv_resv so; jv_out pid jv_resv sg; jv_kernel_rel k sk]
         | None => jnone
         end
       | None => jnone
       end;
       jbool (wf_allb k) ].


(* the status parser alone, on a file with arbitrary lines before and text after the line:
   [the file; what the parser returns] *)
Definition run_status (pre : list bytes) (post : bytes) (mask : list Z) (ncpu : Z) : jv :=
  let data := k_status_gen (concat (map (fun l => l ++ [10]) pre)) post mask in
  JL [ JB data; jv_outcome jv_zs (parse_status data ncpu) ].

(* one set form through a Process / Popen handle whose pid is now occupied by [occ]:
   [status file of the occupant; answer; kernel afterwards; platform layer entered?;
    handle flags afterwards (_gone, _pid_reused); demanded (answer, kernel) or None; wf] *)
Definition run_hist (h : handle) (occ : occupant) (k : kernel) (r : req) : jv :=
  let '(o, k1, h1, entered) := hcall h occ r k in
  let pid := h_pid h in
  JL [ JL (match kget pid k with Some p => [JL [JZ pid; JB (k_status p)]] | None => [] end);
       jv_out pid jv_resv o; jv_kernel_rel k k1; jbool entered;
       JL [jbool (h_gone h1); jbool (h_reused h1)];
       match spec_hcall h occ r k with
       | Some (so, sk) => JL [jv_out pid jv_resv so; jv_kernel_rel k sk]
       | None => jnone
       end;
       jbool (wf_allb k) ].

(* the same two entry points for a call given in its literal form (positionals + keywords):
   the arguments are bound as Python binds them, then the bound request is run *)
Definition req_of_call (m : method) (c : call) : outcome req := do vals <- bind m c; to_req m vals.
Definition run_case_c (k : kernel) (pid : Z) (m : method) (c : call) : jv :=
  match req_of_call m c with
  | Val r => run_case k pid r
  | Exc e => JC "BindError" [JC (exn_name e) []]
  | OutOfModel => JC "OutOfModel" []
  end.
Definition run_hist_c (h : handle) (occ : occupant) (k : kernel) (m : method) (c : call) : jv :=
  match req_of_call m c with
  | Val r => run_hist h occ k r
  | Exc e => JC "BindError" [JC (exn_name e) []]
  | OutOfModel => JC "OutOfModel" []
  end.
