(* C18 -- call forms: binding, "set iff is not None", recycled pid untouched in every form. *)
From PV Require Import C18.Call C18.ProofsHandle.
Local Open Scope string_scope.

Definition kwcall (kw : list (string * pyval)) : call := {| c_pos := []; c_kw := kw |}.
Definition poscall (pos : list pyval) : call := {| c_pos := pos; c_kw := [] |}.

(* all spellings of the same arguments bind to the same values; an omitted optional is None *)
Theorem bind_forms : forall a b,
  (* nice *)
  bind MNice (poscall [a]) = Val [a] /\ bind MNice (kwcall [("value", a)]) = Val [a]
  /\ bind MNice (poscall []) = Val [PNone]
  (* ionice *)
  /\ bind MIonice (poscall [a; b]) = Val [a; b]
  /\ bind MIonice (kwcall [("ioclass", a); ("value", b)]) = Val [a; b]
  /\ bind MIonice (kwcall [("value", b); ("ioclass", a)]) = Val [a; b]
  /\ bind MIonice {| c_pos := [a]; c_kw := [("value", b)] |} = Val [a; b]
  /\ bind MIonice (poscall [a]) = Val [a; PNone] /\ bind MIonice (kwcall [("ioclass", a)]) = Val [a; PNone]
  /\ bind MIonice (kwcall [("value", b)]) = Val [PNone; b] /\ bind MIonice (poscall []) = Val [PNone; PNone]
  (* cpu_affinity *)
  /\ bind MAffinity (poscall [a]) = Val [a] /\ bind MAffinity (kwcall [("cpus", a)]) = Val [a]
  /\ bind MAffinity (poscall []) = Val [PNone]
  (* rlimit *)
  /\ bind MRlimit (poscall [a; b]) = Val [a; b]
  /\ bind MRlimit (kwcall [("resource", a); ("limits", b)]) = Val [a; b]
  /\ bind MRlimit (kwcall [("limits", b); ("resource", a)]) = Val [a; b]
  /\ bind MRlimit {| c_pos := [a]; c_kw := [("limits", b)] |} = Val [a; b]
  /\ bind MRlimit (poscall [a]) = Val [a; PNone] /\ bind MRlimit (kwcall [("resource", a)]) = Val [a; PNone]
  (* malformed: given twice, unknown name, too many, required missing *)
  /\ bind MNice {| c_pos := [a]; c_kw := [("value", b)] |} = Exc TypeError
  /\ bind MNice (kwcall [("val", a)]) = Exc TypeError
  /\ bind MNice (poscall [a; b]) = Exc TypeError
  /\ bind MRlimit (kwcall [("limits", b)]) = Exc TypeError.
Proof. intros a b. repeat split; reflexivity. Qed.

(* the outcome is a function of the bound arguments only *)
Theorem call_form_irrelevant h occ m c1 c2 k vals :
  bind m c1 = Val vals -> bind m c2 = Val vals -> pcall h occ m c1 k = pcall h occ m c2 k.
Proof. intros H1 H2. unfold pcall. rewrite H1, H2. reflexivity. Qed.

(* "is this a set?" = the deciding bound argument is not None; 0, [] and class 0 are sets *)
Theorem set_iff_not_none m vals r : to_req m vals = Val r -> guarded r = negb (is_none (deciding m vals)).
Proof.
  destruct m; destruct vals as [|v1 [|v2 [|v3 t]]]; cbn [to_req]; try discriminate;
    try destruct v1; try destruct v2; cbn; try discriminate;
    try match goal with |- context [oneshot ?s] => destruct (oneshot s) end; intros [= <-]; reflexivity.
Qed.

Example falsy_values_are_sets :
  (exists r, to_req MNice [PInt 0] = Val r /\ guarded r = true)
  /\ (exists r, to_req MIonice [PInt 0; PNone] = Val r /\ guarded r = true)
  /\ (exists r, to_req MIonice [PInt 0; PInt 0] = Val r /\ guarded r = true)
  /\ (exists r, to_req MAffinity [PList []] = Val r /\ guarded r = true)
  /\ (exists r, to_req MRlimit [PInt 0; PList [0; 0]] = Val r /\ guarded r = true)
  /\ (exists r, to_req MNice [PNone] = Val r /\ guarded r = false)
  /\ (exists r, to_req MIonice [PNone; PInt 0] = Val r /\ guarded r = false).
Proof. repeat split; eexists; split; reflexivity. Qed.

(* whatever the call form: a set never touches a recycled pid *)
Theorem pcall_recycled_no_syscall h st m c k vals :
  bind m c = Val vals -> is_none (deciding m vals) = false -> st <> h_ident h ->
  pcall h (Some st) m c k = OutOfModel
  \/ exists h', pcall h (Some st) m c k = Val (Exc NoSuchProcess, k, h', false).
Proof.
  intros Hb Hd Hne. unfold pcall. rewrite Hb. cbn [obind].
  destruct (to_req m vals) as [r|e|] eqn:E; cbn [obind].
  - right. pose proof (set_iff_not_none m vals r E) as G. rewrite Hd in G. cbn [negb] in G.
    destruct (recycled_no_syscall h st r k G Hne) as [h' ->]. exists h'. reflexivity.
  - exfalso. destruct m; destruct vals as [|v1 [|v2 [|v3 t]]]; cbn [to_req] in E; try discriminate;
      try destruct v1; try destruct v2; cbn in E; try discriminate;
      match type of E with context [oneshot ?s] => destruct (oneshot s) end; discriminate.
  - left. reflexivity.
Qed.
