(* C18 -- LEGACY variant: cpu_affinity as it was before the repairs 638fb52, 07b12aa, 7214dea
   (_get_eligible_cpus = first "a-b" token of Cpus_allowed_list; OverflowError not caught;
   cpu_affinity([]) = set what _get_eligible_cpus returns).  Kept only so that the refuted
   theorems about the old defects stay checkable; nothing else depends on this file. *)
From PV Require Export C18.Model.
(* re.compile(br"Cpus_allowed_list:\t(\d+)-(\d+)").findall(data) -> first match *)
Fixpoint span_digits (l : bytes) : bytes * bytes :=
  match l with
  | [] => ([], [])
  | c :: r => if is_digit c then let (d, t) := span_digits r in (c :: d, t) else ([], l)
  end.
Definition re_here (s : bytes) : option (bytes * bytes) :=
  match drop_prefix status_lit s with
  | None => None
  | Some r =>
    let (d1, t1) := span_digits r in
    match d1, t1 with
    | _ :: _, 45 :: t2 =>
      let (d2, _) := span_digits t2 in
      match d2 with [] => None | _ => Some (d1, d2) end
    | _, _ => None
    end
  end.
Fixpoint re_search (s : bytes) : option (bytes * bytes) :=
  match s with
  | [] => None
  | _ :: r => match re_here s with Some m => Some m | None => re_search r end
  end.

(* _pslinux.Process._get_eligible_cpus *)
Definition leg_get_eligible_cpus (pid : Z) (k : kernel) : outcome (list Z) :=
  match kget pid k with
  | None => Exc NoSuchProcess
  | Some p =>
    match re_search (k_status p) with
    | Some (d1, d2) => Val (zrange (dec_val d1) (dec_val d2 + 1))
    | None => Val (zrange 0 (k_ncpu k))
    end
  end.

(* psutil_proc_cpu_affinity_set: PyLong_AsLong per item, -1 -> ValueError,
   CPU_SET ignores ids outside 0..1023 of the fixed cpu_set_t *)
Definition leg_c_build_set (l : list Z) : outcome (list Z) :=
  if existsb (fun v => negb (fits_long v)) l then
    (* PyLong_AsLong fails: OverflowError -- unless a -1 item is met first (set order: not modelled) *)
    if existsb (fun v => v =? -1) l then OutOfModel else Exc OverflowError
  else if existsb (fun v => v =? -1) l then Exc ValueError
  else Val (filter (fun v => (0 <=? v) && (v <? 1024)) l).

(* _pslinux.cpu_affinity_set, with its diagnosis of EINVAL / ValueError *)
Definition leg_diagnose (pid : Z) (cpus : list Z) (reraise : exn) (k : kernel) : outcome resv :=
  match leg_get_eligible_cpus pid k with
  | Val eligible =>
    let all_cpus := zrange 0 (k_ncpu k) in
    if existsb (fun c => negb (memz c all_cpus) || negb (memz c eligible)) cpus
    then Exc ValueError else Exc reraise
  | Exc e => Exc e
  | OutOfModel => OutOfModel
  end.
Definition leg_pl_cpu_affinity_set (pid : Z) (cpus : list Z) (k : kernel) : outcome resv * kernel :=
  match leg_c_build_set cpus with
  | Exc ValueError => (leg_diagnose pid cpus ValueError k, k)
  | Exc e => (Exc e, k)
  | OutOfModel => (OutOfModel, k)
  | Val set =>
    match sys_sched_setaffinity pid set k with
    | (SOk _, k') => (Val RNone, k')
    | (SErr EINVAL, _) => (leg_diagnose pid cpus OSError k, k)
    | (SErr e, _) => (Exc (wrap e), k)
    end
  end.
(* Process.leg_cpu_affinity *)
Definition leg_cpu_affinity (pid : Z) (cpus : option (list Z)) (k : kernel) : outcome resv * kernel :=
  match cpus with
  | None => (omap (fun m => RList (sort_dedup m)) (c_affinity_get pid k), k)
  | Some [] =>
    match leg_get_eligible_cpus pid k with
    | Val el => leg_pl_cpu_affinity_set pid (dedup el) k
    | Exc e => (Exc e, k)
    | OutOfModel => (OutOfModel, k)
    end
  | Some l => leg_pl_cpu_affinity_set pid (dedup l) k
  end.

Definition leg_run_affinity (pid : Z) (cpus : option (list Z)) (k : kernel) : outcome resv * kernel :=
  leg_cpu_affinity pid cpus k.
