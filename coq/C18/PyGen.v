(* A small statement language for the argument checks and the dispatch of psutil's setters:
   psutil/__init__.py  Process.nice / ionice / rlimit / cpu_affinity  (is it a get or a set, is
   _raise_if_pid_reused() called and is it called BEFORE the platform layer, which call of the
   platform layer ends the function, with which arguments) and
   psutil/_pslinux.py  Process.ionice_set / rlimit  (the guards, their order, the exception
   class each one raises, the native call that follows them).
   props/_c18_gen.py translates the CURRENT source of these six functions into [stmt] terms
   (coq/Gen/C18_Tables.v) on every run, failing closed on any shape it does not know;
   ProofsGen.v proves the translated programs equal to the hand-written model for all inputs.
   No proofs here. *)
From PV Require Export C18.Model.

(* argument values: None, an int, a sized container of ints (list/tuple/set ...: has len(), can be
   traversed again), an iterator object (no len(), always truthy, yields its items once) *)
Inductive pval := VNone | VInt (z : Z) | VList (l : list Z) | VIter (l : list Z).

Inductive expr :=
| EVar (x : string)            (* a parameter / local name *)
| ENoneC | EIntC (z : Z)       (* None, an int literal or a module constant resolved by the translator *)
| ELen (e : expr)              (* len(e) *)
| ESelfPid                     (* self.pid *)
| ERangeTuple (n : Z)          (* tuple(range(n)) *)
| EListSet (e : expr)          (* list(set(e)): one traversal; members once *)
| EOpaque.                     (* a call the language cannot evaluate: stuck if reached *)

Inductive cmpop := OLt | OLe | OGt | OGe | OEq | ONe.
Inductive cond :=
| CIsNone (e : expr) | CIsNotNone (e : expr)
| CTruth (e : expr)                                          (* bool(e) *)
| CCmp (a : expr) (op : cmpop) (b : expr)
| CChain (a : expr) (o1 : cmpop) (b : expr) (o2 : cmpop) (c : expr)   (* a o1 b o2 c *)
| CInSet (e : expr) (s : list Z)                             (* e in {k1, k2, ...} *)
| CConstB (b : bool)                                         (* a platform flag (LINUX) resolved by the translator *)
| COpaque                                                    (* a test the language cannot evaluate: stuck if reached *)
| CNot (c : cond) | CAnd (a b : cond) | COr (a b : cond).

Inductive stmt :=
| SSkip
| SSeq (a b : stmt)
| SIf (c : cond) (t e : stmt)
| SAssign (x : string) (e : expr)
| SRaise (cls : exn)                      (* raise <cls>(msg) *)
| SGuard                                  (* self._raise_if_pid_reused() *)
| SCall (ret post : bool) (target : string) (args : list expr)
     (* [return] [sorted(set(] target(args) [))]: a call of the next layer.  ret = its value is returned;
        post = the value goes through sorted(set(...)) first *)
| STryReraise (body : stmt).
     (* try: body / except OSError as err: if err.errno == errno.ENOSYS: self._raise_if_zombie() ; raise *)

Definition env := list (string * pval).
Fixpoint lookup (x : string) (e : env) : option pval :=
  match e with
  | [] => None
  | (y, v) :: r => if String.eqb x y then Some v else lookup x r
  end.

Fixpoint eval (pid : Z) (en : env) (e : expr) : outcome pval :=
  match e with
  | EVar x => match lookup x en with Some v => Val v | None => OutOfModel end
  | ENoneC => Val VNone
  | EIntC z => Val (VInt z)
  | ELen e => do v <- eval pid en e;
              match v with
              | VList l => Val (VInt (Z.of_nat (length l)))
              | _ => Exc TypeError                    (* object of type 'int' / 'NoneType' / 'generator' has no len() *)
              end
  | ESelfPid => Val (VInt pid)
  | ERangeTuple n => Val (VList (zrange 0 n))
  | EListSet e => do v <- eval pid en e;
                  match v with
                  | VList l | VIter l => Val (VList (dedup l))
                  | _ => Exc TypeError                (* 'int' / 'NoneType' object is not iterable *)
                  end
  | EOpaque => OutOfModel
  end.

Definition cmpz (o : cmpop) (a b : Z) : bool :=
  match o with
  | OLt => a <? b | OLe => a <=? b | OGt => b <? a | OGe => b <=? a
  | OEq => a =? b | ONe => negb (a =? b)
  end.
(* comparisons are evaluated on ints only; anything else is outside the language *)
Definition cmpv (o : cmpop) (a b : pval) : outcome bool :=
  match a, b with VInt x, VInt y => Val (cmpz o x y) | _, _ => OutOfModel end.

Fixpoint ceval (pid : Z) (en : env) (c : cond) : outcome bool :=
  match c with
  | CIsNone e => do v <- eval pid en e; Val (match v with VNone => true | _ => false end)
  | CIsNotNone e => do v <- eval pid en e; Val (match v with VNone => false | _ => true end)
  | CTruth e => do v <- eval pid en e;
                Val (match v with
                     | VNone => false | VInt z => negb (z =? 0)
                     | VList [] => false | VList _ => true
                     | VIter _ => true end)
  | CCmp a o b => do x <- eval pid en a; do y <- eval pid en b; cmpv o x y
  | CChain a o1 b o2 c =>
      do x <- eval pid en a; do y <- eval pid en b;
      do r <- cmpv o1 x y;
      if r then (do z <- eval pid en c; cmpv o2 y z) else Val false
  | CInSet e s => do v <- eval pid en e;
                  match v with VInt z => Val (memz z s) | _ => OutOfModel end
  | CConstB b => Val b
  | COpaque => OutOfModel
  | CNot c => do b <- ceval pid en c; Val (negb b)
  | CAnd a b => do x <- ceval pid en a; if x then ceval pid en b else Val false
  | COr a b => do x <- ceval pid en a; if x then Val true else ceval pid en b
  end.

(* a call of the next layer with its evaluated arguments *)
Record pcall := { c_target : string; c_args : list pval; c_post : bool }.
Record state := { s_env : env; s_guard : bool; s_pending : option pcall }.

Inductive flow :=
| FNext (st : state)
| FRaise (e : exn)
| FRet (guarded : bool) (c : pcall)     (* return <call> *)
| FStuck.

Fixpoint evals (pid : Z) (en : env) (l : list expr) : outcome (list pval) :=
  match l with
  | [] => Val []
  | e :: r => do v <- eval pid en e; do vs <- evals pid en r; Val (v :: vs)
  end.

Definition of_out {A} (o : outcome A) (k : A -> flow) : flow :=
  match o with Val a => k a | Exc e => FRaise e | OutOfModel => FStuck end.

(* Once a call whose value is not returned has been made (s_pending), only tests may follow on
   the path to the end of the function: anything else is outside the language (stuck). *)
Fixpoint exec (pid : Z) (s : stmt) (st : state) : flow :=
  match s with
  | SSkip => FNext st
  | SSeq a b => match exec pid a st with FNext st' => exec pid b st' | f => f end
  | SIf c t e =>
      match s_pending st with
      | Some _ => FStuck
      | None => of_out (ceval pid (s_env st) c) (fun b => if b then exec pid t st else exec pid e st)
      end
  | SAssign x e =>
      match s_pending st with
      | Some _ => FStuck
      | None => of_out (eval pid (s_env st) e)
                  (fun v => FNext {| s_env := (x, v) :: s_env st; s_guard := s_guard st; s_pending := None |})
      end
  | SRaise cls => match s_pending st with Some _ => FStuck | None => FRaise cls end
  | SGuard =>
      match s_pending st with
      | Some _ => FStuck
      | None => FNext {| s_env := s_env st; s_guard := true; s_pending := None |}
      end
  | SCall ret post target args =>
      match s_pending st with
      | Some _ => FStuck
      | None => of_out (evals pid (s_env st) args)
                  (fun vs => let c := {| c_target := target; c_args := vs; c_post := post |} in
                             if ret then FRet (s_guard st) c
                             else FNext {| s_env := s_env st; s_guard := s_guard st; s_pending := Some c |})
      end
  | STryReraise body => exec pid body st       (* the handler re-raises what it caught *)
  end.

Inductive result :=
| RRaise (e : exn)                                   (* an exception before any call of the next layer *)
| RCall (guarded ret : bool) (c : pcall)             (* the function ends in this call; ret = its value is the result *)
| RNothing                                           (* falls off the end without a call: returns None *)
| RStuck.

Definition run (s : stmt) (pid : Z) (en : env) : result :=
  match exec pid s {| s_env := en; s_guard := false; s_pending := None |} with
  | FNext st => match s_pending st with Some c => RCall (s_guard st) false c | None => RNothing end
  | FRaise e => RRaise e
  | FRet g c => RCall g true c
  | FStuck => RStuck
  end.

Definition optv (o : option Z) : pval := match o with None => VNone | Some z => VInt z end.
