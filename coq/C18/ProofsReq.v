(* C18 -- the model meets the specification, request kind by request kind
   (everything that does not go through _get_eligible_cpus). *)
From PV Require Import C18.Spec C18.Proofs.
Require Import Lia.

Record wf_facts (p : proc) : Prop := {
  wf_nice : -20 <= p_nice p <= 19;
  wf_io : 0 <= p_ioprio p < 32768;
  wf_elig_sorted : ssortedb (p_elig p) = true;
  wf_elig_rng : forall c, In c (p_elig p) -> 0 <= c < 1024;
  wf_mask_sorted : ssortedb (p_mask p) = true;
  wf_mask_sub : forall c, In c (p_mask p) -> In c (p_elig p);
  wf_mask_ne : p_mask p <> [];
  wf_rlim_len : length (p_rlim p) = 16%nat }.

Lemma wf_procb_facts k p : wf_procb k p = true -> wf_facts p.
Proof.
  unfold wf_procb. intros H.
  apply andb_split in H; destruct H as [H H11].
  apply andb_split in H; destruct H as [H H10].
  apply andb_split in H; destruct H as [H H9].
  apply andb_split in H; destruct H as [H H8].
  apply andb_split in H; destruct H as [H H7].
  apply andb_split in H; destruct H as [H H6].
  apply andb_split in H; destruct H as [H H5].
  apply andb_split in H; destruct H as [H H4].
  apply andb_split in H; destruct H as [H H3].
  apply andb_split in H; destruct H as [H1 H2].
  apply Z.leb_le in H1, H2, H3. apply Z.ltb_lt in H4.
  constructor; try assumption; try lia.
  - intros c Hc. rewrite forallb_forall in H6. specialize (H6 c Hc).
    apply andb_split in H6. destruct H6 as [A B]. apply Z.leb_le in A. apply Z.ltb_lt in B. lia.
  - intros c Hc. rewrite forallb_forall in H8. apply memz_In. apply H8. exact Hc.
  - intros E. rewrite E in H9. discriminate.
  - apply Nat.eqb_eq. exact H10.
Qed.

(* ------------------------------------------------ nice *)
Lemma meets_nice k pid p v exp : kget pid k = Some p ->
  spec_req pid (Nice v) k = Some exp -> run_req pid (Nice v) k = exp.
Proof.
  intros Hg. unfold spec_req, spec_get, run_req, nice. rewrite Hg. destruct v as [v|].
  - destruct ((-20 <=? v) && (v <=? 19) && ((p_nice p <=? v) || can_nice k p v)) eqn:E; [|discriminate]. intros [= <-].
    apply andb_split in E. destruct E as [E E3]. apply andb_split in E. destruct E as [E1 E2]. apply Z.leb_le in E1, E2.
    unfold c_setpriority, fits_int, sys_setpriority. rewrite Hg.
    replace ((-2147483648 <=? v) && (v <=? 2147483647)) with true
      by (symmetry; apply andb_true_iff; split; apply Z.leb_le; lia).
    unfold clamp_nice.
    replace (v <? -20) with false by (symmetry; apply Z.ltb_ge; lia).
    replace (19 <? v) with false by (symmetry; apply Z.ltb_ge; lia).
    replace ((v <? p_nice p) && negb (can_nice k p v)) with false; [reflexivity|].
    symmetry. apply orb_true_iff in E3. destruct E3 as [E3|E3].
    + apply Z.leb_le in E3. replace (v <? p_nice p) with false by (symmetry; apply Z.ltb_ge; lia). reflexivity.
    + rewrite E3. apply andb_false_r.
  - intros [= <-]. unfold c_getpriority, libc_getpriority. rewrite Hg. reflexivity.
Qed.

(* ------------------------------------------------ ionice *)
Lemma reported_range k p : -20 <= p_nice p <= 19 -> 0 <= p_ioprio p < 32768 -> 0 <= reported_ioprio k p < 32768.
Proof.
  intros Hn Hr. unfold reported_ioprio. destruct (k_ioget_effective k && (Z.shiftr (p_ioprio p) 13 =? 0)); [|exact Hr].
  assert (0 <= (p_nice p + 20) / 5 <= 7).
  { split; [apply Z.div_pos; lia|]. apply Z.lt_succ_r. apply Z.div_lt_upper_bound; lia. }
  lia.
Qed.

Lemma ionice_get_ok k pid p : kget pid k = Some p -> 0 <= reported_ioprio k p < 32768 ->
  ionice_get pid k = Val (RPair (reported_ioprio k p / 8192) (reported_ioprio k p mod 8192)).
Proof.
  intros Hg Hr. unfold ionice_get, sys_ioprio_get, ioprio_unpack. rewrite Hg.
  destruct (unpack_arith (reported_ioprio k p)) as [-> ->].
  assert (0 <= reported_ioprio k p / 8192 <= 3).
  { split; [apply Z.div_pos; lia|]. apply Z.lt_succ_r. apply Z.div_lt_upper_bound; lia. }
  replace ((0 <=? reported_ioprio k p / 8192) && (reported_ioprio k p / 8192 <=? 3)) with true
    by (symmetry; apply andb_true_iff; split; apply Z.leb_le; lia).
  reflexivity.
Qed.

Lemma meets_ionice k pid p c v exp : kget pid k = Some p -> 0 <= reported_ioprio k p < 32768 ->
  spec_req pid (Ionice c v) k = Some exp -> run_req pid (Ionice c v) k = exp.
Proof.
  intros Hg Hr. unfold spec_req, spec_get, run_req, ionice. rewrite Hg. destruct c as [c|].
  2: { destruct v as [v|]; intros [= <-]; [reflexivity|]. rewrite (ionice_get_ok k pid p Hg Hr). reflexivity. }
  unfold ionice_set. cbv zeta.
  set (lvl := match v with Some x => x | None => 0 end).
  destruct ((lvl <? 0) || (7 <? lvl)) eqn:Erng.
  { intros [= <-]. destruct (negb (lvl =? 0) && ((c =? 3) || (c =? 0))); reflexivity. }
  assert (Hsw : negb (lvl =? 0) && ((c =? 3) || (c =? 0)) = ((c =? 0) || (c =? 3)) && negb (lvl =? 0))
    by (destruct (lvl =? 0), (c =? 3), (c =? 0); reflexivity).
  rewrite Hsw. clear Hsw.
  destruct (((c =? 0) || (c =? 3)) && negb (lvl =? 0)) eqn:Eidle.
  { intros [= <-]. reflexivity. }
  destruct ((0 <=? c) && (c <=? 3) && (negb (c =? 1) || k_cap_admin k || k_cap_nice k)) eqn:Ec; [|discriminate].
  intros [= <-].
  apply andb_split in Ec. destruct Ec as [Ec Eperm].
  rewrite Ec. cbn [negb].
  apply orb_false_iff in Erng. destruct Erng as [R1 R2]. apply Z.ltb_ge in R1, R2.
  apply andb_split in Ec. destruct Ec as [C1 C2]. apply Z.leb_le in C1, C2.
  assert (H03 : c = 0 \/ c = 3 -> lvl = 0).
  { intros Hc. apply andb_false_iff in Eidle. destruct Eidle as [E|E].
    - apply orb_false_iff in E. destruct E as [E1 E2]. apply Z.eqb_neq in E1, E2. lia.
    - apply negb_false_iff in E. apply Z.eqb_eq in E. exact E. }
  destruct (ioprio_valid_ok c lvl) as [Hp [Hv Hs]]; [lia|lia|exact H03|].
  unfold c_ioprio_set, fits_int.
  replace ((-2147483648 <=? c) && (c <=? 2147483647)) with true
    by (symmetry; apply andb_true_iff; split; apply Z.leb_le; lia).
  replace ((-2147483648 <=? lvl) && (lvl <=? 2147483647)) with true
    by (symmetry; apply andb_true_iff; split; apply Z.leb_le; lia).
  cbn [andb]. rewrite Hp. unfold sys_ioprio_set, ioprio_perm. rewrite Hg, Hs, Eperm, Hv. reflexivity.
Qed.

(* ------------------------------------------------ rlimit *)
Lemma res_ok_fits res : res_ok res = true -> fits_int res = true.
Proof.
  unfold res_ok, fits_int, RLIM_NLIMITS. intros H. apply andb_split in H. destruct H as [A B].
  apply Z.leb_le in A. apply Z.ltb_lt in B. apply andb_true_iff. split; apply Z.leb_le; lia.
Qed.

Lemma nth_nth_error {A} (l : list A) n d x : nth_error l n = Some x -> nth n l d = x.
Proof. revert n. induction l as [|a r IH]; intros [|n] H; cbn in *; try discriminate; [congruence|apply IH; exact H]. Qed.

Lemma meets_rlimit k pid p res lim exp : kget pid k = Some p -> pid <> 0 -> length (p_rlim p) = 16%nat ->
  spec_req pid (Rlimit res lim) k = Some exp -> run_req pid (Rlimit res lim) k = exp.
Proof.
  intros Hg Hp Hlen. unfold spec_req, spec_get, run_req, rlimit. rewrite Hg.
  replace (pid =? 0) with false by (symmetry; apply Z.eqb_neq; exact Hp).
  destruct lim as [l|].
  - destruct l as [|s [|h [|x r]]]; try (intros [= <-]; reflexivity).
    match goal with |- (if ?b then _ else _) = _ -> _ => destruct b eqn:E; [|discriminate] end.
    intros [= <-].
    apply andb_split in E. destruct E as [E E6]. apply andb_split in E. destruct E as [E E5].
    apply andb_split in E. destruct E as [E E4]. apply andb_split in E. destruct E as [E E3].
    apply andb_split in E. destruct E as [E1 E2].
    cbn [length Nat.eqb negb]. unfold py_prlimit. rewrite (res_ok_fits res E1), E1, E2, E3. cbn [negb andb].
    unfold sys_prlimit_set. rewrite Hg, E1. cbn [negb].
    apply Z.leb_le in E4. replace (u64 h <? u64 s) with false by (symmetry; apply Z.ltb_ge; lia).
    replace ((res =? RLIMIT_NOFILE) && (k_nr_open k <? u64 h)) with false.
    2: { symmetry. apply orb_true_iff in E5. destruct E5 as [E5|E5].
         - apply negb_true_iff in E5. rewrite E5. reflexivity.
         - apply Z.leb_le in E5. replace (k_nr_open k <? u64 h) with false by (symmetry; apply Z.ltb_ge; lia). apply andb_false_r. }
    assert (Hlt : (Z.to_nat res < length (p_rlim p))%nat).
    { unfold res_ok, RLIM_NLIMITS in E1. apply andb_split in E1. destruct E1 as [A B]. apply Z.leb_le in A. apply Z.ltb_lt in B. rewrite Hlen. lia. }
    destruct (nth_error (p_rlim p) (Z.to_nat res)) as [[os om]|] eqn:En.
    2: { apply nth_error_None in En. lia. }
    rewrite (nth_nth_error _ _ (0, 0) _ En) in E6. cbn [snd] in E6.
    replace ((om <? u64 h) && negb (k_cap_resource k)) with false; [reflexivity|].
    symmetry. apply orb_true_iff in E6. destruct E6 as [E6|E6].
    + apply Z.leb_le in E6. replace (om <? u64 h) with false by (symmetry; apply Z.ltb_ge; lia). reflexivity.
    + rewrite E6. apply andb_false_r.
  - destruct (res_ok res) eqn:E1; [|discriminate].
    destruct (nth_error (p_rlim p) (Z.to_nat res)) as [[s h]|] eqn:En; [|discriminate].
    intros [= <-]. unfold py_prlimit. rewrite (res_ok_fits res E1), E1. cbn [negb].
    unfold sys_prlimit_get. rewrite Hg, E1, En. reflexivity.
Qed.

(* ------------------------------------------------ cpu_affinity: get, and set with eligible CPUs *)
Lemma meets_aff_get k pid p exp : kget pid k = Some p -> k_nr_cpu_ids k <= 2 ^ 30 ->
  ssortedb (p_mask p) = true ->
  spec_req pid (Affinity None) k = Some exp -> run_req pid (Affinity None) k = exp.
Proof.
  intros Hg Hnr Hs. unfold spec_req, spec_get, run_req, cpu_affinity. rewrite Hg. intros [= <-].
  rewrite (c_affinity_get_ok pid k p Hg Hnr). cbn [omap obind]. rewrite (sort_dedup_sorted _ Hs). reflexivity.
Qed.

Lemma build_set_ok l : (forall c, In c l -> 0 <= c < 1024) ->
  c_build_set (dedup l) = Val (dedup l).
Proof.
  intros H. unfold c_build_set.
  assert (R : forall c, In c (dedup l) -> 0 <= c < 1024) by (intros c Hc; apply H; apply nodup_In in Hc; exact Hc).
  replace (existsb (fun v => negb (fits_long v)) (dedup l)) with false.
  2: { symmetry. apply not_true_iff_false. intros E. apply existsb_exists in E. destruct E as [x [Hx E]].
       specialize (R x Hx). unfold fits_long in E. apply negb_true_iff in E. apply andb_false_iff in E.
       destruct E as [E|E]; [apply Z.leb_gt in E|apply Z.ltb_ge in E]; lia. }
  replace (existsb (fun v => v =? -1) (dedup l)) with false.
  2: { symmetry. apply not_true_iff_false. intros E. apply existsb_exists in E. destruct E as [x [Hx E]].
       specialize (R x Hx). apply Z.eqb_eq in E. lia. }
  f_equal. apply filter_all. intros x Hx. specialize (R x Hx).
  apply andb_true_iff. split; [apply Z.leb_le|apply Z.ltb_lt]; lia.
Qed.

Lemma meets_aff_valid k pid p c cs exp : kget pid k = Some p ->
  (forall x, In x (p_elig p) -> 0 <= x < 1024) ->
  all_in (c :: cs) (p_elig p) = true ->
  spec_req pid (Affinity (Some (c :: cs))) k = Some exp -> run_req pid (Affinity (Some (c :: cs))) k = exp.
Proof.
  intros Hg Hrng Hall. unfold spec_req, spec_aff_set, run_req, cpu_affinity. rewrite Hg, Hall. intros [= <-].
  change (fun c0 : Z => (c0 =? c) || memz c0 cs) with (fun c0 : Z => memz c0 (c :: cs)).
  unfold pl_cpu_affinity_set.
  assert (Hin : forall x, In x (c :: cs) -> In x (p_elig p)).
  { intros x Hx. unfold all_in in Hall. rewrite forallb_forall in Hall. apply memz_In. apply Hall. exact Hx. }
  rewrite build_set_ok by (intros x Hx; apply Hrng; apply Hin; exact Hx).
  unfold sys_sched_setaffinity. rewrite Hg.
  rewrite (filter_ext (fun x => memz x (dedup (c :: cs))) (fun x => memz x (c :: cs))) by (intros x; apply memz_dedup).
  destruct (filter (fun x => memz x (c :: cs)) (p_elig p)) eqn:Ef; [|reflexivity].
  exfalso. assert (In c (filter (fun x => memz x (c :: cs)) (p_elig p))).
  { apply filter_In. split; [apply Hin; left; reflexivity|]. apply memz_In. left. reflexivity. }
  rewrite Ef in H. destruct H.
Qed.
