(* C18 -- what the property demands, written from the property text over the
   kernel state of C18/Kernel.v (not from psutil's code):
   - the get form returns what the kernel holds for that process;
   - a set with a valid value makes the kernel hold exactly that value for that
     process (and nothing else changes: [kupd] touches one field of one entry);
   - the listed invalid requests raise ValueError and change nothing;
   - cpu_affinity([]) selects all eligible CPUs.
   [spec_req] = Some (demanded answer, demanded kernel state afterwards), or None
   where the property says nothing (out-of-range nice, unknown I/O class, CPU lists
   mixing eligible and ineligible ids, soft > hard, ...). *)
From PV Require Export C18.Model.

(* ------------------------------------------------ well-formed kernel entries *)
Fixpoint ssortedb (l : list Z) : bool :=
  match l with
  | a :: ((b :: _) as r) => (a <? b) && ssortedb r
  | _ => true
  end.
Definition rlim_okb (sh : Z * Z) : bool :=
  (0 <=? fst sh) && (fst sh <=? snd sh) && (snd sh <=? RLIM_INFINITY).
Definition wf_procb (k : kernel) (p : proc) : bool :=
  (-20 <=? p_nice p) && (p_nice p <=? 19)
  && (0 <=? p_ioprio p) && (p_ioprio p <? 4 * 8192)
  && ssortedb (p_elig p)
  && forallb (fun c => (0 <=? c) && (c <? 1024)) (p_elig p)
  && ssortedb (p_mask p)
  && forallb (fun c => memz c (p_elig p)) (p_mask p)
  && negb (beqb (p_mask p) [])
  && (length (p_rlim p) =? 16)%nat && forallb rlim_okb (p_rlim p).
Definition wf_kernelb (k : kernel) : bool :=
  (0 <=? k_ncpu k) && (k_nr_cpu_ids k <=? 2 ^ 30).

(* ------------------------------------------------ the demanded answers *)
Definition get_form (r : req) : req :=
  match r with
  | Nice _ => Nice None
  | Ionice _ _ => Ionice None None
  | Affinity _ | AffinityIt _ _ => Affinity None
  | Rlimit res _ | RlimitScalar res _ => Rlimit res None
  end.

(* what the kernel reports for that process *)
Definition spec_get (pid : Z) (r : req) (k : kernel) : option (outcome resv) :=
  match kget pid k with
  | None => None
  | Some p =>
    match r with
    | Nice _ => Some (Val (RInt (p_nice p)))
    | Ionice _ _ => Some (Val (RPair (reported_ioprio k p / 8192) (reported_ioprio k p mod 8192)))
    | Affinity _ | AffinityIt _ _ => Some (Val (RList (p_mask p)))
    | Rlimit res _ | RlimitScalar res _ =>
      if res_ok res then
        match nth_error (p_rlim p) (Z.to_nat res) with
        | Some (s, h) => Some (Val (RPair (rlim2py s) (rlim2py h)))   (* RLIM_INFINITY shows as -1 *)
        | None => None
        end
      else None
    end
  end.

Definition all_in (cpus el : list Z) : bool := forallb (fun c => memz c el) cpus.
Definition none_in (cpus el : list Z) : bool := forallb (fun c => negb (memz c el)) cpus.

Definition spec_aff_set (pid : Z) (p : proc) (cpus : list Z) (k : kernel) : option (outcome resv * kernel) :=
  match cpus with
  | [] => Some (Val RNone, kupd pid (set_mask (p_elig p)) k)
  | _ =>
    if all_in cpus (p_elig p)     (* eligible CPUs, duplicates allowed: exactly that set *)
    then Some (Val RNone, kupd pid (set_mask (filter (fun c => memz c cpus) (p_elig p))) k)
    else if none_in cpus (p_elig p) then Some (Exc ValueError, k)   (* only nonexistent / ineligible CPUs *)
    else None
  end.

Definition spec_req (pid : Z) (r : req) (k : kernel) : option (outcome resv * kernel) :=
  match kget pid k with
  | None => None
  | Some p =>
    let same (o : outcome resv) := Some (o, k) in
    match r with
    | Nice None | Ionice None None | Affinity None | Rlimit _ None =>
      match spec_get pid r k with Some o => same o | None => None end
    (* every nice value -20..19 (that the caller is permitted to set: a successful set) *)
    | Nice (Some v) =>
      if (-20 <=? v) && (v <=? 19) && ((p_nice p <=? v) || can_nice k p v)
      then Some (Val RNone, kupd pid (set_nice v) k) else None
    (* a level without a class *)
    | Ionice None (Some _) => same (Exc ValueError)
    | Ionice (Some c) v =>
      let lvl := match v with None => 0 | Some x => x end in
      if (lvl <? 0) || (7 <? lvl) then same (Exc ValueError)                  (* level outside 0-7 *)
      else if ((c =? 0) || (c =? 3)) && negb (lvl =? 0) then same (Exc ValueError)  (* level for idle/none *)
      (* every class x level; level 0 is the one level idle/none have (it is what the get form
         reports for them), so an explicit 0 is a valid value, not "a level given" *)
      else if (0 <=? c) && (c <=? 3) && (negb (c =? 1) || k_cap_admin k || k_cap_nice k)
           then Some (Val RNone, kupd pid (set_ioprio (c * 8192 + lvl)) k)
      else None
    (* cpu_affinity([]) selects all eligible CPUs; a non-empty list of eligible CPUs: exactly that set *)
    | Affinity (Some cpus) => spec_aff_set pid p cpus k
    (* any iterable: what counts is what it yields (once).  An EMPTY one-shot iterator is not
       "the empty list" of the text (it is truthy): nothing demanded *)
    | AffinityIt sh items =>
      if oneshot sh && match items with [] => true | _ => false end then None else spec_aff_set pid p items k
    | Rlimit res (Some l) =>
      match l with
      | [s; h] =>
        (* every resource, soft <= hard as rlim_t (-1 = RLIM_INFINITY), permitted to the caller *)
        if res_ok res && fits_long s && fits_long h && (u64 s <=? u64 h)
           && (negb (res =? RLIMIT_NOFILE) || (u64 h <=? k_nr_open k))
           && ((u64 h <=? snd (nth (Z.to_nat res) (p_rlim p) (0, 0))) || k_cap_resource k)
        then Some (Val RNone, kupd pid (fun p => set_rlim (upd_nth (Z.to_nat res) (u64 s, u64 h) (p_rlim p)) p) k)
        else None
      | _ => same (Exc ValueError)       (* a limits argument that is not a pair *)
      end
    (* a scalar is "not a pair" too, but the code answers TypeError (from len()); DESIGN par. 8
       records this as an observation: nothing demanded here, the model theorem says
       TypeError + nothing changed *)
    | RlimitScalar _ _ => None
    end
  end.
