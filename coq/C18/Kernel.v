(* C18 -- the simulated kernel: what the kernel holds per process for the four
   settings (nice, I/O priority word, CPU affinity mask + the CPUs the process is
   eligible for, resource limits), the system calls with the kernel's own
   validity rules, and the /proc/<pid>/status text it prints.
   Transcribed from the kernel (kernel/sys.c set/getpriority, block/ioprio.c
   ioprio_check_cap, kernel/sched/core.c sched_set/getaffinity, kernel/sys.c
   do_prlimit, fs/proc/array.c task_cpus_allowed), NOT from psutil.  Trusted. *)
From PV Require Export Base.Dec Base.Bits.

Record proc := {
  p_nice : Z;               (* -20..19 *)
  p_ioprio : Z;             (* raw word: class << 13 | data *)
  p_mask : list Z;          (* current affinity mask: CPU ids, ascending *)
  p_elig : list Z;          (* CPUs the process may run on (cpuset effective & active), ascending *)
  p_rlim : list (Z * Z) }.  (* index = RLIMIT_* number; (rlim_cur, rlim_max) as the kernel holds them: unsigned
                               64-bit, RLIM_INFINITY = 2^64-1 *)

Record kernel := {
  k_procs : list (Z * proc);
  k_ncpu : Z;               (* number of cpuN lines of /proc/stat *)
  k_nr_cpu_ids : Z;
  (* the caller's capabilities (uids are assumed to match: no EPERM from the ownership tests) *)
  k_cap_nice : bool;        (* CAP_SYS_NICE *)
  k_cap_admin : bool;       (* CAP_SYS_ADMIN *)
  k_cap_resource : bool;    (* CAP_SYS_RESOURCE *)
  k_nr_open : Z;            (* sysctl fs.nr_open *)
  k_ioget_effective : bool  (* kernels >= 5.18: ioprio_get reports the effective class for NONE *) }.

Definition set_nice v p := {| p_nice := v; p_ioprio := p_ioprio p; p_mask := p_mask p; p_elig := p_elig p; p_rlim := p_rlim p |}.
Definition set_ioprio v p := {| p_nice := p_nice p; p_ioprio := v; p_mask := p_mask p; p_elig := p_elig p; p_rlim := p_rlim p |}.
Definition set_mask m p := {| p_nice := p_nice p; p_ioprio := p_ioprio p; p_mask := m; p_elig := p_elig p; p_rlim := p_rlim p |}.
Definition set_rlim l p := {| p_nice := p_nice p; p_ioprio := p_ioprio p; p_mask := p_mask p; p_elig := p_elig p; p_rlim := l |}.

Fixpoint pget (pid : Z) (ps : list (Z * proc)) : option proc :=
  match ps with
  | [] => None
  | (q, p) :: r => if q =? pid then Some p else pget pid r
  end.
Fixpoint pupd (pid : Z) (f : proc -> proc) (ps : list (Z * proc)) : list (Z * proc) :=
  match ps with
  | [] => []
  | (q, p) :: r => if q =? pid then (q, f p) :: r else (q, p) :: pupd pid f r
  end.
Definition kget (pid : Z) (k : kernel) : option proc := pget pid (k_procs k).
Definition kupd (pid : Z) (f : proc -> proc) (k : kernel) : kernel :=
  {| k_procs := pupd pid f (k_procs k); k_ncpu := k_ncpu k; k_nr_cpu_ids := k_nr_cpu_ids k;
     k_cap_nice := k_cap_nice k; k_cap_admin := k_cap_admin k; k_cap_resource := k_cap_resource k;
     k_nr_open := k_nr_open k; k_ioget_effective := k_ioget_effective k |}.

Inductive errno := ESRCH | EINVAL | EPERM | EACCES.
Inductive sres (A : Type) := SOk (a : A) | SErr (e : errno).
Arguments SOk {A} a.
Arguments SErr {A} e.

(* ---------------------------------------------------------------- nice *)
Definition clamp_nice (v : Z) : Z := if v <? -20 then -20 else if 19 <? v then 19 else v.
(* kernel/sys.c set_one_prio: lowering the nice value needs CAP_SYS_NICE unless RLIMIT_NICE
   of the target allows it (20 - nice <= rlim_cur): otherwise EACCES *)
Definition RLIMIT_NICE : nat := 13.
Definition can_nice (k : kernel) (p : proc) (nice : Z) : bool :=
  k_cap_nice k || (20 - nice <=? fst (nth RLIMIT_NICE (p_rlim p) (0, 0))).
Definition sys_setpriority (pid v : Z) (k : kernel) : sres unit * kernel :=
  match kget pid k with
  | None => (SErr ESRCH, k)
  | Some p =>
    let n := clamp_nice v in
    if (n <? p_nice p) && negb (can_nice k p n) then (SErr EACCES, k)
    else (SOk tt, kupd pid (set_nice n) k)
  end.
(* libc getpriority(): (return value, errno left behind); the nice value itself may be -1 *)
Definition libc_getpriority (pid : Z) (k : kernel) : Z * option errno :=
  match kget pid k with
  | None => (-1, Some ESRCH)
  | Some p => (p_nice p, None)
  end.

(* ---------------------------------------------------------------- I/O priority *)
Definition ioprio_valid (raw : Z) : bool :=
  let cls := Z.shiftr raw 13 in
  let data := Z.land raw 8191 in
  if (cls =? 1) || (cls =? 2) then data <? 8       (* RT (root), BE: level 0..7 *)
  else if cls =? 3 then true                       (* IDLE *)
  else if cls =? 0 then data =? 0                  (* NONE: no data *)
  else false.
(* block/ioprio.c ioprio_check_cap: the RT class needs CAP_SYS_ADMIN or CAP_SYS_NICE, tested
   before the level *)
Definition ioprio_perm (k : kernel) (raw : Z) : bool :=
  negb (Z.shiftr raw 13 =? 1) || k_cap_admin k || k_cap_nice k.
Definition sys_ioprio_set (pid raw : Z) (k : kernel) : sres unit * kernel :=
  match kget pid k with
  | None => (SErr ESRCH, k)
  | Some _ =>
    if negb (ioprio_perm k raw) then (SErr EPERM, k)
    else if ioprio_valid raw then (SOk tt, kupd pid (set_ioprio raw) k) else (SErr EINVAL, k)
  end.
(* what ioprio_get reports: the stored word; kernels >= 5.18 report, for a stored class NONE,
   the class/level derived from the scheduling policy and nice value (SCHED_OTHER: BE, (nice+20)/5) *)
Definition reported_ioprio (k : kernel) (p : proc) : Z :=
  if k_ioget_effective k && (Z.shiftr (p_ioprio p) 13 =? 0) then 2 * 8192 + (p_nice p + 20) / 5
  else p_ioprio p.
Definition sys_ioprio_get (pid : Z) (k : kernel) : sres Z :=
  match kget pid k with None => SErr ESRCH | Some p => SOk (reported_ioprio k p) end.

(* ---------------------------------------------------------------- CPU affinity *)
Definition memz (c : Z) (l : list Z) : bool := existsb (Z.eqb c) l.
(* new mask = requested & allowed; empty -> EINVAL *)
Definition sys_sched_setaffinity (pid : Z) (req : list Z) (k : kernel) : sres unit * kernel :=
  match kget pid k with
  | None => (SErr ESRCH, k)
  | Some p =>
    match filter (fun c => memz c req) (p_elig p) with
    | [] => (SErr EINVAL, k)
    | m => (SOk tt, kupd pid (set_mask m) k)
    end
  end.
(* user buffer of [nbits] bits; shorter than nr_cpu_ids -> EINVAL *)
Definition sys_sched_getaffinity (pid nbits : Z) (k : kernel) : sres (list Z) :=
  match kget pid k with
  | None => SErr ESRCH
  | Some p => if nbits <? k_nr_cpu_ids k then SErr EINVAL else SOk (p_mask p)
  end.

(* ---------------------------------------------------------------- resource limits *)
Definition RLIM_NLIMITS : Z := 16.
Definition RLIM_INFINITY : Z := 2 ^ 64 - 1.
Definition RLIMIT_NOFILE : Z := 7.
Fixpoint upd_nth {A} (n : nat) (x : A) (l : list A) : list A :=
  match l with
  | [] => []
  | y :: r => match n with O => x :: r | S m => y :: upd_nth m x r end
  end.
Definition res_ok (res : Z) : bool := (0 <=? res) && (res <? RLIM_NLIMITS).
Definition sys_prlimit_get (pid res : Z) (k : kernel) : sres (Z * Z) :=
  match kget pid k with
  | None => SErr ESRCH
  | Some p =>
    if res_ok res then
      match nth_error (p_rlim p) (Z.to_nat res) with Some x => SOk x | None => SErr EINVAL end
    else SErr EINVAL
  end.
(* kernel/sys.c do_prlimit: cur > max -> EINVAL; NOFILE max above nr_open -> EPERM;
   raising rlim_max without CAP_SYS_RESOURCE -> EPERM.  [soft], [hard] are rlim_t values. *)
Definition sys_prlimit_set (pid res soft hard : Z) (k : kernel) : sres unit * kernel :=
  match kget pid k with
  | None => (SErr ESRCH, k)
  | Some p =>
    if negb (res_ok res) then (SErr EINVAL, k)
    else if hard <? soft then (SErr EINVAL, k)
    else if (res =? RLIMIT_NOFILE) && (k_nr_open k <? hard) then (SErr EPERM, k)
    else match nth_error (p_rlim p) (Z.to_nat res) with
         | None => (SErr EINVAL, k)
         | Some (_, oldmax) =>
           if (oldmax <? hard) && negb (k_cap_resource k) then (SErr EPERM, k)
           else (SOk tt, kupd pid (fun p => set_rlim (upd_nth (Z.to_nat res) (soft, hard) (p_rlim p)) p) k)
         end
  end.

(* ---------------------------------------------------------------- /proc/<pid>/status *)
Fixpoint pr_dec_aux (fuel : nat) (n : Z) : bytes :=
  match fuel with
  | O => []
  | S f => if n <? 10 then [48 + n] else pr_dec_aux f (n / 10) ++ [48 + n mod 10]
  end.
Definition pr_dec (n : Z) : bytes := pr_dec_aux 20 n.

(* maximal runs of consecutive ids of an ascending list: the "%*pbl" format *)
Fixpoint runs_from (a b : Z) (l : list Z) : list (Z * Z) :=
  match l with
  | [] => [(a, b)]
  | c :: r => if c =? b + 1 then runs_from a c r else (a, b) :: runs_from c c r
  end.
Definition runs (l : list Z) : list (Z * Z) :=
  match l with [] => [] | c :: r => runs_from c c r end.
Definition pr_run (ab : Z * Z) : bytes :=
  let (a, b) := ab in if a =? b then pr_dec a else pr_dec a ++ 45 :: pr_dec b.
Definition pr_cpulist (l : list Z) : bytes := join [44] (map pr_run (runs l)).

(* The text before the line is fixed here (a selection of the real fields, including
   the two look-alikes "CapInh:" and "Cpus_allowed:"); only the list is state. *)
Definition status_pre : bytes :=
  bs "Name:" ++ 9 :: bs "sleep" ++ 10 :: bs "Umask:" ++ 9 :: bs "0022" ++ 10 :: bs "State:" ++ 9 :: bs "S (sleeping)" ++ 10 ::
  bs "Uid:" ++ 9 :: bs "0" ++ 9 :: bs "0" ++ 9 :: bs "0" ++ 9 :: bs "0" ++ 10 ::
  bs "Gid:" ++ 9 :: bs "0" ++ 9 :: bs "0" ++ 9 :: bs "0" ++ 9 :: bs "0" ++ 10 ::
  bs "Threads:" ++ 9 :: bs "1" ++ 10 :: bs "CapInh:" ++ 9 :: bs "0000000000000000" ++ 10 ::
  bs "Cpus_allowed:" ++ 9 :: bs "ffff" ++ [10].
Definition status_lit : bytes := bs "Cpus_allowed_list:" ++ [9].
Definition status_post : bytes :=
  bs "Mems_allowed_list:" ++ 9 :: bs "0" ++ 10 :: bs "voluntary_ctxt_switches:" ++ 9 :: bs "1" ++ 10 ::
  bs "nonvoluntary_ctxt_switches:" ++ 9 :: bs "2" ++ [10].
(* a status file whose text before and after the line is [pre] / [post] *)
Definition k_status_gen (pre post : bytes) (mask : list Z) : bytes :=
  pre ++ status_lit ++ pr_cpulist mask ++ 10 :: post.
Definition k_status (p : proc) : bytes := k_status_gen status_pre status_post (p_mask p).
