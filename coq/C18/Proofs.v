(* C18 -- proofs. *)
From PV Require Import C18.Spec.
Require Import Lia.

(* ------------------------------------------------ class << 13 | data *)
Lemma pack_arith c d : 0 <= c -> 0 <= d < 8192 -> Z.lor (Z.shiftl c 13) d = c * 8192 + d.
Proof.
  intros Hc Hd. rewrite Z.shiftl_mul_pow2 by lia. change (2 ^ 13) with 8192.
  rewrite <- Z.lxor_lor, <- Z.add_nocarry_lxor; auto.
  all: apply Z.bits_inj'; intros n Hn; rewrite Z.land_spec, Z.bits_0;
    destruct (Z_lt_ge_dec n 13) as [L|G].
  all: try (replace (c * 8192) with (c * 2 ^ 13) by reflexivity; rewrite Z.mul_pow2_bits_low by lia; reflexivity).
  all: rewrite (Z.bits_above_log2 d n); [apply andb_false_r| lia |].
  all: destruct (Z.eq_dec d 0) as [->|Nz]; [cbn; lia|];
    apply Z.lt_le_trans with 13; [apply Z.log2_lt_pow2; lia | lia].
Qed.

Lemma unpack_arith raw : Z.shiftr raw 13 = raw / 8192 /\ Z.land raw 8191 = raw mod 8192.
Proof.
  split.
  - rewrite Z.shiftr_div_pow2 by lia. reflexivity.
  - change 8191 with (2 ^ 13 - 1). rewrite land_ones_mod by lia. reflexivity.
Qed.

Lemma ioprio_pack_small c d : 0 <= c < 2 ^ 18 -> 0 <= d < 2 ^ 13 -> ioprio_pack c d = c * 8192 + d.
Proof.
  intros Hc Hd. unfold ioprio_pack, u32, s32.
  change (2 ^ 18) with 262144 in Hc. change (2 ^ 13) with 8192 in Hd.
  change (2 ^ 32) with 4294967296. change (2 ^ 31) with 2147483648.
  rewrite (Z.mod_small c) by lia. rewrite (Z.mod_small (c * 8192)) by lia. rewrite (Z.mod_small d) by lia.
  assert (E : Z.lor (c * 8192) d = c * 8192 + d)
    by (rewrite <- pack_arith by lia; rewrite Z.shiftl_mul_pow2 by lia; reflexivity).
  rewrite E.
  replace (c * 8192 + d <? 2147483648) with true by (symmetry; apply Z.ltb_lt; lia). reflexivity.
Qed.

Lemma ioprio_pack_roundtrip c d : 0 <= c < 2 ^ 18 -> 0 <= d < 2 ^ 13 ->
  let raw := ioprio_pack c d in
  raw = c * 8192 + d /\ -2 ^ 31 <= raw < 2 ^ 31 /\ ioprio_unpack raw = (c, d).
Proof.
  intros Hc Hd raw. unfold raw. rewrite (ioprio_pack_small c d Hc Hd).
  change (2 ^ 18) with 262144 in Hc. change (2 ^ 13) with 8192 in Hd.
  split; [reflexivity|]. split; [change (2 ^ 31) with 2147483648; lia|].
  unfold ioprio_unpack. destruct (unpack_arith (c * 8192 + d)) as [-> ->].
  f_equal.
  - rewrite Z.div_add_l by lia. rewrite Z.div_small by lia. lia.
  - rewrite Z.add_comm, Z.mod_add by lia. apply Z.mod_small. lia.
Qed.

(* ------------------------------------------------ the process table *)
Lemma pget_pupd_same pid f ps : pget pid (pupd pid f ps) = option_map f (pget pid ps).
Proof.
  induction ps as [|[q p] r IH]; cbn [pget pupd option_map]; [reflexivity|].
  destruct (q =? pid) eqn:E; cbn [pget]; rewrite E; [reflexivity|exact IH].
Qed.
Lemma pget_pupd_other pid q f ps : q <> pid -> pget q (pupd pid f ps) = pget q ps.
Proof.
  intros N. induction ps as [|[q' p] r IH]; cbn [pget pupd]; [reflexivity|].
  destruct (q' =? pid) eqn:E; cbn [pget].
  - apply Z.eqb_eq in E. subst q'.
    replace (pid =? q) with false by (symmetry; apply Z.eqb_neq; congruence). reflexivity.
  - rewrite IH. reflexivity.
Qed.
Lemma kget_kupd_same pid f k : kget pid (kupd pid f k) = option_map f (kget pid k).
Proof. apply pget_pupd_same. Qed.
Lemma kget_kupd_other pid q f k : q <> pid -> kget q (kupd pid f k) = kget q k.
Proof. apply pget_pupd_other. Qed.

(* ------------------------------------------------ small facts *)
Lemma andb_split (a b : bool) : a && b = true -> a = true /\ b = true.
Proof. apply andb_true_iff. Qed.

Lemma filter_all {A} (f : A -> bool) l : (forall x, In x l -> f x = true) -> filter f l = l.
Proof.
  induction l as [|a r IH]; intros H; cbn [filter]; [reflexivity|].
  rewrite (H a (or_introl eq_refl)). f_equal. apply IH. intros x Hx. apply H. right. exact Hx.
Qed.
Lemma filter_none {A} (f : A -> bool) l : (forall x, In x l -> f x = false) -> filter f l = [].
Proof.
  induction l as [|a r IH]; intros H; cbn [filter]; [reflexivity|].
  rewrite (H a (or_introl eq_refl)). apply IH. intros x Hx. apply H. right. exact Hx.
Qed.

Lemma memz_In c l : memz c l = true <-> In c l.
Proof.
  unfold memz. rewrite existsb_exists. split.
  - intros [x [Hx E]]. apply Z.eqb_eq in E. subst. exact Hx.
  - intros H. exists c. split; [exact H|apply Z.eqb_refl].
Qed.
Lemma memz_false c l : memz c l = false <-> ~ In c l.
Proof. rewrite <- memz_In. destruct (memz c l); split; congruence. Qed.
Lemma memz_dedup c l : memz c (dedup l) = memz c l.
Proof.
  destruct (memz c l) eqn:E.
  - apply memz_In. apply nodup_In. apply memz_In. exact E.
  - apply memz_false. intros H. apply nodup_In in H. apply memz_In in H. congruence.
Qed.

Lemma ssortedb_lt a l : ssortedb (a :: l) = true -> forall x, In x l -> a < x.
Proof.
  revert a. induction l as [|b r IH]; intros a H x Hx; [destruct Hx|].
  cbn [ssortedb] in H. apply andb_split in H. destruct H as [H1 H2]. apply Z.ltb_lt in H1.
  destruct Hx as [->|Hx]; [exact H1|]. specialize (IH b H2 x Hx). lia.
Qed.
Lemma ssortedb_tail a l : ssortedb (a :: l) = true -> ssortedb l = true.
Proof. destruct l; cbn [ssortedb]; [reflexivity|]. intros H. apply andb_split in H. tauto. Qed.

Lemma sort_dedup_sorted l : ssortedb l = true -> sort_dedup l = l.
Proof.
  induction l as [|a r IH]; intros H; [reflexivity|].
  unfold sort_dedup in *. cbn [fold_right]. rewrite (IH (ssortedb_tail _ _ H)).
  destruct r as [|b r']; [reflexivity|].
  cbn [insert_u]. cbn [ssortedb] in H. apply andb_split in H. destruct H as [H1 _]. rewrite H1. reflexivity.
Qed.

(* ------------------------------------------------ the affinity get loop *)
Lemma aff_step f n pid k : aff_get_loop (S f) n pid k =
  match sys_sched_getaffinity pid n k with
  | SOk m => Val m
  | SErr EINVAL => if INT_MAX_HALF <? n then Exc OverflowError else aff_get_loop f (n * 2) pid k
  | SErr e => Exc (wrap e)
  end.
Proof. reflexivity. Qed.
Lemma aff_get_loop_ok pid k p : kget pid k = Some p -> k_nr_cpu_ids k <= 2 ^ 30 ->
  forall f n, 0 < n -> k_nr_cpu_ids k <= n * 2 ^ Z.of_nat f ->
  aff_get_loop (S f) n pid k = Val (p_mask p).
Proof.
  intros Hg Hnr. induction f as [|f IH]; intros n Hn Hb; rewrite aff_step; unfold sys_sched_getaffinity; rewrite Hg.
  - change (2 ^ Z.of_nat 0) with 1 in Hb.
    replace (n <? k_nr_cpu_ids k) with false by (symmetry; apply Z.ltb_ge; lia). reflexivity.
  - destruct (n <? k_nr_cpu_ids k) eqn:E; [|reflexivity].
    apply Z.ltb_lt in E. unfold INT_MAX_HALF.
    replace (1073741823 <? n) with false by (symmetry; apply Z.ltb_ge; change (2 ^ 30) with 1073741824 in Hnr; lia).
    apply IH; [lia|]. rewrite Nat2Z.inj_succ, Z.pow_succ_r in Hb by lia. lia.
Qed.
Lemma c_affinity_get_ok pid k p : kget pid k = Some p -> k_nr_cpu_ids k <= 2 ^ 30 ->
  c_affinity_get pid k = Val (p_mask p).
Proof.
  intros Hg Hnr. unfold c_affinity_get. apply (aff_get_loop_ok pid k p Hg Hnr 39 64); [lia|].
  change (2 ^ 30) with 1073741824 in Hnr. change (64 * 2 ^ Z.of_nat 39) with 35184372088832. lia.
Qed.

(* ------------------------------------------------ valid I/O priorities *)
Lemma ioprio_valid_ok c lvl : 0 <= c <= 3 -> 0 <= lvl <= 7 -> (c = 0 \/ c = 3 -> lvl = 0) ->
  ioprio_pack c lvl = c * 8192 + lvl /\ ioprio_valid (c * 8192 + lvl) = true /\ Z.shiftr (c * 8192 + lvl) 13 = c.
Proof.
  intros Hc Hl H03.
  assert (C : c = 0 \/ c = 1 \/ c = 2 \/ c = 3) by lia.
  assert (L : lvl = 0 \/ lvl = 1 \/ lvl = 2 \/ lvl = 3 \/ lvl = 4 \/ lvl = 5 \/ lvl = 6 \/ lvl = 7) by lia.
  destruct C as [-> | [-> | [-> | ->]]].
  1, 4: rewrite H03 by lia; repeat split; reflexivity.
  all: destruct L as [-> | [-> | [-> | [-> | [-> | [-> | [-> | ->]]]]]]]; repeat split; reflexivity.
Qed.
