(* C18 -- the call forms of the public setters.  Signatures (psutil/__init__.py):
     nice(self, value=None)   ionice(self, ioclass=None, value=None)
     cpu_affinity(self, cpus=None)   rlimit(self, resource, limits=None)
   A call is a list of positional arguments and a list of keyword arguments; Python binds them
   to the parameters; what the method then does is a function of the BOUND values only, and
   "is this a set?" is decided by [is not None] on the bound value -- 0, [] and
   IOPRIO_CLASS_NONE (= 0) are sets. *)
From PV Require Export C18.Handle.

Inductive pyval := PNone | PInt (z : Z) | PList (l : list Z)
                | PIter (s : shape) (l : list Z).   (* an iterable of that shape yielding l *)
Inductive method := MNice | MIonice | MAffinity | MRlimit.
Record call := { c_pos : list pyval; c_kw : list (string * pyval) }.

Definition params (m : method) : list string :=
  match m with
  | MNice => ["value"] | MIonice => ["ioclass"; "value"] | MAffinity => ["cpus"] | MRlimit => ["resource"; "limits"]
  end%string.
Definition required (m : method) : nat := match m with MRlimit => 1%nat | _ => 0%nat end.

Fixpoint kw_get (name : string) (kw : list (string * pyval)) : option pyval :=
  match kw with
  | [] => None
  | (n, v) :: r => if String.eqb n name then Some v else kw_get name r
  end.
Fixpoint kw_dup (kw : list (string * pyval)) : bool :=
  match kw with
  | [] => false
  | (n, _) :: r => match kw_get n r with Some _ => true | None => kw_dup r end
  end.
(* parameters [ps] (the first [npos] of the signature are already taken by positionals) *)
Fixpoint bind_rest (ps : list string) (idx nreq : nat) (kw : list (string * pyval)) : outcome (list pyval) :=
  match ps with
  | [] => Val []
  | p :: r =>
    do rest <- bind_rest r (S idx) nreq kw;
    match kw_get p kw with
    | Some v => Val (v :: rest)
    | None => if (idx <? nreq)%nat then Exc TypeError (* missing required argument *) else Val (PNone :: rest)
    end
  end.
(* Python's argument binding for these signatures; TypeError: too many positionals, unknown
   keyword, a parameter given twice, a required parameter missing *)
Definition bind (m : method) (c : call) : outcome (list pyval) :=
  let ps := params m in
  let np := length (c_pos c) in
  if (length ps <? np)%nat then Exc TypeError
  else if kw_dup (c_kw c) then Exc TypeError        (* a syntax error in a literal call *)
  else if existsb (fun nv => negb (existsb (String.eqb (fst nv)) (skipn np ps))) (c_kw c) then Exc TypeError
  else do rest <- bind_rest (skipn np ps) np (required m) (c_kw c); Val (c_pos c ++ rest).

Definition opt_int (v : pyval) : outcome (option Z) :=
  match v with PNone => Val None | PInt z => Val (Some z) | _ => OutOfModel end.
(* the bound values as a request ([option] = "is not None") *)
Definition to_req (m : method) (vals : list pyval) : outcome req :=
  match m, vals with
  | MNice, [v] => do x <- opt_int v; Val (Nice x)
  | MIonice, [c; v] => do x <- opt_int c; do y <- opt_int v; Val (Ionice x y)
  | MAffinity, [PNone] => Val (Affinity None)
  | MAffinity, [PList l] => Val (Affinity (Some l))
  | MAffinity, [PIter sh l] => Val (AffinityIt sh l)
  | MRlimit, [PInt res; PNone] => Val (Rlimit res None)
  | MRlimit, [PInt res; PList l] => Val (Rlimit res (Some l))
  | MRlimit, [PInt res; PInt v] => Val (RlimitScalar res v)
  | MRlimit, [PInt res; PIter sh l] =>      (* len() of an iterator object: TypeError, like a scalar *)
    if oneshot sh then Val (RlimitScalar res 0) else Val (Rlimit res (Some l))
  | _, _ => OutOfModel
  end.

(* a public call, in whatever form, through a handle *)
Definition pcall (h : handle) (occ : occupant) (m : method) (c : call) (k : kernel)
  : outcome (outcome resv * kernel * handle * bool) :=
  do vals <- bind m c; do r <- to_req m vals; Val (hcall h occ r k).

(* which bound argument decides between the get and the set form *)
Definition deciding (m : method) (vals : list pyval) : pyval :=
  match m, vals with
  | MNice, [v] => v
  | MIonice, [c; _] => c
  | MAffinity, [v] => v
  | MRlimit, [_; l] => l
  | _, _ => PNone
  end.
Definition is_none (v : pyval) : bool := match v with PNone => true | _ => false end.
