(* C18 -- the guard in front of the setters, for Process and Popen handles. *)
From PV Require Import C18.Handle C18.Proofs C18.ProofsReq C18.ProofsElig.
Require Import Lia.

(* the pid is occupied by somebody else: no set form reaches the platform layer *)
Theorem recycled_no_syscall h st r k : guarded r = true -> st <> h_ident h ->
  exists h', hcall h (Some st) r k = (Exc NoSuchProcess, k, h', false).
Proof.
  intros Hg Hne. unfold hcall. rewrite Hg. unfold guard.
  destruct (h_gone h) eqn:G, (h_reused h) eqn:R; cbn [andb negb orb]; try (eexists; reflexivity).
  unfold is_running. rewrite G, R. cbn [orb].
  replace (st =? h_ident h) with false by (symmetry; apply Z.eqb_neq; exact Hne).
  cbn [negb andb h_reused with_flags]. eexists. reflexivity.
Qed.

(* once a handle has written its process off, nothing reaches the platform layer either *)
Theorem written_off_no_syscall h occ r k : guarded r = true -> h_gone h = true \/ h_reused h = true ->
  hcall h occ r k = (Exc NoSuchProcess, k, h, false).
Proof.
  intros Hg Hf. unfold hcall. rewrite Hg. unfold guard.
  destruct (h_gone h) eqn:G, (h_reused h) eqn:R; cbn [andb negb]; try reflexivity.
  destruct Hf; discriminate.
Qed.

(* same occupant, nothing written off: the call is the plain one *)
Theorem same_occupant_transparent h r k : h_gone h = false -> h_reused h = false ->
  hcall h (Some (h_ident h)) r k = (fst (run_req (h_pid h) r k), snd (run_req (h_pid h) r k), h, true).
Proof.
  intros G R. unfold hcall, guard, is_running. rewrite G, R, Z.eqb_refl. cbn [andb negb orb].
  destruct (guarded r); destruct (run_req (h_pid h) r k); reflexivity.
Qed.

Lemma pl_absent pid l k : kget pid k = None -> pl_cpu_affinity_set pid l k = (Exc NoSuchProcess, k).
Proof.
  intros Hg.
  assert (D : forall l' b, diagnose pid l' b k = Exc NoSuchProcess).
  { intros l' b. unfold diagnose, get_eligible_cpus. rewrite Hg. reflexivity. }
  unfold pl_cpu_affinity_set, sys_sched_setaffinity. rewrite Hg.
  destruct (c_build_set l) as [s|e|] eqn:E; [reflexivity| |].
  - unfold c_build_set in E. repeat match type of E with (if ?b then _ else _) = _ => destruct b end; try discriminate;
      injection E as <-; rewrite D; reflexivity.
  - unfold c_build_set in E. repeat match type of E with (if ?b then _ else _) = _ => destruct b end; discriminate.
Qed.

(* nobody under the pid: whatever a call does, the kernel state stays as it was *)
Lemma run_req_absent pid r k : kget pid k = None -> snd (run_req pid r k) = k.
Proof.
  intros Hg. destruct r as [v|c v|cpus|sh items|res lim|res sv]; unfold run_req.
  - unfold nice, c_setpriority, sys_setpriority. rewrite Hg. destruct v as [v|]; [|reflexivity]. destruct (fits_int v); reflexivity.
  - unfold ionice, ionice_set, c_ioprio_set, sys_ioprio_set. rewrite Hg.
    destruct c as [c|]; [|destruct v; reflexivity].
    repeat match goal with |- context [if ?b then _ else _] => destruct b end; reflexivity.
  - unfold cpu_affinity. destruct cpus as [[|c cs]|]; [| |reflexivity]; rewrite (pl_absent _ _ _ Hg); reflexivity.
  - unfold cpu_affinity_it. destruct (negb (truthy _)); [|destruct (iterate _)]; rewrite (pl_absent _ _ _ Hg); reflexivity.
  - unfold rlimit, py_prlimit, sys_prlimit_get, sys_prlimit_set. rewrite Hg.
    destruct (pid =? 0); [reflexivity|]. destruct lim as [l|].
    + destruct (negb (length l =? 2)%nat); [reflexivity|].
      destruct (negb (fits_int res)); [reflexivity|]. destruct (negb (res_ok res)); [reflexivity|].
      destruct l as [|s [|hh [|x t]]]; try reflexivity. destruct (fits_long s && fits_long hh); reflexivity.
    + destruct (negb (fits_int res)); [reflexivity|]. destruct (negb (res_ok res)); reflexivity.
  - unfold rlimit_scalar. destruct (pid =? 0); reflexivity.
Qed.

Theorem gone_nothing_changes h r k : kget (h_pid h) k = None ->
  snd (fst (fst (hcall h None r k))) = k.
Proof.
  intros Hg. unfold hcall. destruct (guarded r).
  - destruct (guard h None) as [raises h']. destruct raises; [reflexivity|].
    pose proof (run_req_absent (h_pid h) r k Hg) as H. destruct (run_req (h_pid h) r k). exact H.
  - pose proof (run_req_absent (h_pid h) r k Hg) as H. destruct (run_req (h_pid h) r k). exact H.
Qed.

(* ... and nice / cpu_affinity answer NoSuchProcess (the other two may object to their arguments first) *)
Theorem gone_nosuchprocess h k : kget (h_pid h) k = None ->
  (forall v, fits_int v = true -> fst (fst (fst (hcall h None (Nice (Some v)) k))) = Exc NoSuchProcess)
  /\ (forall cpus, fst (fst (fst (hcall h None (Affinity (Some cpus)) k))) = Exc NoSuchProcess)
  /\ (forall sh items, fst (fst (fst (hcall h None (AffinityIt sh items) k))) = Exc NoSuchProcess).
Proof.
  intros Hg. split; [|split].
  - intros v Hv. unfold hcall. cbn [guarded]. destruct (guard h None) as [raises h']. destruct raises; [reflexivity|].
    unfold run_req, nice, c_setpriority, sys_setpriority. rewrite Hv, Hg. reflexivity.
  - intros cpus. unfold hcall. cbn [guarded]. destruct (guard h None) as [raises h']. destruct raises; [reflexivity|].
    unfold run_req, cpu_affinity. destruct cpus as [|c cs]; rewrite (pl_absent _ _ _ Hg); reflexivity.
  - intros sh items. unfold hcall. cbn [guarded]. destruct (guard h None) as [raises h']. destruct raises; [reflexivity|].
    unfold run_req, cpu_affinity_it. destruct (negb (truthy _)); [|destruct (iterate _)]; rewrite (pl_absent _ _ _ Hg); reflexivity.
Qed.

(* the specification used as the oracle for handle histories is met by the model *)
Theorem hcall_meets_spec h occ r k exp : wf_kernelb k = true ->
  (forall st, occ = Some st -> exists p, kget (h_pid h) k = Some p /\ wf_procb k p = true) ->
  (occ = None -> kget (h_pid h) k = None) -> h_pid h <> 0 ->
  spec_hcall h occ r k = Some exp ->
  fst (fst (hcall h occ r k)) = exp.
Proof.
  intros Hk Hocc Hnone Hpid. unfold spec_hcall. destruct occ as [st|].
  - destruct (Hocc st eq_refl) as [p [Hg Hwf]]. destruct (st =? h_ident h) eqn:E.
    + apply Z.eqb_eq in E. subst st. destruct (h_gone h) eqn:G, (h_reused h) eqn:R; cbn [orb]; try discriminate.
      intros Hs. rewrite (same_occupant_transparent h r k G R). cbn [fst].
      rewrite (model_meets_spec k (h_pid h) p r exp Hk Hg Hwf Hpid Hs). destruct exp; reflexivity.
    + apply Z.eqb_neq in E. destruct (guarded r) eqn:Gd; [|discriminate]. intros [= <-].
      destruct (recycled_no_syscall h st r k Gd E) as [h' ->]. reflexivity.
  - specialize (Hnone eq_refl). destruct (guarded r) eqn:Gd; [|discriminate].
    destruct (gone_nosuchprocess h k Hnone) as [N [A AI]]. pose proof (gone_nothing_changes h r k Hnone) as U.
    destruct r as [[v|]|c v|[cpus|]|sh items|res lim|res sv]; try discriminate.
    + destruct (fits_int v) eqn:F; [|discriminate]. intros [= <-]. specialize (N v F).
      destruct (hcall h None (Nice (Some v)) k) as [[[o k'] h'] b]. cbn [fst snd] in *. subst. reflexivity.
    + intros [= <-]. specialize (A cpus).
      destruct (hcall h None (Affinity (Some cpus)) k) as [[[o k'] h'] b]. cbn [fst snd] in *. subst. reflexivity.
    + intros [= <-]. specialize (AI sh items).
      destruct (hcall h None (AffinityIt sh items) k) as [[[o k'] h'] b]. cbn [fst snd] in *. subst. reflexivity.
Qed.

(* ------------------------------------------------ the caller's pid is irrelevant *)
Theorem caller_irrelevant c1 c2 h occ r k : h_pid h <> 0 -> hcall_as c1 h occ r k = hcall_as c2 h occ r k.
Proof.
  intros H. unfold hcall_as, resolve. replace (h_pid h =? 0) with false by (symmetry; apply Z.eqb_neq; exact H). reflexivity.
Qed.
Theorem hcall_as_is_hcall c h occ r k : h_pid h <> 0 ->
  fst (fst (fst (hcall_as c h occ r k))) = fst (fst (fst (hcall h occ r k)))
  /\ snd (fst (fst (hcall_as c h occ r k))) = snd (fst (fst (hcall h occ r k))).
Proof.
  intros H. unfold hcall_as, resolve. replace (h_pid h =? 0) with false by (symmetry; apply Z.eqb_neq; exact H).
  unfold with_flags. cbn [h_class h_pid h_ident h_gone h_reused h_reaped]. destruct h. split; reflexivity.
Qed.

(* a forked child (pid 1001, nice 3) using the handle its parent (pid 1000, nice 0) created for itself:
   the code acts on 1000; the "own process" shortcut would read and change 1001 *)
Definition fk_p (nice : Z) : proc :=
  {| p_nice := nice; p_ioprio := 0; p_mask := [0; 1]; p_elig := [0; 1]; p_rlim := repeat (RLIM_INFINITY, RLIM_INFINITY) 16 |}.
Definition fk_k : kernel :=
  {| k_procs := [(1000, fk_p 0); (1001, fk_p 3)]; k_ncpu := 2; k_nr_cpu_ids := 64; k_cap_nice := true; k_cap_admin := true;
     k_cap_resource := true; k_nr_open := 1048576; k_ioget_effective := false |}.
Definition fk_h : handle := {| h_class := HProcess; h_pid := 1000; h_ident := 7; h_gone := false; h_reused := false; h_reaped := NotReaped |}.
Example fork_shortcut_refuted :
  fst (fst (fst (hcall_as 1001 fk_h (Some 7) (Nice None) fk_k))) = Val (RInt 0)
  /\ fst (fst (fst (hcall_own_shortcut 1001 true fk_h (Some 7) (Nice None) fk_k))) = Val (RInt 3)
  /\ kget 1001 (snd (fst (fst (hcall_as 1001 fk_h (Some 7) (Nice (Some 5)) fk_k)))) = Some (fk_p 3)
  /\ kget 1000 (snd (fst (fst (hcall_as 1001 fk_h (Some 7) (Nice (Some 5)) fk_k)))) = Some (fk_p 5)
  /\ kget 1001 (snd (fst (fst (hcall_own_shortcut 1001 true fk_h (Some 7) (Nice (Some 5)) fk_k)))) = Some (fk_p 5).
Proof. repeat split; vm_compute; reflexivity. Qed.
