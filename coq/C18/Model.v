(* C18 -- model of psutil's nice / ionice / cpu_affinity / rlimit, transcribed from
   psutil/__init__.py (Process.nice, ionice, rlimit, cpu_affinity),
   psutil/_pslinux.py (nice_get/set, cpu_affinity_get/set, _get_eligible_cpus,
   ionice_get/set, rlimit; wrap_exceptions folded in: ESRCH -> NoSuchProcess,
   EPERM -> AccessDenied, other errno -> OSError),
   psutil/arch/linux/proc.c (ioprio pack/unpack, affinity get loop, sequence -> cpu_set_t),
   psutil/_psutil_posix.c (getpriority errno protocol, setpriority),
   and CPython's resource.prlimit argument rules.
   The native calls end in the system calls of C18/Kernel.v.
   Assumed and not modelled: Process._raise_if_pid_reused() passes (the process is
   the one the object was created for; C01/C02 cover that layer). *)
From PV Require Export C18.Kernel.

Inductive resv := RNone | RInt (z : Z) | RPair (a b : Z) | RList (l : list Z).

(* the shape of the [cpus] argument of cpu_affinity: containers that can be traversed again
   and again, and one-shot iterables (an iterator, a generator, map(), itertools.chain, a
   file-like line iterator) whose second traversal yields nothing *)
Inductive shape := SList | STuple | SSet | SFrozenset | SRange | SDictKeys
                 | SIter | SGenerator | SMap | SChain | SLines.
Definition oneshot (s : shape) : bool :=
  match s with SIter | SGenerator | SMap | SChain | SLines => true | _ => false end.

(* the public calls: None = argument omitted *)
Inductive req :=
| Nice (value : option Z)
| Ionice (ioclass value : option Z)
| Affinity (cpus : option (list Z))
| AffinityIt (s : shape) (items : list Z)   (* cpu_affinity(<iterable of that shape yielding items>) *)
| Rlimit (res : Z) (limits : option (list Z))
| RlimitScalar (res v : Z).      (* rlimit(res, v) with an int instead of a sequence *)

Definition wrap (e : errno) : exn :=
  match e with ESRCH => NoSuchProcess | EPERM | EACCES => AccessDenied | EINVAL => OSError end.
(* the psutil exceptions built by wrap_exceptions carry the pid of the Process object *)
Definition exc_pid (pid : Z) (e : exn) : option Z :=
  match e with NoSuchProcess | AccessDenied | ZombieProcess => Some pid | _ => None end.
Definition fits_int (v : Z) : bool := (-2147483648 <=? v) && (v <=? 2147483647).
Definition fits_long (v : Z) : bool := (- 2 ^ 63 <=? v) && (v <? 2 ^ 63).

(* ---------------------------------------------------------------- nice *)
(* psutil_posix_getpriority: errno = 0; r = getpriority(); if (errno != 0) OSError; else r *)
Definition c_getpriority (pid : Z) (k : kernel) : outcome Z :=
  let '(r, e) := libc_getpriority pid k in
  match e with Some e => Exc (wrap e) | None => Val r end.
(* psutil_posix_setpriority: "i" conversion, retval == -1 -> OSError *)
Definition c_setpriority (pid v : Z) (k : kernel) : outcome resv * kernel :=
  if fits_int v then
    match sys_setpriority pid v k with
    | (SOk _, k') => (Val RNone, k')
    | (SErr e, _) => (Exc (wrap e), k)
    end
  else (Exc OverflowError, k).
Definition nice (pid : Z) (value : option Z) (k : kernel) : outcome resv * kernel :=
  match value with
  | None => (omap RInt (c_getpriority pid k), k)
  | Some v => c_setpriority pid v k
  end.

(* ---------------------------------------------------------------- ionice *)
(* proc.c: ioprio = (int)(((unsigned int)ioclass << 13) | (unsigned int)iodata) *)
Definition u32 (v : Z) : Z := v mod 2 ^ 32.
Definition s32 (v : Z) : Z := if v <? 2 ^ 31 then v else v - 2 ^ 32.
Definition ioprio_pack (cls data : Z) : Z := s32 (Z.lor (u32 (u32 cls * 8192)) (u32 data)).
Definition ioprio_unpack (raw : Z) : Z * Z := (Z.shiftr raw 13, Z.land raw 8191).

Definition c_ioprio_set (pid cls data : Z) (k : kernel) : outcome resv * kernel :=
  if fits_int cls && fits_int data then
    match sys_ioprio_set pid (ioprio_pack cls data) k with
    | (SOk _, k') => (Val RNone, k')
    | (SErr e, _) => (Exc (wrap e), k)
    end
  else (Exc OverflowError, k).
(* _pslinux.ionice_get: cext.proc_ioprio_get, IOPriority(ioclass) *)
Definition ionice_get (pid : Z) (k : kernel) : outcome resv :=
  match sys_ioprio_get pid k with
  | SErr e => Exc (wrap e)
  | SOk raw =>
    let '(cls, data) := ioprio_unpack raw in
    if (0 <=? cls) && (cls <=? 3) then Val (RPair cls data) else Exc ValueError
  end.
(* _pslinux.ionice_set *)
Definition ionice_set (pid cls : Z) (value : option Z) (k : kernel) : outcome resv * kernel :=
  let v := match value with None => 0 | Some v => v end in
  if negb (v =? 0) && ((cls =? 3) || (cls =? 0)) then (Exc ValueError, k)
  else if (v <? 0) || (7 <? v) then (Exc ValueError, k)
  else if negb ((0 <=? cls) && (cls <=? 3)) then (Exc ValueError, k)   (* "invalid ioclass" *)
  else c_ioprio_set pid cls v k.
(* Process.ionice *)
Definition ionice (pid : Z) (ioclass value : option Z) (k : kernel) : outcome resv * kernel :=
  match ioclass with
  | None => match value with
            | Some _ => (Exc ValueError, k)
            | None => (ionice_get pid k, k)
            end
  | Some c => ionice_set pid c value k
  end.

(* ---------------------------------------------------------------- cpu_affinity *)
Definition INT_MAX_HALF : Z := 1073741823.
(* psutil_proc_cpu_affinity_get: ncpus = 64; double until the kernel accepts the size *)
Fixpoint aff_get_loop (fuel : nat) (ncpus pid : Z) (k : kernel) : outcome (list Z) :=
  match fuel with
  | O => OutOfModel
  | S f =>
    match sys_sched_getaffinity pid ncpus k with
    | SOk m => Val m
    | SErr EINVAL => if INT_MAX_HALF <? ncpus then Exc OverflowError else aff_get_loop f (ncpus * 2) pid k
    | SErr e => Exc (wrap e)
    end
  end.
Definition c_affinity_get (pid : Z) (k : kernel) : outcome (list Z) := aff_get_loop 40 64 pid k.

(* sorted(set(l)) *)
Fixpoint insert_u (x : Z) (l : list Z) : list Z :=
  match l with
  | [] => [x]
  | y :: r => if x <? y then x :: l else if x =? y then l else y :: insert_u x r
  end.
Definition sort_dedup (l : list Z) : list Z := fold_right insert_u [] l.
(* list(set(l)): members once; the order never influences a modelled result *)
Definition dedup (l : list Z) : list Z := nodup Z.eq_dec l.

(* range(a, b) *)
Fixpoint zrange_n (a : Z) (n : nat) : list Z :=
  match n with O => [] | S m => a :: zrange_n (a + 1) m end.
Definition zrange (a b : Z) : list Z := zrange_n a (Z.to_nat (b - a)).


Fixpoint drop_prefix (p l : bytes) : option bytes :=
  match p with
  | [] => Some l
  | a :: p' => match l with
               | [] => None
               | b :: l' => if a =? b then drop_prefix p' l' else None
               end
  end.

(* re.compile(br"(?m)^Cpus_allowed_list:\t([\d,-]+)$").search(data): the first line that is
   exactly the key followed by a non-empty run of digits, commas and dashes *)
Definition is_listc (c : Z) : bool := is_digit c || (c =? 44) || (c =? 45).
Fixpoint find_list_line (ls : list bytes) : option bytes :=
  match ls with
  | [] => None
  | l :: r =>
    match drop_prefix status_lit l with
    | Some (c :: v) => if forallb is_listc (c :: v) then Some (c :: v) else find_list_line r
    | _ => find_list_line r
    end
  end.
(* item.partition(b"-") -> (first, last) *)
Fixpoint partition_dash (l : bytes) : bytes * bytes :=
  match l with
  | [] => ([], [])
  | c :: r => if c =? 45 then ([], r) else let (a, b) := partition_dash r in (c :: a, b)
  end.
(* range(int(first), int(last or first) + 1) *)
Definition parse_item (item : bytes) : outcome (list Z) :=
  let (first, last) := partition_dash item in
  do a <- py_int first;
  do b <- py_int (match last with [] => first | _ => last end);
  Val (zrange a (b + 1)).

(* the body of _get_eligible_cpus on the bytes of the status file *)
Definition parse_status (data : bytes) (ncpu : Z) : outcome (list Z) :=
  match find_list_line (split_on 10 data) with
  | Some v =>
    if contains 45 v
    then do ls <- mapM parse_item (split_on 44 v); Val (concat ls)
    else Val (zrange 0 ncpu)
  | None => Val (zrange 0 ncpu)
  end.
(* _pslinux.Process._get_eligible_cpus *)
Definition get_eligible_cpus (pid : Z) (k : kernel) : outcome (list Z) :=
  match kget pid k with
  | None => Exc NoSuchProcess
  | Some p => parse_status (k_status p) (k_ncpu k)
  end.

(* CPU_SET(value, &cpu_set) with [long value]: the macro converts to size_t and sets the bit only
   if it lies inside the 1024-bit cpu_set_t; the value is NOT narrowed to an int first, so
   2^31, 2^32, 2^32+k, 2^62 ... name no CPU at all (negative longs become huge size_t values) *)
Definition cpu_set_bit (v : Z) : bool := (0 <=? v) && (v <? 1024).
Definition c_build_set (l : list Z) : outcome (list Z) :=
  if existsb (fun v => v =? -1) l then Exc ValueError
  else if existsb (fun v => negb (fits_long v)) l then Exc OverflowError
  else Val (filter cpu_set_bit l).

(* _pslinux.cpu_affinity_set: diagnosis after ValueError / OverflowError / EINVAL *)
Definition diagnose (pid : Z) (cpus : list Z) (err_is_value : bool) (k : kernel) : outcome resv :=
  match get_eligible_cpus pid k with
  | Val eligible =>
    let all_cpus := zrange 0 (k_ncpu k) in
    if existsb (fun c => negb (memz c all_cpus) || negb (memz c eligible)) cpus
    then Exc ValueError                       (* "invalid CPU" / "is not eligible" *)
    else if err_is_value then Exc ValueError  (* bare raise of the ValueError *)
    else Exc ValueError                       (* "none of the CPUs ... is eligible" *)
  | Exc e => Exc e
  | OutOfModel => OutOfModel
  end.
Definition pl_cpu_affinity_set (pid : Z) (cpus : list Z) (k : kernel) : outcome resv * kernel :=
  match c_build_set cpus with
  | Exc ValueError => (diagnose pid cpus true k, k)
  | Exc OverflowError => (diagnose pid cpus false k, k)
  | Exc e => (Exc e, k)
  | OutOfModel => (OutOfModel, k)
  | Val set =>
    match sys_sched_setaffinity pid set k with
    | (SOk _, k') => (Val RNone, k')
    | (SErr EINVAL, _) => (diagnose pid cpus false k, k)
    | (SErr e, _) => (Exc (wrap e), k)
    end
  end.
(* Process.cpu_affinity; on Linux [] names every CPU of a cpu_set_t and the kernel clips *)
Definition cpu_affinity (pid : Z) (cpus : option (list Z)) (k : kernel) : outcome resv * kernel :=
  match cpus with
  | None => (omap (fun m => RList (sort_dedup m)) (c_affinity_get pid k), k)
  | Some [] => pl_cpu_affinity_set pid (dedup (zrange 0 1024)) k
  | Some l => pl_cpu_affinity_set pid (dedup l) k
  end.

(* an iterable argument: what it yields on its first traversal, and whether that happened *)
Record iterarg := { a_shape : shape; a_items : list Z; a_consumed : bool }.
Definition iterate (a : iterarg) : list Z * iterarg :=
  if oneshot (a_shape a)
  then ((if a_consumed a then [] else a_items a), {| a_shape := a_shape a; a_items := a_items a; a_consumed := true |})
  else (a_items a, a).
(* bool(arg): sized containers are falsy when empty; iterator objects are always truthy *)
Definition truthy (a : iterarg) : bool :=
  if oneshot (a_shape a) then true else match a_items a with [] => false | _ => true end.
(* Process.cpu_affinity(cpus) on an iterable: [if not cpus] does not traverse it,
   [list(set(cpus))] traverses it once; the platform layer gets a list *)
Definition cpu_affinity_it (pid : Z) (a : iterarg) (k : kernel) : outcome resv * kernel :=
  if negb (truthy a) then pl_cpu_affinity_set pid (dedup (zrange 0 1024)) k
  else let (items, _) := iterate a in pl_cpu_affinity_set pid (dedup items) k.

(* ---------------------------------------------------------------- rlimit *)
(* resource.prlimit(pid, resource[, limits]) of CPython over prlimit(2).  (psutil has no C
   wrapper of its own here.)  py2rlimit: PyLong_AsLongLong (OverflowError outside a C long long)
   then the cast to rlim_t, so -1 becomes RLIM_INFINITY = 2^64-1; rlimit2py: values above
   LLONG_MAX are shown as the negative long long with the same bits. *)
Definition u64 (v : Z) : Z := if v <? 0 then v + 2 ^ 64 else v.
Definition rlim2py (u : Z) : Z := if 2 ^ 63 <=? u then u - 2 ^ 64 else u.
Definition py_prlimit (pid res : Z) (limits : option (list Z)) (k : kernel) : outcome resv * kernel :=
  if negb (fits_int res) then (Exc OverflowError, k)
  else if negb (res_ok res) then (Exc ValueError, k)
  else match limits with
       | None => match sys_prlimit_get pid res k with
                 | SOk (s, h) => (Val (RPair (rlim2py s) (rlim2py h)), k)
                 | SErr EINVAL => (Exc ValueError, k)
                 | SErr e => (Exc (wrap e), k)
                 end
       | Some [s; h] =>
         if fits_long s && fits_long h then
           match sys_prlimit_set pid res (u64 s) (u64 h) k with
           | (SOk _, k') => (Val RNone, k')
           | (SErr EINVAL, _) => (Exc ValueError, k)
           | (SErr e, _) => (Exc (wrap e), k)
           end
         else (Exc OverflowError, k)
       | Some _ => (Exc ValueError, k)
       end.
(* _pslinux.Process.rlimit *)
Definition rlimit (pid res : Z) (limits : option (list Z)) (k : kernel) : outcome resv * kernel :=
  if pid =? 0 then (Exc ValueError, k)
  else match limits with
       | None => py_prlimit pid res None k
       | Some l => if negb (length l =? 2)%nat then (Exc ValueError, k)
                   else py_prlimit pid res (Some l) k
       end.
(* len(limits) on an int: TypeError, before any system call *)
Definition rlimit_scalar (pid res v : Z) (k : kernel) : outcome resv * kernel :=
  if pid =? 0 then (Exc ValueError, k) else (Exc TypeError, k).

Definition run_req (pid : Z) (r : req) (k : kernel) : outcome resv * kernel :=
  match r with
  | Nice v => nice pid v k
  | Ionice c v => ionice pid c v k
  | Affinity cpus => cpu_affinity pid cpus k
  | AffinityIt sh items => cpu_affinity_it pid {| a_shape := sh; a_items := items; a_consumed := false |} k
  | Rlimit res lim => rlimit pid res lim k
  | RlimitScalar res v => rlimit_scalar pid res v k
  end.
