(* C18 -- the handle layer in front of the setters: psutil.Process and its subclass
   psutil.Popen (psutil/__init__.py: Process._init, __eq__ on _ident, is_running,
   _raise_if_pid_reused, the guard calls at the head of nice/ionice/rlimit/cpu_affinity;
   Popen: __init__ with _ignore_nsp, wait, delegation of poll/communicate/__enter__/__exit__
   to subprocess.Popen).  A handle remembers the process it was created for by
   (pid, start time); the kernel may meanwhile show nobody or somebody else under that pid.
   Transcribed at /repo 671469c: Popen overrides neither is_running nor the guard, and
   collecting the exit status (by whatever way) sets neither _gone nor _pid_reused. *)
From PV Require Export C18.Spec.

Inductive hclass := HProcess | HPopen.
(* how the exit status of the child was collected through the handle, if at all *)
Inductive reap := NotReaped | ByWait | ByPoll | ByCommunicate | ByWith.

Record handle := {
  h_class : hclass;
  h_pid : Z;
  h_ident : Z;        (* start time of the process the handle was created for *)
  h_gone : bool;      (* _gone *)
  h_reused : bool;    (* _pid_reused *)
  h_reaped : reap }.  (* subprocess returncode / _exitcode set, and how *)

Definition with_flags (g r : bool) (h : handle) : handle :=
  {| h_class := h_class h; h_pid := h_pid h; h_ident := h_ident h; h_gone := g; h_reused := r; h_reaped := h_reaped h |}.

(* what /proc shows under the pid now: nobody, or a process with that start time *)
Definition occupant := option Z.

(* Process.is_running (same code for both classes) *)
Definition is_running (h : handle) (occ : occupant) : bool * handle :=
  if h_gone h || h_reused h then (false, h)
  else match occ with
       | None => (false, with_flags true (h_reused h) h)          (* Process(pid) -> NoSuchProcess *)
       | Some st => if st =? h_ident h then (true, h)
                    else (false, with_flags true true h)           (* self != other *)
       end.

(* Process._raise_if_pid_reused: true = raises NoSuchProcess *)
Definition guard (h : handle) (occ : occupant) : bool * handle :=
  if h_gone h && negb (h_reused h) then (true, h)
  else if h_reused h then (true, h)
  else let '(r, h') := is_running h occ in (negb r && h_reused h', h').

(* the forms that call the guard first (ionice(None, v) fails on its arguments before it) *)
Definition guarded (r : req) : bool :=
  match r with
  | Nice (Some _) | Ionice (Some _) _ | Affinity (Some _) | AffinityIt _ _ | Rlimit _ (Some _) | RlimitScalar _ _ => true
  | _ => false
  end.

(* one public call through a handle: (answer, kernel afterwards, handle afterwards,
   whether the platform layer -- and with it any system call -- was entered at all) *)
Definition hcall (h : handle) (occ : occupant) (r : req) (k : kernel) : outcome resv * kernel * handle * bool :=
  if guarded r then
    let '(raises, h') := guard h occ in
    if raises then (Exc NoSuchProcess, k, h', false)
    else let '(o, k') := run_req (h_pid h) r k in (o, k', h', true)
  else let '(o, k') := run_req (h_pid h) r k in (o, k', h, true).

(* ------------------------------------------------ what the property demands *)
(* "set changes exactly that [process]": when the pid's occupant is not the process the handle
   was created for, a set form must not reach the kernel and nothing may change; NoSuchProcess.
   With the same occupant the demands of [spec_req] apply. *)
Definition spec_hcall (h : handle) (occ : occupant) (r : req) (k : kernel) : option (outcome resv * kernel) :=
  match occ with
  | Some st =>
    if st =? h_ident h then
      if h_gone h || h_reused h then None      (* a handle that already wrote its process off: not a reachable history *)
      else spec_req (h_pid h) r k
    else if guarded r then Some (Exc NoSuchProcess, k) else None
  | None =>
    if guarded r then
      match r with
      | Nice (Some v) => if fits_int v then Some (Exc NoSuchProcess, k) else None
      | Affinity (Some _) | AffinityIt _ _ => Some (Exc NoSuchProcess, k)
      | _ => None        (* argument errors may come first; the kernel is demanded unchanged by the theorem *)
      end
    else None
  end.

(* ------------------------------------------------ who is calling does not matter *)
(* The kernel resolves a pid argument of 0 to the CALLING process.  psutil always passes the
   handle's pid ([h_pid], never 0 for a real process), so a call through a handle acts on that
   pid whoever the caller is -- e.g. a child forked after the handle was created for the parent's
   own pid.  [hcall_as caller] is the call as issued by the process [caller]. *)
Definition resolve (caller pid : Z) : Z := if pid =? 0 then caller else pid.
Definition hcall_as (caller : Z) (h : handle) (occ : occupant) (r : req) (k : kernel) :=
  hcall (with_flags (h_gone h) (h_reused h)
           {| h_class := h_class h; h_pid := resolve caller (h_pid h); h_ident := h_ident h;
              h_gone := h_gone h; h_reused := h_reused h; h_reaped := h_reaped h |}) occ r k.
(* NOT the code: a handle that remembers "I was created for my own process" and then lets the
   kernel pick the calling process (pid 0 / getrlimit / getpriority(0) ...) *)
Definition hcall_own_shortcut (caller : Z) (created_for_self : bool) (h : handle) (occ : occupant) (r : req) (k : kernel) :=
  hcall_as caller (if created_for_self
                   then {| h_class := h_class h; h_pid := 0; h_ident := h_ident h; h_gone := h_gone h;
                           h_reused := h_reused h; h_reaped := h_reaped h |}
                   else h) occ r k.
