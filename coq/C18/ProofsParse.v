(* C18 -- the Cpus_allowed_list parser of _get_eligible_cpus on every kernel-printed list,
   with arbitrary text before and after the line. *)
From PV Require Import C18.Spec C18.Proofs C18.ProofsReq C18.ProofsElig.
Require Import Lia.

(* ------------------------------------------------ decimal printer *)
Lemma dec_val_snoc l d : dec_val (l ++ [d]) = dec_val l * 10 + (d - 48).
Proof. unfold dec_val. rewrite fold_left_app. reflexivity. Qed.

Lemma pr_dec_aux_spec : forall fuel n, 0 <= n < 10 ^ Z.of_nat fuel -> (0 < fuel)%nat ->
  all_digits (pr_dec_aux fuel n) = true /\ pr_dec_aux fuel n <> [] /\ dec_val (pr_dec_aux fuel n) = n.
Proof.
  induction fuel as [|f IH]; intros n Hn Hf; [lia|].
  cbn [pr_dec_aux]. destruct (n <? 10) eqn:E.
  - apply Z.ltb_lt in E. split; [|split].
    + cbn [all_digits forallb]. unfold is_digit.
      replace (48 <=? 48 + n) with true by (symmetry; apply Z.leb_le; lia).
      replace (48 + n <=? 57) with true by (symmetry; apply Z.leb_le; lia). reflexivity.
    + discriminate.
    + unfold dec_val. cbn [fold_left]. unfold dec_step. lia.
  - apply Z.ltb_ge in E.
    assert (Hf0 : (0 < f)%nat).
    { destruct f; [|lia]. change (10 ^ Z.of_nat 1) with 10 in Hn. lia. }
    assert (Hq : 0 <= n / 10 < 10 ^ Z.of_nat f).
    { split; [apply Z.div_pos; lia|]. apply Z.div_lt_upper_bound; [lia|].
      rewrite Nat2Z.inj_succ, Z.pow_succ_r in Hn by lia. lia. }
    destruct (IH (n / 10) Hq Hf0) as [A [B C]].
    assert (Hm : 0 <= n mod 10 < 10) by (apply Z.mod_pos_bound; lia).
    split; [|split].
    + unfold all_digits in *. rewrite forallb_app, A. cbn [forallb]. unfold is_digit.
      replace (48 <=? 48 + n mod 10) with true by (symmetry; apply Z.leb_le; lia).
      replace (48 + n mod 10 <=? 57) with true by (symmetry; apply Z.leb_le; lia). reflexivity.
    + intros H. apply app_eq_nil in H. destruct H as [_ H]. discriminate.
    + rewrite dec_val_snoc, C. pose proof (Z.div_mod n 10). lia.
Qed.

Definition cpu_bound : Z := 10 ^ 20.
Lemma pr_dec_spec n : 0 <= n < cpu_bound ->
  all_digits (pr_dec n) = true /\ pr_dec n <> [] /\ dec_val (pr_dec n) = n.
Proof. intros H. apply pr_dec_aux_spec; [exact H|lia]. Qed.

Lemma digits_contains d x : all_digits d = true -> is_digit x = false -> contains x d = false.
Proof.
  intros Hd Hx. induction d as [|c d IH]; [reflexivity|].
  unfold all_digits in Hd. cbn [forallb] in Hd. apply andb_split in Hd. destruct Hd as [H1 H2].
  rewrite contains_cons, (IH H2), orb_false_r. apply Z.eqb_neq. intros ->. congruence.
Qed.
Lemma digits_listc d : all_digits d = true -> forallb is_listc d = true.
Proof.
  intros H. apply forallb_forall. intros x Hx. unfold all_digits in H. rewrite forallb_forall in H.
  unfold is_listc. rewrite (H x Hx). reflexivity.
Qed.
Lemma pr_dec_int n : 0 <= n < cpu_bound -> py_int (pr_dec n) = Val n.
Proof.
  intros H. destruct (pr_dec_spec n H) as [A [B C]]. unfold py_int.
  rewrite parse_int_dec; [rewrite C; reflexivity|]. unfold is_dec. destruct (pr_dec n); [congruence|exact A].
Qed.

(* ------------------------------------------------ item.partition(b"-") *)
Lemma partition_nodash l : contains 45 l = false -> partition_dash l = (l, []).
Proof.
  induction l as [|c l IH]; intros H; [reflexivity|].
  rewrite contains_cons in H. apply orb_false_iff in H. destruct H as [H1 H2].
  cbn [partition_dash]. rewrite Z.eqb_sym, H1, (IH H2). reflexivity.
Qed.
Lemma partition_dash_app d t : contains 45 d = false -> partition_dash (d ++ 45 :: t) = (d, t).
Proof.
  induction d as [|c d IH]; intros H; cbn [app partition_dash]; [reflexivity|].
  rewrite contains_cons in H. apply orb_false_iff in H. destruct H as [H1 H2].
  rewrite Z.eqb_sym, H1, (IH H2). reflexivity.
Qed.

(* ------------------------------------------------ one printed run *)
Definition range_of (ab : Z * Z) : list Z := zrange (fst ab) (snd ab + 1).
Definition run_ok (ab : Z * Z) : Prop := 0 <= fst ab /\ fst ab <= snd ab /\ snd ab < cpu_bound.

Lemma parse_pr_run ab : run_ok ab -> parse_item (pr_run ab) = Val (range_of ab).
Proof.
  destruct ab as [a b]. unfold run_ok, range_of. cbn [fst snd]. intros [H0 [H1 H2]].
  destruct (pr_dec_spec a) as [A1 [A2 A3]]; [lia|]. destruct (pr_dec_spec b) as [B1 [B2 B3]]; [lia|].
  unfold parse_item, pr_run. destruct (a =? b) eqn:E.
  - apply Z.eqb_eq in E. subst b.
    rewrite partition_nodash by (apply digits_contains; [exact A1|reflexivity]).
    cbv beta iota zeta. rewrite pr_dec_int by lia. cbn [obind]. reflexivity.
  - rewrite partition_dash_app by (apply digits_contains; [exact A1|reflexivity]).
    rewrite pr_dec_int by lia. cbn [obind]. destruct (pr_dec b) as [|y ys] eqn:Eb; [congruence|].
    rewrite <- Eb. rewrite pr_dec_int by lia. reflexivity.
Qed.
Lemma pr_run_listc ab : run_ok ab -> forallb is_listc (pr_run ab) = true /\ pr_run ab <> [] /\ contains 44 (pr_run ab) = false
  /\ contains 10 (pr_run ab) = false /\ contains 45 (pr_run ab) = negb (fst ab =? snd ab).
Proof.
  destruct ab as [a b]. unfold run_ok. cbn [fst snd]. intros [H0 [H1 H2]].
  destruct (pr_dec_spec a) as [A1 [A2 A3]]; [lia|]. destruct (pr_dec_spec b) as [B1 [B2 B3]]; [lia|].
  unfold pr_run. destruct (a =? b).
  - repeat split; try (apply digits_contains; [exact A1|reflexivity]); [apply digits_listc; exact A1|exact A2].
  - repeat split.
    + rewrite forallb_app, (digits_listc _ A1). cbn [forallb andb]. rewrite (digits_listc _ B1). reflexivity.
    + intros H. apply app_eq_nil in H. destruct H as [_ H]. discriminate.
    + rewrite contains_app, contains_cons, (digits_contains _ 44 A1 eq_refl), (digits_contains _ 44 B1 eq_refl). reflexivity.
    + rewrite contains_app, contains_cons, (digits_contains _ 10 A1 eq_refl), (digits_contains _ 10 B1 eq_refl). reflexivity.
    + rewrite contains_app, contains_cons. rewrite Z.eqb_refl. cbn [orb negb]. apply orb_true_r.
Qed.

(* ------------------------------------------------ the runs of a list *)
Lemma zrange_n_snoc n : forall a, zrange_n a (S n) = zrange_n a n ++ [a + Z.of_nat n].
Proof.
  induction n as [|n IH]; intros a.
  - cbn [zrange_n app]. rewrite Z.add_0_r. reflexivity.
  - change (zrange_n a (S (S n))) with (a :: zrange_n (a + 1) (S n)). rewrite IH.
    cbn [zrange_n app]. f_equal. f_equal. f_equal. lia.
Qed.
Lemma zrange_snoc a b : a <= b -> zrange a (b + 1) = zrange a b ++ [b].
Proof.
  intros H. unfold zrange. replace (Z.to_nat (b + 1 - a)) with (S (Z.to_nat (b - a))) by lia.
  rewrite zrange_n_snoc. f_equal. f_equal. lia.
Qed.

Lemma runs_from_concat l : forall a b, a <= b ->
  concat (map range_of (runs_from a b l)) = zrange a (b + 1) ++ l.
Proof.
  induction l as [|c r IH]; intros a b Hab; cbn [runs_from].
  - cbn [map concat]. unfold range_of. cbn [fst snd]. rewrite app_nil_r. reflexivity.
  - destruct (c =? b + 1) eqn:E.
    + apply Z.eqb_eq in E. subst c. rewrite IH by lia. rewrite (zrange_snoc a (b + 1)) by lia.
      rewrite <- app_assoc. reflexivity.
    + cbn [map concat]. rewrite IH by lia. unfold range_of at 1. cbn [fst snd].
      unfold zrange at 2. replace (Z.to_nat (c + 1 - c)) with 1%nat by lia. reflexivity.
Qed.
Lemma runs_concat l : concat (map range_of (runs l)) = l.
Proof.
  destruct l as [|c r]; [reflexivity|]. unfold runs. rewrite runs_from_concat by lia.
  unfold zrange. replace (Z.to_nat (c + 1 - c)) with 1%nat by lia. reflexivity.
Qed.

Lemma runs_from_ok l : forall a b, 0 <= a -> a <= b -> b < cpu_bound -> (forall c, In c l -> 0 <= c < cpu_bound) ->
  Forall run_ok (runs_from a b l).
Proof.
  induction l as [|c r IH]; intros a b H0 H1 H2 Hl; cbn [runs_from].
  - constructor; [|constructor]. unfold run_ok. cbn [fst snd]. lia.
  - assert (Hc : 0 <= c < cpu_bound) by (apply Hl; left; reflexivity).
    assert (Hr : forall x, In x r -> 0 <= x < cpu_bound) by (intros x Hx; apply Hl; right; exact Hx).
    destruct (c =? b + 1) eqn:E.
    + apply Z.eqb_eq in E. apply IH; try lia. exact Hr.
    + constructor; [unfold run_ok; cbn [fst snd]; lia|]. apply IH; try lia. exact Hr.
Qed.
Lemma runs_ok l : (forall c, In c l -> 0 <= c < cpu_bound) -> Forall run_ok (runs l).
Proof.
  destruct l as [|c r]; intros H; [constructor|]. unfold runs.
  assert (0 <= c < cpu_bound) by (apply H; left; reflexivity).
  apply runs_from_ok; try lia. intros x Hx. apply H. right. exact Hx.
Qed.
Lemma runs_from_ne a b l : runs_from a b l <> [].
Proof. revert a b. induction l as [|c r IH]; intros a b; cbn [runs_from]; [discriminate|]. destruct (c =? b + 1); [apply IH|discriminate]. Qed.

(* ------------------------------------------------ the printed list *)
Definition has_range (mask : list Z) : bool := existsb (fun ab => negb (fst ab =? snd ab)) (runs mask).

Lemma join_items rs : Forall run_ok rs -> rs <> [] ->
  let v := join [44] (map pr_run rs) in
  forallb is_listc v = true /\ v <> [] /\ contains 10 v = false
  /\ contains 45 v = existsb (fun ab => negb (fst ab =? snd ab)) rs
  /\ split_on 44 v = map pr_run rs
  /\ mapM parse_item (map pr_run rs) = Val (map range_of rs).
Proof.
  intros Hok Hne. cbv zeta.
  assert (Hsplit : split_on 44 (join [44] (map pr_run rs)) = map pr_run rs).
  { apply split_on_join; [destruct rs; [congruence|discriminate]|].
    apply forallb_forall. intros x Hx. apply in_map_iff in Hx. destruct Hx as [ab [<- Hab]].
    rewrite Forall_forall in Hok. destruct (pr_run_listc ab (Hok ab Hab)) as [_ [_ [H _]]]. rewrite H. reflexivity. }
  assert (HmapM : mapM parse_item (map pr_run rs) = Val (map range_of rs)).
  { clear Hne Hsplit. induction Hok as [|ab r Hab Hr IH]; [reflexivity|].
    cbn [map mapM]. rewrite (parse_pr_run ab Hab). cbn [obind]. rewrite IH. reflexivity. }
  induction Hok as [|ab r Hab Hr IH]; [congruence|].
  destruct (pr_run_listc ab Hab) as [L1 [L2 [L3 [L4 L5]]]].
  destruct r as [|ab2 r2].
  - cbn [map join existsb]. rewrite orb_false_r. repeat split; try assumption.
  - assert (Hne2 : ab2 :: r2 <> []) by discriminate.
    assert (S2 : split_on 44 (join [44] (map pr_run (ab2 :: r2))) = map pr_run (ab2 :: r2)).
    { apply split_on_join; [discriminate|]. apply forallb_forall. intros x Hx. apply in_map_iff in Hx.
      destruct Hx as [q [<- Hq]]. rewrite Forall_forall in Hr. destruct (pr_run_listc q (Hr q Hq)) as [_ [_ [H _]]]. rewrite H. reflexivity. }
    assert (M2 : mapM parse_item (map pr_run (ab2 :: r2)) = Val (map range_of (ab2 :: r2))).
    { clear - Hr. induction Hr as [|q t Hq Ht IHt]; [reflexivity|]. cbn [map mapM]. rewrite (parse_pr_run q Hq). cbn [obind]. rewrite IHt. reflexivity. }
    destruct (IH Hne2 S2 M2) as [I1 [I2 [I3 [I4 _]]]].
    change (join [44] (map pr_run (ab :: ab2 :: r2))) with (pr_run ab ++ [44] ++ join [44] (map pr_run (ab2 :: r2))).
    repeat split.
    + rewrite !forallb_app, L1, I1. reflexivity.
    + intros H. apply app_eq_nil in H. destruct H as [H _]. congruence.
    + rewrite !contains_app, L4, I3. reflexivity.
    + rewrite !contains_app, L5, I4. cbn [existsb]. reflexivity.
    + exact Hsplit.
    + exact HmapM.
Qed.

(* ------------------------------------------------ the file around the line *)
Definition line_ok (l : bytes) : Prop := contains 10 l = false /\ drop_prefix status_lit l = None.
Definition unlines (ls : list bytes) : bytes := concat (map (fun l => l ++ [10]) ls).

Lemma drop_prefix_app p l : drop_prefix p (p ++ l) = Some l.
Proof. induction p as [|a p IH]; cbn [drop_prefix app]; [reflexivity|]. rewrite Z.eqb_refl. exact IH. Qed.

Lemma split_unlines ls rest : Forall line_ok ls -> split_on 10 (unlines ls ++ rest) = ls ++ split_on 10 rest.
Proof.
  induction 1 as [|l r [Hl _] Hr IH]; [reflexivity|].
  unfold unlines. cbn [map concat]. rewrite <- !app_assoc. cbn [app].
  rewrite split_on_app by exact Hl. fold (unlines r). rewrite IH. reflexivity.
Qed.
Lemma find_skip ls L : Forall line_ok ls -> find_list_line (ls ++ L) = find_list_line L.
Proof.
  induction 1 as [|l r [_ Hl] Hr IH]; [reflexivity|]. cbn [app find_list_line]. rewrite Hl. exact IH.
Qed.

(* for EVERY list the kernel can print (any number of ranges and singletons), whatever lines
   come before (none of them starting with the key) and whatever text comes after:
   the parser returns exactly the printed set when the list contains a range, and all CPUs otherwise *)
Theorem parse_status_exact lines post mask ncpu :
  Forall line_ok lines -> mask <> [] -> (forall c, In c mask -> 0 <= c < cpu_bound) ->
  parse_status (k_status_gen (unlines lines) post mask) ncpu
  = Val (if has_range mask then mask else zrange 0 ncpu).
Proof.
  intros Hl Hne Hb.
  assert (Hrs : runs mask <> []) by (destruct mask; [congruence|apply runs_from_ne]).
  destruct (join_items (runs mask) (runs_ok mask Hb) Hrs) as [J1 [J2 [J3 [J4 [J5 J6]]]]].
  unfold parse_status, k_status_gen. rewrite (split_unlines _ _ Hl), (find_skip _ _ Hl).
  fold (pr_cpulist mask) in *.
  rewrite app_assoc, split_on_app.
  2: { rewrite contains_app, J3. reflexivity. }
  cbn [find_list_line]. rewrite drop_prefix_app.
  destruct (pr_cpulist mask) as [|c v] eqn:Ev; [congruence|]. rewrite J1, J4.
  unfold has_range. destruct (existsb _ (runs mask)); [|reflexivity].
  rewrite J5, J6. cbn [obind]. rewrite runs_concat. reflexivity.
Qed.

(* the fixed text of [k_status] is such a prefix: corollary for the model's kernel *)
Definition status_pre_lines : list bytes :=
  [bs "Name:" ++ 9 :: bs "sleep"; bs "Umask:" ++ 9 :: bs "0022"; bs "State:" ++ 9 :: bs "S (sleeping)";
   bs "Uid:" ++ 9 :: bs "0" ++ 9 :: bs "0" ++ 9 :: bs "0" ++ 9 :: bs "0";
   bs "Gid:" ++ 9 :: bs "0" ++ 9 :: bs "0" ++ 9 :: bs "0" ++ 9 :: bs "0";
   bs "Threads:" ++ 9 :: bs "1"; bs "CapInh:" ++ 9 :: bs "0000000000000000"; bs "Cpus_allowed:" ++ 9 :: bs "ffff"].
Lemma status_pre_unlines : status_pre = unlines status_pre_lines.
Proof. vm_compute. reflexivity. Qed.
Lemma status_pre_ok : Forall line_ok status_pre_lines.
Proof. repeat constructor. Qed.

Theorem eligible_exact k pid p : kget pid k = Some p -> p_mask p <> [] ->
  (forall c, In c (p_mask p) -> 0 <= c < cpu_bound) ->
  get_eligible_cpus pid k = Val (if has_range (p_mask p) then p_mask p else zrange 0 (k_ncpu k)).
Proof.
  intros Hg Hne Hb. unfold get_eligible_cpus. rewrite Hg. unfold k_status. rewrite status_pre_unlines.
  apply parse_status_exact; [exact status_pre_ok|exact Hne|exact Hb].
Qed.

(* a Name: line that looks like the key does not spoof the parser *)
Example name_spoof_harmless : forall post ncpu,
  parse_status (k_status_gen (unlines [bs "Name:" ++ 9 :: bs "Cpus_allowed_list:" ++ 9 :: bs "0-1";
                                       bs "xCpus_allowed_list:" ++ 9 :: bs "7-9"; bs "Cpus_allowed:" ++ 9 :: bs "ff"])
                             post [2; 3; 5; 8; 9; 10]) ncpu = Val [2; 3; 5; 8; 9; 10].
Proof.
  intros post ncpu. rewrite parse_status_exact; [reflexivity| | |].
  - repeat constructor.
  - discriminate.
  - intros c Hc. cbn in Hc. unfold cpu_bound. change (10 ^ 20) with 100000000000000000000.
    repeat (destruct Hc as [<-|Hc]; [lia|]). destruct Hc.
Qed.
