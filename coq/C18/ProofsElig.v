(* C18 -- cpu_affinity([]) and the diagnosis of CPU lists the kernel refuses;
   the assembled theorem "model meets specification". *)
From PV Require Import C18.Spec C18.Proofs C18.ProofsReq.
Require Import Lia.

Lemma zrange_n_In a n x : In x (zrange_n a n) <-> a <= x < a + Z.of_nat n.
Proof.
  revert a. induction n as [|n IH]; intros a; cbn [zrange_n In].
  - split; [tauto|lia].
  - rewrite IH. lia.
Qed.
Lemma zrange_In a b x : In x (zrange a b) <-> a <= x < b.
Proof. unfold zrange. rewrite zrange_n_In. lia. Qed.

(* ------------------------------------------------ _get_eligible_cpus never fails otherwise than with ValueError *)
Lemma parse_item_class it : (exists l, parse_item it = Val l) \/ parse_item it = Exc ValueError.
Proof.
  unfold parse_item. destruct (partition_dash it) as [first last].
  unfold py_int. destruct (parse_int first) as [a|]; cbn [of_option obind]; [|right; reflexivity].
  destruct (parse_int match last with [] => first | _ :: _ => last end) as [b|]; cbn [of_option obind];
    [left; eexists; reflexivity|right; reflexivity].
Qed.
Lemma mapM_parse_class its : (exists l, mapM parse_item its = Val l) \/ mapM parse_item its = Exc ValueError.
Proof.
  induction its as [|it r IH]; cbn [mapM]; [left; eexists; reflexivity|].
  destruct (parse_item_class it) as [[l ->]| ->]; cbn [obind]; [|right; reflexivity].
  destruct IH as [[ls ->]| ->]; cbn [obind]; [left; eexists; reflexivity|right; reflexivity].
Qed.
Lemma eligible_class k pid p : kget pid k = Some p ->
  (exists l, get_eligible_cpus pid k = Val l) \/ get_eligible_cpus pid k = Exc ValueError.
Proof.
  intros Hg. unfold get_eligible_cpus, parse_status. rewrite Hg.
  destruct (find_list_line (split_on 10 (k_status p))) as [v|]; [|left; eexists; reflexivity].
  destruct (contains 45 v); [|left; eexists; reflexivity].
  destruct (mapM_parse_class (split_on 44 v)) as [[l ->]| ->]; cbn [obind]; [left; eexists; reflexivity|right; reflexivity].
Qed.
(* whatever error started the diagnosis, it ends in ValueError *)
Lemma diagnose_value k pid p cpus b : kget pid k = Some p -> diagnose pid cpus b k = Exc ValueError.
Proof.
  intros Hg. unfold diagnose. destruct (eligible_class k pid p Hg) as [[l ->]| ->]; [|reflexivity].
  destruct (existsb _ cpus); [reflexivity|]. destruct b; reflexivity.
Qed.

(* ------------------------------------------------ cpu_affinity([]) *)
Lemma meets_aff_empty k pid p exp : kget pid k = Some p ->
  (forall x, In x (p_elig p) -> 0 <= x < 1024) -> p_elig p <> [] ->
  spec_req pid (Affinity (Some [])) k = Some exp -> run_req pid (Affinity (Some [])) k = exp.
Proof.
  intros Hg Hrng Hne. unfold spec_req, spec_aff_set, run_req, cpu_affinity. rewrite Hg. intros [= <-].
  unfold pl_cpu_affinity_set.
  rewrite build_set_ok by (intros c Hc; apply zrange_In in Hc; lia).
  unfold sys_sched_setaffinity. rewrite Hg.
  rewrite (filter_all (fun c => memz c (dedup (zrange 0 1024)))).
  2: { intros x Hx. rewrite memz_dedup. apply memz_In. apply zrange_In. apply Hrng. exact Hx. }
  destruct (p_elig p) eqn:E; [congruence|]. reflexivity.
Qed.

(* ------------------------------------------------ only nonexistent / ineligible CPUs *)
Lemma meets_aff_invalid k pid p c cs exp : kget pid k = Some p ->
  all_in (c :: cs) (p_elig p) = false ->
  spec_req pid (Affinity (Some (c :: cs))) k = Some exp -> run_req pid (Affinity (Some (c :: cs))) k = exp.
Proof.
  intros Hg Hall. unfold spec_req, spec_aff_set, run_req, cpu_affinity. rewrite Hg, Hall.
  destruct (none_in (c :: cs) (p_elig p)) eqn:Hnone; [|discriminate]. intros [= <-].
  assert (Hout : forall x, In x (c :: cs) -> memz x (p_elig p) = false).
  { intros x Hx. unfold none_in in Hnone. rewrite forallb_forall in Hnone. apply negb_true_iff. apply Hnone. exact Hx. }
  unfold pl_cpu_affinity_set, c_build_set.
  destruct (existsb (fun v => v =? -1) (dedup (c :: cs))); [rewrite (diagnose_value k pid p _ _ Hg); reflexivity|].
  destruct (existsb (fun v => negb (fits_long v)) (dedup (c :: cs))); [rewrite (diagnose_value k pid p _ _ Hg); reflexivity|].
  unfold sys_sched_setaffinity. rewrite Hg. rewrite filter_none.
  2: { intros x Hx. apply not_true_iff_false. intros Hm. apply memz_In in Hm. apply filter_In in Hm.
       destruct Hm as [Hm _]. apply nodup_In in Hm. pose proof (Hout x Hm) as Hf.
       apply memz_In in Hx. congruence. }
  rewrite (diagnose_value k pid p _ _ Hg). reflexivity.
Qed.

(* ------------------------------------------------ any iterable: only the first traversal counts *)
Definition is_nil (l : list Z) : bool := match l with [] => true | _ => false end.

Lemma aff_shape_as_list pid sh items k : oneshot sh && is_nil items = false ->
  run_req pid (AffinityIt sh items) k = run_req pid (Affinity (Some items)) k.
Proof.
  intros H. unfold run_req, cpu_affinity_it, cpu_affinity, truthy, iterate. cbn [a_shape a_items a_consumed].
  destruct (oneshot sh), items as [|c cs]; cbn in *; try discriminate; reflexivity.
Qed.
Lemma spec_shape_as_list pid sh items k : oneshot sh && is_nil items = false ->
  spec_req pid (AffinityIt sh items) k = spec_req pid (Affinity (Some items)) k.
Proof.
  intros H. unfold spec_req. destruct (kget pid k); [|reflexivity]. fold (is_nil items). rewrite H. reflexivity.
Qed.
(* an empty one-shot iterator is truthy and yields nothing: the kernel refuses the empty mask *)
Lemma aff_oneshot_empty k pid p sh : kget pid k = Some p -> oneshot sh = true ->
  run_req pid (AffinityIt sh []) k = (Exc ValueError, k).
Proof.
  intros Hg Ho. unfold run_req, cpu_affinity_it, truthy, iterate. cbn [a_shape a_items a_consumed]. rewrite Ho. cbn [negb].
  unfold pl_cpu_affinity_set. cbn [dedup nodup c_build_set existsb filter]. unfold sys_sched_setaffinity. rewrite Hg.
  rewrite filter_none by (intros x _; reflexivity). rewrite (diagnose_value k pid p _ _ Hg). reflexivity.
Qed.
(* a one-shot iterable yields nothing on a second traversal *)
Lemma second_traversal_empty a : oneshot (a_shape a) = true -> fst (iterate (snd (iterate a))) = [].
Proof. intros H. unfold iterate. rewrite H. cbn [snd a_shape a_consumed]. rewrite H. reflexivity. Qed.

Lemma meets_aff_list k pid p cpus exp : kget pid k = Some p -> wf_facts p -> p_elig p <> [] ->
  spec_req pid (Affinity (Some cpus)) k = Some exp -> run_req pid (Affinity (Some cpus)) k = exp.
Proof.
  intros Hg F Hne Hspec. destruct cpus as [|c cs].
  - exact (meets_aff_empty k pid p exp Hg (wf_elig_rng p F) Hne Hspec).
  - destruct (all_in (c :: cs) (p_elig p)) eqn:Hall.
    + exact (meets_aff_valid k pid p c cs exp Hg (wf_elig_rng p F) Hall Hspec).
    + exact (meets_aff_invalid k pid p c cs exp Hg Hall Hspec).
Qed.

(* ------------------------------------------------ assembled *)
Theorem model_meets_spec k pid p r exp :
  wf_kernelb k = true -> kget pid k = Some p -> wf_procb k p = true -> pid <> 0 ->
  spec_req pid r k = Some exp -> run_req pid r k = exp.
Proof.
  intros Hk Hg Hwf Hpid Hspec.
  pose proof (wf_procb_facts k p Hwf) as F.
  unfold wf_kernelb in Hk. apply andb_split in Hk. destruct Hk as [_ Hnr]. apply Z.leb_le in Hnr.
  assert (Hne : p_elig p <> []).
  { intros E. pose proof (wf_mask_ne p F) as Hm. pose proof (wf_mask_sub p F) as Hs.
    destruct (p_mask p) as [|x xs]; [congruence|]. specialize (Hs x (or_introl eq_refl)). rewrite E in Hs. destruct Hs. }
  destruct r as [v|c v|cpus|sh items|res lim|res sv].
  - exact (meets_nice k pid p v exp Hg Hspec).
  - exact (meets_ionice k pid p c v exp Hg (reported_range k p (wf_nice p F) (wf_io p F)) Hspec).
  - destruct cpus as [cpus|].
    + exact (meets_aff_list k pid p cpus exp Hg F Hne Hspec).
    + exact (meets_aff_get k pid p exp Hg Hnr (wf_mask_sorted p F) Hspec).
  - destruct (oneshot sh && is_nil items) eqn:E.
    + unfold spec_req in Hspec. rewrite Hg in Hspec. fold (is_nil items) in Hspec. rewrite E in Hspec. discriminate.
    + rewrite (spec_shape_as_list pid sh items k E) in Hspec. rewrite (aff_shape_as_list pid sh items k E).
      exact (meets_aff_list k pid p items exp Hg F Hne Hspec).
  - exact (meets_rlimit k pid p res lim exp Hg Hpid (wf_rlim_len p F) Hspec).
  - unfold spec_req in Hspec. rewrite Hg in Hspec. discriminate.
Qed.
