(* C18 -- _get_eligible_cpus over the kernel-printed status file, cpu_affinity([]) and the
   diagnosis of ineligible CPUs; the assembled theorem "model meets specification". *)
From PV Require Import C18.Spec C18.Proofs C18.ProofsReq.
Require Import Lia.

(* ------------------------------------------------ decimal printer *)
Lemma dec_val_snoc l d : dec_val (l ++ [d]) = dec_val l * 10 + (d - 48).
Proof. unfold dec_val. rewrite fold_left_app. reflexivity. Qed.

Lemma pr_dec_aux_spec : forall fuel n, 0 <= n < 10 ^ Z.of_nat fuel -> (0 < fuel)%nat ->
  all_digits (pr_dec_aux fuel n) = true /\ pr_dec_aux fuel n <> [] /\ dec_val (pr_dec_aux fuel n) = n.
Proof.
  induction fuel as [|f IH]; intros n Hn Hf; [lia|].
  cbn [pr_dec_aux]. destruct (n <? 10) eqn:E.
  - apply Z.ltb_lt in E. split; [|split].
    + cbn [all_digits forallb]. unfold is_digit.
      replace (48 <=? 48 + n) with true by (symmetry; apply Z.leb_le; lia).
      replace (48 + n <=? 57) with true by (symmetry; apply Z.leb_le; lia). reflexivity.
    + discriminate.
    + unfold dec_val. cbn [fold_left]. unfold dec_step. lia.
  - apply Z.ltb_ge in E.
    assert (Hf0 : (0 < f)%nat).
    { destruct f; [|lia]. change (10 ^ Z.of_nat 1) with 10 in Hn. lia. }
    assert (Hq : 0 <= n / 10 < 10 ^ Z.of_nat f).
    { split; [apply Z.div_pos; lia|]. apply Z.div_lt_upper_bound; [lia|].
      rewrite Nat2Z.inj_succ, Z.pow_succ_r in Hn by lia. lia. }
    destruct (IH (n / 10) Hq Hf0) as [A [B C]].
    assert (Hm : 0 <= n mod 10 < 10) by (apply Z.mod_pos_bound; lia).
    split; [|split].
    + unfold all_digits in *. rewrite forallb_app, A. cbn [forallb]. unfold is_digit.
      replace (48 <=? 48 + n mod 10) with true by (symmetry; apply Z.leb_le; lia).
      replace (48 + n mod 10 <=? 57) with true by (symmetry; apply Z.leb_le; lia). reflexivity.
    + intros H. apply app_eq_nil in H. destruct H as [_ H]. discriminate.
    + rewrite dec_val_snoc, C. pose proof (Z.div_mod n 10). lia.
Qed.

Lemma pr_dec_spec n : 0 <= n < 1024 ->
  all_digits (pr_dec n) = true /\ pr_dec n <> [] /\ dec_val (pr_dec n) = n.
Proof.
  intros H. apply pr_dec_aux_spec; [|lia]. change (10 ^ Z.of_nat 20) with 100000000000000000000. lia.
Qed.

(* ------------------------------------------------ the printed list of one range *)
Lemma runs_from_zrange a m : forall b, runs_from a b (zrange_n (b + 1) m) = [(a, b + Z.of_nat m)].
Proof.
  induction m as [|m IH]; intros b; cbn [zrange_n runs_from].
  - rewrite Z.add_0_r. reflexivity.
  - rewrite Z.eqb_refl, IH. f_equal. f_equal. lia.
Qed.

Lemma pr_cpulist_range a m : (0 < m)%nat ->
  pr_cpulist (zrange_n a (S m)) = pr_dec a ++ 45 :: pr_dec (a + Z.of_nat m).
Proof.
  intros Hm. unfold pr_cpulist, runs. cbn [zrange_n]. rewrite runs_from_zrange.
  cbn [map join pr_run]. replace (a =? a + Z.of_nat m) with false by (symmetry; apply Z.eqb_neq; lia). reflexivity.
Qed.

Lemma zrange_n_In a n x : In x (zrange_n a n) <-> a <= x < a + Z.of_nat n.
Proof.
  revert a. induction n as [|n IH]; intros a; cbn [zrange_n In].
  - split; [tauto|lia].
  - rewrite IH. lia.
Qed.

(* ------------------------------------------------ the regex scanner on that text *)
Lemma drop_prefix_app p l : drop_prefix p (p ++ l) = Some l.
Proof. induction p as [|a p IH]; cbn [drop_prefix app]; [reflexivity|]. rewrite Z.eqb_refl. exact IH. Qed.

Lemma span_digits_app d t : all_digits d = true ->
  match t with [] => true | c :: _ => negb (is_digit c) end = true ->
  span_digits (d ++ t) = (d, t).
Proof.
  intros Hd Ht. induction d as [|c d IH]; cbn [app].
  - destruct t as [|c t]; [reflexivity|]. cbn [span_digits]. apply negb_true_iff in Ht. rewrite Ht. reflexivity.
  - unfold all_digits in Hd. cbn [forallb] in Hd. apply andb_split in Hd. destruct Hd as [H1 H2].
    cbn [span_digits]. rewrite H1, (IH H2). reflexivity.
Qed.

Lemma re_search_pre X : re_search (status_pre ++ X) = re_search X.
Proof. reflexivity. Qed.

Lemma re_search_here s m : s <> [] -> re_here s = Some m -> re_search s = Some m.
Proof. intros Hs H. destruct s; [congruence|]. cbn [re_search]. rewrite H. reflexivity. Qed.

Lemma re_here_range a b post : 0 <= a < 1024 -> 0 <= b < 1024 ->
  re_here (status_lit ++ (pr_dec a ++ 45 :: pr_dec b) ++ 10 :: post) = Some (pr_dec a, pr_dec b).
Proof.
  intros Ha Hb. destruct (pr_dec_spec a Ha) as [A1 [A2 A3]]. destruct (pr_dec_spec b Hb) as [B1 [B2 B3]].
  unfold re_here. rewrite drop_prefix_app.
  rewrite <- app_assoc. rewrite <- app_comm_cons.
  rewrite (span_digits_app (pr_dec a) (45 :: pr_dec b ++ 10 :: post) A1 eq_refl).
  destruct (pr_dec a) as [|x xs] eqn:Ea; [congruence|].
  rewrite (span_digits_app (pr_dec b) (10 :: post) B1 eq_refl).
  destruct (pr_dec b) as [|y ys] eqn:Eb; [congruence|]. reflexivity.
Qed.

(* ------------------------------------------------ processes of the plain class *)
Lemma plain_shape p : plain_eligb p = true ->
  exists a m, (0 < m)%nat /\ p_elig p = zrange_n a (S m) /\ p_mask p = p_elig p.
Proof.
  unfold plain_eligb. intros H. apply andb_split in H. destruct H as [H H3]. apply andb_split in H. destruct H as [H1 H2].
  apply beqb_eq in H1. apply Nat.leb_le in H3.
  unfold contiguousb in H2. destruct (p_elig p) as [|a r] eqn:E; [discriminate|].
  apply beqb_eq in H2. unfold zrange in H2.
  replace (Z.to_nat (a + Z.of_nat (length (a :: r)) - a)) with (length (a :: r)) in H2 by lia.
  cbn [length] in H2, H3. destruct (length r) as [|m] eqn:El; [lia|].
  exists a, (S m). split; [lia|]. split; [exact H2|exact H1].
Qed.

Lemma eligible_plain k pid p : kget pid k = Some p ->
  (forall x, In x (p_elig p) -> 0 <= x < 1024) -> plain_eligb p = true ->
  get_eligible_cpus pid k = Val (p_elig p).
Proof.
  intros Hg Hrng Hp. destruct (plain_shape p Hp) as [a [m [Hm [He Hmask]]]].
  assert (Ha : 0 <= a < 1024) by (apply Hrng; rewrite He; apply zrange_n_In; lia).
  assert (Hb : 0 <= a + Z.of_nat m < 1024) by (apply Hrng; rewrite He; apply zrange_n_In; lia).
  unfold get_eligible_cpus. rewrite Hg. unfold k_status. rewrite Hmask, He, re_search_pre.
  rewrite (pr_cpulist_range a m Hm).
  rewrite (re_search_here _ (pr_dec a, pr_dec (a + Z.of_nat m))).
  - destruct (pr_dec_spec a Ha) as [_ [_ ->]]. destruct (pr_dec_spec _ Hb) as [_ [_ ->]].
    unfold zrange. replace (Z.to_nat (a + Z.of_nat m + 1 - a)) with (S m) by lia. reflexivity.
  - discriminate.
  - apply re_here_range; assumption.
Qed.

Lemma eligible_val k pid p : kget pid k = Some p -> exists l, get_eligible_cpus pid k = Val l.
Proof.
  intros Hg. unfold get_eligible_cpus. rewrite Hg. destruct (re_search (k_status p)) as [[d1 d2]|]; eexists; reflexivity.
Qed.

(* ------------------------------------------------ cpu_affinity([]) *)
Lemma meets_aff_empty k pid p exp : kget pid k = Some p ->
  (forall x, In x (p_elig p) -> 0 <= x < 1024) -> plain_eligb p = true ->
  spec_req pid (Affinity (Some [])) k = Some exp -> run_req pid (Affinity (Some [])) k = exp.
Proof.
  intros Hg Hrng Hp. unfold spec_req, run_req, cpu_affinity. rewrite Hg. intros [= <-].
  rewrite (eligible_plain k pid p Hg Hrng Hp). unfold pl_cpu_affinity_set.
  rewrite (build_set_ok _ Hrng). unfold sys_sched_setaffinity. rewrite Hg.
  rewrite (filter_all (fun c => memz c (dedup (p_elig p)))).
  2: { intros x Hx. rewrite memz_dedup. apply memz_In. exact Hx. }
  destruct (plain_shape p Hp) as [a [m [_ [He _]]]].
  destruct (p_elig p) eqn:E; [rewrite He in E; discriminate|]. reflexivity.
Qed.

(* ------------------------------------------------ only nonexistent / ineligible CPUs *)
Lemma existsb_dedup f l : existsb f (dedup l) = existsb f l.
Proof.
  destruct (existsb f l) eqn:E.
  - apply existsb_exists in E. destruct E as [x [Hx Hf]]. apply existsb_exists. exists x. split; [apply nodup_In; exact Hx|exact Hf].
  - apply not_true_iff_false. intros H. apply existsb_exists in H. destruct H as [x [Hx Hf]].
    apply nodup_In in Hx. assert (existsb f l = true) by (apply existsb_exists; exists x; tauto). congruence.
Qed.

Lemma meets_aff_invalid k pid p c cs exp : kget pid k = Some p ->
  (forall x, In x (p_elig p) -> 0 <= x < 1024) -> plain_eligb p = true ->
  all_in (c :: cs) (p_elig p) = false ->
  existsb (fun v => negb (fits_long v)) (c :: cs) = false ->
  spec_req pid (Affinity (Some (c :: cs))) k = Some exp -> run_req pid (Affinity (Some (c :: cs))) k = exp.
Proof.
  intros Hg Hrng Hp Hall Hhuge. unfold spec_req, run_req, cpu_affinity. rewrite Hg, Hall.
  destruct (none_in (c :: cs) (p_elig p)) eqn:Hnone; [|discriminate]. intros [= <-].
  assert (Hout : forall x, In x (c :: cs) -> memz x (p_elig p) = false).
  { intros x Hx. unfold none_in in Hnone. rewrite forallb_forall in Hnone. apply negb_true_iff. apply Hnone. exact Hx. }
  unfold pl_cpu_affinity_set, c_build_set. rewrite existsb_dedup, Hhuge.
  destruct (existsb (fun v => v =? -1) (dedup (c :: cs))) eqn:Em1.
  - unfold diagnose. destruct (eligible_val k pid p Hg) as [l ->].
    match goal with |- context [if ?b then _ else _] => destruct b end; reflexivity.
  - unfold sys_sched_setaffinity. rewrite Hg. rewrite filter_none.
    2: { intros x Hx. apply not_true_iff_false. intros Hm. apply memz_In in Hm. apply filter_In in Hm.
         destruct Hm as [Hm _]. apply nodup_In in Hm. pose proof (Hout x Hm) as Hf.
         apply memz_In in Hx. congruence. }
    unfold diagnose. rewrite (eligible_plain k pid p Hg Hrng Hp).
    replace (existsb _ (dedup (c :: cs))) with true; [reflexivity|].
    symmetry. apply existsb_exists. exists c. split; [apply nodup_In; left; reflexivity|].
    rewrite (Hout c (or_introl eq_refl)). apply orb_true_r.
Qed.

(* ------------------------------------------------ assembled *)
Theorem model_meets_spec k pid p r exp :
  wf_kernelb k = true -> kget pid k = Some p -> wf_procb k p = true -> pid <> 0 ->
  (uses_eligible p r = true -> plain_eligb p = true) -> huge_cpu r = false ->
  spec_req pid r k = Some exp -> run_req pid r k = exp.
Proof.
  intros Hk Hg Hwf Hpid Hplain Hhuge Hspec.
  pose proof (wf_procb_facts k p Hwf) as F.
  unfold wf_kernelb in Hk. apply andb_split in Hk. destruct Hk as [_ Hnr]. apply Z.leb_le in Hnr.
  destruct r as [v|c v|cpus|res lim].
  - exact (meets_nice k pid p v exp Hg Hspec).
  - exact (meets_ionice k pid p c v exp Hg (wf_io p F) Hspec).
  - destruct cpus as [[|c cs]|].
    + exact (meets_aff_empty k pid p exp Hg (wf_elig_rng p F) (Hplain eq_refl) Hspec).
    + destruct (all_in (c :: cs) (p_elig p)) eqn:Hall.
      * exact (meets_aff_valid k pid p c cs exp Hg (wf_elig_rng p F) Hall Hspec).
      * apply (meets_aff_invalid k pid p c cs exp Hg (wf_elig_rng p F)); try assumption.
        apply Hplain. unfold uses_eligible. rewrite Hall. reflexivity.
    + exact (meets_aff_get k pid p exp Hg Hnr (wf_mask_sorted p F) Hspec).
  - exact (meets_rlimit k pid p res lim exp Hg Hpid Hspec).
Qed.
