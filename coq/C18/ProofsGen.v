(* The programs translated from the CURRENT source (Gen/C18_Tables.v: Process.nice / ionice /
   rlimit / cpu_affinity of psutil/__init__.py, Process.ionice_set / rlimit of psutil/_pslinux.py),
   run by the interpreter of PyGen.v and continued by the model's native calls, compute the
   hand-written model's functions for ALL arguments; the guard flag at the call of the platform
   layer is Handle.guarded.  An edit of a guard, of the order of the checks, of an exception
   class, of the dispatch or of the place of _raise_if_pid_reused() changes the generated
   program and one of these proofs stops compiling. *)
From PV Require Import C18.PyGen Gen.C18_Tables C18.Handle.

(* a call whose value is not returned: the caller answers None unless it raised *)
Definition discard (r : outcome resv * kernel) : outcome resv * kernel :=
  (match fst r with Val _ => Val RNone | o => o end, snd r).
(* sorted(set(...)) around the value of a call *)
Definition post_sort (r : outcome resv * kernel) : outcome resv * kernel :=
  (match fst r with Val (RList m) => Val (RList (sort_dedup m)) | Val _ => OutOfModel | o => o end, snd r).

(* ---- what the calls made by psutil/_pslinux.py denote: the model's native layer *)
Definition native (c : pcall) (k : kernel) : outcome resv * kernel :=
  if String.eqb (c_target c) "cext.proc_ioprio_set" then
    match c_args c with [VInt p; VInt cl; VInt d] => c_ioprio_set p cl d k | _ => (OutOfModel, k) end
  else if String.eqb (c_target c) "resource.prlimit" then
    match c_args c with
    | [VInt p; VInt r] => py_prlimit p r None k
    | [VInt p; VInt r; VList l] => py_prlimit p r (Some l) k
    | _ => (OutOfModel, k)
    end
  else (OutOfModel, k).

Definition finish (ret post : bool) (r : outcome resv * kernel) : outcome resv * kernel :=
  let r1 := if post then post_sort r else r in if ret then r1 else discard r1.

Definition lin_denote (r : result) (k : kernel) : outcome resv * kernel :=
  match r with
  | RRaise e => (Exc e, k)
  | RCall _ ret c => finish ret (c_post c) (native c k)
  | RNothing => (Val RNone, k)
  | RStuck => (OutOfModel, k)
  end.

(* ---- what the calls made by psutil/__init__.py denote: the TRANSLATED _pslinux functions where
   they exist, the model's functions for the rest *)
Definition platform (pid : Z) (c : pcall) (k : kernel) : outcome resv * kernel :=
  let t := c_target c in
  if String.eqb t "self._proc.nice_get" then
    match c_args c with [] => (omap RInt (c_getpriority pid k), k) | _ => (OutOfModel, k) end
  else if String.eqb t "self._proc.nice_set" then
    match c_args c with [VInt v] => c_setpriority pid v k | _ => (OutOfModel, k) end
  else if String.eqb t "self._proc.ionice_get" then
    match c_args c with [] => (ionice_get pid k, k) | _ => (OutOfModel, k) end
  else if String.eqb t "self._proc.ionice_set" then
    match c_args c with
    | [ic; v] => lin_denote (run gen_linux_ionice_set pid [("ioclass"%string, ic); ("value"%string, v)]) k
    | _ => (OutOfModel, k)
    end
  else if String.eqb t "self._proc.rlimit" then
    match c_args c with
    | [r; lim] => lin_denote (run gen_linux_rlimit pid [("resource_"%string, r); ("limits"%string, lim)]) k
    | _ => (OutOfModel, k)
    end
  else if String.eqb t "self._proc.cpu_affinity_get" then
    match c_args c with [] => (omap RList (c_affinity_get pid k), k) | _ => (OutOfModel, k) end
  else if String.eqb t "self._proc.cpu_affinity_set" then
    match c_args c with [VList l] => pl_cpu_affinity_set pid l k | _ => (OutOfModel, k) end
  else (OutOfModel, k).

Definition front_denote (pid : Z) (r : result) (k : kernel) : outcome resv * kernel :=
  match r with
  | RRaise e => (Exc e, k)
  | RCall _ ret c => finish ret (c_post c) (platform pid c k)
  | RNothing => (Val RNone, k)
  | RStuck => (OutOfModel, k)
  end.

(* was _raise_if_pid_reused() called before the platform layer was entered? *)
Definition guard_of (r : result) : bool := match r with RCall g _ _ => g | _ => false end.

Definition limv (l : option (list Z)) : pval := match l with None => VNone | Some l => VList l end.
Definition iterv (s : shape) (items : list Z) : pval := if oneshot s then VIter items else VList items.

(* ------------------------------------------------ the native set calls answer None or raise *)
Lemma discard_setpriority pid v k : discard (c_setpriority pid v k) = c_setpriority pid v k.
Proof.
  unfold discard, c_setpriority. destruct (fits_int v); [|reflexivity].
  destruct (sys_setpriority pid v k) as [[u|e] k']; reflexivity.
Qed.

Lemma discard_prlimit_set pid res l k : discard (py_prlimit pid res (Some l) k) = py_prlimit pid res (Some l) k.
Proof.
  unfold discard, py_prlimit.
  destruct (negb (fits_int res)); [reflexivity|].
  destruct (negb (res_ok res)); [reflexivity|].
  destruct l as [|s [|h [|x r]]]; try reflexivity.
  destruct (fits_long s && fits_long h); [|reflexivity].
  destruct (sys_prlimit_set pid res (u64 s) (u64 h) k) as [[u|e] k']; [reflexivity|].
  destruct e; reflexivity.
Qed.

Lemma diagnose_not_val pid cpus b k : forall x, diagnose pid cpus b k <> Val x.
Proof.
  intros x. unfold diagnose. destruct (get_eligible_cpus pid k) as [el|e|]; try discriminate.
  destruct (existsb _ cpus); [discriminate|]. destruct b; discriminate.
Qed.

Lemma discard_diag pid cpus b k : discard (diagnose pid cpus b k, k) = (diagnose pid cpus b k, k).
Proof.
  unfold discard. cbn [fst snd]. destruct (diagnose pid cpus b k) as [x| |] eqn:E; try reflexivity.
  exfalso. exact (diagnose_not_val _ _ _ _ _ E).
Qed.

Lemma discard_affinity_set pid l k : discard (pl_cpu_affinity_set pid l k) = pl_cpu_affinity_set pid l k.
Proof.
  unfold pl_cpu_affinity_set.
  destruct (c_build_set l) as [set|e|].
  - destruct (sys_sched_setaffinity pid set k) as [[u|e] k']; [reflexivity|].
    destruct e; try reflexivity. apply discard_diag.
  - destruct e; try reflexivity; apply discard_diag.
  - reflexivity.
Qed.

Lemma of_nat_eqb_2 (n : nat) : (Z.of_nat n =? 2) = (n =? 2)%nat.
Proof. destruct (Z.eqb_spec (Z.of_nat n) 2), (Nat.eqb_spec n 2); try reflexivity; lia. Qed.

(* ------------------------------------------------ psutil/_pslinux.py *)
Ltac atom :=
  match goal with
  | |- context [Z.eqb ?a ?b] => destruct (Z.eqb a b)
  | |- context [Z.ltb ?a ?b] => destruct (Z.ltb a b)
  | |- context [Z.leb ?a ?b] => destruct (Z.leb a b)
  end.

(* _pslinux.Process.ionice_set: value None -> 0; a level with idle/none, a level outside 0..7, a class
   outside 0..3 -- in this order, each ValueError -- then cext.proc_ioprio_set(self.pid, ioclass, value) *)
Lemma gen_ionice_set_correct pid cls v k :
  lin_denote (run gen_linux_ionice_set pid [("ioclass"%string, VInt cls); ("value"%string, optv v)]) k
  = ionice_set pid cls v k.
Proof.
  destruct v as [v|]; unfold run, gen_linux_ionice_set, ionice_set;
    repeat (cbn - [Z.eqb Z.ltb Z.leb c_ioprio_set]; atom);
    cbn - [c_ioprio_set]; reflexivity.
Qed.

(* _pslinux.Process.rlimit: pid 0 refused first; limits None -> the get call; len(limits) != 2 ->
   ValueError before any call; else the set call, whose value is dropped *)
Lemma gen_rlimit_correct pid res limits k :
  lin_denote (run gen_linux_rlimit pid [("resource_"%string, VInt res); ("limits"%string, limv limits)]) k
  = rlimit pid res limits k.
Proof.
  unfold rlimit. destruct limits as [l|]; unfold run, gen_linux_rlimit.
  - cbn - [Z.eqb Z.of_nat length py_prlimit discard Nat.eqb].
    destruct (pid =? 0); [reflexivity|].
    cbn - [Z.eqb Z.of_nat length py_prlimit discard Nat.eqb].
    rewrite of_nat_eqb_2. destruct (length l =? 2)%nat;
      cbn - [py_prlimit discard]; [apply discard_prlimit_set|reflexivity].
  - cbn - [Z.eqb py_prlimit]. destruct (pid =? 0); cbn - [py_prlimit]; reflexivity.
Qed.

(* an int, or an iterator object, as [limits]: TypeError from len(), before any call *)
Lemma gen_rlimit_scalar_correct pid res v its k :
  lin_denote (run gen_linux_rlimit pid [("resource_"%string, VInt res); ("limits"%string, VInt v)]) k
  = rlimit_scalar pid res v k /\
  lin_denote (run gen_linux_rlimit pid [("resource_"%string, VInt res); ("limits"%string, VIter its)]) k
  = rlimit_scalar pid res v k.
Proof.
  unfold run, gen_linux_rlimit, rlimit_scalar.
  split; cbn - [Z.eqb]; destruct (pid =? 0); cbn; reflexivity.
Qed.

(* ------------------------------------------------ psutil/__init__.py *)
Lemma gen_front_nice_correct pid v k :
  front_denote pid (run gen_front_nice pid [("value"%string, optv v)]) k = nice pid v k.
Proof.
  destruct v as [v|]; [|reflexivity].
  unfold run, gen_front_nice. cbn - [c_setpriority discard]. apply discard_setpriority.
Qed.

Lemma gen_front_ionice_correct pid c v k :
  front_denote pid (run gen_front_ionice pid [("ioclass"%string, optv c); ("value"%string, optv v)]) k
  = ionice pid c v k.
Proof.
  destruct c as [c|].
  - change (lin_denote (run gen_linux_ionice_set pid [("ioclass"%string, VInt c); ("value"%string, optv v)]) k
            = ionice_set pid c v k).
    apply gen_ionice_set_correct.
  - destruct v; reflexivity.
Qed.

Lemma gen_front_rlimit_correct pid res limits k :
  front_denote pid (run gen_front_rlimit pid [("resource"%string, VInt res); ("limits"%string, limv limits)]) k
  = rlimit pid res limits k.
Proof.
  rewrite <- gen_rlimit_correct. destruct limits; reflexivity.
Qed.

Lemma gen_front_rlimit_scalar_correct pid res v k :
  front_denote pid (run gen_front_rlimit pid [("resource"%string, VInt res); ("limits"%string, VInt v)]) k
  = rlimit_scalar pid res v k.
Proof.
  rewrite <- (proj1 (gen_rlimit_scalar_correct pid res v [] k)). reflexivity.
Qed.

(* Process.cpu_affinity: None -> sorted(set(get)); a falsy argument -> tuple(range(1024)) (LINUX);
   list(set(cpus)) to the platform layer, whose value is dropped *)
Lemma gen_front_affinity_correct pid cpus k :
  front_denote pid (run gen_front_cpu_affinity pid [("cpus"%string, limv cpus)]) k = cpu_affinity pid cpus k.
Proof.
  unfold run, gen_front_cpu_affinity.
  destruct cpus as [[|x l]|].
  - cbn - [pl_cpu_affinity_set discard dedup zrange]. apply discard_affinity_set.
  - cbn - [pl_cpu_affinity_set discard dedup zrange]. apply discard_affinity_set.
  - cbn - [c_affinity_get sort_dedup]. destruct (c_affinity_get pid k); reflexivity.
Qed.

Lemma gen_front_affinity_it_correct pid s items k :
  front_denote pid (run gen_front_cpu_affinity pid [("cpus"%string, iterv s items)]) k
  = cpu_affinity_it pid {| a_shape := s; a_items := items; a_consumed := false |} k.
Proof.
  unfold iterv, cpu_affinity_it, truthy, iterate, run, gen_front_cpu_affinity. cbn [a_shape a_items a_consumed].
  destruct (oneshot s).
  - cbn - [pl_cpu_affinity_set discard dedup zrange]. apply discard_affinity_set.
  - destruct items as [|x l];
      cbn - [pl_cpu_affinity_set discard dedup zrange]; apply discard_affinity_set.
Qed.

(* the arguments of a request as the front end receives them *)
Definition front_run (r : req) (pid : Z) : result :=
  match r with
  | Nice v => run gen_front_nice pid [("value"%string, optv v)]
  | Ionice c v => run gen_front_ionice pid [("ioclass"%string, optv c); ("value"%string, optv v)]
  | Affinity cpus => run gen_front_cpu_affinity pid [("cpus"%string, limv cpus)]
  | AffinityIt s items => run gen_front_cpu_affinity pid [("cpus"%string, iterv s items)]
  | Rlimit res lim => run gen_front_rlimit pid [("resource"%string, VInt res); ("limits"%string, limv lim)]
  | RlimitScalar res v => run gen_front_rlimit pid [("resource"%string, VInt res); ("limits"%string, VInt v)]
  end.

Theorem gen_front_is_run_req pid r k : front_denote pid (front_run r pid) k = run_req pid r k.
Proof.
  destruct r; cbn [front_run run_req].
  - apply gen_front_nice_correct.
  - apply gen_front_ionice_correct.
  - apply gen_front_affinity_correct.
  - apply gen_front_affinity_it_correct.
  - apply gen_front_rlimit_correct.
  - apply gen_front_rlimit_scalar_correct.
Qed.

(* _raise_if_pid_reused() has been called when (and only when) the platform layer is entered by a
   set form; a get form, and ionice(None, v) which fails on its arguments, do not call it *)
Theorem gen_guard_is_guarded pid r : guard_of (front_run r pid) = guarded r.
Proof.
  destruct r as [[v|]|[c|] [v|]|[[|x l]|]|s items|res [l|]|res v]; try reflexivity.
  - unfold front_run, iterv. destruct (oneshot s); [reflexivity|]. destruct items; reflexivity.
Qed.

(* ... and a guarded form does enter the platform layer (no exception of the front end comes first) *)
Theorem gen_guarded_reaches_platform pid r :
  guarded r = true -> exists ret c, front_run r pid = RCall true ret c.
Proof.
  destruct r as [[v|]|[c|] [v|]|[[|x l]|]|s items|res [l|]|res v]; cbn [guarded]; intros H; try discriminate H;
    try (eexists; eexists; reflexivity).
  unfold front_run, iterv. destruct (oneshot s); [eexists; eexists; reflexivity|].
  destruct items; eexists; eexists; reflexivity.
Qed.

Lemma gen_iopriority_correct :
  gen_iopriority = [("IOPRIO_CLASS_BE"%string, 2); ("IOPRIO_CLASS_IDLE"%string, 3);
                    ("IOPRIO_CLASS_NONE"%string, 0); ("IOPRIO_CLASS_RT"%string, 1)].
Proof. reflexivity. Qed.

Lemma gen_rlimit_both : forall pid res k,
  (forall limits,
     lin_denote (run gen_linux_rlimit pid [("resource_"%string, VInt res); ("limits"%string, limv limits)]) k
     = rlimit pid res limits k) /\
  (forall v its,
     lin_denote (run gen_linux_rlimit pid [("resource_"%string, VInt res); ("limits"%string, VInt v)]) k
     = rlimit_scalar pid res v k /\
     lin_denote (run gen_linux_rlimit pid [("resource_"%string, VInt res); ("limits"%string, VIter its)]) k
     = rlimit_scalar pid res v k).
Proof.
  intros pid res k. split.
  - intros limits. exact (gen_rlimit_correct pid res limits k).
  - intros v its. exact (gen_rlimit_scalar_correct pid res v its k).
Qed.

Lemma gen_guard_both : forall pid r,
  guard_of (front_run r pid) = guarded r /\
  (guarded r = true -> exists ret c, front_run r pid = RCall true ret c).
Proof. intros pid r. split; [exact (gen_guard_is_guarded pid r) | exact (gen_guarded_reaches_platform pid r)]. Qed.
