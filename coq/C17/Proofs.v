(* C17 -- proofs about the model of the extension's integer / index arithmetic
   and of users().  (Mount table: ProofsMnt.v) *)
From Coq Require Import ZifyBool.
From PV Require Import Base.Bits C17.Spec.

Ltac Zify.zify_post_hook ::= Z.div_mod_to_equations.

(* ================================================================ integers *)
Lemma shl_int_spec a s : 0 <= s ->
  shl_int a s = if (0 <=? a) && (a * 2 ^ s <=? INT_MAX) then Some (a * 2 ^ s) else None.
Proof. reflexivity. Qed.

Lemma ioprio_value_none c d : ioprio_value c d = None <-> ~ (0 <= c < 2 ^ 18).
Proof.
  unfold ioprio_value, shl_int, INT_MAX. change (2 ^ 13) with 8192. change (2 ^ 31 - 1) with 2147483647.
  change (2 ^ 18) with 262144.
  destruct (Z.leb_spec 0 c); destruct (Z.leb_spec (c * 8192) 2147483647); cbn [andb]; split; intros H1;
    try discriminate; try reflexivity; try lia.
Qed.

Lemma ioprio_defined c d : 0 <= c < 2 ^ 18 -> exists v, ioprio_value c d = Some v.
Proof.
  intros H. destruct (ioprio_value c d) eqn:E; [eauto|]. apply ioprio_value_none in E. contradiction.
Qed.

(* legacy: the Python layer accepts (ioclass, value) and the C shift is undefined *)
Lemma ionice_legacy_refuted : exists ioclass value,
  0 <= value <= 7 /\ ionice_set_legacy 0 ioclass value = CUB "shift".
Proof. exists 1048576, 0. split; [lia|]. vm_compute. reflexivity. Qed.

Lemma conv_i_range v z : conv_i v = Val z -> INT_MIN <= z <= INT_MAX.
Proof.
  destruct v; cbn [conv_i]; try discriminate.
  - unfold int_ok. destruct (Z.leb_spec INT_MIN z0); destruct (Z.leb_spec z0 INT_MAX); cbn [andb]; try discriminate.
    intros [= <-]. lia.
  - intros [= <-]. unfold INT_MIN, INT_MAX. destruct b; lia.
Qed.

Lemma c_ioprio_set_no_ub p c d : is_ub (c_ioprio_set_gen true p c d) = false.
Proof.
  unfold c_ioprio_set_gen, cbind. destruct (conv_i p); try reflexivity.
  destruct (conv_i c); try reflexivity. destruct (conv_i d); reflexivity.
Qed.

(* code of record: no (ioclass, value) reaches undefined behaviour *)
Lemma ionice_no_ub pid ioclass value : is_ub (ionice_set pid ioclass value) = false.
Proof.
  unfold ionice_set, ionice_set_gen.
  destruct (negb (value =? 0) && ((ioclass =? 3) || (ioclass =? 0))); [reflexivity|].
  destruct ((value <? 0) || (value >? 7)); [reflexivity|].
  destruct (true && negb ((0 <=? ioclass) && (ioclass <=? 3))); [reflexivity|].
  apply c_ioprio_set_no_ub.
Qed.

(* an ioclass outside 0..3 is rejected by the Python layer *)
Lemma ionice_rejects pid ioclass value : ~ (0 <= ioclass <= 3) -> ionice_set pid ioclass value = CExc ValueError.
Proof.
  intros H. unfold ionice_set, ionice_set_gen.
  destruct (negb (value =? 0) && ((ioclass =? 3) || (ioclass =? 0))); [reflexivity|].
  destruct ((value <? 0) || (value >? 7)); [reflexivity|].
  destruct (Z.leb_spec 0 ioclass); destruct (Z.leb_spec ioclass 3); cbn [andb negb]; try reflexivity. lia.
Qed.

(* the value handed to ioprio_set(2) is a C int, and for a valid class it is class * 2^13 + data *)
Lemma to_int_range u : INT_MIN <= to_int u <= INT_MAX.
Proof.
  unfold to_int, INT_MIN, INT_MAX. change (2 ^ 32) with 4294967296. change (2 ^ 31) with 2147483648.
  assert (0 <= u mod 4294967296 < 4294967296) by (apply Z.mod_pos_bound; lia).
  destruct (Z.ltb_spec (u mod 4294967296) 2147483648); lia.
Qed.

Lemma ioprio_value_u_range c d : INT_MIN <= ioprio_value_u c d <= INT_MAX.
Proof. apply to_int_range. Qed.

(* legacy: the only undefined case is an ioclass outside [0, 2^18) *)
Lemma ionice_legacy_ub pid ioclass value w :
  ionice_set_legacy pid ioclass value = CUB w -> ~ (0 <= ioclass < 2 ^ 18).
Proof.
  unfold ionice_set_legacy, ionice_set_gen.
  destruct (negb (value =? 0) && ((ioclass =? 3) || (ioclass =? 0))); [discriminate|].
  destruct ((value <? 0) || (value >? 7)); [discriminate|]. cbn [andb].
  unfold c_ioprio_set_gen, cbind. cbn [conv_i].
  destruct (int_ok pid); [|discriminate]. destruct (int_ok ioclass); [|discriminate].
  destruct (int_ok value); [|discriminate].
  destruct (ioprio_value ioclass value) eqn:E; [discriminate|]. intros _. now apply ioprio_value_none in E.
Qed.

(* ---------------------------------------------------------------- pid range *)
Lemma check_pid_range_int z :
  check_pid_range (PInt z) =
    if (z <? INT_MIN) || (z >? INT_MAX) then Exc OverflowError
    else if z <? 0 then Exc ValueError else Val tt.
Proof.
  unfold check_pid_range. cbn [conv_i]. unfold int_ok.
  destruct (Z.leb_spec INT_MIN z); destruct (Z.leb_spec z INT_MAX);
    destruct (Z.ltb_spec z INT_MIN); destruct (Z.gtb_spec z INT_MAX); cbn [andb orb obind]; try lia; reflexivity.
Qed.

Lemma check_pid_range_total v :
  check_pid_range v = Val tt \/ check_pid_range v = Exc OverflowError
  \/ check_pid_range v = Exc ValueError \/ check_pid_range v = Exc TypeError.
Proof.
  destruct v; try (right; right; right; reflexivity).
  - rewrite check_pid_range_int. destruct ((z <? INT_MIN) || (z >? INT_MAX)); [tauto|]. destruct (z <? 0); tauto.
  - left. destruct b; reflexivity.
Qed.

(* ---------------------------------------------------------------- CPU sets *)
Lemma cpu_set_touch_bound v c : cpu_set_touch v = Some c -> 0 <= c < 1024.
Proof.
  unfold cpu_set_touch, CPU_SETSIZE_BYTES. set (u := v mod 2 ^ 64).
  assert (0 <= u) by (apply Z.mod_pos_bound; reflexivity).
  destruct (Z.ltb_spec (u / 8) 128); [|discriminate]. intros [= <-]. lia.
Qed.

Lemma cpu_set_touch_none v : cpu_set_touch v = None <-> 1024 <= v mod 2 ^ 64.
Proof.
  unfold cpu_set_touch, CPU_SETSIZE_BYTES. set (u := v mod 2 ^ 64).
  destruct (Z.ltb_spec (u / 8) 128); split; intros H1; try discriminate; try reflexivity; lia.
Qed.

Inductive aff_good : aff_res -> Prop :=
| aff_good_ok n : 0 < n <= INT_MAX -> aff_good (AffOk n)
| aff_good_ovf : aff_good AffOverflowError.

Lemma aff_loop_good kernel_ok : forall fuel n,
  0 < n <= INT_MAX -> 2 ^ 31 <= n * 2 ^ Z.of_nat fuel -> aff_good (aff_loop fuel kernel_ok n).
Proof.
  unfold INT_MAX. change (2 ^ 31 - 1) with 2147483647. change (2 ^ 31) with 2147483648.
  induction fuel as [|f IH]; intros n Hn Hf.
  - cbn in Hf. lia.
  - cbn [aff_loop]. unfold int_ok, INT_MIN, INT_MAX.
    change (- 2 ^ 31) with (-2147483648). change (2 ^ 31 - 1) with 2147483647.
    destruct (Z.leb_spec (-2147483648) n); [|lia]. destruct (Z.leb_spec n 2147483647); [|lia]. cbn [andb negb].
    destruct (kernel_ok (cpu_alloc_size n)); [constructor; unfold INT_MAX; lia|].
    change (2147483647 / 2) with 1073741823.
    destruct (Z.gtb_spec n 1073741823); [constructor|].
    apply IH; [lia|]. rewrite Nat2Z.inj_succ, Z.pow_succ_r in Hf by lia. lia.
Qed.

(* 64 * 2^25 = 2^31: 25 rounds are enough whatever the kernel answers *)
Lemma aff_loop_terminates kernel_ok : aff_good (aff_loop 25 kernel_ok 64).
Proof. apply aff_loop_good; [unfold INT_MAX; lia|]. vm_compute. discriminate. Qed.

Definition set_bits (cpu : Z) (bits : list bool) : list Z :=
  map fst (filter snd (combine (map (fun i => cpu + Z.of_nat i) (seq 0 (length bits))) bits)).

Lemma set_bits_cons cpu b bits :
  set_bits cpu (b :: bits) = if b then cpu :: set_bits (cpu + 1) bits else set_bits (cpu + 1) bits.
Proof.
  unfold set_bits. cbn [length seq map combine filter snd fst].
  assert (Hs : map (fun i => cpu + Z.of_nat i) (seq 1 (length bits))
             = map (fun i => cpu + 1 + Z.of_nat i) (seq 0 (length bits))).
  { rewrite <- seq_shift, map_map. apply map_ext. intros i. lia. }
  rewrite Hs. destruct b; cbn [map fst]; [|reflexivity]. f_equal. cbn. lia.
Qed.

Lemma aff_scan_0 bits c : aff_scan bits c 0 = Some [].
Proof. destruct bits; reflexivity. Qed.

(* the read-out loop returns exactly the set bits and never indexes past the mask *)
Lemma aff_scan_exact : forall bits cpu, aff_scan bits cpu (popcount bits) = Some (set_bits cpu bits).
Proof.
  induction bits as [|b bits IH]; intros cpu; [reflexivity|].
  rewrite set_bits_cons. destruct b.
  - change (popcount (true :: bits)) with (S (popcount bits)). cbn [aff_scan]. rewrite IH. reflexivity.
  - change (popcount (false :: bits)) with (popcount bits).
    specialize (IH (cpu + 1)). destruct (popcount bits) eqn:Ep.
    + rewrite aff_scan_0 in IH. rewrite <- IH. reflexivity.
    + cbn [aff_scan]. exact IH.
Qed.

(* ---------------------------------------------------------------- ethtool speed *)
Lemma nic_speed_total hi lo : exists v, nic_speed hi lo = Some v /\ 0 <= v <= INT_MAX.
Proof.
  unfold nic_speed, nic_speed_gen, ethtool_speed. eexists. split; [reflexivity|].
  set (u := _ mod 2 ^ 32). assert (0 <= u) by (apply Z.mod_pos_bound; reflexivity).
  destruct (u =? 2 ^ 32 - 1); cbn [orb]; [unfold INT_MAX; lia|].
  destruct (Z.gtb_spec u INT_MAX); unfold INT_MAX in *; lia.
Qed.

Lemma nic_speed_legacy_defined hi lo : 0 <= hi < 2 ^ 15 -> exists v, nic_speed_legacy hi lo = Some v /\ 0 <= v <= INT_MAX.
Proof.
  intros H. unfold nic_speed_legacy, nic_speed_gen, ethtool_speed, shl_int, INT_MAX.
  change (2 ^ 16) with 65536. change (2 ^ 31 - 1) with 2147483647. change (2 ^ 15) with 32768 in H.
  destruct (Z.leb_spec 0 hi); [|lia]. destruct (Z.leb_spec (hi * 65536) 2147483647); [|lia]. cbn [andb].
  eexists. split; [reflexivity|].
  set (u := _ mod 2 ^ 32). assert (0 <= u) by (apply Z.mod_pos_bound; reflexivity).
  destruct (u =? 2 ^ 32 - 1); cbn [orb]; [lia|].
  destruct (Z.gtb_spec u 2147483647); lia.
Qed.

Lemma nic_speed_legacy_refuted : exists hi lo, 0 <= hi < 2 ^ 16 /\ 0 <= lo < 2 ^ 16 /\ nic_speed_legacy hi lo = None.
Proof. exists 65535, 65535. vm_compute. repeat split; discriminate. Qed.

(* ================================================================ buffers *)
Lemma combine_seq_bound {A} (l : list A) s k i v : In (i, v) (combine (seq s k) l) -> (s <= i < s + k)%nat.
Proof. intros H. apply in_combine_l in H. apply in_seq in H. exact H. Qed.

Lemma strncpy_in_bounds src k : in_bounds k (strncpy_writes src k).
Proof.
  unfold in_bounds, strncpy_writes. apply Forall_forall. intros [i v] H.
  apply combine_seq_bound in H. cbn [fst]. lia.
Qed.

(* PSUTIL_STRNCPY(dst, src, n) with n >= 1 writes only dst[0..n-1], for every source string *)
Lemma psutil_strncpy_in_bounds src n ws : psutil_strncpy src n = Some ws -> in_bounds n ws.
Proof.
  destruct n as [|k]; [discriminate|]. intros [= <-]. unfold in_bounds. apply Forall_app. split.
  - eapply Forall_impl; [|apply strncpy_in_bounds]. cbn beta. intros w Hw. lia.
  - constructor; [cbn [fst]; lia|constructor].
Qed.

Lemma psutil_strncpy_defined src n : (1 <= n)%nat -> exists ws, psutil_strncpy src n = Some ws.
Proof. destruct n; [lia|]. intros _. eexists. reflexivity. Qed.

Lemma upd_length : forall buf i v, length (upd buf i v) = length buf.
Proof. induction buf as [|c buf IH]; intros [|i] v; cbn [upd length]; auto. Qed.

Lemma apply_writes_length ws : forall buf, length (apply_writes buf ws) = length buf.
Proof.
  unfold apply_writes. induction ws as [|w ws IH]; intros buf; [reflexivity|].
  cbn [fold_left]. rewrite IH. apply upd_length.
Qed.

Lemma c_str_upd0 : forall buf i, (i < length buf)%nat ->
  exists s, c_str (upd buf i 0) = Some s /\ (length s <= i)%nat.
Proof.
  induction buf as [|a buf IH]; intros i Hi; cbn [length] in Hi; [lia|].
  destruct i as [|i]; cbn [upd c_str].
  - rewrite Z.eqb_refl. exists []. split; [reflexivity|cbn [length]; lia].
  - destruct (a =? 0); [exists []; split; [reflexivity|cbn [length]; lia]|].
    destruct (IH i) as [s [Hs Hl]]; [lia|]. rewrite Hs. exists (a :: s). split; [reflexivity|cbn [length]; lia].
Qed.

(* ... and leaves a terminated string in it, whatever the destination held before *)
Lemma psutil_strncpy_terminated src n ws junk :
  psutil_strncpy src n = Some ws -> length junk = n ->
  exists s, c_str (apply_writes junk ws) = Some s /\ (length s < n)%nat.
Proof.
  destruct n as [|k]; [discriminate|]. intros [= <-] Hj.
  unfold apply_writes. rewrite fold_left_app. cbn [fold_left fst snd].
  fold (apply_writes junk (strncpy_writes src k)).
  destruct (c_str_upd0 (apply_writes junk (strncpy_writes src k)) k) as [s [Hs Hl]].
  - rewrite apply_writes_length. lia.
  - exists s. split; [exact Hs|lia].
Qed.

Lemma ifr_name_defined junk name : length junk = IFNAMSIZ ->
  exists s, ifr_name junk name = Some s /\ (length s < IFNAMSIZ)%nat.
Proof.
  intros Hj. unfold ifr_name.
  destruct (psutil_strncpy_defined name IFNAMSIZ) as [ws Hws]; [unfold IFNAMSIZ; lia|].
  rewrite Hws. eapply psutil_strncpy_terminated; eauto.
Qed.

Lemma mac_writes_from_bound : forall data i,
  Forall (fun w => (fst w < 3 * (i + length data) + 1)%nat) (mac_writes_from i data).
Proof.
  induction data as [|b data IH]; intros i; cbn [mac_writes_from]; [constructor|].
  apply Forall_app. split.
  - unfold mac_writes_at. apply Forall_forall. intros [j v] Hj. apply combine_seq_bound in Hj. cbn [fst length]. lia.
  - eapply Forall_impl; [|apply IH]. cbn beta. intros w Hw. cbn [length]. lia.
Qed.

(* MAC formatting: sll_halen is an unsigned char, so at most 255 bytes: every write is inside buf[NI_MAXHOST] *)
Lemma mac_in_bounds data : (1 <= length data <= 255)%nat -> in_bounds NI_MAXHOST (mac_writes data).
Proof.
  intros H. unfold in_bounds, mac_writes, NI_MAXHOST. apply Forall_app. split.
  - eapply Forall_impl; [|apply mac_writes_from_bound]. cbn beta. intros w Hw. lia.
  - constructor; [cbn [fst]; lia|constructor].
Qed.

(* ---------------------------------------------------------------- content of the buffers *)
Lemma firstn_len_app {A} (f x : list A) : firstn (length f) (f ++ x) = f.
Proof. induction f as [|a f IH]; cbn [length firstn app]; [destruct x; reflexivity|now rewrite IH]. Qed.
Lemma skipn_len_app {A} (f x : list A) : skipn (length f) (f ++ x) = x.
Proof. induction f as [|a f IH]; cbn [length skipn app]; auto. Qed.

Lemma c_str_app_nul s rest : contains 0 s = false -> c_str (s ++ 0 :: rest) = Some s.
Proof.
  induction s as [|c s IH]; intros H; [reflexivity|].
  rewrite contains_cons in H. apply orb_false_iff in H as [Hc Hs].
  cbn [app c_str]. rewrite Z.eqb_sym, Hc. now rewrite IH.
Qed.

Lemma upd_firstn_skipn : forall buf i v, (i < length buf)%nat ->
  upd buf i v = firstn i buf ++ v :: skipn (S i) buf.
Proof.
  induction buf as [|c buf IH]; intros [|i] v H; cbn [length] in H; try lia; [reflexivity|].
  cbn [upd firstn skipn app]. f_equal. apply IH. lia.
Qed.

Lemma skipn_len_plus {A} (a x : list A) j : skipn (length a + j) (a ++ x) = skipn j x.
Proof. induction a as [|c a IH]; [reflexivity|]. cbn [length Nat.add skipn app]. exact IH. Qed.

Lemma firstn_len_plus {A} (a x : list A) j : firstn (length a + j) (a ++ x) = a ++ firstn j x.
Proof. induction a as [|c a IH]; [reflexivity|]. cbn [length Nat.add firstn app]. now rewrite IH. Qed.

Lemma skipn_skipn' {A} : forall b a (l : list A), skipn a (skipn b l) = skipn (b + a) l.
Proof.
  induction b as [|b IH]; intros a l; [reflexivity|]. destruct l as [|c l]; cbn [skipn Nat.add].
  - now destruct a.
  - apply IH.
Qed.

(* writing the values [vals] at the consecutive indices s, s+1, ... replaces exactly that block *)
Lemma block_write : forall vals s buf, (s + length vals <= length buf)%nat ->
  apply_writes buf (combine (seq s (length vals)) vals) = firstn s buf ++ vals ++ skipn (s + length vals) buf.
Proof.
  induction vals as [|v vals IH]; intros s buf H.
  - cbn [length seq combine apply_writes fold_left app]. rewrite Nat.add_0_r. now rewrite firstn_skipn.
  - cbn [length] in H. cbn [length seq combine]. unfold apply_writes. cbn [fold_left fst snd].
    fold (apply_writes (upd buf s v) (combine (seq (S s) (length vals)) vals)).
    rewrite IH by (rewrite upd_length; lia).
    rewrite upd_firstn_skipn by lia. set (tl := skipn (S s) buf).
    assert (Hl : length (firstn s buf) = s) by (apply firstn_length_le; lia).
    replace (S s) with (length (firstn s buf) + 1)%nat at 1 by lia.
    rewrite firstn_len_plus. cbn [firstn].
    replace (S s + length vals)%nat with (length (firstn s buf) + S (length vals))%nat at 1 by lia.
    rewrite skipn_len_plus. cbn [skipn]. subst tl. rewrite skipn_skipn'.
    rewrite <- app_assoc. cbn [app]. do 4 f_equal. lia.
Qed.

Lemma upd_app_len : forall a x b v, upd (a ++ x :: b) (length a) v = a ++ v :: b.
Proof. induction a as [|c a IH]; intros x b v; [reflexivity|]. cbn [app length upd]. now rewrite IH. Qed.

Lemma firstn_repeat {A} (x : A) : forall j k, firstn j (repeat x k) = repeat x (Nat.min j k).
Proof. induction j as [|j IH]; intros [|k]; cbn [firstn repeat Nat.min]; auto. now rewrite IH. Qed.

Lemma contains_firstn b : forall k l, contains b l = false -> contains b (firstn k l) = false.
Proof.
  induction k as [|k IH]; intros [|c l] H; cbn [firstn]; auto.
  rewrite contains_cons in *. apply orb_false_iff in H as [H1 H2]. now rewrite H1, IH.
Qed.

Lemma contains_cut_nul l : contains 0 (cut_nul l) = false.
Proof.
  induction l as [|c l IH]; [reflexivity|]. cbn [cut_nul]. destruct (Z.eqb_spec c 0); [reflexivity|].
  rewrite contains_cons, IH. destruct (Z.eqb_spec 0 c); [lia|reflexivity].
Qed.

Lemma cut_nul_id l : contains 0 l = false -> cut_nul l = l.
Proof.
  induction l as [|c l IH]; intros H; [reflexivity|]. rewrite contains_cons in H.
  apply orb_false_iff in H as [H1 H2]. cbn [cut_nul]. rewrite Z.eqb_sym, H1. now rewrite IH.
Qed.

(* the destination after PSUTIL_STRNCPY(dst, src, n): the first min(len, n-1) bytes of the C string src,
   then NULs up to n -- whatever dst held before *)
Lemma psutil_strncpy_content src n ws junk :
  psutil_strncpy src n = Some ws -> length junk = n ->
  apply_writes junk ws = pad n (firstn (n - 1) (cut_nul src)).
Proof.
  destruct n as [|k]; [discriminate|]. intros [= <-] Hj.
  unfold apply_writes. rewrite fold_left_app. cbn [fold_left fst snd].
  fold (apply_writes junk (strncpy_writes src k)). unfold strncpy_writes.
  set (vals := firstn k (cut_nul src ++ repeat 0 k)).
  assert (Hv : length vals = k).
  { unfold vals. rewrite firstn_length, app_length, repeat_length. lia. }
  replace (combine (seq 0 k) vals) with (combine (seq 0 (length vals)) vals) by (now rewrite Hv).
  match goal with |- context [fold_left ?f ?ws junk] => change (fold_left f ws junk) with (apply_writes junk ws) end.
  rewrite block_write by (cbn [Nat.add]; lia). cbn [firstn app Nat.add].
  assert (Hs : exists x, skipn (length vals) junk = [x]).
  { assert (Hl : length (skipn (length vals) junk) = 1%nat) by (rewrite skipn_length; lia).
    destruct (skipn (length vals) junk) as [|x [|y r]]; cbn [length] in Hl; try lia. eauto. }
  destruct Hs as [x ->]. replace (upd (vals ++ [x]) k 0) with (upd (vals ++ [x]) (length vals) 0) by (now rewrite Hv).
  rewrite upd_app_len.
  unfold pad. replace (S k - 1)%nat with k by lia. unfold vals.
  rewrite firstn_app, firstn_repeat. rewrite <- app_assoc. f_equal.
  rewrite firstn_length.
  replace [0] with (repeat 0 1) by reflexivity. rewrite <- repeat_app. f_equal. lia.
Qed.

(* ... so the string the kernel sees is the source cut at n-1 bytes *)
Lemma psutil_strncpy_cstr src n ws junk :
  psutil_strncpy src n = Some ws -> length junk = n ->
  c_str (apply_writes junk ws) = Some (firstn (n - 1) (cut_nul src)).
Proof.
  intros Hw Hj. rewrite (psutil_strncpy_content src n ws junk Hw Hj). unfold pad.
  destruct n as [|k]; [discriminate|].
  assert (Hl : (length (firstn (S k - 1) (cut_nul src)) <= k)%nat) by (rewrite firstn_length; lia).
  replace (S k - length (firstn (S k - 1) (cut_nul src)))%nat
    with (S (k - length (firstn (S k - 1) (cut_nul src)))) by lia.
  cbn [repeat]. apply c_str_app_nul. apply contains_firstn, contains_cut_nul.
Qed.

Lemma ifr_name_exact junk name : length junk = IFNAMSIZ -> contains 0 name = false ->
  ifr_name junk name = Some (firstn 15 name).
Proof.
  intros Hj Hn. unfold ifr_name.
  destruct (psutil_strncpy_defined name IFNAMSIZ) as [ws Hws]; [unfold IFNAMSIZ; lia|].
  rewrite Hws, (psutil_strncpy_cstr name IFNAMSIZ ws junk Hws Hj). now rewrite cut_nul_id.
Qed.

(* ---------------------------------------------------------------- content of the MAC text *)
Definition hexb (b : Z) : bytes := [hex_digit ((b mod 256) / 16); hex_digit ((b mod 256) mod 16)].
Definition mac_body (data : bytes) : bytes := flat_map (fun b => hexb b ++ [58]) data.

Lemma mac_body_cons b data : mac_body (b :: data) = hexb b ++ 58 :: mac_body data.
Proof. unfold mac_body. cbn [flat_map]. now rewrite <- app_assoc. Qed.

Lemma mac_body_length data : length (mac_body data) = (3 * length data)%nat.
Proof. induction data as [|b data IH]; [reflexivity|]. rewrite mac_body_cons. cbn [hexb app length]. rewrite IH. lia. Qed.

Lemma apply_writes_app buf w1 w2 : apply_writes buf (w1 ++ w2) = apply_writes (apply_writes buf w1) w2.
Proof. unfold apply_writes. apply fold_left_app. Qed.

Lemma mac_from_apply : forall rest b i P R,
  length P = (3 * i)%nat -> (3 * S (length rest) + 1 <= length R)%nat ->
  apply_writes (P ++ R) (mac_writes_from i (b :: rest))
  = P ++ mac_body (b :: rest) ++ 0 :: skipn (3 * S (length rest) + 1) R.
Proof.
  induction rest as [|b' rest IH]; intros b i P R HP HR.
  - cbn [mac_writes_from]. rewrite app_nil_r. unfold mac_writes_at.
    pose proof (block_write [hex_digit ((b mod 256) / 16); hex_digit ((b mod 256) mod 16); 58; 0] (3 * i) (P ++ R)) as Hb.
    cbn [length] in Hb. rewrite Hb by (rewrite app_length; cbn [length] in HR; lia). clear Hb.
    rewrite <- HP, firstn_len_app, skipn_len_plus. rewrite mac_body_cons. cbn [hexb mac_body flat_map app length].
    reflexivity.
  - change (mac_writes_from i (b :: b' :: rest)) with (mac_writes_at i b ++ mac_writes_from (S i) (b' :: rest)).
    rewrite apply_writes_app. unfold mac_writes_at at 1.
    pose proof (block_write [hex_digit ((b mod 256) / 16); hex_digit ((b mod 256) mod 16); 58; 0] (3 * i) (P ++ R)) as Hb.
    cbn [length] in Hb. rewrite Hb by (rewrite app_length; cbn [length] in HR; lia). clear Hb.
    rewrite <- HP, firstn_len_app, skipn_len_plus.
    change (P ++ [hex_digit ((b mod 256) / 16); hex_digit ((b mod 256) mod 16); 58; 0] ++ skipn 4 R)
      with (P ++ ([hex_digit ((b mod 256) / 16); hex_digit ((b mod 256) mod 16); 58] ++ 0 :: skipn 4 R)).
    rewrite app_assoc. cbn [length] in HR.
    rewrite IH.
    + rewrite <- app_assoc. f_equal. rewrite (mac_body_cons b). cbn [hexb app]. do 3 f_equal.
      f_equal. f_equal. cbn [length].
      replace (3 * S (length rest) + 1)%nat with (S (3 * S (length rest))) by lia.
      change (skipn (S (3 * S (length rest))) (0 :: skipn 4 R)) with (skipn (3 * S (length rest)) (skipn 4 R)).
      rewrite skipn_skipn'. f_equal. lia.
    + rewrite app_length. cbn [length]. lia.
    + cbn [length]. rewrite skipn_length. lia.
Qed.

Lemma mac_body_join : forall rest b, mac_body (b :: rest) = join [58] (map hexb (b :: rest)) ++ [58].
Proof.
  induction rest as [|b' rest IH]; intros b.
  - rewrite mac_body_cons. cbn [mac_body flat_map map join]. reflexivity.
  - rewrite mac_body_cons, IH. cbn [map join]. rewrite <- !app_assoc. reflexivity.
Qed.

Lemma hex_digit_pos d : 0 <= d -> 48 <= hex_digit d /\ hex_digit d <> 58.
Proof. intros H. unfold hex_digit. destruct (Z.ltb_spec d 10); lia. Qed.

Lemma hexb_clean b c : In c (hexb b) -> 48 <= c /\ c <> 58.
Proof.
  assert (0 <= b mod 256 < 256) by (apply Z.mod_pos_bound; lia).
  unfold hexb. intros [<-|[<-|[]]]; apply hex_digit_pos.
  - apply Z.div_pos; lia.
  - apply Z.mod_pos_bound; lia.
Qed.

Lemma mac_body_no_nul data : contains 0 (mac_body data) = false.
Proof.
  induction data as [|b data IH]; [reflexivity|]. rewrite mac_body_cons, contains_app, contains_cons, IH.
  assert (H1 := hexb_clean b). unfold hexb in *. cbn [contains existsb].
  destruct (Z.eqb_spec 0 (hex_digit ((b mod 256) / 16))) as [E|_];
    [specialize (H1 _ (or_introl eq_refl)); lia|].
  destruct (Z.eqb_spec 0 (hex_digit ((b mod 256) mod 16))) as [E|_];
    [specialize (H1 _ (or_intror (or_introl eq_refl))); lia|]. reflexivity.
Qed.

Lemma map_hexb_wf data : wf_bytes data = true -> map hexb data = map hex2 data.
Proof.
  intros H. apply map_ext_in. intros b Hb. unfold wf_bytes in H. rewrite forallb_forall in H.
  specialize (H b Hb). unfold wf_byte in H. apply andb_true_iff in H as [H1 H2].
  apply Z.leb_le in H1. apply Z.ltb_lt in H2. unfold hexb, hex2. now rewrite Z.mod_small by lia.
Qed.

(* the text built in buf[NI_MAXHOST] is the lower-case hex pairs joined by ':' -- whatever the buffer held *)
Lemma mac_string_exact junk data :
  length junk = NI_MAXHOST -> (1 <= length data <= 255)%nat -> wf_bytes data = true ->
  mac_string junk data = Some (spec_mac data).
Proof.
  intros Hj Hl Hwf. destruct data as [|b rest]; [cbn [length] in Hl; lia|].
  unfold mac_string, mac_writes. rewrite apply_writes_app.
  pose proof (mac_from_apply rest b 0 [] junk eq_refl) as Hm. cbn [app] in Hm.
  rewrite Hm by (rewrite Hj; unfold NI_MAXHOST; cbn [length] in Hl; lia). clear Hm.
  rewrite mac_body_join. unfold apply_writes. cbn [fold_left fst snd].
  set (txt := join [58] (map hexb (b :: rest))).
  assert (Ht : length txt = (3 * length (b :: rest) - 1)%nat).
  { pose proof (mac_body_length (b :: rest)) as H1. rewrite mac_body_join in H1. fold txt in H1.
    rewrite app_length in H1. cbn [length] in *. lia. }
  rewrite <- Ht, <- app_assoc. cbn [app]. rewrite upd_app_len.
  assert (Hn : contains 0 txt = false).
  { pose proof (mac_body_no_nul (b :: rest)) as H1. rewrite mac_body_join in H1. fold txt in H1.
    rewrite contains_app in H1. now apply orb_false_iff in H1 as [H1 _]. }
  rewrite c_str_app_nul by exact Hn. unfold txt, spec_mac. now rewrite map_hexb_wf.
Qed.

(* ---------------------------------------------------------------- net_if_addrs(): padding of short MACs *)
Lemma count_byte_app b x y : count_byte b (x ++ y) = (count_byte b x + count_byte b y)%nat.
Proof. unfold count_byte. now rewrite filter_app, app_length. Qed.

Lemma mac_body_colons data : count_byte 58 (mac_body data) = length data.
Proof.
  induction data as [|b data IH]; [reflexivity|].
  rewrite mac_body_cons. change (hexb b ++ 58 :: mac_body data) with (hexb b ++ [58] ++ mac_body data).
  rewrite !count_byte_app, IH.
  assert (H1 := hexb_clean b). unfold hexb in *. unfold count_byte. cbn [filter].
  destruct (Z.eqb_spec 58 (hex_digit ((b mod 256) / 16))) as [E|_];
    [specialize (H1 _ (or_introl eq_refl)); lia|].
  destruct (Z.eqb_spec 58 (hex_digit ((b mod 256) mod 16))) as [E|_];
    [specialize (H1 _ (or_intror (or_introl eq_refl))); lia|]. reflexivity.
Qed.

Lemma join_snoc sep : forall ts t, ts <> [] -> join sep (ts ++ [t]) = join sep ts ++ sep ++ t.
Proof.
  induction ts as [|x ts IH]; intros t H; [congruence|]. destruct ts as [|y ts].
  - reflexivity.
  - change ((x :: y :: ts) ++ [t]) with (x :: ((y :: ts) ++ [t])).
    change (join sep (x :: (y :: ts) ++ [t])) with (x ++ sep ++ join sep ((y :: ts) ++ [t])).
    rewrite IH by congruence. cbn [join]. now rewrite <- !app_assoc.
Qed.

Lemma pad_rounds_mac : forall k data, data <> [] ->
  pad_rounds k (spec_mac data) = spec_mac (data ++ repeat 0 k).
Proof.
  induction k as [|k IH]; intros data H; cbn [pad_rounds repeat]; [now rewrite app_nil_r|].
  replace (spec_mac data ++ [58; 48; 48]) with (spec_mac (data ++ [0])).
  - rewrite IH by (destruct data; cbn [app]; discriminate). now rewrite <- app_assoc.
  - unfold spec_mac. rewrite map_app. cbn [map]. rewrite join_snoc by (destruct data; [congruence|cbn [map]; discriminate]). reflexivity.
Qed.

(* a hardware address shorter than 6 bytes is completed with zero bytes; longer ones are left alone *)
Lemma py_mac_pad_exact data : (1 <= length data)%nat -> wf_bytes data = true ->
  py_mac_pad (spec_mac data) = spec_mac (data ++ repeat 0 (6 - length data)).
Proof.
  intros Hl Hwf. unfold py_mac_pad. destruct data as [|b rest]; [cbn [length] in Hl; lia|].
  assert (Hc : count_byte 58 (spec_mac (b :: rest)) = length rest).
  { pose proof (mac_body_colons (b :: rest)) as H1. rewrite mac_body_join, count_byte_app in H1.
    unfold spec_mac. rewrite <- map_hexb_wf by exact Hwf. cbn [length] in H1.
    change (count_byte 58 [58]) with 1%nat in H1. lia. }
  rewrite Hc, pad_rounds_mac by discriminate. cbn [length]. do 2 f_equal.
Qed.

(* ================================================================ entry points *)
Lemma ifreq_call_no_ub what v : is_ub (ifreq_call what v) = false.
Proof.
  unfold ifreq_call, cbind. destruct (conv_s v) as [name| |]; try reflexivity.
  destruct (ifr_name_defined (repeat 255 IFNAMSIZ) name) as [s [-> _]]; [apply repeat_length|reflexivity].
Qed.

Lemma c_ioprio_set_legacy_ub p c d w : c_ioprio_set_gen false p c d = CUB w ->
  exists cz, conv_i c = Val cz /\ ~ (0 <= cz < 2 ^ 18).
Proof.
  unfold c_ioprio_set_gen, cbind. destruct (conv_i p); try discriminate.
  destruct (conv_i c) as [cz| |]; try discriminate. destruct (conv_i d) as [dz| |]; try discriminate.
  destruct (ioprio_value cz dz) eqn:E; [discriminate|]. intros _. exists cz. split; [reflexivity|].
  now apply ioprio_value_none in E.
Qed.

Lemma cbind_i_no_ub v k : (forall z, is_ub (k z) = false) -> is_ub (cbind (conv_i v) k) = false.
Proof. intros H. unfold cbind. destruct (conv_i v); auto. Qed.

(* every entry point, every argument tuple, either variant: undefined behaviour in the model can only be
   the legacy ioprio shift *)
Lemma entry_gen_ub fixed ep args w : c_entry_gen fixed ep args = CUB w ->
  fixed = false /\ ep = EpIoprioSet /\
  exists p c d cz, args = [p; c; d] /\ conv_i c = Val cz /\ ~ (0 <= cz < 2 ^ 18).
Proof.
  intros H. assert (Hub : is_ub (c_entry_gen fixed ep args) = true) by (rewrite H; reflexivity).
  destruct ep; destruct args as [|a1 [|a2 [|a3 [|a4 rest]]]]; cbn [c_entry_gen] in *;
    try discriminate;
    try (rewrite ifreq_call_no_ub in Hub; discriminate);
    try (rewrite cbind_i_no_ub in Hub; [discriminate|intros; reflexivity]).
  all: try (destruct (check_pid_range a1) as [[]| |]; discriminate).
  - (* ioprio_set *) destruct fixed; [rewrite c_ioprio_set_no_ub in Hub; discriminate|].
    split; [reflexivity|]. split; [reflexivity|]. apply c_ioprio_set_legacy_ub in H as [cz [Hc Hr]].
    exists a1, a2, a3, cz. auto.
  - (* affinity_set *) unfold c_affinity_set, cbind in H. destruct (conv_i a1); try discriminate.
    destruct (as_sequence a2); try discriminate. destruct (aff_items l []); discriminate.
  - (* disk_partitions *) unfold cbind in H. destruct (conv_s a1); discriminate.
  - (* setpriority *) unfold cbind in H. destruct (conv_i a1); try discriminate. destruct (conv_i a2); discriminate.
Qed.

(* code of record: no entry point, no argument tuple reaches undefined behaviour *)
Lemma entry_no_ub ep args : is_ub (c_entry ep args) = false.
Proof.
  destruct (c_entry ep args) eqn:E; try reflexivity.
  unfold c_entry in E. apply entry_gen_ub in E as [F _]. discriminate.
Qed.

Lemma entry_legacy_ub ep args w : c_entry_legacy ep args = CUB w ->
  ep = EpIoprioSet /\ exists p c d cz, args = [p; c; d] /\ conv_i c = Val cz /\ ~ (0 <= cz < 2 ^ 18).
Proof. intros H. apply entry_gen_ub in H as [_ H]. exact H. Qed.

Lemma entry_legacy_refuted : c_entry_legacy EpIoprioSet [PInt 0; PInt (-1); PInt 0] = CUB "shift".
Proof. vm_compute. reflexivity. Qed.

(* ================================================================ users() *)
Lemma split_fields_concat : forall ws fs,
  Forall2 (fun w f => length f = w) ws fs -> split_fields ws (concat fs) = fs.
Proof.
  intros ws fs H. induction H as [|w f ws fs Hl _ IH]; [reflexivity|].
  cbn [split_fields concat]. subst w. now rewrite firstn_len_app, skipn_len_app, IH.
Qed.

Lemma le_bytes_length n : forall z, length (le_bytes n z) = n.
Proof. induction n as [|n IH]; intros z; cbn [le_bytes length]; auto. Qed.

Lemma pad_length w s : (length s <= w)%nat -> length (pad w s) = w.
Proof. intros H. unfold pad. rewrite app_length, repeat_length. lia. Qed.

Lemma le_signed_2 z : - 2 ^ 15 <= z < 2 ^ 15 -> le_signed (le_bytes 2 z) = z.
Proof.
  intros H. unfold le_signed. cbn [le_bytes le_unsigned length].
  change (256 ^ Z.of_nat 2) with 65536. change (65536 / 2) with 32768.
  change (- 2 ^ 15) with (-32768) in H. change (2 ^ 15) with 32768 in H.
  destruct (Z.ltb_spec (z mod 256 + 256 * ((z / 256) mod 256 + 256 * 0)) 32768); lia.
Qed.

Lemma le_signed_4 z : int_ok z = true -> le_signed (le_bytes 4 z) = z.
Proof.
  unfold int_ok, INT_MIN, INT_MAX. change (- 2 ^ 31) with (-2147483648). change (2 ^ 31 - 1) with 2147483647.
  intros H. unfold le_signed. cbn [le_bytes le_unsigned length].
  change (256 ^ Z.of_nat 4) with 4294967296. change (4294967296 / 2) with 2147483648.
  set (b0 := z mod 256). set (z1 := z / 256). set (b1 := z1 mod 256). set (z2 := z1 / 256).
  set (b2 := z2 mod 256). set (z3 := z2 / 256). set (b3 := z3 mod 256).
  assert (z = b0 + 256 * z1) by (subst b0 z1; lia).
  assert (z1 = b1 + 256 * z2) by (subst b1 z2; lia).
  assert (z2 = b2 + 256 * z3) by (subst b2 z3; lia).
  assert (0 <= b0 < 256) by (apply Z.mod_pos_bound; lia).
  assert (0 <= b1 < 256) by (apply Z.mod_pos_bound; lia).
  assert (0 <= b2 < 256) by (apply Z.mod_pos_bound; lia).
  assert (0 <= b3 < 256 /\ (z3 = b3 \/ z3 = b3 - 256)) by (subst b3; lia).
  clearbody b0 z1 b1 z2 b2 z3 b3.
  destruct (Z.ltb_spec (b0 + 256 * (b1 + 256 * (b2 + 256 * (b3 + 256 * 0)))) 2147483648); lia.
Qed.

Lemma cut_nul_pad s k : contains 0 s = false -> cut_nul (s ++ repeat 0 k) = s.
Proof.
  induction s as [|c s IH]; intros H.
  - destruct k; reflexivity.
  - rewrite contains_cons in H. apply orb_false_iff in H as [Hc Hs].
    cbn [app cut_nul]. rewrite Z.eqb_sym, Hc. now rewrite IH.
Qed.

Lemma str_ok_spec w s : str_ok w s = true -> (length s <= w)%nat /\ contains 0 s = false.
Proof.
  unfold str_ok. intros H. apply andb_true_iff in H as [H1 H2]. apply Nat.leb_le in H1.
  apply negb_true_iff in H2. auto.
Qed.

(* a string field of the printed record, as the code decodes it *)
Lemma field_cstr_pad fixed w s after :
  str_ok w s = true -> (fixed = true \/ (length s < w)%nat) -> field_cstr fixed (pad w s) after = Some s.
Proof.
  intros Hok Hc. apply str_ok_spec in Hok as [Hl Hn]. unfold field_cstr, pad. destruct fixed.
  - now rewrite cut_nul_pad.
  - destruct Hc as [Hc|Hc]; [discriminate|].
    replace (w - length s)%nat with (S (w - length s - 1)) by lia. cbn [repeat].
    rewrite <- app_assoc. cbn [app]. now apply c_str_app_nul.
Qed.

Lemma wf_urec_fields r : wf_urec r = true ->
  Forall2 (fun w f => length f = w) utmp_widths (k_fields r).
Proof.
  unfold wf_urec. intros H. repeat (apply andb_true_iff in H as [H ?]).
  repeat match goal with Hx : (_ =? _)%nat = true |- _ => apply Nat.eqb_eq in Hx end.
  repeat match goal with Hx : str_ok _ _ = true |- _ => apply str_ok_spec in Hx as [Hx _] end.
  unfold utmp_widths, k_fields.
  repeat constructor; auto using le_bytes_length, pad_length.
Qed.

Lemma users_record_exact fixed r :
  wf_urec r = true -> (fixed = true \/ terminated r = true) ->
  users_record fixed (k_utmp r) = MOk (spec_user r).
Proof.
  intros Hwf Hc. unfold users_record, k_utmp. rewrite (split_fields_concat _ _ (wf_urec_fields r Hwf)).
  unfold k_fields. cbv beta iota.
  unfold wf_urec in Hwf. repeat (apply andb_true_iff in Hwf as [Hwf ?]).
  apply Z.leb_le in Hwf.
  match goal with Hx : (k_type r <? 2 ^ 15) = true |- _ => apply Z.ltb_lt in Hx end.
  rewrite le_signed_2 by lia. unfold spec_user, USER_PROCESS.
  destruct (k_type r =? 7) eqn:Et; cbn [negb]; [|reflexivity].
  assert (Ht : fixed = true \/ ((length (k_line r) < 32)%nat /\ (length (k_user r) < 32)%nat /\ (length (k_host r) < 256)%nat)).
  { destruct Hc as [Hc|Hc]; [now left|right]. unfold terminated in Hc. rewrite Et in Hc. cbn [negb orb] in Hc.
    apply andb_true_iff in Hc as [Hc Hh]. apply andb_true_iff in Hc as [Hl Hu].
    apply Nat.ltb_lt in Hl, Hu, Hh. auto. }
  rewrite !field_cstr_pad by (auto; destruct Ht as [Ht|[? [? ?]]]; auto).
  rewrite !le_signed_4 by assumption. reflexivity.
Qed.

Lemma users_records_exact fixed rs :
  forallb wf_urec rs = true -> (fixed = true \/ forallb terminated rs = true) ->
  users_records fixed (map k_utmp rs) = MOk (spec_users rs).
Proof.
  induction rs as [|r rs IH]; intros Hwf Hc; [reflexivity|].
  cbn [forallb] in Hwf. apply andb_true_iff in Hwf as [Hr Hrs].
  assert (Hc1 : fixed = true \/ terminated r = true).
  { destruct Hc as [Hc|Hc]; [now left|right]. cbn [forallb] in Hc. now apply andb_true_iff in Hc as [Hc _]. }
  assert (Hc2 : fixed = true \/ forallb terminated rs = true).
  { destruct Hc as [Hc|Hc]; [now left|right]. cbn [forallb] in Hc. now apply andb_true_iff in Hc as [_ Hc]. }
  cbn [map users_records]. rewrite users_record_exact, IH by assumption.
  unfold spec_users. cbn [map filter_some]. destruct (spec_user r); reflexivity.
Qed.

Lemma k_utmp_length r : wf_urec r = true -> length (k_utmp r) = UTMP_SIZE.
Proof.
  intros H. apply wf_urec_fields in H. unfold k_utmp, UTMP_SIZE.
  assert (G : forall ws (fs : list bytes), Forall2 (fun w f => length f = w) ws fs -> length (concat fs) = fold_right Nat.add O ws).
  { intros ws fs F. induction F as [|w f ws' fs' Hl _ IH]; [reflexivity|].
    cbn [concat fold_right]. rewrite app_length, IH, Hl. reflexivity. }
  rewrite (G _ _ H). reflexivity.
Qed.

Lemma chunks_concat n : (0 < n)%nat -> forall rs fuel,
  Forall (fun r => length r = n) rs -> (length rs <= fuel)%nat -> chunks fuel n (concat rs) = rs.
Proof.
  intros Hn. induction rs as [|r rs IH]; intros fuel Hf Hl.
  - cbn [concat]. destruct fuel; [reflexivity|]. cbn [chunks length].
    destruct (Nat.ltb_spec 0 n); [reflexivity|lia].
  - inversion Hf as [|? ? Hr Hrs]; subst. cbn [length] in Hl. destruct fuel as [|fuel]; [lia|].
    cbn [chunks concat]. rewrite app_length.
    destruct (Nat.ltb_spec (length r + length (concat rs)) (length r)); [lia|].
    rewrite firstn_len_app, skipn_len_app, IH; auto. lia.
Qed.

Lemma concat_length_ge (rs : list bytes) n : (0 < n)%nat ->
  Forall (fun r => length r = n) rs -> (length rs <= length (concat rs))%nat.
Proof.
  intros Hn H. induction H as [|r rs Hr _ IH]; [cbn; lia|]. cbn [concat length]. rewrite app_length. lia.
Qed.

(* every file of well-formed login records *)
Lemma users_exact fixed rs :
  forallb wf_urec rs = true -> (fixed = true \/ forallb terminated rs = true) ->
  users_gen fixed (k_utmp_file rs) = MOk (spec_users rs).
Proof.
  intros Hwf Hc. unfold users_gen, k_utmp_file.
  assert (Hall : Forall (fun r => length r = UTMP_SIZE) (map k_utmp rs)).
  { apply Forall_forall. intros x Hx. apply in_map_iff in Hx as [r [<- Hr]].
    apply k_utmp_length. rewrite forallb_forall in Hwf. auto. }
  rewrite chunks_concat; auto.
  - now apply users_records_exact.
  - unfold UTMP_SIZE. lia.
  - apply concat_length_ge with (n := UTMP_SIZE); [unfold UTMP_SIZE; lia|exact Hall].
Qed.

Definition rec_full : urec :=
  {| k_type := 7; k_pid := 1234; k_line := repeat 76 32; k_id := bs "ts/0"; k_user := repeat 85 32;
     k_host := bs "example.org"; k_exit := [0; 0; 0; 0]; k_session := [0; 0; 0; 0]; k_sec := 1700000000;
     k_usec := [0; 0; 0; 0]; k_addr := repeat 0 16; k_unused := repeat 0 20 |}.
Definition rec_unterminated : urec :=
  {| k_type := 7; k_pid := 77; k_line := repeat 65 32; k_id := repeat 65 4; k_user := repeat 65 32;
     k_host := repeat 65 256; k_exit := repeat 65 4; k_session := repeat 65 4; k_sec := 1094795585;
     k_usec := repeat 65 4; k_addr := repeat 65 16; k_unused := repeat 65 20 |}.
Definition rec_plain : urec :=
  {| k_type := 7; k_pid := 4242; k_line := bs "pts/3"; k_id := bs "ts/3"; k_user := bs "alice";
     k_host := bs ":0"; k_exit := [0; 0; 0; 0]; k_session := [0; 0; 0; 0]; k_sec := 1700000000;
     k_usec := [1; 2; 3; 4]; k_addr := repeat 0 16; k_unused := repeat 0 20 |}.

(* legacy code: a user name filling its 32 bytes comes back with the host appended *)
Lemma users_legacy_fullwidth_refuted : exists rs,
  forallb wf_urec rs = true /\
  exists rows, users_legacy (k_utmp_file rs) = MOk rows /\ rows <> spec_users rs /\
               map u_user rows = [repeat 85 32 ++ bs "example.org"].
Proof.
  exists [rec_full]. split; [vm_compute; reflexivity|].
  eexists. split; [vm_compute; reflexivity|]. split; [|vm_compute; reflexivity].
  vm_compute. discriminate.
Qed.

(* ... and a record without any NUL behind ut_line makes the read leave the record *)
Lemma users_legacy_oob_refuted : exists rs,
  forallb wf_urec rs = true /\ users_legacy (k_utmp_file rs) = MOutOfBounds.
Proof. exists [rec_unterminated]. split; vm_compute; reflexivity. Qed.

Example users_exact_example :
  forallb wf_urec [rec_plain] = true /\ forallb terminated [rec_plain] = true /\
  map u_host (spec_users [rec_plain]) = [bs "localhost"].
Proof. vm_compute. auto. Qed.

(* ================================================================ interface flags *)
Lemma nodup_snd_inj {A B} (t : list (A * B)) x y :
  NoDup (map snd t) -> In x t -> In y t -> snd x = snd y -> x = y.
Proof.
  induction t as [|p t IH]; intros Hnd Hx Hy He; [contradiction|].
  cbn [map] in Hnd. inversion Hnd as [|? ? Hnot Hnd']; subst.
  destruct Hx as [->|Hx]; destruct Hy as [->|Hy]; auto.
  - exfalso. apply Hnot. rewrite He. now apply in_map.
  - exfalso. apply Hnot. rewrite <- He. now apply in_map.
Qed.

Lemma net_if_flags_exact flags i name : 0 <= flags -> In (i, name) spec_iff ->
  (In name (net_if_flags flags) <-> Z.testbit flags i = true).
Proof.
  intros Hf Hin. unfold net_if_flags. change iff_table with spec_iff.
  assert (Hnd : NoDup (map snd spec_iff)).
  { vm_compute. repeat (constructor; [cbn; intuition discriminate|]). constructor. }
  assert (Hi : 0 <= i).
  { vm_compute in Hin. repeat (destruct Hin as [Hin|Hin]; [injection Hin as <- _; lia|]). contradiction. }
  rewrite in_map_iff. split.
  - intros [[i' n'] [Hs Hflt]]. cbn [snd] in Hs. subst n'. apply filter_In in Hflt as [Hin' Hp].
    assert (E : (i', name) = (i, name)) by (apply (nodup_snd_inj spec_iff); auto).
    injection E as ->. cbn [fst] in Hp. rewrite land_pow2_eqb0, negb_involutive in Hp by lia. exact Hp.
  - intros Hb. exists (i, name). split; [reflexivity|]. apply filter_In. split; [exact Hin|].
    cbn [fst]. rewrite land_pow2_eqb0, negb_involutive by lia. exact Hb.
Qed.

(* ================================================================ statements as used in Properties/C17.v *)
Lemma users_decode rs :
  forallb wf_urec rs = true -> users (k_utmp_file rs) = MOk (spec_users rs).
Proof. intros H. apply users_exact; auto. Qed.

Lemma users_legacy_decode rs :
  forallb wf_urec rs = true -> forallb terminated rs = true ->
  users_legacy (k_utmp_file rs) = MOk (spec_users rs).
Proof. intros H T. apply users_exact; auto. Qed.

Lemma strncpy_safe src n : (1 <= n)%nat ->
  exists ws, psutil_strncpy src n = Some ws /\ in_bounds n ws /\
  forall junk, length junk = n ->
    exists s, c_str (apply_writes junk ws) = Some s /\ (length s < n)%nat.
Proof.
  intros Hn. destruct (psutil_strncpy_defined src n Hn) as [ws Hws]. exists ws.
  split; [exact Hws|]. split; [exact (psutil_strncpy_in_bounds src n ws Hws)|].
  intros junk Hj. exact (psutil_strncpy_terminated src n ws junk Hws Hj).
Qed.

Lemma getaffinity_terminates (kernel_ok : Z -> bool) :
  (exists n, aff_loop 25 kernel_ok 64 = AffOk n /\ 0 < n <= INT_MAX)
  \/ aff_loop 25 kernel_ok 64 = AffOverflowError.
Proof.
  destruct (aff_loop_terminates kernel_ok) as [n Hn|]; [left; eauto|right; reflexivity].
Qed.

Lemma affinity_readout bits : aff_scan bits 0 (popcount bits) = Some (set_bits 0 bits).
Proof. apply aff_scan_exact. Qed.

(* what ionice() hands to ioprio_set(2) for every (ioclass, value) the Python layer lets through:
   class * 2^13 + data (the domain is finite: 4 classes x 8 values) *)
Lemma ioprio_value_u_valid c d : 0 <= c <= 3 -> 0 <= d <= 7 -> ioprio_value_u c d = c * 8192 + d.
Proof.
  intros Hc Hd.
  assert (E : forallb (fun c => forallb (fun d => ioprio_value_u c d =? c * 8192 + d) [0;1;2;3;4;5;6;7]) [0;1;2;3] = true)
    by (vm_compute; reflexivity).
  rewrite forallb_forall in E. assert (Ic : In c [0;1;2;3]) by (cbn; lia).
  specialize (E c Ic). rewrite forallb_forall in E. assert (Id : In d [0;1;2;3;4;5;6;7]) by (cbn; lia).
  apply Z.eqb_eq. exact (E d Id).
Qed.

Lemma strncpy_content src n junk : (1 <= n)%nat -> length junk = n ->
  exists ws, psutil_strncpy src n = Some ws /\
             apply_writes junk ws = pad n (firstn (n - 1) (cut_nul src)) /\
             c_str (apply_writes junk ws) = Some (firstn (n - 1) (cut_nul src)).
Proof.
  intros Hn Hj. destruct (psutil_strncpy_defined src n Hn) as [ws Hws]. exists ws. split; [exact Hws|]. split.
  - exact (psutil_strncpy_content src n ws junk Hws Hj).
  - exact (psutil_strncpy_cstr src n ws junk Hws Hj).
Qed.

(* ================================================================ net_if_addrs() over a fed interface list *)
From Coq Require Import Permutation.

Lemma convert_exact junk family sa : length junk = NI_MAXHOST -> sa_ok family sa = true ->
  convert_ipaddr junk sa family = Val (spec_text sa).
Proof.
  intros Hj Hok. destruct sa as [s|]; [|reflexivity]. cbn [sa_ok] in Hok. apply andb_true_iff in Hok as [Hf Hs].
  cbn [convert_ipaddr]. rewrite Hf. cbn [negb]. destruct s as [data|f t|f]; try reflexivity.
  apply andb_true_iff in Hs as [Hw Hl]. apply Nat.leb_le in Hl.
  destruct data as [|b rest]; [reflexivity|]. cbn [spec_text].
  rewrite mac_string_exact; auto. cbn [length] in *. lia.
Qed.

Lemma c_ifa_row_exact fs junk i : length junk = NI_MAXHOST -> wf_ifa i = true -> (fs = true \/ name_utf8 i = true) ->
  c_ifa_row fs junk i = Val (spec_ifa_row i).
Proof.
  intros Hj Hwf Hname. unfold wf_ifa in Hwf. apply andb_true_iff in Hwf as [_ Ha].
  assert (Hn : fs || utf8_valid (ifa_name i) = true).
  { destruct Hname as [->|Hn]; [reflexivity|]. unfold name_utf8 in Hn. rewrite Hn. apply orb_true_r. }
  unfold c_ifa_row, spec_ifa_row. destruct (ifa_addr i) as [a|]; [|reflexivity].
  apply andb_true_iff in Ha as [Ha Hb]. apply andb_true_iff in Ha as [Ha Hm].
  rewrite (convert_exact junk (sa_family a) (Some a) Hj Ha). cbn [obind].
  destruct (spec_text (Some a)) as [ad|]; [|reflexivity].
  rewrite (convert_exact junk (sa_family a) (ifa_mask i) Hj Hm). cbn [obind].
  rewrite !testbit_odd_div by lia. change (2 ^ 1) with 2. change (2 ^ 4) with 16.
  destruct (Z.odd (ifa_flags i / 2)).
  - rewrite (convert_exact junk (sa_family a) (ifa_baddr i) Hj Hb). cbn [obind fst snd]. now rewrite Hn.
  - destruct (Z.odd (ifa_flags i / 16)).
    + rewrite (convert_exact junk (sa_family a) (ifa_baddr i) Hj Hb). cbn [obind fst snd]. now rewrite Hn.
    + cbn [obind fst snd]. now rewrite Hn.
Qed.

Lemma c_net_if_addrs_gen_exact fs junk l : length junk = NI_MAXHOST -> forallb wf_ifa l = true ->
  (fs = true \/ forallb name_utf8 l = true) ->
  c_net_if_addrs_gen fs junk l = Val (spec_if_rows l).
Proof.
  intros Hj. induction l as [|i l IH]; intros H Hn; [reflexivity|].
  cbn [forallb] in H. apply andb_true_iff in H as [Hi Hl].
  assert (Hn1 : fs = true \/ name_utf8 i = true).
  { destruct Hn as [Hn|Hn]; [now left|right]. cbn [forallb] in Hn. now apply andb_true_iff in Hn as [Hn _]. }
  assert (Hn2 : fs = true \/ forallb name_utf8 l = true).
  { destruct Hn as [Hn|Hn]; [now left|right]. cbn [forallb] in Hn. now apply andb_true_iff in Hn as [_ Hn]. }
  cbn [c_net_if_addrs_gen]. rewrite c_ifa_row_exact, IH by assumption. cbn [obind].
  unfold spec_if_rows. cbn [map filter_some]. destruct (spec_ifa_row i); reflexivity.
Qed.

(* every interface list whose names are UTF-8 (the code as it is) *)
Lemma c_net_if_addrs_exact junk l : length junk = NI_MAXHOST -> forallb wf_ifa l = true -> forallb name_utf8 l = true ->
  c_net_if_addrs junk l = Val (spec_if_rows l).
Proof. intros. apply c_net_if_addrs_gen_exact; auto. Qed.

(* every interface list, whatever bytes the names are made of (proposed repair) *)
Lemma c_net_if_addrs_fsnames_exact junk l : length junk = NI_MAXHOST -> forallb wf_ifa l = true ->
  c_net_if_addrs_fsnames junk l = Val (spec_if_rows l).
Proof. intros. apply c_net_if_addrs_gen_exact; auto. Qed.

Definition ifa_badname : ifa :=
  {| ifa_name := [100; 255; 254]; ifa_flags := 73; ifa_addr := Some (SaLL [0; 0; 0; 0; 0; 0]); ifa_mask := None; ifa_baddr := None |}.

(* finding: one interface whose name is not UTF-8 makes net_if_addrs() fail for the whole list, and net_if_stats() cannot
   hand the name it read from /proc/net/dev to the ioctl wrappers *)
Lemma ifname_refuted :
  forallb wf_ifa [ifa_badname] = true /\
  c_net_if_addrs (repeat 255 NI_MAXHOST) [ifa_badname] = Exc UnicodeError /\
  net_if_stats_names false [map fs_esc (ifa_name ifa_badname)] = Exc UnicodeError /\
  net_if_stats_names true [map fs_esc (ifa_name ifa_badname)] = Val [ifa_name ifa_badname].
Proof. vm_compute. auto. Qed.

Lemma fs_encode_esc b : wf_bytes b = true -> fs_encode (map fs_esc b) = Some b.
Proof.
  unfold wf_bytes. induction b as [|c b IH]; intros H; [reflexivity|].
  cbn [forallb] in H. apply andb_true_iff in H as [Hc Hb]. unfold wf_byte in Hc. apply andb_true_iff in Hc as [H0 H1].
  apply Z.leb_le in H0. apply Z.ltb_lt in H1.
  cbn [map fs_encode]. rewrite IH by assumption. unfold fs_esc, fs_enc.
  destruct (Z.ltb_spec c 128).
  - destruct (Z.leb_spec 56448 c); [lia|]. cbn [andb]. unfold utf8_enc. destruct (Z.ltb_spec c 128); [reflexivity|lia].
  - destruct (Z.leb_spec 56448 (56320 + c)); [|lia]. destruct (Z.leb_spec (56320 + c) 56575); [|lia]. cbn [andb].
    replace (56320 + c - 56320) with c by lia. reflexivity.
Qed.

(* proposed repair: the name read from /proc/net/dev goes through to the ioctl unchanged, byte for byte *)
Lemma nic_name_fs_roundtrip b : wf_bytes b = true -> contains 0 b = false -> nic_name_in true (PStr (map fs_esc b)) = Val b.
Proof. intros Hw Hn. unfold nic_name_in, conv_fs. now rewrite fs_encode_esc, Hn. Qed.

Lemma insert_by_fam_perm x l : Permutation (insert_by_fam x l) (x :: l).
Proof.
  induction l as [|y l IH]; [reflexivity|]. cbn [insert_by_fam]. destruct (n_fam x <=? n_fam y); [reflexivity|].
  rewrite IH. apply perm_swap.
Qed.

Lemma sort_by_fam_perm l : Permutation (sort_by_fam l) l.
Proof.
  unfold sort_by_fam. induction l as [|x l IH]; [reflexivity|]. cbn [fold_right].
  rewrite insert_by_fam_perm. now constructor.
Qed.

(* the Python layer only reorders the rows and pads the link-layer addresses *)
Lemma py_net_if_addrs_perm rows : Permutation (py_net_if_addrs rows) (map pad_row rows).
Proof. unfold py_net_if_addrs. apply Permutation_map, sort_by_fam_perm. Qed.

Lemma pad_row_link r data : n_fam r = AF_PACKET -> n_addr r = spec_mac data ->
  (1 <= length data)%nat -> wf_bytes data = true -> pad_row r = spec_pad_row r data.
Proof.
  intros Hf Ha Hl Hw. unfold pad_row, spec_pad_row. rewrite Hf, Z.eqb_refl, Ha. now rewrite py_mac_pad_exact.
Qed.

Lemma pad_row_other r : n_fam r <> AF_PACKET -> pad_row r = r.
Proof. intros H. unfold pad_row. destruct (Z.eqb_spec (n_fam r) AF_PACKET); [contradiction|reflexivity]. Qed.

Definition ifa_ib : ifa :=
  {| ifa_name := bs "ib0"; ifa_flags := 4163;
     ifa_addr := Some (SaLL [128;0;0;72;254;128;0;0;0;0;0;0;0;2;201;3;0;16;17;18]); ifa_mask := None;
     ifa_baddr := Some (SaLL (0 :: 255 :: 255 :: 255 :: repeat 18 16)) |}.
Example net_if_addrs_example :
  forallb wf_ifa [ifa_ib] = true /\
  map n_addr (spec_if_rows [ifa_ib]) = [bs "80:00:00:48:fe:80:00:00:00:00:00:00:00:02:c9:03:00:10:11:12"].
Proof. vm_compute. auto. Qed.

(* ================================================================ sequences of calls in one process *)
Lemma entry_seq_no_ub calls : forallb (fun r => negb (is_ub r)) (c_entry_seq true calls) = true.
Proof.
  unfold c_entry_seq. induction calls as [|c calls IH]; [reflexivity|]. cbn [map forallb].
  rewrite IH, andb_true_r. pose proof (entry_no_ub (fst c) (snd c)) as H. unfold c_entry in H. now rewrite H.
Qed.

Lemma entry_seq_independent pre calls post :
  c_entry_seq true (pre ++ calls ++ post) = c_entry_seq true pre ++ c_entry_seq true calls ++ c_entry_seq true post.
Proof. unfold c_entry_seq. now rewrite !map_app. Qed.
