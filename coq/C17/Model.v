(* C17 -- model of the C extension's decoding logic and index / integer arithmetic
   (psutil/_psutil_linux.c, _psutil_posix.c, _psutil_common.[ch], arch/linux/{users,disk,net,proc}.c)
   and of the Python code around it (_pslinux.users, _pslinux.disk_partitions,
   _pslinux.Process.ionice_set).  C integers are explicit ranges: an expression that
   leaves its type's range is reported as [CUB] (undefined behaviour), never wrapped.

   Parameter [fixed] of the [_gen] functions: true = the code as it is in /repo now (after the
   repairs e85352e users, a87b45e ionice, 301715a ethtool speed, 0d52d5b disk_partitions);
   false = the legacy code before them, kept only for the [_refuted] theorems and so that the
   check can be run against a revert.  The names without [_gen] are the model of record
   (fixed = true); [_legacy] names are fixed = false. *)
From PV Require Export Base.Dec.

(* =========================================================== C integer ranges *)
Definition INT_MIN : Z := - 2 ^ 31.
Definition INT_MAX : Z := 2 ^ 31 - 1.
Definition int_ok (z : Z) : bool := (INT_MIN <=? z) && (z <=? INT_MAX).
Definition long_ok (z : Z) : bool := (- 2 ^ 63 <=? z) && (z <? 2 ^ 63).

(* =========================================================== Python arguments *)
Inductive pyval :=
| PInt (z : Z)
| PBool (b : bool)
| PFloat
| PNone
| PStr (cps : list Z)        (* code points *)
| PBytes (b : bytes)
| PList (items : list pyval).

(* UTF-8 encoder of one code point (PyUnicode_AsUTF8AndSize): None for a lone surrogate *)
Definition utf8_enc (c : Z) : option bytes :=
  if c <? 128 then Some [c]
  else if c <? 2048 then Some [192 + c / 64; 128 + c mod 64]
  else if (55296 <=? c) && (c <=? 57343) then None
  else if c <? 65536 then Some [224 + c / 4096; 128 + (c / 64) mod 64; 128 + c mod 64]
  else Some [240 + c / 262144; 128 + (c / 4096) mod 64; 128 + (c / 64) mod 64; 128 + c mod 64].

Fixpoint utf8_encode (cps : list Z) : option bytes :=
  match cps with
  | [] => Some []
  | c :: r => match utf8_enc c, utf8_encode r with
              | Some a, Some b => Some (a ++ b)
              | _, _ => None
              end
  end.

(* PyArg_ParseTuple "i" (and _Py_PARSE_PID, pid_t = int) *)
Definition conv_i (v : pyval) : outcome Z :=
  match v with
  | PInt z => if int_ok z then Val z else Exc OverflowError
  | PBool b => Val (if b then 1 else 0)
  | _ => Exc TypeError
  end.

(* PyLong_AsLong on a sequence item *)
Definition conv_long (v : pyval) : outcome Z :=
  match v with
  | PInt z => if long_ok z then Val z else Exc OverflowError
  | PBool b => Val (if b then 1 else 0)
  | _ => Exc TypeError
  end.

(* PyArg_ParseTuple "s": str only; encode to UTF-8 (UnicodeEncodeError for lone
   surrogates), then reject an embedded NUL (ValueError) *)
Definition conv_s (v : pyval) : outcome bytes :=
  match v with
  | PStr cps => match utf8_encode cps with
                | None => Exc UnicodeError
                | Some b => if contains 0 b then Exc ValueError else Val b
                end
  | _ => Exc TypeError
  end.

(* =========================================================== C strings and buffers *)
(* the C string starting at the head of [l]: bytes before the first NUL; None when
   there is no NUL inside [l] (the read leaves the object) *)
Fixpoint c_str (l : bytes) : option bytes :=
  match l with
  | [] => None
  | c :: r => if c =? 0 then Some []
              else match c_str r with Some t => Some (c :: t) | None => None end
  end.
(* bytes before the first NUL, or all of [l] *)
Fixpoint cut_nul (l : bytes) : bytes :=
  match l with
  | [] => []
  | c :: r => if c =? 0 then [] else c :: cut_nul r
  end.

(* a memory write: (index into the destination array, byte) *)
Definition cwrite := (nat * Z)%type.

(* strncpy(dst, src, k): writes exactly k bytes, indices 0..k-1: the string, then NULs *)
Definition strncpy_writes (src : bytes) (k : nat) : list cwrite :=
  combine (seq 0 k) (firstn k (cut_nul src ++ repeat 0 k)).

(* PSUTIL_STRNCPY(dst, src, n):  strncpy(dst, src, n - 1); dst[n - 1] = '\0'
   n is a size_t: n = 0 makes n - 1 wrap (modelled as None) *)
Definition psutil_strncpy (src : bytes) (n : nat) : option (list cwrite) :=
  match n with
  | O => None
  | S k => Some (strncpy_writes src k ++ [(k, 0)])
  end.

Fixpoint upd (buf : bytes) (i : nat) (v : Z) : bytes :=
  match buf, i with
  | [], _ => []
  | _ :: r, O => v :: r
  | c :: r, S j => c :: upd r j v
  end.
Definition apply_writes (buf : bytes) (ws : list cwrite) : bytes :=
  fold_left (fun b w => upd b (fst w) (snd w)) ws buf.

Definition IFNAMSIZ : nat := 16.
(* the interface name the kernel sees in ifr.ifr_name (uninitialised stack bytes [junk]) *)
Definition ifr_name (junk : bytes) (name : bytes) : option bytes :=
  match psutil_strncpy name IFNAMSIZ with
  | Some ws => c_str (apply_writes junk ws)
  | None => None
  end.

(* ---- MAC formatting, psutil_convert_ipaddr (AF_PACKET): for n < len: sprintf(ptr,"%02x:")
   (3 characters and the terminator), ptr += 3; finally *--ptr = 0.  buf is char[NI_MAXHOST] *)
Definition NI_MAXHOST : nat := 1025.
Definition hex_digit (d : Z) : Z := if d <? 10 then 48 + d else 87 + d.
Definition mac_writes_at (i : nat) (b : Z) : list cwrite :=
  let x := b mod 256 in       (* data[n] & 0xff *)
  combine (seq (3 * i) 4) [hex_digit (x / 16); hex_digit (x mod 16); 58; 0].
Fixpoint mac_writes_from (i : nat) (data : bytes) : list cwrite :=
  match data with
  | [] => []
  | b :: r => mac_writes_at i b ++ mac_writes_from (S i) r
  end.
Definition mac_writes (data : bytes) : list cwrite :=
  mac_writes_from 0 data ++ [((3 * length data - 1)%nat, 0)].
(* result: None (Python None) for len = 0 *)
Definition mac_string (junk : bytes) (data : bytes) : option bytes :=
  match data with
  | [] => None
  | _ => c_str (apply_writes junk (mac_writes data))
  end.

(* psutil.net_if_addrs (psutil/__init__.py), AF_LINK:  while addr.count(":") < 5: addr += ":00".
   Every round adds exactly one ':', so the loop runs 5 - count times. *)
Definition count_byte (b : Z) (l : bytes) : nat := length (filter (Z.eqb b) l).
Fixpoint pad_rounds (k : nat) (s : bytes) : bytes :=
  match k with O => s | S k' => pad_rounds k' (s ++ [58; 48; 48]) end.
Definition py_mac_pad (s : bytes) : bytes := pad_rounds (5 - count_byte 58 s) s.

(* =========================================================== check_pid_range *)
Definition check_pid_range (v : pyval) : outcome unit :=
  do pid <- conv_i v;
  if pid <? 0 then Exc ValueError else Val tt.

(* =========================================================== ioprio *)
(* IOPRIO_PRIO_VALUE(class, data) = (class << 13) | data on C ints: the shift is
   undefined when class is negative or class * 2^13 is not representable *)
Definition shl_int (a s : Z) : option Z :=
  if (0 <=? a) && (a * 2 ^ s <=? INT_MAX) then Some (a * 2 ^ s) else None.
Definition ioprio_value (ioclass iodata : Z) : option Z :=
  match shl_int ioclass 13 with
  | Some hi => Some (Z.lor hi iodata)
  | None => None
  end.

(* result of a C entry point *)
Inductive cres :=
| CExc (e : exn)                 (* Python exception raised by argument conversion / checks *)
| CNone                          (* returns None without reaching the OS *)
| COs (what : string) (args : list Z) (sarg : bytes)   (* the values handed to the OS *)
| CUB (what : string).           (* undefined behaviour in C *)

Definition cbind {A} (o : outcome A) (k : A -> cres) : cres :=
  match o with Val a => k a | Exc e => CExc e | OutOfModel => CExc RuntimeError end.

(* repaired code: (int)(((unsigned int)ioclass << 13) | (unsigned int)iodata) -- unsigned
   arithmetic wraps mod 2^32, the conversion back to int is the two's complement value *)
Definition to_int (u : Z) : Z := let m := u mod 2 ^ 32 in if m <? 2 ^ 31 then m else m - 2 ^ 32.
Definition ioprio_value_u (ioclass iodata : Z) : Z :=
  to_int (Z.lor ((ioclass mod 2 ^ 32 * 2 ^ 13) mod 2 ^ 32) (iodata mod 2 ^ 32)).

(* psutil_proc_ioprio_set(pid, ioclass, iodata) *)
Definition c_ioprio_set_gen (fixed : bool) (pid ioclass iodata : pyval) : cres :=
  cbind (conv_i pid) (fun p =>
  cbind (conv_i ioclass) (fun c =>
  cbind (conv_i iodata) (fun d =>
  if fixed then COs "ioprio_set" [p; ioprio_value_u c d] []
  else match ioprio_value c d with
       | Some v => COs "ioprio_set" [p; v] []
       | None => CUB "shift"
       end))).

(* _pslinux.Process.ionice_set(ioclass, value), ints only (value None -> 0).
   fixed = true: ioclass must be one of 0..3 *)
Definition ionice_set_gen (fixed : bool) (pid ioclass value : Z) : cres :=
  if negb (value =? 0) && ((ioclass =? 3) || (ioclass =? 0)) then CExc ValueError
  else if (value <? 0) || (value >? 7) then CExc ValueError
  else if fixed && negb ((0 <=? ioclass) && (ioclass <=? 3)) then CExc ValueError
  else c_ioprio_set_gen fixed (PInt pid) (PInt ioclass) (PInt value).
Definition ionice_set := ionice_set_gen true.
Definition ionice_set_legacy := ionice_set_gen false.

(* =========================================================== CPU sets *)
(* CPU_SET(value, &cpu_set) with value a long and cpu_set_t of 128 bytes (glibc):
   size_t cpu = value; if (cpu / 8 < 128) bits[cpu / 64] |= 1UL << (cpu % 64).
   Result: the bit index written, or None when nothing is touched *)
Definition CPU_SETSIZE_BYTES : Z := 128.
Definition cpu_set_touch (value : Z) : option Z :=
  let cpu := value mod 2 ^ 64 in
  if cpu / 8 <? CPU_SETSIZE_BYTES then Some cpu else None.

Fixpoint aff_items (items : list pyval) (acc : list Z) : outcome (list Z) :=
  match items with
  | [] => Val (rev acc)
  | it :: r =>
    do v <- conv_long it;
    if v =? -1 then Exc ValueError
    else aff_items r (match cpu_set_touch v with Some c => c :: acc | None => acc end)
  end.

(* a Python object seen as a sequence by PySequence_Check / PySequence_GetItem *)
Definition as_sequence (v : pyval) : option (list pyval) :=
  match v with
  | PList l => Some l
  | PBytes b => Some (map PInt b)
  | PStr cps => Some (map (fun c => PStr [c]) cps)
  | _ => None
  end.

Definition c_affinity_set (pid seq : pyval) : cres :=
  cbind (conv_i pid) (fun p =>
  match as_sequence seq with
  | None => CExc TypeError
  | Some items => cbind (aff_items items []) (fun cpus => COs "sched_setaffinity" (p :: cpus) [])
  end).

(* psutil_proc_cpu_affinity_get: ncpus = 64; loop { size = CPU_ALLOC_SIZE(ncpus); if the
   kernel accepts the size: break; if (ncpus > INT_MAX / 2) OverflowError; ncpus *= 2 } *)
Inductive aff_res := AffOk (ncpus : Z) | AffOverflowError | AffIntUB | AffFuel.
Definition cpu_alloc_size (ncpus : Z) : Z := (ncpus + 63) / 64 * 8.
Fixpoint aff_loop (fuel : nat) (kernel_ok : Z -> bool) (ncpus : Z) : aff_res :=
  match fuel with
  | O => AffFuel
  | S f =>
    if negb (int_ok ncpus) then AffIntUB
    else if kernel_ok (cpu_alloc_size ncpus) then AffOk ncpus
    else if ncpus >? INT_MAX / 2 then AffOverflowError
    else aff_loop f kernel_ok (ncpus * 2)
  end.

(* the read-out loop: for (cpu = 0, count = CPU_COUNT_S; count; cpu++) if CPU_ISSET_S(cpu) ...
   over the mask as a list of bits; [None] = the loop index leaves the mask *)
Fixpoint aff_scan (bits : list bool) (cpu : Z) (count : nat) : option (list Z) :=
  match count with
  | O => Some []
  | S c =>
    match bits with
    | [] => None
    | true :: r => match aff_scan r (cpu + 1) c with Some l => Some (cpu :: l) | None => None end
    | false :: r => aff_scan r (cpu + 1) count
    end
  end.
Definition popcount (bits : list bool) : nat := length (filter (fun b => b) bits).

(* =========================================================== entry points *)
Inductive entry :=
| EpCheckPid | EpIoprioGet | EpIoprioSet | EpAffGet | EpAffSet | EpDiskPartitions | EpUsers
| EpDuplexSpeed | EpSysinfo | EpSetDebug
| EpGetPagesize | EpGetPriority | EpSetPriority | EpIfAddrs | EpIfMtu | EpIfFlags | EpIfRunning.

Definition ifreq_call (what : string) (v : pyval) : cres :=
  cbind (conv_s v) (fun name =>
  match ifr_name (repeat 255 IFNAMSIZ) name with
  | Some n => COs what [] n
  | None => CUB "ifr_name not terminated"
  end).

(* what each METH_VARARGS function does with its argument tuple *)
Definition c_entry_gen (fixed : bool) (ep : entry) (args : list pyval) : cres :=
  match ep, args with
  | EpUsers, _ => COs "getutent" [] []
  | EpSysinfo, _ => COs "sysinfo" [] []
  | EpGetPagesize, _ => COs "sysconf" [] []
  | EpIfAddrs, _ => COs "getifaddrs" [] []
  | EpCheckPid, [v] => match check_pid_range v with Val _ => CNone | Exc e => CExc e | OutOfModel => CExc RuntimeError end
  | EpIoprioGet, [v] => cbind (conv_i v) (fun p => COs "ioprio_get" [p] [])
  | EpIoprioSet, [p; c; d] => c_ioprio_set_gen fixed p c d
  | EpAffGet, [v] => cbind (conv_i v) (fun p => COs "sched_getaffinity" [p] [])
  | EpAffSet, [p; s] => c_affinity_set p s
  | EpDiskPartitions, [v] => cbind (conv_s v) (fun path => COs "setmntent" [] path)
  | EpDuplexSpeed, [v] => ifreq_call "SIOCETHTOOL" v
  | EpIfMtu, [v] => ifreq_call "SIOCGIFMTU" v
  | EpIfFlags, [v] => ifreq_call "SIOCGIFFLAGS" v
  | EpIfRunning, [v] => ifreq_call "SIOCGIFFLAGS" v
  | EpSetDebug, [_] => CNone
  | EpGetPriority, [v] => cbind (conv_i v) (fun p => COs "getpriority" [p] [])
  | EpSetPriority, [p; v] => cbind (conv_i p) (fun p' => cbind (conv_i v) (fun n => COs "setpriority" [p'; n] []))
  | _, _ => CExc TypeError      (* wrong number of arguments *)
  end.
Definition c_entry := c_entry_gen true.
Definition c_entry_legacy := c_entry_gen false.

(* the extension keeps no state between calls (no statics besides the debug flag): the answer to a sequence of
   calls in one process is the list of the answers each call gets in a fresh process *)
Definition c_entry_seq (fixed : bool) (calls : list (entry * list pyval)) : list cres :=
  map (fun c => c_entry_gen fixed (fst c) (snd c)) calls.

(* =========================================================== users() *)
(* struct utmp on Linux/x86-64 (384 bytes): field widths in order
   ut_type(2) pad(2) ut_pid(4) ut_line(32) ut_id(4) ut_user(32) ut_host(256)
   ut_exit(4) ut_session(4) tv_sec(4) tv_usec(4) ut_addr_v6(16) unused(20) *)
Definition UTMP_SIZE : nat := 384.
Definition utmp_widths : list nat := [2; 2; 4; 32; 4; 32; 256; 4; 4; 4; 4; 16; 20]%nat.
Definition USER_PROCESS : Z := 7.

Fixpoint split_fields (ws : list nat) (l : bytes) : list bytes :=
  match ws with
  | [] => []
  | w :: r => firstn w l :: split_fields r (skipn w l)
  end.

(* little-endian two's complement *)
Fixpoint le_unsigned (l : bytes) : Z :=
  match l with [] => 0 | b :: r => b + 256 * le_unsigned r end.
Definition le_signed (l : bytes) : Z :=
  let u := le_unsigned l in
  let m := 256 ^ Z.of_nat (length l) in
  if u <? m / 2 then u else u - m.

(* records of a utmp file as getutent() delivers them: full 384-byte chunks *)
Fixpoint chunks (fuel : nat) (n : nat) (l : bytes) : list bytes :=
  match fuel with
  | O => []
  | S f => if (length l <? n)%nat then [] else firstn n l :: chunks f n (skipn n l)
  end.

Record urow := { u_user : bytes; u_tty : option bytes; u_host : bytes; u_time : Z; u_pid : Z }.

(* a char[] field handed to PyUnicode_DecodeFSDefault / strcmp.  Code as it is: a C string
   that starts at the field and ends at the first NUL of the *record* ([after] = the bytes
   of the record behind the field) -- legacy.  fixed = true (strnlen): cut at the field width. *)
Definition field_cstr (fixed : bool) (field after : bytes) : option bytes :=
  if fixed then Some (cut_nul field) else c_str (field ++ after).

Definition localhost : bytes := bs "localhost".

(* result of C code that reads memory: a value, or a read outside the object it was given *)
Inductive mem (A : Type) := MOk (a : A) | MOutOfBounds.
Arguments MOk {A} a.
Arguments MOutOfBounds {A}.

(* one record -> at most one tuple; MOutOfBounds when an unterminated string read runs
   past the end of the 384-byte record *)
Definition users_record (fixed : bool) (rec : bytes) : mem (option urow) :=
  match split_fields utmp_widths rec with
  | [ty; _; pid; line; id; user; host; ex; sess; sec; usec; addr; unused] =>
    if negb (le_signed ty =? USER_PROCESS) then MOk None
    else
      let after_host := ex ++ sess ++ sec ++ usec ++ addr ++ unused in
      let after_user := host ++ after_host in
      let after_line := id ++ user ++ after_user in
      match field_cstr fixed user after_user, field_cstr fixed line after_line,
            field_cstr fixed host after_host with
      | Some u, Some l, Some h =>
        let h' := if beqb h (bs ":0") || beqb h (bs ":0.0") then localhost else h in
        MOk (Some {| u_user := u; u_tty := (match l with [] => None | _ => Some l end);
                     u_host := h'; u_time := le_signed sec; u_pid := le_signed pid |})
      | _, _, _ => MOutOfBounds
      end
  | _ => MOutOfBounds   (* unreachable: split_fields returns one item per width *)
  end.

Fixpoint users_records (fixed : bool) (recs : list bytes) : mem (list urow) :=
  match recs with
  | [] => MOk []
  | r :: rest =>
    match users_record fixed r with
    | MOutOfBounds => MOutOfBounds
    | MOk x =>
      match users_records fixed rest with
      | MOutOfBounds => MOutOfBounds
      | MOk xs => MOk (match x with Some row => row :: xs | None => xs end)
      end
    end
  end.

(* psutil.users() over the content of the utmp file *)
Definition users_gen (fixed : bool) (file : bytes) : mem (list urow) :=
  users_records fixed (chunks (length file) UTMP_SIZE file).
Definition users := users_gen true.
Definition users_legacy := users_gen false.

(* =========================================================== disk_partitions() *)
(* ---- glibc getmntent() over the text of the mounts file (static 4096-byte line buffer) *)
Definition is_blank (c : Z) : bool := (c =? 32) || (c =? 9).
Fixpoint skip_blank (l : bytes) : bytes :=
  match l with c :: r => if is_blank c then skip_blank r else l | [] => [] end.
(* strsep(&head, " \t") *)
Fixpoint strsep (l : bytes) : bytes * option bytes :=
  match l with
  | [] => ([], None)
  | c :: r => if is_blank c then ([], Some r)
              else let (t, rest) := strsep r in (c :: t, rest)
  end.

(* decode_name: \040 \011 \012 \\ \134 *)
Fixpoint decode_aux (skip : nat) (l : bytes) : bytes :=
  match l with
  | [] => []
  | c :: r =>
    match skip with
    | S k => decode_aux k r
    | O =>
      if c =? 92 then
        if prefixb [48; 52; 48] r then 32 :: decode_aux 3 r
        else if prefixb [48; 49; 49] r then 9 :: decode_aux 3 r
        else if prefixb [48; 49; 50] r then 10 :: decode_aux 3 r
        else if prefixb [92] r then 92 :: decode_aux 1 r
        else if prefixb [49; 51; 52] r then 92 :: decode_aux 3 r
        else c :: decode_aux 0 r
      else c :: decode_aux 0 r
    end
  end.
Definition decode_name (l : bytes) : bytes := decode_aux 0 l.

Definition MNT_BUFSIZ : nat := 4096.
(* what fgets(buffer, 4096) + the newline handling leave in the buffer for one line of the file
   ([line] keeps its '\n' if it has one) *)
Definition mnt_buffer (line : bytes) : bytes :=
  if (MNT_BUFSIZ - 1 <? length line)%nat then firstn (MNT_BUFSIZ - 1) line   (* rest of the line is dropped *)
  else match rev line with
       | 10 :: r => rev (skip_blank r)
       | _ => line
       end.

Record ment := { m_dev : bytes; m_dir : bytes; m_type : bytes; m_opts : bytes }.

Definition next_field (head : option bytes) : bytes * option bytes :=
  match head with
  | None => ([], None)
  | Some h => let (t, rest) := strsep h in
              (decode_name t, match rest with Some r => Some (skip_blank r) | None => None end)
  end.

(* the parse of the line buffer: skip leading blanks, drop empty and '#' lines, four fields *)
Definition mnt_parse (buf : bytes) : option ment :=
  let head := skip_blank buf in
  match head with
  | [] => None
  | c :: _ =>
    if c =? 35 then None
    else
      let '(f1, h1) := next_field (Some head) in
      let '(f2, h2) := next_field h1 in
      let '(f3, h3) := next_field h2 in
      let '(f4, _) := next_field h3 in
      Some {| m_dev := f1; m_dir := f2; m_type := f3; m_opts := f4 |}
  end.
Definition mnt_line (line : bytes) : option ment := mnt_parse (mnt_buffer line).

Fixpoint filter_some {A} (l : list (option A)) : list A :=
  match l with [] => [] | Some a :: r => a :: filter_some r | None :: r => filter_some r end.

Definition getmntent_all (file : bytes) : outcome (list ment) :=
  if contains 0 file then OutOfModel
  else Val (filter_some (map mnt_line (lines_keep file))).

(* ---- strict UTF-8 validity (Py_BuildValue "s" on mnt_type / mnt_opts) *)
Definition in_rng (lo hi c : Z) : bool := (lo <=? c) && (c <=? hi).
Definition cont (c : Z) : bool := in_rng 128 191 c.
Fixpoint utf8_valid (l : bytes) : bool :=
  match l with
  | [] => true
  | b0 :: r =>
    if b0 <? 128 then utf8_valid r
    else match r with
    | [] => false
    | b1 :: r1 =>
      if in_rng 194 223 b0 then cont b1 && utf8_valid r1
      else match r1 with
      | [] => false
      | b2 :: r2 =>
        if b0 =? 224 then in_rng 160 191 b1 && cont b2 && utf8_valid r2
        else if in_rng 225 236 b0 || in_rng 238 239 b0 then cont b1 && cont b2 && utf8_valid r2
        else if b0 =? 237 then in_rng 128 159 b1 && cont b2 && utf8_valid r2
        else match r2 with
        | [] => false
        | b3 :: r3 =>
          if b0 =? 240 then in_rng 144 191 b1 && cont b2 && cont b3 && utf8_valid r3
          else if in_rng 241 243 b0 then cont b1 && cont b2 && cont b3 && utf8_valid r3
          else if b0 =? 244 then in_rng 128 143 b1 && cont b2 && cont b3 && utf8_valid r3
          else false
        end
      end
    end
  end.

(* =========================================================== net_if_addrs() *)
(* One node of the list getifaddrs() returns.  A sockaddr is seen through the family of ifa_addr:
   link layer (sll_halen bytes of hardware address, any length up to 255), or a family whose numeric text
   comes from getnameinfo(NI_NUMERICHOST) (AF_INET, AF_INET6; glibc trusted: the text is part of the input),
   or some other family. *)
Inductive saddr := SaLL (data : bytes) | SaText (fam : Z) (text : bytes) | SaOther (fam : Z).
Record ifa := { ifa_name : bytes; ifa_flags : Z; ifa_addr : option saddr; ifa_mask : option saddr;
                ifa_baddr : option saddr }.   (* ifa_baddr: the ifa_broadaddr / ifa_dstaddr union *)
Definition AF_PACKET : Z := 17.
Definition sa_family (s : saddr) : Z := match s with SaLL _ => AF_PACKET | SaText f _ => f | SaOther f => f end.

(* psutil_convert_ipaddr(addr, family): the family is the one of ifa_addr; a sockaddr of another kind would be
   reinterpreted byte-wise by the C code (OutOfModel) *)
Definition convert_ipaddr (junk : bytes) (sa : option saddr) (family : Z) : outcome (option bytes) :=
  match sa with
  | None => Val None
  | Some s =>
    if negb (sa_family s =? family) then OutOfModel
    else match s with
         | SaText _ t => Val (Some t)
         | SaLL data => Val (mac_string junk data)      (* None for sll_halen = 0 *)
         | SaOther _ => Val None
         end
  end.

Record nrow := { n_name : bytes; n_fam : Z; n_addr : bytes; n_mask : option bytes; n_bcast : option bytes;
                 n_ptp : option bytes }.

(* one iteration of the loop in psutil_net_if_addrs.  As the code is, Py_BuildValue("(siOOOO)") decodes ifa_name as strict
   UTF-8 (fsnames = false); fsnames = true is the proposed repair (PyUnicode_DecodeFSDefault, total) *)
Definition c_ifa_row (fsnames : bool) (junk : bytes) (i : ifa) : outcome (option nrow) :=
  match ifa_addr i with
  | None => Val None
  | Some a =>
    let family := sa_family a in
    do address <- convert_ipaddr junk (Some a) family;
    match address with
    | None => Val None           (* "If the primary address can't be determined just skip it" *)
    | Some ad =>
      do mask <- convert_ipaddr junk (ifa_mask i) family;
      do bp <- (if Z.testbit (ifa_flags i) 1            (* IFF_BROADCAST *)
                then do b <- convert_ipaddr junk (ifa_baddr i) family; Val (b, None)
                else if Z.testbit (ifa_flags i) 4       (* IFF_POINTOPOINT *)
                then do p <- convert_ipaddr junk (ifa_baddr i) family; Val (None, p)
                else Val (None, None));
      if fsnames || utf8_valid (ifa_name i)
      then Val (Some {| n_name := ifa_name i; n_fam := family; n_addr := ad; n_mask := mask;
                        n_bcast := fst bp; n_ptp := snd bp |})
      else Exc UnicodeError
    end
  end.

Fixpoint c_net_if_addrs_gen (fsnames : bool) (junk : bytes) (l : list ifa) : outcome (list nrow) :=
  match l with
  | [] => Val []
  | i :: r =>
    do x <- c_ifa_row fsnames junk i;
    do xs <- c_net_if_addrs_gen fsnames junk r;
    Val (match x with Some row => row :: xs | None => xs end)
  end.

Definition c_net_if_addrs := c_net_if_addrs_gen false.            (* the code as it is *)
Definition c_net_if_addrs_fsnames := c_net_if_addrs_gen true.    (* proposed repair *)

(* an interface name coming IN (net_if_mtu / net_if_flags / net_if_is_running / net_if_duplex_speed).  As the code is:
   the "s" format (strict UTF-8, [conv_s]).  Proposed repair: "O&" with PyUnicode_FSConverter -- str is encoded with the
   filesystem encoding + surrogateescape (U+DC80..U+DCFF stand for the bytes 0x80..0xFF), bytes are taken as they are *)
Definition fs_enc (c : Z) : option bytes :=
  if (56448 <=? c) && (c <=? 56575) then Some [c - 56320] else utf8_enc c.
Fixpoint fs_encode (cps : list Z) : option bytes :=
  match cps with
  | [] => Some []
  | c :: r => match fs_enc c, fs_encode r with Some a, Some b => Some (a ++ b) | _, _ => None end
  end.
Definition conv_fs (v : pyval) : outcome bytes :=
  match v with
  | PStr cps => match fs_encode cps with
                | None => Exc UnicodeError
                | Some b => if contains 0 b then Exc ValueError else Val b
                end
  | PBytes b => if contains 0 b then Exc ValueError else Val b
  | _ => Exc TypeError
  end.
Definition nic_name_in (fsnames : bool) (v : pyval) : outcome bytes := if fsnames then conv_fs v else conv_s v.
(* the str the Python layer holds for a name read from /proc/net/dev (open_text: filesystem encoding, surrogateescape)
   when none of its bytes >= 0x80 is part of a valid UTF-8 sequence: every such byte escaped *)
Definition fs_esc (c : Z) : Z := if c <? 128 then c else 56320 + c.
(* _pslinux.net_if_stats(): the ioctl wrappers are called with every name of /proc/net/dev; only OSError(ENODEV) is
   tolerated, so a name that cannot be converted makes the whole call fail *)
Fixpoint net_if_stats_names (fsnames : bool) (names : list (list Z)) : outcome (list bytes) :=
  match names with
  | [] => Val []
  | cps :: r => do b <- nic_name_in fsnames (PStr cps); do bs' <- net_if_stats_names fsnames r; Val (b :: bs')
  end.

(* psutil.net_if_addrs(): rawlist.sort(key=family) (stable), then the AF_LINK padding of the address *)
Fixpoint insert_by_fam (x : nrow) (l : list nrow) : list nrow :=
  match l with
  | [] => [x]
  | y :: r => if n_fam x <=? n_fam y then x :: l else y :: insert_by_fam x r
  end.
Definition sort_by_fam (l : list nrow) : list nrow := fold_right insert_by_fam [] l.
Definition pad_row (r : nrow) : nrow :=
  if n_fam r =? AF_PACKET
  then {| n_name := n_name r; n_fam := n_fam r; n_addr := py_mac_pad (n_addr r); n_mask := n_mask r;
          n_bcast := n_bcast r; n_ptp := n_ptp r |}
  else r.
Definition py_net_if_addrs (rows : list nrow) : list nrow := map pad_row (sort_by_fam rows).

(* psutil_disk_partitions: device and mount point decoded with the filesystem encoding
   (surrogateescape, total); legacy: type and options with strict UTF-8 ("s"); fixed: all four alike *)
Fixpoint c_disk_partitions (fixed : bool) (es : list ment) : outcome (list ment) :=
  match es with
  | [] => Val []
  | e :: r =>
    if fixed || (utf8_valid (m_type e) && utf8_valid (m_opts e))
    then do rest <- c_disk_partitions fixed r; Val (e :: rest)
    else Exc UnicodeError
  end.

(* ---- /proc/filesystems as read by _pslinux.disk_partitions *)
Definition fs_byte_ok (c : Z) : bool := (c =? 9) || (c =? 10) || ((32 <=? c) && (c <=? 126)).
Definition nodev : bytes := bs "nodev".
Definition nth_err_idx {A} (l : list A) (n : nat) : outcome A :=
  match nth_error l n with Some a => Val a | None => Exc IndexError end.

Fixpoint fstypes_of_lines (lines : list bytes) (acc : list bytes) : outcome (list bytes) :=
  match lines with
  | [] => Val acc
  | line :: r =>
    let l := strip line in
    if negb (prefixb nodev l) then fstypes_of_lines r (strip l :: acc)
    else
      do fstype <- nth_err_idx (split_on 9 l) 1;
      fstypes_of_lines r (if beqb fstype (bs "zfs") then bs "zfs" :: acc else acc)
  end.

Definition read_fstypes (content : bytes) : outcome (list bytes) :=
  if forallb fs_byte_ok content then fstypes_of_lines (lines_keep content) [] else OutOfModel.

Definition mem_bytes (x : bytes) (l : list bytes) : bool := existsb (beqb x) l.

(* the loop over cext.disk_partitions().  [root] is what RootFsDeviceFinder().find() answers (the real root device
   looked up through <procfs>/partitions or /sys, None when the lookup fails or names a device without a node under
   /dev): the device "/dev/root" or "rootfs" is replaced by it, and kept as it is when the lookup fails *)
Definition is_root_spelling (device : bytes) : bool := beqb device (bs "/dev/root") || beqb device (bs "rootfs").
Fixpoint partitions_loop (all : bool) (fstypes : list bytes) (root : option bytes) (es : list ment) : outcome (list ment) :=
  match es with
  | [] => Val []
  | e :: r =>
    let device := if beqb (m_dev e) (bs "none") then [] else m_dev e in
    let device := if is_root_spelling device then (match root with Some p => p | None => device end) else device in
    do rest <- partitions_loop all fstypes root r;
    if negb all && (match device with [] => true | _ => false end || negb (mem_bytes (m_type e) fstypes))
    then Val rest
    else Val ({| m_dev := device; m_dir := m_dir e; m_type := m_type e; m_opts := m_opts e |} :: rest)
  end.

(* the same as a function of ONE entry *)
Definition part_entry (all : bool) (fstypes : list bytes) (root : option bytes) (e : ment) : option ment :=
  let device := if beqb (m_dev e) (bs "none") then [] else m_dev e in
  let device := if is_root_spelling device then (match root with Some p => p | None => device end) else device in
  if negb all && (match device with [] => true | _ => false end || negb (mem_bytes (m_type e) fstypes))
  then None
  else Some {| m_dev := device; m_dir := m_dir e; m_type := m_type e; m_opts := m_opts e |}.

Definition disk_partitions_gen (fixed : bool) (all : bool) (root : option bytes) (filesystems mounts : bytes) : outcome (list ment) :=
  do fstypes <- (if all then Val [] else read_fstypes filesystems);
  do es <- getmntent_all mounts;
  do rows <- c_disk_partitions fixed es;
  partitions_loop all fstypes root rows.
Definition disk_partitions := disk_partitions_gen true.
Definition disk_partitions_legacy := disk_partitions_gen false.

(* =========================================================== net_if_duplex_speed *)
(* psutil_ethtool_cmd_speed: (ecmd->speed_hi << 16) | ecmd->speed.  Both operands are __u16
   promoted to int, so the shift is undefined from speed_hi = 0x8000 on (SPEED_UNKNOWN has
   speed_hi = 0xFFFF) -- legacy.  fixed = true: ((uint32_t)ecmd->speed_hi << 16) | ecmd->speed *)
Definition ethtool_speed (fixed : bool) (speed_hi speed : Z) : option Z :=
  if fixed then Some (Z.lor (speed_hi * 2 ^ 16) speed)
  else match shl_int speed_hi 16 with
       | Some hi => Some (Z.lor hi speed)
       | None => None
       end.
(* uint_speed = (__u32) of that; SPEED_UNKNOWN (0xFFFFFFFF) or > INT_MAX gives 0 *)
Definition nic_speed_gen (fixed : bool) (speed_hi speed : Z) : option Z :=
  match ethtool_speed fixed speed_hi speed with
  | None => None
  | Some v => let u := v mod 2 ^ 32 in
              Some (if (u =? 2 ^ 32 - 1) || (u >? INT_MAX) then 0 else u)
  end.
Definition nic_speed := nic_speed_gen true.
Definition nic_speed_legacy := nic_speed_gen false.
(* _pslinux.net_if_stats: duplex_map[duplex] over DUPLEX_HALF=0, DUPLEX_FULL=1, DUPLEX_UNKNOWN=0xff
   -> NIC_DUPLEX_HALF=1, NIC_DUPLEX_FULL=2, NIC_DUPLEX_UNKNOWN=0 *)
Definition duplex_map (d : Z) : outcome Z :=
  if d =? 1 then Val 2 else if d =? 0 then Val 1 else if d =? 255 then Val 0 else Exc KeyError.

(* =========================================================== net_if_flags *)
(* flags = ifr.ifr_flags & 0xFFFF (short); names appended in this order (Linux) *)
Definition iff_table : list (Z * string) :=
  [(0, "up"); (1, "broadcast"); (2, "debug"); (3, "loopback"); (4, "pointopoint"); (5, "notrailers");
   (6, "running"); (7, "noarp"); (8, "promisc"); (9, "allmulti"); (10, "master"); (11, "slave");
   (12, "multicast"); (13, "portsel"); (14, "automedia"); (15, "dynamic")]%string.
Definition net_if_flags (flags : Z) : list string :=
  map snd (filter (fun p => negb (Z.land flags (2 ^ fst p) =? 0)) iff_table).

(* =========================================================== threads inside getmntent() *)
(* getmntent() returns a pointer into ONE static struct mntent + line buffer of libc, shared by all threads.
   A thread of psutil_disk_partitions is: the entries of its file still to read, the tuples built so far, and
   (only in the variant that drops the GIL around getmntent) whether it has read an entry it has not decoded yet. *)
Record thr := { th_rest : list ment; th_out : list ment; th_pending : bool }.
Record tsys := { ts_threads : list thr; ts_buf : option ment }.
Definition th_init (files : list (list ment)) : tsys :=
  {| ts_threads := map (fun f => {| th_rest := f; th_out := []; th_pending := false |}) files; ts_buf := None |}.
Fixpoint set_nth {A} (l : list A) (i : nat) (x : A) : list A :=
  match l, i with
  | [], _ => []
  | _ :: r, O => x :: r
  | a :: r, S j => a :: set_nth r j x
  end.
Definition decode_buf (b : option ment) : list ment := match b with Some e => [e] | None => [] end.

(* the code as it is: the GIL is held from getmntent() to the end of the decoding of that entry (in fact across the
   whole loop), so "read the next entry into the static storage and build the tuple from it" is one atomic step *)
Definition step_gil (s : tsys) (i : nat) : tsys :=
  match nth_error (ts_threads s) i with
  | Some t =>
    match th_rest t with
    | e :: r =>
      let buf := Some e in
      {| ts_threads := set_nth (ts_threads s) i {| th_rest := r; th_out := th_out t ++ decode_buf buf; th_pending := false |};
         ts_buf := buf |}
    | [] => s
    end
  | None => s
  end.

(* variant with Py_BEGIN/END_ALLOW_THREADS around getmntent(): reading and decoding are two steps, and other threads
   may run in between *)
Definition step_nogil (s : tsys) (i : nat) : tsys :=
  match nth_error (ts_threads s) i with
  | Some t =>
    if th_pending t
    then {| ts_threads := set_nth (ts_threads s) i {| th_rest := th_rest t; th_out := th_out t ++ decode_buf (ts_buf s);
                                                       th_pending := false |};
            ts_buf := ts_buf s |}
    else match th_rest t with
         | e :: r => {| ts_threads := set_nth (ts_threads s) i {| th_rest := r; th_out := th_out t; th_pending := true |};
                        ts_buf := Some e |}
         | [] => s
         end
  | None => s
  end.

(* a schedule is the list of thread numbers in the order they are given the processor *)
Definition run_sched (step : tsys -> nat -> tsys) (sched : list nat) (s : tsys) : tsys := fold_left step sched s.
