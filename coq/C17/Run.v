(* Entry points evaluated by the correspondence harness (props/C17.py). *)
From PV Require Export C17.Spec.

Definition jv_row (r : urow) : jv :=
  JL [JB (u_user r); jopt JB (u_tty r); JB (u_host r); JZ (u_time r); JZ (u_pid r)].
Definition jv_rows (rs : list urow) : jv := JL (map jv_row rs).

Definition jv_mem {A} (f : A -> jv) (m : mem A) : jv :=
  match m with MOk a => JC "Val" [f a] | MOutOfBounds => JC "OOB" [] end.

(* login records: printed file, model answer, demanded answer (for well-formed records) *)
Definition run_utmp (fixed : bool) (rs : list urec) : jv :=
  JL [ JB (k_utmp_file rs);
       jv_mem jv_rows (users_gen fixed (k_utmp_file rs));
       (if forallb wf_urec rs then JC "Val" [jv_rows (spec_users rs)] else jnone) ].
(* arbitrary file content: model answer only *)
Definition run_utmp_raw (fixed : bool) (file : bytes) : jv :=
  JL [ jv_mem jv_rows (users_gen fixed file) ].

Definition jv_ment (e : ment) : jv := JL [JB (m_dev e); JB (m_dir e); JB (m_type e); JB (m_opts e)].
Definition jv_ments (es : list ment) : jv := JL (map jv_ment es).

Definition cext_partitions (fixed : bool) (mounts : bytes) : outcome (list ment) :=
  do es <- getmntent_all mounts; c_disk_partitions fixed es.

(* mount table: printed files, model answer of cext.disk_partitions(path), model answer of
   psutil.disk_partitions(all), demanded answer (well-formed entries with a plain device) *)
Definition run_mounts (fixed all : bool) (root : option bytes) (fs : list kfs) (es : list ment) : jv :=
  JL [ JB (k_filesystems fs); JB (k_mounts es);
       jv_outcome jv_ments (cext_partitions fixed (k_mounts es));
       jv_outcome jv_ments (disk_partitions_gen fixed all root (k_filesystems fs) (k_mounts es));
       (if forallb wf_fs fs && forallb wf_ment es
        then JC "Val" [jv_ments (spec_partitions all fs root es)] else jnone) ].
Definition run_mounts_raw (fixed all : bool) (root : option bytes) (filesystems mounts : bytes) : jv :=
  JL [ jv_outcome jv_ments (cext_partitions fixed mounts);
       jv_outcome jv_ments (disk_partitions_gen fixed all root filesystems mounts) ].

Definition jv_cres (r : cres) : jv :=
  match r with
  | CExc e => JC "Exc" [JC (exn_name e) []]
  | CNone => JC "Val" [jnone]
  | COs what args s => JC "Os" [JC what []; JL (map JZ args); JB s]
  | CUB what => JC "UB" [JC what []]
  end.

Definition run_entry (fixed : bool) (ep : entry) (args : list pyval) : jv := jv_cres (c_entry_gen fixed ep args).
Definition run_ionice (fixed : bool) (pid ioclass value : Z) : jv :=
  jv_cres (ionice_set_gen fixed pid ioclass value).

Definition run_flags (flags : Z) : jv := JL (map (fun s => JC s []) (net_if_flags flags)).
(* MAC text as psutil.net_if_addrs() shows it (C formatting, then the Python padding) and as the property demands *)
Definition run_mac (data : bytes) : jv :=
  JL [ jopt JB (option_map py_mac_pad (mac_string (repeat 255 NI_MAXHOST) data));
       JB (spec_mac (data ++ repeat 0 (6 - length data))) ].

(* ethtool answer (speed_hi, speed, duplex) -> [duplex constant; speed] or UB *)
Definition run_speed (fixed : bool) (speed_hi speed duplex : Z) : jv :=
  match nic_speed_gen fixed speed_hi speed with
  | None => JC "UB" [JC "shift" []]
  | Some v => JL [jv_outcome JZ (duplex_map duplex); JZ v]
  end.

Definition jv_nrow (r : nrow) : jv :=
  JL [JB (n_name r); JZ (n_fam r); JB (n_addr r); jopt JB (n_mask r); jopt JB (n_bcast r); jopt JB (n_ptp r)].
(* fed interface list: model answer of psutil.net_if_addrs() (rows in psutil's order) and the demanded rows *)
Definition run_ifaddrs (fsnames : bool) (l : list ifa) : jv :=
  JL [ jv_outcome (fun rows => JL (map jv_nrow (py_net_if_addrs rows))) (c_net_if_addrs_gen fsnames (repeat 255 NI_MAXHOST) l);
       (if forallb wf_ifa l then JC "Val" [JL (map jv_nrow (map pad_row (spec_if_rows l)))] else jnone) ].

(* a sequence of entry-point calls made in one process *)
Definition run_seq (fixed : bool) (calls : list (entry * list pyval)) : jv := JL (map jv_cres (c_entry_seq fixed calls)).

(* the interleaving model of getmntent()'s static storage on [n] threads, thread i reading a file of i+2 entries that
   name their thread: is every thread's view consistent under the given schedule, with and without the GIL? *)
Definition thr_file (i : nat) : list ment :=
  map (fun k => {| m_dev := [Z.of_nat i; Z.of_nat k]; m_dir := [47]; m_type := [Z.of_nat i]; m_opts := [Z.of_nat k] |}) (seq 0 (i + 2)).
Definition ment_eqb (a b : ment) : bool :=
  beqb (m_dev a) (m_dev b) && beqb (m_dir a) (m_dir b) && beqb (m_type a) (m_type b) && beqb (m_opts a) (m_opts b).
Fixpoint ments_eqb (a b : list ment) : bool :=
  match a, b with [], [] => true | x :: a', y :: b' => ment_eqb x y && ments_eqb a' b' | _, _ => false end.
(* decidable form of [thr_consistent] (a thread that has read but not yet decoded an entry is skipped over that entry) *)
Definition thr_consistent_b (files : list (list ment)) (s : tsys) : bool :=
  (length files =? length (ts_threads s))%nat &&
  forallb (fun p => let f := fst p in let t := snd p in
                    ments_eqb (th_out t ++ (if th_pending t then firstn 1 (skipn (length (th_out t)) f) else []) ++ th_rest t) f)
          (combine files (ts_threads s)).
(* GIL variant under the given schedule; no-GIL variant under a schedule that starts with read0, read1, decode0, decode1 *)
Definition run_threads (n : Z) (sched : list nat) : jv :=
  let files := map thr_file (seq 0 (Z.to_nat n)) in
  JL [ jbool (thr_consistent_b files (run_sched step_gil sched (th_init files)));
       jbool (thr_consistent_b files (run_sched step_nogil ([0; 1; 0; 1]%nat ++ sched) (th_init files))) ].

(* interface names: what net_if_addrs() shows for a node called [name] and what net_if_stats() hands to the ioctls for the
   str [cps] the Python layer read from /proc/net/dev *)
Definition run_ifname (fsnames : bool) (name : bytes) (cps : list Z) : jv :=
  JL [ jv_outcome (fun rows => JL (map (fun r => JB (n_name r)) rows))
         (c_net_if_addrs_gen fsnames (repeat 255 NI_MAXHOST)
            [{| ifa_name := name; ifa_flags := 73; ifa_addr := Some (SaLL [0; 0; 0; 0; 0; 0]); ifa_mask := None; ifa_baddr := None |}]);
       jv_outcome (fun l => JL (map JB l)) (net_if_stats_names fsnames [cps]) ].
