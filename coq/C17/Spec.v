(* C17 -- what the OS holds and what the property demands.  Written from the record
   formats (struct utmp of <bits/utmp.h> on x86-64 Linux; the mounts line format of
   fs/proc_namespace.c with its octal escapes; /proc/filesystems of fs/filesystems.c;
   IFF_* bits of <net/if.h>), not from psutil's code. *)
From PV Require Export C17.Model.

(* =========================================================== login records *)
Record urec := {
  k_type : Z;          (* ut_type, short *)
  k_pid : Z;           (* ut_pid, int32 *)
  k_line : bytes;      (* terminal, at most 32 bytes, no NUL inside *)
  k_id : bytes;        (* at most 4 *)
  k_user : bytes;      (* at most 32 *)
  k_host : bytes;      (* at most 256 *)
  k_exit : bytes;      (* 4 bytes *)
  k_session : bytes;   (* 4 bytes *)
  k_sec : Z;           (* ut_tv.tv_sec, int32 *)
  k_usec : bytes;      (* 4 bytes *)
  k_addr : bytes;      (* 16 bytes *)
  k_unused : bytes }.  (* 20 bytes *)

(* n-byte little-endian two's complement *)
Fixpoint le_bytes (n : nat) (z : Z) : bytes :=
  match n with O => [] | S k => z mod 256 :: le_bytes k (z / 256) end.
(* a char[w] field: the string, then NULs up to the width (none if it fills the field) *)
Definition pad (w : nat) (s : bytes) : bytes := s ++ repeat 0 (w - length s).

Definition k_fields (r : urec) : list bytes :=
  [ le_bytes 2 (k_type r); [0; 0]; le_bytes 4 (k_pid r); pad 32 (k_line r); pad 4 (k_id r);
    pad 32 (k_user r); pad 256 (k_host r); k_exit r; k_session r; le_bytes 4 (k_sec r);
    k_usec r; k_addr r; k_unused r ].
Definition k_utmp (r : urec) : bytes := concat (k_fields r).
Definition k_utmp_file (rs : list urec) : bytes := concat (map k_utmp rs).

Definition str_ok (w : nat) (s : bytes) : bool := (length s <=? w)%nat && negb (contains 0 s).
Definition wf_urec (r : urec) : bool :=
  (- 2 ^ 15 <=? k_type r) && (k_type r <? 2 ^ 15) && int_ok (k_pid r) && int_ok (k_sec r)
  && str_ok 32 (k_line r) && str_ok 4 (k_id r) && str_ok 32 (k_user r) && str_ok 256 (k_host r)
  && (length (k_exit r) =? 4)%nat && (length (k_session r) =? 4)%nat && (length (k_usec r) =? 4)%nat
  && (length (k_addr r) =? 16)%nat && (length (k_unused r) =? 20)%nat.

(* the property: user, terminal, host (':0' / ':0.0' shown as localhost), start time, PID of
   every USER_PROCESS record; strings are the field contents (cut at the field width) *)
Definition spec_user (r : urec) : option urow :=
  if k_type r =? 7 then
    Some {| u_user := k_user r;
            u_tty := (match k_line r with [] => None | _ => Some (k_line r) end);
            u_host := (if beqb (k_host r) (bs ":0") || beqb (k_host r) (bs ":0.0")
                       then bs "localhost" else k_host r);
            u_time := k_sec r; u_pid := k_pid r |}
  else None.
Definition spec_users (rs : list urec) : list urow := filter_some (map spec_user rs).

(* the input class of the known finding: a string field of a USER_PROCESS record that
   fills its whole width, so that no terminator is stored in the field *)
Definition terminated (r : urec) : bool :=
  negb (k_type r =? 7)
  || ((length (k_line r) <? 32)%nat && (length (k_user r) <? 32)%nat && (length (k_host r) <? 256)%nat).

(* =========================================================== mount table *)
(* the kernel escapes space, tab, newline and backslash as \ooo *)
Definition esc (c : Z) : bytes :=
  if c =? 32 then [92; 48; 52; 48]
  else if c =? 9 then [92; 48; 49; 49]
  else if c =? 10 then [92; 48; 49; 50]
  else if c =? 92 then [92; 49; 51; 52]
  else [c].
Definition mangle (s : bytes) : bytes := flat_map esc s.

(* ... and, in the device name, '#' as well (fs/proc_namespace.c mangle(): " \t\n\\#"; seen on the
   live 6.18 kernel: device '#fo o' is shown as \043fo\040o) *)
Definition esc_dev (c : Z) : bytes := if c =? 35 then [92; 48; 52; 51] else esc c.
Definition mangle_dev (s : bytes) : bytes := flat_map esc_dev s.

Definition k_mount_line (e : ment) : bytes :=
  mangle_dev (m_dev e) ++ 32 :: mangle (m_dir e) ++ 32 :: mangle (m_type e) ++ 32 :: mangle (m_opts e)
  ++ bs " 0 0" ++ [10].
Definition k_mounts (es : list ment) : bytes := concat (map k_mount_line es).

Definition field_ok (s : bytes) : bool :=
  match s with [] => false | _ => negb (contains 0 s) end.
(* a mount entry as the kernel can hold it: no NUL anywhere; mount point, type and options are
   never empty; the device name may be empty (mount -t tmpfs '' /mnt) *)
Definition wf_ment (e : ment) : bool :=
  negb (contains 0 (m_dev e)) && field_ok (m_dir e) && field_ok (m_type e) && field_ok (m_opts e).
(* class of two known findings: an empty device name (the line starts with a blank, getmntent shifts the
   fields) and a '#' in the device name (glibc's decode_name does not know \043) *)
Definition dev_ok (e : ment) : bool :=
  match m_dev e with [] => false | _ => true end && negb (contains 35 (m_dev e)).
(* classes of two more findings: line over glibc's buffer (known), non-UTF-8 type/options (fixed) *)
Definition short_line (e : ment) : bool := (length (k_mount_line e) <=? 4095)%nat.
Definition utf8_ok (e : ment) : bool := utf8_valid (m_type e) && utf8_valid (m_opts e).
(* entries whose device is not one of the two spellings of the root device (only used by older witnesses) *)
Definition plain_dev (e : ment) : bool :=
  negb (beqb (m_dev e) (bs "/dev/root")) && negb (beqb (m_dev e) (bs "rootfs")).

(* /proc/filesystems: "nodev\t<name>\n" or "\t<name>\n" *)
Record kfs := { fs_nodev : bool; fs_name : bytes }.
Definition k_fs_line (f : kfs) : bytes :=
  (if fs_nodev f then bs "nodev" else []) ++ 9 :: fs_name f ++ [10].
Definition k_filesystems (fs : list kfs) : bytes := concat (map k_fs_line fs).
Definition name_byte_ok (c : Z) : bool := (33 <=? c) && (c <=? 126).
Definition wf_fs (f : kfs) : bool :=
  match fs_name f with [] => false | _ => true end
  && forallb name_byte_ok (fs_name f) && negb (prefixb (bs "nodev") (fs_name f)).

(* a filesystem type is disk-backed when the kernel lists it without "nodev" (zfs counts too) *)
Definition disk_backed (fs : list kfs) (t : bytes) : bool :=
  existsb (fun f => beqb t (fs_name f) && (negb (fs_nodev f) || beqb (fs_name f) (bs "zfs"))) fs.

(* device 'none' shown as ''; the two spellings of "the root device" ("/dev/root", "rootfs") replaced by the real root
   device [root] when it is known and left as they are otherwise -- each entry by itself; without all=True only
   entries with a device and a disk-backed type *)
Definition spec_device (root : option bytes) (dev : bytes) : bytes :=
  if beqb dev (bs "none") then []
  else if beqb dev (bs "/dev/root") || beqb dev (bs "rootfs") then (match root with Some p => p | None => dev end)
  else dev.
Definition spec_part (all : bool) (fs : list kfs) (root : option bytes) (e : ment) : option ment :=
  let device := spec_device root (m_dev e) in
  if all || (match device with [] => false | _ => true end && disk_backed fs (m_type e))
  then Some {| m_dev := device; m_dir := m_dir e; m_type := m_type e; m_opts := m_opts e |}
  else None.
Definition spec_partitions (all : bool) (fs : list kfs) (root : option bytes) (es : list ment) : list ment :=
  filter_some (map (spec_part all fs root) es).

(* =========================================================== interface flags *)
Definition spec_iff : list (Z * string) :=
  [(0, "up"); (1, "broadcast"); (2, "debug"); (3, "loopback"); (4, "pointopoint"); (5, "notrailers");
   (6, "running"); (7, "noarp"); (8, "promisc"); (9, "allmulti"); (10, "master"); (11, "slave");
   (12, "multicast"); (13, "portsel"); (14, "automedia"); (15, "dynamic")]%string.

(* MAC text: two lower-case hex digits per byte, ':' between *)
Definition hex2 (b : Z) : bytes := [hex_digit (b / 16); hex_digit (b mod 16)].
Definition spec_mac (data : bytes) : bytes := join [58] (map hex2 data).

(* =========================================================== interface addresses *)
(* what the property demands for one node of the kernel's interface list: the text of each address present;
   a hardware address as all its sll_halen bytes (hex pairs joined by ':'), no entry for a node without an
   address of a known family; broadcast only with IFF_BROADCAST, else the peer address with IFF_POINTOPOINT *)
Definition spec_text (sa : option saddr) : option bytes :=
  match sa with
  | Some (SaLL []) => None
  | Some (SaLL d) => Some (spec_mac d)
  | Some (SaText _ t) => Some t
  | _ => None
  end.
Definition spec_ifa_row (i : ifa) : option nrow :=
  match ifa_addr i, spec_text (ifa_addr i) with
  | Some a, Some ad =>
    Some {| n_name := ifa_name i; n_fam := sa_family a; n_addr := ad; n_mask := spec_text (ifa_mask i);
            n_bcast := (if Z.odd (ifa_flags i / 2) then spec_text (ifa_baddr i) else None);
            n_ptp := (if Z.odd (ifa_flags i / 2) then None
                      else if Z.odd (ifa_flags i / 16) then spec_text (ifa_baddr i) else None) |}
  | _, _ => None
  end.
Definition spec_if_rows (l : list ifa) : list nrow := filter_some (map spec_ifa_row l).
(* as net_if_addrs() shows them: a hardware address shorter than 6 bytes completed with zero bytes *)
Definition spec_pad_row (r : nrow) (data : bytes) : nrow :=
  {| n_name := n_name r; n_fam := n_fam r; n_addr := spec_mac (data ++ repeat 0 (6 - length data));
     n_mask := n_mask r; n_bcast := n_bcast r; n_ptp := n_ptp r |}.

Definition sa_ok (family : Z) (sa : option saddr) : bool :=
  match sa with
  | None => true
  | Some s => (sa_family s =? family) &&
              match s with SaLL d => wf_bytes d && (length d <=? 255)%nat | _ => true end
  end.
(* class of the finding about interface names: a name that is not UTF-8 (legal: the kernel forbids only '/', ':',
   white space, "", ".", "..") *)
Definition name_utf8 (i : ifa) : bool := utf8_valid (ifa_name i).
Definition wf_ifa (i : ifa) : bool :=
  (0 <=? ifa_flags i) &&
  match ifa_addr i with
  | None => true
  | Some a => sa_ok (sa_family a) (Some a) && sa_ok (sa_family a) (ifa_mask i) && sa_ok (sa_family a) (ifa_baddr i)
  end.

(* =========================================================== memory safety of the model *)
Definition in_bounds (size : nat) (ws : list cwrite) : Prop := Forall (fun w => (fst w < size)%nat) ws.
Definition is_ub (r : cres) : bool := match r with CUB _ => true | _ => false end.

(* =========================================================== thread safety *)
(* libc functions that return a pointer into static storage (shared by all threads of the process) *)
Definition static_storage_fns : list string :=
  ["getmntent"; "getutent"; "getutid"; "getutline"; "getutxent"; "getutxid"; "getutxline"; "getpwuid"; "getpwnam"; "getpwent";
   "getgrgid"; "getgrnam"; "getgrent"; "inet_ntoa"; "strerror"; "ctime"; "asctime"; "localtime"; "gmtime"; "ttyname"; "getlogin";
   "readdir"; "strtok"; "gethostbyname"; "gethostbyaddr"; "getservbyname"; "getservbyport"; "getprotobyname"; "getprotobynumber";
   "ether_ntoa"; "ether_aton"; "ptsname"; "tmpnam"; "getenv"; "dlerror"; "gai_strerror"]%string.
Definition mem_str (x : string) (l : list string) : bool := existsb (String.eqb x) l.
(* variables of static storage duration the extension may have: the two module tables handed to the interpreter at
   import, and the debug flag written by set_debug() only *)
Definition allowed_statics : list string := ["mod_methods"; "moduledef"; "PSUTIL_DEBUG"]%string.
(* what each thread must get: the entries of ITS file *)
Definition thr_consistent (files : list (list ment)) (s : tsys) : Prop :=
  Forall2 (fun f t => th_out t ++ th_rest t = f) files (ts_threads s).
