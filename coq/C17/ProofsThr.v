(* C17 -- threads: getmntent()'s static storage under an interleaving model; facts of the C sources (Gen/C17_Tables.v). *)
From PV Require Import C17.Spec.

Lemma Forall2_set_nth {A B} (P : A -> B -> Prop) l1 l2 i t' :
  Forall2 P l1 l2 ->
  (forall a t, nth_error l1 i = Some a -> nth_error l2 i = Some t -> P a t') ->
  Forall2 P l1 (set_nth l2 i t').
Proof.
  intros H. revert i. induction H as [|a t l1 l2 Hat Hrest IH]; intros i Hi; [constructor|].
  destruct i as [|i]; cbn [set_nth].
  - constructor; [apply (Hi a t); reflexivity|assumption].
  - constructor; [assumption|]. apply IH. intros a0 t0 H1 H2. apply (Hi a0 t0); assumption.
Qed.

Lemma step_gil_consistent files s i : thr_consistent files s -> thr_consistent files (step_gil s i).
Proof.
  unfold thr_consistent, step_gil. intros H.
  destruct (nth_error (ts_threads s) i) as [t|] eqn:Et; [|exact H].
  destruct (th_rest t) as [|e r] eqn:Er; [exact H|]. cbn [ts_threads].
  apply Forall2_set_nth; [exact H|]. intros a t0 Ha Ht0. rewrite Et in Ht0. injection Ht0 as <-.
  cbn [th_out th_rest decode_buf].
  assert (G : th_out t ++ th_rest t = a).
  { clear -H Ha Et. revert i Ha Et. induction H as [|a0 t1 l1 l2 Hat _ IH]; intros [|i] Ha Et; cbn [nth_error] in *; try discriminate.
    - injection Ha as <-. injection Et as <-. exact Hat.
    - eapply IH; eauto. }
  rewrite Er in G. rewrite <- app_assoc. exact G.
Qed.

Lemma th_init_consistent files : thr_consistent files (th_init files).
Proof. unfold thr_consistent, th_init. cbn [ts_threads]. induction files; constructor; auto. Qed.

(* every number of threads, every file per thread (equal or different), every schedule: what a thread has built plus
   what it still has to read is its own file -- no foreign entry, none lost, none duplicated *)
Lemma gil_threads_consistent files sched : thr_consistent files (run_sched step_gil sched (th_init files)).
Proof.
  unfold run_sched. generalize (th_init_consistent files). generalize (th_init files).
  induction sched as [|i sched IH]; intros s H; [exact H|]. cbn [fold_left]. apply IH. now apply step_gil_consistent.
Qed.

(* ... so a call that has finished returns exactly the sequential decode of its file *)
Lemma gil_threads_finished files sched i f t :
  nth_error files i = Some f -> nth_error (ts_threads (run_sched step_gil sched (th_init files))) i = Some t ->
  th_rest t = [] -> th_out t = f.
Proof.
  intros Hf Ht Hr. pose proof (gil_threads_consistent files sched) as H. unfold thr_consistent in H.
  revert i Hf Ht. induction H as [|a t1 l1 l2 Hat _ IH]; intros [|i] Hf Ht; cbn [nth_error] in *; try discriminate.
  - injection Hf as <-. injection Ht as <-. rewrite Hr, app_nil_r in Hat. exact Hat.
  - eapply IH; eauto.
Qed.

Definition ment_a : ment := {| m_dev := bs "/dev/a"; m_dir := bs "/a"; m_type := bs "ext4"; m_opts := bs "rw" |}.
Definition ment_b : ment := {| m_dev := bs "/dev/b"; m_dir := bs "/b"; m_type := bs "ext4"; m_opts := bs "ro" |}.

(* with the GIL dropped around getmntent(): thread 0 reads its entry, thread 1 reads one of another file into the
   same static storage, thread 0 builds its tuple from it *)
Lemma nogil_threads_refuted :
  exists files sched, files = [[ment_a]; [ment_b]] /\
  map th_out (ts_threads (run_sched step_nogil sched (th_init files))) = [[ment_b]; [ment_b]].
Proof. exists [[ment_a]; [ment_b]], [0; 1; 0; 1]%nat. split; reflexivity. Qed.
