(* C17 -- mount table: escapes, getmntent, the partition filter. *)
From PV Require Import C17.Spec.

(* a byte that is neither blank, newline nor NUL *)
Definition cleanb (c : Z) : bool := negb (is_blank c) && negb (c =? 10) && negb (c =? 0).
Definition clean (t : bytes) : bool := forallb cleanb t.

Lemma esc_cases c :
  (c = 32 /\ esc c = [92; 48; 52; 48]) \/ (c = 9 /\ esc c = [92; 48; 49; 49]) \/
  (c = 10 /\ esc c = [92; 48; 49; 50]) \/ (c = 92 /\ esc c = [92; 49; 51; 52]) \/
  (c <> 32 /\ c <> 9 /\ c <> 10 /\ c <> 92 /\ esc c = [c]).
Proof.
  unfold esc.
  destruct (Z.eqb_spec c 32); [auto|]. destruct (Z.eqb_spec c 9); [auto|].
  destruct (Z.eqb_spec c 10); [auto 6|]. destruct (Z.eqb_spec c 92); [auto 8|]. auto 10.
Qed.

(* glibc's decode_name undoes the kernel's escaping, for every byte string *)
Lemma decode_mangle s : decode_name (mangle s) = s.
Proof.
  unfold decode_name. induction s as [|c s IH]; [reflexivity|].
  change (mangle (c :: s)) with (esc c ++ mangle s).
  destruct (esc_cases c) as [[-> ->]|[[-> ->]|[[-> ->]|[[-> ->]|[H1 [H2 [H3 [H4 ->]]]]]]]].
  - change (decode_aux 0 ([92; 48; 52; 48] ++ mangle s)) with (32 :: decode_aux 0 (mangle s)). now rewrite IH.
  - change (decode_aux 0 ([92; 48; 49; 49] ++ mangle s)) with (9 :: decode_aux 0 (mangle s)). now rewrite IH.
  - change (decode_aux 0 ([92; 48; 49; 50] ++ mangle s)) with (10 :: decode_aux 0 (mangle s)). now rewrite IH.
  - change (decode_aux 0 ([92; 49; 51; 52] ++ mangle s)) with (92 :: decode_aux 0 (mangle s)). now rewrite IH.
  - cbn [app decode_aux]. destruct (Z.eqb_spec c 92); [contradiction|]. now rewrite IH.
Qed.

Lemma clean_mangle s : contains 0 s = false -> clean (mangle s) = true.
Proof.
  unfold clean. induction s as [|c s IH]; intros H; [reflexivity|].
  rewrite contains_cons in H. apply orb_false_iff in H as [Hc Hs].
  change (mangle (c :: s)) with (esc c ++ mangle s). rewrite forallb_app, IH by assumption.
  rewrite andb_true_r.
  destruct (esc_cases c) as [[-> ->]|[[-> ->]|[[-> ->]|[[-> ->]|[H1 [H2 [H3 [H4 ->]]]]]]]]; try reflexivity.
  cbn [forallb]. unfold cleanb, is_blank.
  destruct (Z.eqb_spec c 32); [contradiction|]. destruct (Z.eqb_spec c 9); [contradiction|].
  destruct (Z.eqb_spec c 10); [contradiction|]. rewrite Z.eqb_sym, Hc. reflexivity.
Qed.

Lemma cleanb_parts c : cleanb c = true -> is_blank c = false /\ (c =? 10) = false /\ (c =? 0) = false.
Proof.
  unfold cleanb. intros H. apply andb_true_iff in H as [H H0]. apply andb_true_iff in H as [Hb Hn].
  apply negb_true_iff in Hb, Hn, H0. auto.
Qed.

Lemma strsep_clean t rest : clean t = true -> strsep (t ++ 32 :: rest) = (t, Some rest).
Proof.
  unfold clean. induction t as [|c t IH]; intros H; [reflexivity|].
  cbn [forallb] in H. apply andb_true_iff in H as [Hc Ht]. apply cleanb_parts in Hc as [Hb _].
  cbn [app strsep]. rewrite Hb, IH by assumption. reflexivity.
Qed.

Lemma clean_contains t b : cleanb b = false -> clean t = true -> contains b t = false.
Proof.
  unfold clean. intros Hb. induction t as [|c t IH]; intros H; [reflexivity|].
  cbn [forallb] in H. apply andb_true_iff in H as [Hc Ht]. rewrite contains_cons, IH by assumption.
  rewrite orb_false_r. destruct (Z.eqb_spec b c); [subst; congruence|reflexivity].
Qed.

(* first byte of an escaped non-empty field: not blank, and '#' only if the field starts with '#' *)
Lemma mangle_head s : field_ok s = true ->
  exists c r, mangle s = c :: r /\ is_blank c = false /\ (c = 35 -> prefixb [35] s = true).
Proof.
  destruct s as [|c s]; [discriminate|]. intros _.
  change (mangle (c :: s)) with (esc c ++ mangle s).
  destruct (esc_cases c) as [[-> ->]|[[-> ->]|[[-> ->]|[[-> ->]|[H1 [H2 [H3 [H4 ->]]]]]]]];
    try (eexists _, _; split; [reflexivity|]; split; [reflexivity|]; discriminate).
  exists c, (mangle s). split; [reflexivity|]. split.
  - unfold is_blank. destruct (Z.eqb_spec c 32); [contradiction|]. destruct (Z.eqb_spec c 9); [contradiction|reflexivity].
  - intros ->. reflexivity.
Qed.

Lemma skip_blank_head c r : is_blank c = false -> skip_blank (c :: r) = c :: r.
Proof. intros H. cbn [skip_blank]. now rewrite H. Qed.

Lemma field_ok_nonul s : field_ok s = true -> contains 0 s = false.
Proof. destruct s; [discriminate|]. cbn [field_ok]. intros H. now apply negb_true_iff in H. Qed.

(* one field of the line followed by a blank and a tail that does not start with a blank *)
Lemma next_field_step s c tail : field_ok s = true -> is_blank c = false ->
  next_field (Some (mangle s ++ 32 :: c :: tail)) = (s, Some (c :: tail)).
Proof.
  intros Hs Hc. unfold next_field.
  rewrite strsep_clean by (apply clean_mangle, field_ok_nonul, Hs).
  now rewrite decode_mangle, skip_blank_head.
Qed.

(* ---- the device field: '#' is escaped too *)
Lemma mangle_dev_nohash s : contains 35 s = false -> mangle_dev s = mangle s.
Proof.
  induction s as [|c s IH]; intros H; [reflexivity|]. rewrite contains_cons in H.
  apply orb_false_iff in H as [Hc Hs].
  change (mangle_dev (c :: s)) with (esc_dev c ++ mangle_dev s). change (mangle (c :: s)) with (esc c ++ mangle s).
  rewrite IH by assumption. unfold esc_dev.
  destruct (Z.eqb_spec c 35) as [->|_]; [rewrite Z.eqb_refl in Hc; discriminate|reflexivity].
Qed.

Lemma clean_mangle_dev s : contains 0 s = false -> clean (mangle_dev s) = true.
Proof.
  unfold clean. induction s as [|c s IH]; intros H; [reflexivity|].
  rewrite contains_cons in H. apply orb_false_iff in H as [Hc Hs].
  change (mangle_dev (c :: s)) with (esc_dev c ++ mangle_dev s). rewrite forallb_app, IH by assumption.
  rewrite andb_true_r. unfold esc_dev. destruct (Z.eqb_spec c 35) as [->|Hn]; [reflexivity|].
  assert (G : clean (mangle [c]) = true) by (apply clean_mangle; rewrite contains_cons, Hc; reflexivity).
  unfold clean, mangle in G. cbn [flat_map] in G. now rewrite app_nil_r in G.
Qed.

Lemma dev_ok_spec e : wf_ment e = true -> dev_ok e = true ->
  field_ok (m_dev e) = true /\ contains 35 (m_dev e) = false /\ prefixb [35] (m_dev e) = false.
Proof.
  unfold wf_ment, dev_ok. intros Hwf Hd. repeat (apply andb_true_iff in Hwf as [Hwf ?]).
  apply andb_true_iff in Hd as [Hne Hh]. apply negb_true_iff in Hh. destruct (m_dev e) as [|c d] eqn:E; [discriminate|].
  split; [exact Hwf|]. split; [exact Hh|]. rewrite contains_cons in Hh. apply orb_false_iff in Hh as [Hc _].
  cbn [prefixb]. now rewrite Hc.
Qed.

Definition line_body (e : ment) : bytes :=
  mangle_dev (m_dev e) ++ 32 :: mangle (m_dir e) ++ 32 :: mangle (m_type e) ++ 32 :: mangle (m_opts e) ++ [32; 48; 32].

Lemma k_mount_line_body e : k_mount_line e = (line_body e ++ [48]) ++ [10].
Proof.
  unfold k_mount_line, line_body. change (bs " 0 0") with [32; 48; 32; 48].
  repeat (rewrite <- ?app_assoc; cbn [app]). reflexivity.
Qed.

Lemma four_fields a b c d tail :
  field_ok a = true -> field_ok b = true -> field_ok c = true -> field_ok d = true ->
  (let '(f1, h1) := next_field (Some (mangle a ++ 32 :: mangle b ++ 32 :: mangle c ++ 32 :: mangle d ++ 32 :: 48 :: tail)) in
   let '(f2, h2) := next_field h1 in
   let '(f3, h3) := next_field h2 in
   let '(f4, _) := next_field h3 in
   Some {| m_dev := f1; m_dir := f2; m_type := f3; m_opts := f4 |})
  = Some {| m_dev := a; m_dir := b; m_type := c; m_opts := d |}.
Proof.
  intros Ha Hb Hc Hd.
  destruct (mangle_head b Hb) as [c2 [r2 [E2 [B2 _]]]].
  rewrite E2, <- app_comm_cons, next_field_step by assumption. cbv beta iota.
  rewrite app_comm_cons, <- E2.
  destruct (mangle_head c Hc) as [c3 [r3 [E3 [B3 _]]]].
  rewrite E3, <- app_comm_cons, next_field_step by assumption. cbv beta iota.
  rewrite app_comm_cons, <- E3.
  destruct (mangle_head d Hd) as [c4 [r4 [E4 [B4 _]]]].
  rewrite E4, <- app_comm_cons, next_field_step by assumption. cbv beta iota.
  rewrite app_comm_cons, <- E4.
  rewrite next_field_step by (auto; reflexivity). reflexivity.
Qed.

Lemma mnt_buffer_line e : short_line e = true -> mnt_buffer (k_mount_line e) = line_body e ++ [48].
Proof.
  intros Hshort. unfold mnt_buffer, short_line, MNT_BUFSIZ in *. apply Nat.leb_le in Hshort.
  destruct (Nat.ltb_spec (4096 - 1) (length (k_mount_line e))); [lia|].
  rewrite k_mount_line_body, !rev_app_distr. cbn [rev app].
  change (skip_blank (48 :: rev (line_body e))) with (48 :: rev (line_body e)).
  change (rev (48 :: rev (line_body e))) with (rev (rev (line_body e)) ++ [48]). now rewrite rev_involutive.
Qed.

(* getmntent on one printed line that fits the buffer *)
Lemma mnt_line_exact e : wf_ment e = true -> dev_ok e = true -> short_line e = true ->
  mnt_line (k_mount_line e) = Some e.
Proof.
  intros Hwf Hok Hshort. destruct (dev_ok_spec e Hwf Hok) as [Hdev [Hnh H]].
  unfold wf_ment in Hwf. repeat (apply andb_true_iff in Hwf as [Hwf ?]).
  unfold mnt_line, mnt_parse. rewrite mnt_buffer_line by assumption.
  assert (Hshape : line_body e ++ [48] =
    mangle (m_dev e) ++ 32 :: mangle (m_dir e) ++ 32 :: mangle (m_type e) ++ 32 :: mangle (m_opts e) ++ 32 :: 48 :: [32; 48]).
  { unfold line_body. rewrite mangle_dev_nohash by assumption. repeat (rewrite <- ?app_assoc; cbn [app]). reflexivity. }
  rewrite Hshape.
  destruct (mangle_head (m_dev e) Hdev) as [c1 [r1 [E1 [B1 P1]]]].
  assert (Hskip : forall x, skip_blank (mangle (m_dev e) ++ x) = mangle (m_dev e) ++ x).
  { intros x. rewrite E1. cbn [app]. now apply skip_blank_head. }
  rewrite Hskip. rewrite E1 at 1. cbn [app].
  destruct (Z.eqb_spec c1 35) as [->|_]; [rewrite P1 in H by reflexivity; discriminate|].
  rewrite four_fields by assumption. destruct e; reflexivity.
Qed.

Lemma line_body_no_nl e : wf_ment e = true -> contains 10 (line_body e ++ [48]) = false /\ contains 0 (k_mount_line e) = false.
Proof.
  intros Hwf. unfold wf_ment in Hwf. repeat (apply andb_true_iff in Hwf as [Hwf ?]). apply negb_true_iff in Hwf.
  assert (C : forall s b, field_ok s = true -> cleanb b = false -> contains b (mangle s) = false).
  { intros s b Hs Hb. apply clean_contains; [exact Hb|]. apply clean_mangle, field_ok_nonul, Hs. }
  assert (D : forall b, cleanb b = false -> contains b (mangle_dev (m_dev e)) = false).
  { intros b Hb. apply clean_contains; [exact Hb|]. now apply clean_mangle_dev. }
  split.
  - unfold line_body. repeat (rewrite ?contains_app, ?contains_cons). rewrite D by reflexivity.
    rewrite !C by (auto; reflexivity). reflexivity.
  - rewrite k_mount_line_body. unfold line_body. repeat (rewrite ?contains_app, ?contains_cons).
    rewrite D by reflexivity. rewrite !C by (auto; reflexivity). reflexivity.
Qed.

Lemma contains_concat b (ls : list bytes) :
  Forall (fun l => contains b l = false) ls -> contains b (concat ls) = false.
Proof. induction 1 as [|l ls Hl _ IH]; [reflexivity|]. cbn [concat]. now rewrite contains_app, Hl, IH. Qed.

Lemma lines_of_mounts es : forallb wf_ment es = true ->
  lines_keep (k_mounts es) = map k_mount_line es.
Proof.
  unfold k_mounts. induction es as [|e es IH]; intros H; [reflexivity|].
  cbn [forallb] in H. apply andb_true_iff in H as [He Hes]. cbn [map concat].
  rewrite k_mount_line_body at 1. rewrite <- app_assoc. cbn [app].
  rewrite lines_keep_line by (apply line_body_no_nl, He). rewrite IH by assumption.
  now rewrite <- k_mount_line_body.
Qed.

(* every mounts file printed from well-formed entries whose lines fit glibc's buffer *)
Lemma getmntent_exact es :
  forallb wf_ment es = true -> forallb dev_ok es = true -> forallb short_line es = true ->
  getmntent_all (k_mounts es) = Val es.
Proof.
  intros Hwf Hd Hs. unfold getmntent_all.
  assert (H0 : contains 0 (k_mounts es) = false).
  { unfold k_mounts. apply contains_concat. apply Forall_forall. intros l Hl.
    apply in_map_iff in Hl as [e [<- He]]. apply line_body_no_nl. rewrite forallb_forall in Hwf. auto. }
  rewrite H0, lines_of_mounts by assumption. f_equal. clear H0.
  induction es as [|e es IH]; [reflexivity|].
  cbn [forallb] in Hwf, Hs, Hd. apply andb_true_iff in Hwf as [He Hes]. apply andb_true_iff in Hs as [Se Ses].
  apply andb_true_iff in Hd as [De Des].
  cbn [map filter_some]. rewrite mnt_line_exact by assumption. cbn [filter_some]. f_equal. now apply IH.
Qed.

Lemma c_disk_partitions_ok fixed es :
  (fixed = true \/ forallb utf8_ok es = true) -> c_disk_partitions fixed es = Val es.
Proof.
  intros H. induction es as [|e es IH]; [reflexivity|].
  cbn [c_disk_partitions].
  assert (E : fixed || (utf8_valid (m_type e) && utf8_valid (m_opts e)) = true).
  { destruct H as [->|H]; [reflexivity|]. cbn [forallb] in H. apply andb_true_iff in H as [H _].
    unfold utf8_ok in H. rewrite H. apply orb_true_r. }
  rewrite E, IH; [reflexivity|].
  destruct H as [H|H]; [now left|right]. cbn [forallb] in H. now apply andb_true_iff in H as [_ H].
Qed.

(* the Python loop keeps exactly what the property says, for any set of disk-backed types *)
Lemma partitions_loop_entries all fstypes root es :
  partitions_loop all fstypes root es = Val (filter_some (map (part_entry all fstypes root) es)).
Proof.
  induction es as [|e es IH]; [reflexivity|]. cbn [partitions_loop map filter_some]. rewrite IH. cbn [obind].
  unfold part_entry.
  destruct (negb all && _); reflexivity.
Qed.

Lemma part_entry_spec all fstypes fs root e :
  (forall t, mem_bytes t fstypes = disk_backed fs t) -> part_entry all fstypes root e = spec_part all fs root e.
Proof.
  intros Hm. unfold part_entry, spec_part, spec_device, is_root_spelling. rewrite Hm.
  destruct (beqb (m_dev e) (bs "none")) eqn:En.
  - change (beqb [] (bs "/dev/root")) with false. change (beqb [] (bs "rootfs")) with false. cbn [orb].
    destruct all; reflexivity.
  - set (d := if beqb (m_dev e) (bs "/dev/root") || beqb (m_dev e) (bs "rootfs")
              then match root with Some p => p | None => m_dev e end else m_dev e).
    destruct all; cbn [negb andb orb]; [reflexivity|].
    destruct d; cbn [orb andb]; [reflexivity|]. destruct (disk_backed fs (m_type e)); reflexivity.
Qed.

(* the Python loop keeps exactly what the property says, for any set of disk-backed types and any answer of the root
   device lookup *)
Lemma partitions_loop_exact all fstypes fs root es :
  (forall t, mem_bytes t fstypes = disk_backed fs t) ->
  partitions_loop all fstypes root es = Val (spec_partitions all fs root es).
Proof.
  intros Hm. rewrite partitions_loop_entries. unfold spec_partitions. do 2 f_equal.
  apply map_ext. intros e. now apply part_entry_spec.
Qed.

(* cext.disk_partitions + loop, all = True (no /proc/filesystems involved) *)
Lemma disk_partitions_gen_all fixed root fsb es :
  forallb wf_ment es = true -> forallb dev_ok es = true -> forallb short_line es = true ->
  (fixed = true \/ forallb utf8_ok es = true) ->
  disk_partitions_gen fixed true root fsb (k_mounts es) = Val (spec_partitions true [] root es).
Proof.
  intros Hwf Hd Hs Hu. unfold disk_partitions_gen. cbn [obind].
  rewrite getmntent_exact by assumption. cbn [obind]. rewrite c_disk_partitions_ok by assumption. cbn [obind].
  apply partitions_loop_exact. intros t. reflexivity.
Qed.

Lemma disk_partitions_all root fsb es :
  forallb wf_ment es = true -> forallb dev_ok es = true -> forallb short_line es = true ->
  disk_partitions true root fsb (k_mounts es) = Val (spec_partitions true [] root es).
Proof. intros. apply disk_partitions_gen_all; auto. Qed.

Lemma disk_partitions_legacy_all root fsb es :
  forallb wf_ment es = true -> forallb dev_ok es = true -> forallb short_line es = true ->
  forallb utf8_ok es = true ->
  disk_partitions_legacy true root fsb (k_mounts es) = Val (spec_partitions true [] root es).
Proof. intros. apply disk_partitions_gen_all; auto. Qed.

Definition ment_long : ment :=
  {| m_dev := bs "/dev/sda1"; m_dir := 47 :: repeat 120 4090; m_type := bs "ext4"; m_opts := bs "rw" |}.
Definition ment_nonutf8 : ment :=
  {| m_dev := bs "/dev/sda1"; m_dir := bs "/mnt"; m_type := bs "ext4"; m_opts := bs "rw,lowerdir=/a" ++ [255] |}.
Definition ment_plain : ment :=
  {| m_dev := bs "/dev/sd 1"; m_dir := bs "/mnt/a\b"; m_type := bs "ext4"; m_opts := bs "rw,relatime" |}.

(* known finding: a line over 4095 bytes comes back cut *)
Lemma mounts_longline_refuted : exists es,
  forallb wf_ment es = true /\ forallb dev_ok es = true /\ forallb plain_dev es = true /\ forallb utf8_ok es = true /\
  exists rows, disk_partitions true None [] (k_mounts es) = Val rows /\ map m_type rows = [[]].
Proof.
  exists [ment_long]. repeat split; try (vm_compute; reflexivity).
  eexists. split; vm_compute; reflexivity.
Qed.

(* known finding: one non-UTF-8 byte in the options makes the whole call fail *)
Lemma mounts_legacy_nonutf8_refuted : exists es,
  forallb wf_ment es = true /\ forallb dev_ok es = true /\ forallb plain_dev es = true /\ forallb short_line es = true /\
  disk_partitions_legacy true None [] (k_mounts es) = Exc UnicodeError.
Proof. exists [ment_nonutf8]. repeat split; vm_compute; reflexivity. Qed.

(* the same non-UTF-8 entry comes through unchanged with the code of record *)
Lemma mounts_nonutf8_ok : disk_partitions true None [] (k_mounts [ment_nonutf8]) = Val [ment_nonutf8].
Proof. vm_compute. reflexivity. Qed.

Example mounts_example :
  forallb wf_ment [ment_plain] = true /\ forallb dev_ok [ment_plain] = true /\ forallb short_line [ment_plain] = true /\
  forallb plain_dev [ment_plain] = true /\ forallb utf8_ok [ment_plain] = true.
Proof. vm_compute. auto. Qed.

(* ================================================================ /proc/filesystems *)
Lemma name_ok_no_ws name : forallb name_byte_ok name = true -> no_ws name = true.
Proof.
  unfold no_ws. induction name as [|c name IH]; intros H; [reflexivity|].
  cbn [forallb] in *. apply andb_true_iff in H as [Hc Hn]. rewrite IH by assumption. rewrite andb_true_r.
  unfold name_byte_ok in Hc. apply andb_true_iff in Hc as [H1 H2]. apply Z.leb_le in H1, H2.
  unfold is_ws. destruct (Z.eqb_spec c 32); [lia|]. destruct (Z.leb_spec 9 c); destruct (Z.leb_spec c 13); cbn; try reflexivity; lia.
Qed.

Lemma name_ok_bytes name : forallb name_byte_ok name = true -> forallb fs_byte_ok name = true /\ contains 9 name = false /\ contains 10 name = false.
Proof.
  induction name as [|c name IH]; intros H; [auto|].
  cbn [forallb] in *. apply andb_true_iff in H as [Hc Hn]. destruct (IH Hn) as [I1 [I2 I3]].
  unfold name_byte_ok in Hc. apply andb_true_iff in Hc as [H1 H2]. apply Z.leb_le in H1, H2.
  rewrite !contains_cons, I1, I2, I3. unfold fs_byte_ok.
  destruct (Z.eqb_spec 9 c); [lia|]. destruct (Z.eqb_spec 10 c); [lia|].
  destruct (Z.leb_spec 32 c); [|lia]. destruct (Z.leb_spec c 126); [|lia].
  repeat split; cbn; try reflexivity. rewrite !orb_true_r. reflexivity.
Qed.

Lemma wf_fs_spec f : wf_fs f = true ->
  fs_name f <> [] /\ forallb name_byte_ok (fs_name f) = true /\ prefixb nodev (fs_name f) = false.
Proof.
  unfold wf_fs. intros H. apply andb_true_iff in H as [H H3]. apply andb_true_iff in H as [H1 H2].
  apply negb_true_iff in H3. split; [destruct (fs_name f); [discriminate|congruence]|]. auto.
Qed.

(* the stripped line as _pslinux sees it *)
Lemma strip_fs_line f : wf_fs f = true ->
  strip (k_fs_line f) = (if fs_nodev f then nodev ++ [9] else []) ++ fs_name f.
Proof.
  intros Hwf. destruct (wf_fs_spec f Hwf) as [Hne [Hok _]]. pose proof (name_ok_no_ws _ Hok) as Hnw.
  unfold k_fs_line, strip. destruct (fs_name f) as [|c name] eqn:En; [congruence|].
  assert (Hc : is_ws c = false).
  { cbn [no_ws forallb] in Hnw. apply andb_true_iff in Hnw as [Hc _]. now apply negb_true_iff in Hc. }
  destruct (fs_nodev f); cbv iota.
  - change (lstrip (bs "nodev" ++ 9 :: (c :: name) ++ [10])) with (bs "nodev" ++ 9 :: (c :: name) ++ [10]).
    change (bs "nodev" ++ 9 :: (c :: name) ++ [10]) with ((nodev ++ [9]) ++ (c :: name) ++ [10]).
    rewrite app_assoc, rstrip_snoc. change (is_ws 10) with true. cbv iota.
    apply rstrip_no_ws_tail; [discriminate|exact Hnw].
  - cbn [app]. change (lstrip (9 :: c :: name ++ [10])) with (lstrip (c :: name ++ [10])).
    rewrite lstrip_nows by exact Hc.
    change (c :: name ++ [10]) with ((c :: name) ++ [10]). rewrite rstrip_snoc. change (is_ws 10) with true. cbv iota.
    apply (rstrip_no_ws_tail [] (c :: name)); [discriminate|exact Hnw].
Qed.

(* one line of the kernel's list moves the accumulated set as the property says *)
Lemma fstypes_step f lines acc : wf_fs f = true ->
  fstypes_of_lines (k_fs_line f :: lines) acc =
  fstypes_of_lines lines (if negb (fs_nodev f) || beqb (fs_name f) (bs "zfs") then fs_name f :: acc else acc).
Proof.
  intros Hwf. destruct (wf_fs_spec f Hwf) as [Hne [Hok Hnp]]. pose proof (name_ok_no_ws _ Hok) as Hnw.
  destruct (name_ok_bytes _ Hok) as [_ [H9 _]].
  cbn [fstypes_of_lines]. rewrite strip_fs_line by assumption. destruct (fs_nodev f); cbn [negb orb app].
  - rewrite <- app_assoc. rewrite prefixb_app. cbn [negb].
    change ((nodev ++ [9]) ++ fs_name f) with (nodev ++ 9 :: fs_name f) || idtac.
    cbn [app]. rewrite split_on_app by reflexivity. rewrite split_on_nosep by exact H9.
    cbn [nth_err_idx nth_error obind].
    destruct (beqb (fs_name f) (bs "zfs")) eqn:Ez; [|reflexivity].
    apply beqb_eq in Ez. now rewrite Ez.
  - rewrite Hnp. cbn [negb]. now rewrite strip_no_ws.
Qed.

Lemma fstypes_of_printed : forall fs acc, forallb wf_fs fs = true ->
  exists types, fstypes_of_lines (map k_fs_line fs) acc = Val types /\
                forall t, mem_bytes t types = mem_bytes t acc || disk_backed fs t.
Proof.
  induction fs as [|f fs IH]; intros acc H.
  - exists acc. split; [reflexivity|]. intros t. cbn. now rewrite orb_false_r.
  - cbn [forallb] in H. apply andb_true_iff in H as [Hf Hfs]. cbn [map]. rewrite fstypes_step by assumption.
    destruct (IH (if negb (fs_nodev f) || beqb (fs_name f) (bs "zfs") then fs_name f :: acc else acc) Hfs) as [types [E M]].
    exists types. split; [exact E|]. intros t. rewrite M. unfold disk_backed. cbn [existsb].
    destruct (negb (fs_nodev f) || beqb (fs_name f) (bs "zfs")); cbn [mem_bytes existsb].
    + rewrite andb_true_r. fold (mem_bytes t acc). rewrite (orb_comm (beqb t (fs_name f))), <- orb_assoc. reflexivity.
    + rewrite andb_false_r. reflexivity.
Qed.

Lemma lines_of_filesystems fs : forallb wf_fs fs = true ->
  lines_keep (k_filesystems fs) = map k_fs_line fs /\ forallb fs_byte_ok (k_filesystems fs) = true.
Proof.
  unfold k_filesystems. induction fs as [|f fs IH]; intros H; [auto|].
  cbn [forallb] in H. apply andb_true_iff in H as [Hf Hfs]. destruct (IH Hfs) as [I1 I2].
  destruct (wf_fs_spec f Hf) as [_ [Hok _]]. destruct (name_ok_bytes _ Hok) as [B1 [_ B10]].
  cbn [map concat]. unfold k_fs_line at 1 3.
  split.
  - replace (((if fs_nodev f then bs "nodev" else []) ++ 9 :: fs_name f ++ [10]) ++ concat (map k_fs_line fs))
      with (((if fs_nodev f then bs "nodev" else []) ++ 9 :: fs_name f) ++ 10 :: concat (map k_fs_line fs))
      by (repeat (rewrite <- ?app_assoc; cbn [app]); reflexivity).
    rewrite lines_keep_line.
    + rewrite I1. f_equal. unfold k_fs_line. repeat (rewrite <- ?app_assoc; cbn [app]). reflexivity.
    + rewrite contains_app, contains_cons, B10. destruct (fs_nodev f); reflexivity.
  - rewrite forallb_app, I2, andb_true_r. unfold k_fs_line. rewrite forallb_app. cbn [forallb]. rewrite forallb_app, B1. destruct (fs_nodev f); reflexivity.
Qed.

(* for every printed /proc/filesystems: the set psutil builds is exactly the disk-backed types *)
Lemma read_fstypes_exact fs : forallb wf_fs fs = true ->
  exists types, read_fstypes (k_filesystems fs) = Val types /\ forall t, mem_bytes t types = disk_backed fs t.
Proof.
  intros H. unfold read_fstypes. destruct (lines_of_filesystems fs H) as [L B]. rewrite B, L.
  destruct (fstypes_of_printed fs [] H) as [types [E M]]. exists types. split; [exact E|]. intros t. now rewrite M.
Qed.

Lemma spec_partitions_all_any fs fs' root es : spec_partitions true fs root es = spec_partitions true fs' root es.
Proof. reflexivity. Qed.

(* disk_partitions(all) end to end, for every printed /proc/filesystems and every mounts table *)
Lemma disk_partitions_gen_exact fixed all root fs es :
  forallb wf_fs fs = true -> forallb wf_ment es = true -> forallb dev_ok es = true ->
  forallb short_line es = true ->
  (fixed = true \/ forallb utf8_ok es = true) ->
  disk_partitions_gen fixed all root (k_filesystems fs) (k_mounts es) = Val (spec_partitions all fs root es).
Proof.
  intros Hfs Hwf Hd Hs Hu. destruct all.
  - rewrite (spec_partitions_all_any fs []). now apply disk_partitions_gen_all.
  - unfold disk_partitions_gen. destruct (read_fstypes_exact fs Hfs) as [types [-> M]]. cbn [obind].
    rewrite getmntent_exact by assumption. cbn [obind]. rewrite c_disk_partitions_ok by assumption. cbn [obind].
    now apply partitions_loop_exact.
Qed.

Lemma disk_partitions_exact all root fs es :
  forallb wf_fs fs = true -> forallb wf_ment es = true -> forallb dev_ok es = true ->
  forallb short_line es = true ->
  disk_partitions all root (k_filesystems fs) (k_mounts es) = Val (spec_partitions all fs root es).
Proof. intros. apply disk_partitions_gen_exact; auto. Qed.

Definition fs_sample : list kfs :=
  [ {| fs_nodev := true; fs_name := bs "proc" |}; {| fs_nodev := false; fs_name := bs "ext4" |};
    {| fs_nodev := true; fs_name := bs "zfs" |}; {| fs_nodev := true; fs_name := bs "tmpfs" |} ].
Example filesystems_example :
  forallb wf_fs fs_sample = true /\ disk_backed fs_sample (bs "ext4") = true /\ disk_backed fs_sample (bs "zfs") = true
  /\ disk_backed fs_sample (bs "tmpfs") = false.
Proof. vm_compute. auto. Qed.

(* observation (outside the property's quantifier: no kernel filesystem is named like this): a type whose
   name starts with "nodev" and that requires a device makes the /proc/filesystems loop raise IndexError *)
Lemma filesystems_nodev_name_observation :
  read_fstypes (k_filesystems [ {| fs_nodev := false; fs_name := bs "nodevfs" |} ]) = Exc IndexError.
Proof. vm_compute. reflexivity. Qed.

(* ================================================================ the 4095-byte boundary *)
(* above the boundary getmntent parses the first 4095 bytes of the line and forgets the rest *)
Lemma mnt_line_long line : (4095 < length line)%nat -> mnt_line line = mnt_parse (firstn 4095 line).
Proof.
  intros H. unfold mnt_line, mnt_buffer, MNT_BUFSIZ. change (4096 - 1)%nat with 4095%nat.
  destruct (Nat.ltb_spec 4095 (length line)); [reflexivity|lia].
Qed.

Lemma strsep_clean_end t : clean t = true -> strsep t = (t, None).
Proof.
  unfold clean. induction t as [|c t IH]; intros H; [reflexivity|].
  cbn [forallb] in H. apply andb_true_iff in H as [Hc Ht]. apply cleanb_parts in Hc as [Hb _].
  cbn [strsep]. now rewrite Hb, IH.
Qed.

Lemma clean_firstn k t : clean t = true -> clean (firstn k t) = true.
Proof.
  unfold clean. revert t. induction k as [|k IH]; intros [|c t] H; cbn [firstn forallb]; auto.
  cbn [forallb] in H. apply andb_true_iff in H as [Hc Ht]. now rewrite Hc, IH.
Qed.

(* the cut falls inside the mount point: device intact, mount point cut, type and options empty *)
Lemma mnt_line_cut_in_dir e :
  wf_ment e = true -> dev_ok e = true ->
  (length (mangle (m_dev e)) + 2 <= 4095 <= length (mangle (m_dev e)) + 1 + length (mangle (m_dir e)))%nat ->
  mnt_line (k_mount_line e) =
    Some {| m_dev := m_dev e;
            m_dir := decode_name (firstn (4095 - length (mangle (m_dev e)) - 1) (mangle (m_dir e)));
            m_type := []; m_opts := [] |}.
Proof.
  intros Hwf Hok Hlen. destruct (dev_ok_spec e Hwf Hok) as [Hdev [Hnh Hp]].
  unfold wf_ment in Hwf. repeat (apply andb_true_iff in Hwf as [Hwf ?]).
  remember (mangle (m_dev e)) as A eqn:EA. remember (mangle (m_dir e)) as B eqn:EB.
  assert (Hline : k_mount_line e = A ++ 32 :: B ++ (32 :: mangle (m_type e) ++ 32 :: mangle (m_opts e) ++ bs " 0 0" ++ [10])).
  { unfold k_mount_line. rewrite mangle_dev_nohash by assumption. now rewrite <- EA, <- EB. }
  rewrite mnt_line_long.
  2:{ rewrite Hline, app_length. cbn [length]. rewrite app_length. cbn [length]. lia. }
  rewrite Hline.
  assert (Hcut : firstn 4095 (A ++ 32 :: B ++ (32 :: mangle (m_type e) ++ 32 :: mangle (m_opts e) ++ bs " 0 0" ++ [10]))
                 = A ++ 32 :: firstn (4095 - length A - 1) B).
  { rewrite firstn_app. assert (HA : (length A <= 4095)%nat) by lia. rewrite (firstn_all2 A HA). f_equal.
    assert (E1 : (4095 - length A = S (4095 - length A - 1))%nat) by lia. rewrite E1 at 1. cbn [firstn]. f_equal.
    rewrite firstn_app.
    assert (E2 : (4095 - length A - 1 - length B = 0)%nat) by lia. rewrite E2.
    cbn [firstn]. now rewrite app_nil_r. }
  rewrite Hcut. set (B' := firstn (4095 - length A - 1) B).
  assert (HcB : clean B = true) by (rewrite EB; apply clean_mangle, field_ok_nonul; assumption).
  assert (HcB' : clean B' = true) by (apply clean_firstn, HcB).
  destruct (mangle_head (m_dir e)) as [c2 [r2 [E2 [B2 _]]]]; [assumption|]. rewrite <- EB in E2.
  assert (EB' : exists r', B' = c2 :: r').
  { unfold B'. rewrite E2. replace (4095 - length A - 1)%nat with (S (4095 - length A - 2)) by lia. cbn [firstn]. eauto. }
  destruct EB' as [r' EB'].
  unfold mnt_parse.
  destruct (mangle_head (m_dev e) Hdev) as [c1 [r1 [E1 [B1 P1]]]]. rewrite <- EA in E1.
  assert (Hskip : forall x, skip_blank (A ++ x) = A ++ x).
  { intros x. rewrite E1. cbn [app]. now apply skip_blank_head. }
  rewrite Hskip. rewrite E1 at 1. cbn [app].
  destruct (Z.eqb_spec c1 35) as [->|_]; [rewrite P1 in Hp by reflexivity; discriminate|].
  rewrite EB'. rewrite EA. rewrite next_field_step by assumption. cbv beta iota.
  rewrite <- EB'. unfold next_field at 1. rewrite strsep_clean_end by exact HcB'. cbv beta iota.
  cbn [next_field]. reflexivity.
Qed.

(* ================================================================ the device field: two known findings *)
Definition ment_hash : ment :=
  {| m_dev := bs "#dev"; m_dir := bs "/mnt"; m_type := bs "tmpfs"; m_opts := bs "rw" |}.
Definition ment_nodevname : ment :=
  {| m_dev := []; m_dir := bs "/mnt"; m_type := bs "tmpfs"; m_opts := bs "rw" |}.

(* known finding: the kernel prints '#' in a device name as \043, which glibc's decode_name leaves alone *)
Lemma mounts_hash_refuted : exists es,
  forallb wf_ment es = true /\ forallb plain_dev es = true /\ forallb short_line es = true /\ forallb utf8_ok es = true /\
  exists rows, disk_partitions true None [] (k_mounts es) = Val rows /\ map m_dev rows = [bs "\043dev"] /\ map m_dev es = [bs "#dev"].
Proof.
  exists [ment_hash]. repeat split; try (vm_compute; reflexivity).
  eexists. repeat split; vm_compute; reflexivity.
Qed.

(* known finding: an empty device name makes the line start with a blank; getmntent shifts all fields *)
Lemma mounts_emptydev_refuted : exists es,
  forallb wf_ment es = true /\ forallb plain_dev es = true /\ forallb short_line es = true /\ forallb utf8_ok es = true /\
  map m_dev es = [[]] /\
  disk_partitions true None [] (k_mounts es)
    = Val [ {| m_dev := bs "/mnt"; m_dir := bs "tmpfs"; m_type := bs "rw"; m_opts := bs "0" |} ].
Proof. exists [ment_nodevname]. repeat split; vm_compute; reflexivity. Qed.

(* the boundary, concretely (line = n + 24 bytes, the four fields = n + 19 bytes): a line of exactly 4095 bytes
   is exact; up to 4100 bytes the cut falls behind the options and the answer is still exact; from the first
   byte of a field beyond 4095 on, the entry comes back cut *)
Definition ment_len (n : nat) : ment :=
  {| m_dev := bs "/dev/sda1"; m_dir := 47 :: repeat 120 n; m_type := bs "ext4"; m_opts := bs "rw" |}.
Lemma boundary_4095 :
  length (k_mount_line (ment_len 4071)) = 4095%nat /\ mnt_line (k_mount_line (ment_len 4071)) = Some (ment_len 4071) /\
  length (k_mount_line (ment_len 4076)) = 4100%nat /\ mnt_line (k_mount_line (ment_len 4076)) = Some (ment_len 4076) /\
  length (k_mount_line (ment_len 4077)) = 4101%nat /\
  mnt_line (k_mount_line (ment_len 4077))
    = Some {| m_dev := bs "/dev/sda1"; m_dir := 47 :: repeat 120 4077; m_type := bs "ext4"; m_opts := bs "r" |}.
Proof. repeat split; vm_compute; reflexivity. Qed.

(* ================================================================ the two spellings of the root device *)
Lemma filter_some_app {A} (x y : list (option A)) : filter_some (x ++ y) = filter_some x ++ filter_some y.
Proof. induction x as [|[a|] x IH]; cbn [app filter_some]; [reflexivity| |]; now rewrite IH. Qed.

(* the rows of a table are the rows of its entries, each computed from that entry and the lookup result alone:
   an entry's row does not depend on the entries before or after it *)
Lemma spec_partitions_local all fs root pre e post :
  spec_partitions all fs root (pre ++ e :: post)
  = spec_partitions all fs root pre ++ spec_partitions all fs root [e] ++ spec_partitions all fs root post.
Proof. unfold spec_partitions. change (e :: post) with ([e] ++ post). now rewrite !map_app, !filter_some_app. Qed.

Lemma partitions_loop_local all fstypes root pre e post :
  partitions_loop all fstypes root (pre ++ e :: post)
  = Val (filter_some (map (part_entry all fstypes root) pre) ++ filter_some [part_entry all fstypes root e]
         ++ filter_some (map (part_entry all fstypes root) post)).
Proof. rewrite partitions_loop_entries. change (e :: post) with ([e] ++ post). now rewrite !map_app, !filter_some_app. Qed.

From Coq Require Import Permutation.
Lemma filter_some_perm {A} (x y : list (option A)) : Permutation x y -> Permutation (filter_some x) (filter_some y).
Proof.
  induction 1 as [|o l l' _ IH|o1 o2 l|l1 l2 l3 _ IH1 _ IH2].
  - apply Permutation_refl.
  - destruct o; cbn [filter_some]; [now apply perm_skip|exact IH].
  - destruct o1, o2; cbn [filter_some]; try apply Permutation_refl. apply perm_swap.
  - eapply perm_trans; eauto.
Qed.

(* ... nor on their order: reordering the table reorders the rows, nothing else *)
Lemma partitions_order all fstypes root es es' : Permutation es es' ->
  Permutation (filter_some (map (part_entry all fstypes root) es)) (filter_some (map (part_entry all fstypes root) es')).
Proof. intros H. apply filter_some_perm, Permutation_map, H. Qed.

Definition ment_rootfs : ment := {| m_dev := bs "rootfs"; m_dir := bs "/"; m_type := bs "rootfs"; m_opts := bs "rw" |}.
Definition ment_devroot : ment := {| m_dev := bs "/dev/root"; m_dir := bs "/"; m_type := bs "ext4"; m_opts := bs "rw,relatime" |}.
(* both spellings in one table, either order, lookup failing or succeeding: every entry keeps its own spelling, or
   both show the resolved device *)
Example root_spellings_example :
  map m_dev (spec_partitions true [] None [ment_rootfs; ment_devroot]) = [bs "rootfs"; bs "/dev/root"] /\
  map m_dev (spec_partitions true [] None [ment_devroot; ment_rootfs]) = [bs "/dev/root"; bs "rootfs"] /\
  map m_dev (spec_partitions true [] (Some (bs "/dev/sda1")) [ment_rootfs; ment_devroot]) = [bs "/dev/sda1"; bs "/dev/sda1"] /\
  disk_partitions true None [] (k_mounts [ment_rootfs; ment_devroot]) = Val [ment_rootfs; ment_devroot].
Proof. vm_compute. auto. Qed.
