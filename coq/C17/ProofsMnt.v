(* C17 -- mount table: escapes, getmntent, the partition filter. *)
From PV Require Import C17.Spec.

(* a byte that is neither blank, newline nor NUL *)
Definition cleanb (c : Z) : bool := negb (is_blank c) && negb (c =? 10) && negb (c =? 0).
Definition clean (t : bytes) : bool := forallb cleanb t.

Lemma esc_cases c :
  (c = 32 /\ esc c = [92; 48; 52; 48]) \/ (c = 9 /\ esc c = [92; 48; 49; 49]) \/
  (c = 10 /\ esc c = [92; 48; 49; 50]) \/ (c = 92 /\ esc c = [92; 49; 51; 52]) \/
  (c <> 32 /\ c <> 9 /\ c <> 10 /\ c <> 92 /\ esc c = [c]).
Proof.
  unfold esc.
  destruct (Z.eqb_spec c 32); [auto|]. destruct (Z.eqb_spec c 9); [auto|].
  destruct (Z.eqb_spec c 10); [auto 6|]. destruct (Z.eqb_spec c 92); [auto 8|]. auto 10.
Qed.

(* glibc's decode_name undoes the kernel's escaping, for every byte string *)
Lemma decode_mangle s : decode_name (mangle s) = s.
Proof.
  unfold decode_name. induction s as [|c s IH]; [reflexivity|].
  change (mangle (c :: s)) with (esc c ++ mangle s).
  destruct (esc_cases c) as [[-> ->]|[[-> ->]|[[-> ->]|[[-> ->]|[H1 [H2 [H3 [H4 ->]]]]]]]].
  - change (decode_aux 0 ([92; 48; 52; 48] ++ mangle s)) with (32 :: decode_aux 0 (mangle s)). now rewrite IH.
  - change (decode_aux 0 ([92; 48; 49; 49] ++ mangle s)) with (9 :: decode_aux 0 (mangle s)). now rewrite IH.
  - change (decode_aux 0 ([92; 48; 49; 50] ++ mangle s)) with (10 :: decode_aux 0 (mangle s)). now rewrite IH.
  - change (decode_aux 0 ([92; 49; 51; 52] ++ mangle s)) with (92 :: decode_aux 0 (mangle s)). now rewrite IH.
  - cbn [app decode_aux]. destruct (Z.eqb_spec c 92); [contradiction|]. now rewrite IH.
Qed.

Lemma clean_mangle s : contains 0 s = false -> clean (mangle s) = true.
Proof.
  unfold clean. induction s as [|c s IH]; intros H; [reflexivity|].
  rewrite contains_cons in H. apply orb_false_iff in H as [Hc Hs].
  change (mangle (c :: s)) with (esc c ++ mangle s). rewrite forallb_app, IH by assumption.
  rewrite andb_true_r.
  destruct (esc_cases c) as [[-> ->]|[[-> ->]|[[-> ->]|[[-> ->]|[H1 [H2 [H3 [H4 ->]]]]]]]]; try reflexivity.
  cbn [forallb]. unfold cleanb, is_blank.
  destruct (Z.eqb_spec c 32); [contradiction|]. destruct (Z.eqb_spec c 9); [contradiction|].
  destruct (Z.eqb_spec c 10); [contradiction|]. rewrite Z.eqb_sym, Hc. reflexivity.
Qed.

Lemma cleanb_parts c : cleanb c = true -> is_blank c = false /\ (c =? 10) = false /\ (c =? 0) = false.
Proof.
  unfold cleanb. intros H. apply andb_true_iff in H as [H H0]. apply andb_true_iff in H as [Hb Hn].
  apply negb_true_iff in Hb, Hn, H0. auto.
Qed.

Lemma strsep_clean t rest : clean t = true -> strsep (t ++ 32 :: rest) = (t, Some rest).
Proof.
  unfold clean. induction t as [|c t IH]; intros H; [reflexivity|].
  cbn [forallb] in H. apply andb_true_iff in H as [Hc Ht]. apply cleanb_parts in Hc as [Hb _].
  cbn [app strsep]. rewrite Hb, IH by assumption. reflexivity.
Qed.

Lemma clean_contains t b : cleanb b = false -> clean t = true -> contains b t = false.
Proof.
  unfold clean. intros Hb. induction t as [|c t IH]; intros H; [reflexivity|].
  cbn [forallb] in H. apply andb_true_iff in H as [Hc Ht]. rewrite contains_cons, IH by assumption.
  rewrite orb_false_r. destruct (Z.eqb_spec b c); [subst; congruence|reflexivity].
Qed.

(* first byte of an escaped non-empty field: not blank, and '#' only if the field starts with '#' *)
Lemma mangle_head s : field_ok s = true ->
  exists c r, mangle s = c :: r /\ is_blank c = false /\ (c = 35 -> prefixb [35] s = true).
Proof.
  destruct s as [|c s]; [discriminate|]. intros _.
  change (mangle (c :: s)) with (esc c ++ mangle s).
  destruct (esc_cases c) as [[-> ->]|[[-> ->]|[[-> ->]|[[-> ->]|[H1 [H2 [H3 [H4 ->]]]]]]]];
    try (eexists _, _; split; [reflexivity|]; split; [reflexivity|]; discriminate).
  exists c, (mangle s). split; [reflexivity|]. split.
  - unfold is_blank. destruct (Z.eqb_spec c 32); [contradiction|]. destruct (Z.eqb_spec c 9); [contradiction|reflexivity].
  - intros ->. reflexivity.
Qed.

Lemma skip_blank_head c r : is_blank c = false -> skip_blank (c :: r) = c :: r.
Proof. intros H. cbn [skip_blank]. now rewrite H. Qed.

Lemma field_ok_nonul s : field_ok s = true -> contains 0 s = false.
Proof. destruct s; [discriminate|]. cbn [field_ok]. intros H. now apply negb_true_iff in H. Qed.

(* one field of the line followed by a blank and a tail that does not start with a blank *)
Lemma next_field_step s c tail : field_ok s = true -> is_blank c = false ->
  next_field (Some (mangle s ++ 32 :: c :: tail)) = (s, Some (c :: tail)).
Proof.
  intros Hs Hc. unfold next_field.
  rewrite strsep_clean by (apply clean_mangle, field_ok_nonul, Hs).
  now rewrite decode_mangle, skip_blank_head.
Qed.

Definition line_body (e : ment) : bytes :=
  mangle (m_dev e) ++ 32 :: mangle (m_dir e) ++ 32 :: mangle (m_type e) ++ 32 :: mangle (m_opts e) ++ [32; 48; 32].

Lemma k_mount_line_body e : k_mount_line e = (line_body e ++ [48]) ++ [10].
Proof.
  unfold k_mount_line, line_body. change (bs " 0 0") with [32; 48; 32; 48].
  repeat (rewrite <- ?app_assoc; cbn [app]). reflexivity.
Qed.

Lemma four_fields a b c d tail :
  field_ok a = true -> field_ok b = true -> field_ok c = true -> field_ok d = true ->
  (let '(f1, h1) := next_field (Some (mangle a ++ 32 :: mangle b ++ 32 :: mangle c ++ 32 :: mangle d ++ 32 :: 48 :: tail)) in
   let '(f2, h2) := next_field h1 in
   let '(f3, h3) := next_field h2 in
   let '(f4, _) := next_field h3 in
   Some {| m_dev := f1; m_dir := f2; m_type := f3; m_opts := f4 |})
  = Some {| m_dev := a; m_dir := b; m_type := c; m_opts := d |}.
Proof.
  intros Ha Hb Hc Hd.
  destruct (mangle_head b Hb) as [c2 [r2 [E2 [B2 _]]]].
  rewrite E2, <- app_comm_cons, next_field_step by assumption. cbv beta iota.
  rewrite app_comm_cons, <- E2.
  destruct (mangle_head c Hc) as [c3 [r3 [E3 [B3 _]]]].
  rewrite E3, <- app_comm_cons, next_field_step by assumption. cbv beta iota.
  rewrite app_comm_cons, <- E3.
  destruct (mangle_head d Hd) as [c4 [r4 [E4 [B4 _]]]].
  rewrite E4, <- app_comm_cons, next_field_step by assumption. cbv beta iota.
  rewrite app_comm_cons, <- E4.
  rewrite next_field_step by (auto; reflexivity). reflexivity.
Qed.

Lemma mnt_buffer_line e : short_line e = true -> mnt_buffer (k_mount_line e) = line_body e ++ [48].
Proof.
  intros Hshort. unfold mnt_buffer, short_line, MNT_BUFSIZ in *. apply Nat.leb_le in Hshort.
  destruct (Nat.ltb_spec (4096 - 1) (length (k_mount_line e))); [lia|].
  rewrite k_mount_line_body, !rev_app_distr. cbn [rev app].
  change (skip_blank (48 :: rev (line_body e))) with (48 :: rev (line_body e)).
  change (rev (48 :: rev (line_body e))) with (rev (rev (line_body e)) ++ [48]). now rewrite rev_involutive.
Qed.

(* getmntent on one printed line that fits the buffer *)
Lemma mnt_line_exact e : wf_ment e = true -> short_line e = true -> mnt_line (k_mount_line e) = Some e.
Proof.
  intros Hwf Hshort. unfold wf_ment in Hwf. repeat (apply andb_true_iff in Hwf as [Hwf ?]).
  rename Hwf into Hdev. apply negb_true_iff in H.
  unfold mnt_line. rewrite mnt_buffer_line by assumption.
  assert (Hshape : line_body e ++ [48] =
    mangle (m_dev e) ++ 32 :: mangle (m_dir e) ++ 32 :: mangle (m_type e) ++ 32 :: mangle (m_opts e) ++ 32 :: 48 :: [32; 48]).
  { unfold line_body. repeat (rewrite <- ?app_assoc; cbn [app]). reflexivity. }
  rewrite Hshape.
  destruct (mangle_head (m_dev e) Hdev) as [c1 [r1 [E1 [B1 P1]]]].
  assert (Hskip : forall x, skip_blank (mangle (m_dev e) ++ x) = mangle (m_dev e) ++ x).
  { intros x. rewrite E1. cbn [app]. now apply skip_blank_head. }
  rewrite Hskip. rewrite E1 at 1. cbn [app].
  destruct (Z.eqb_spec c1 35) as [->|_]; [rewrite P1 in H by reflexivity; discriminate|].
  rewrite four_fields by assumption. destruct e; reflexivity.
Qed.

Lemma line_body_no_nl e : wf_ment e = true -> contains 10 (line_body e ++ [48]) = false /\ contains 0 (k_mount_line e) = false.
Proof.
  intros Hwf. unfold wf_ment in Hwf. repeat (apply andb_true_iff in Hwf as [Hwf ?]).
  assert (C : forall s b, field_ok s = true -> cleanb b = false -> contains b (mangle s) = false).
  { intros s b Hs Hb. apply clean_contains; [exact Hb|]. apply clean_mangle, field_ok_nonul, Hs. }
  split.
  - unfold line_body. repeat (rewrite ?contains_app, ?contains_cons). rewrite !C by (auto; reflexivity). reflexivity.
  - rewrite k_mount_line_body. unfold line_body. repeat (rewrite ?contains_app, ?contains_cons).
    rewrite !C by (auto; reflexivity). reflexivity.
Qed.

Lemma contains_concat b (ls : list bytes) :
  Forall (fun l => contains b l = false) ls -> contains b (concat ls) = false.
Proof. induction 1 as [|l ls Hl _ IH]; [reflexivity|]. cbn [concat]. now rewrite contains_app, Hl, IH. Qed.

Lemma lines_of_mounts es : forallb wf_ment es = true ->
  lines_keep (k_mounts es) = map k_mount_line es.
Proof.
  unfold k_mounts. induction es as [|e es IH]; intros H; [reflexivity|].
  cbn [forallb] in H. apply andb_true_iff in H as [He Hes]. cbn [map concat].
  rewrite k_mount_line_body at 1. rewrite <- app_assoc. cbn [app].
  rewrite lines_keep_line by (apply line_body_no_nl, He). rewrite IH by assumption.
  now rewrite <- k_mount_line_body.
Qed.

(* every mounts file printed from well-formed entries whose lines fit glibc's buffer *)
Lemma getmntent_exact es :
  forallb wf_ment es = true -> forallb short_line es = true -> getmntent_all (k_mounts es) = Val es.
Proof.
  intros Hwf Hs. unfold getmntent_all.
  assert (H0 : contains 0 (k_mounts es) = false).
  { unfold k_mounts. apply contains_concat. apply Forall_forall. intros l Hl.
    apply in_map_iff in Hl as [e [<- He]]. apply line_body_no_nl. rewrite forallb_forall in Hwf. auto. }
  rewrite H0, lines_of_mounts by assumption. f_equal.
  induction es as [|e es IH]; [reflexivity|].
  cbn [forallb] in Hwf, Hs. apply andb_true_iff in Hwf as [He Hes]. apply andb_true_iff in Hs as [Se Ses].
  cbn [map filter_some]. rewrite mnt_line_exact by assumption. cbn [filter_some]. f_equal.
  apply IH; auto. unfold k_mounts. apply contains_concat. apply Forall_forall. intros l Hl.
  apply in_map_iff in Hl as [e' [<- He']]. apply line_body_no_nl. rewrite forallb_forall in Hes. auto.
Qed.

Lemma c_disk_partitions_ok fixed es :
  (fixed = true \/ forallb utf8_ok es = true) -> c_disk_partitions fixed es = Val es.
Proof.
  intros H. induction es as [|e es IH]; [reflexivity|].
  cbn [c_disk_partitions].
  assert (E : fixed || (utf8_valid (m_type e) && utf8_valid (m_opts e)) = true).
  { destruct H as [->|H]; [reflexivity|]. cbn [forallb] in H. apply andb_true_iff in H as [H _].
    unfold utf8_ok in H. rewrite H. apply orb_true_r. }
  rewrite E, IH; [reflexivity|].
  destruct H as [H|H]; [now left|right]. cbn [forallb] in H. now apply andb_true_iff in H as [_ H].
Qed.

(* the Python loop keeps exactly what the property says, for any set of disk-backed types *)
Lemma partitions_loop_exact all fstypes fs es :
  (forall t, mem_bytes t fstypes = disk_backed fs t) -> forallb plain_dev es = true ->
  partitions_loop all fstypes es = Val (spec_partitions all fs es).
Proof.
  intros Hm. induction es as [|e es IH]; intros Hp; [reflexivity|].
  cbn [forallb] in Hp. apply andb_true_iff in Hp as [He Hes].
  unfold plain_dev in He. apply andb_true_iff in He as [H1 H2]. apply negb_true_iff in H1, H2.
  cbn [partitions_loop]. unfold spec_partitions. cbn [map filter_some]. unfold spec_part at 1.
  destruct (beqb (m_dev e) (bs "none")) eqn:En.
  - change (beqb [] (bs "/dev/root")) with false. change (beqb [] (bs "rootfs")) with false. cbn [orb].
    rewrite IH by assumption. cbn [obind]. destruct all; cbn [negb andb orb]; reflexivity.
  - rewrite H1, H2. cbn [orb]. rewrite IH by assumption. cbn [obind]. rewrite Hm.
    destruct all; cbn [negb andb orb]; [reflexivity|].
    destruct (m_dev e) eqn:Ed; cbn [orb andb]; [reflexivity|].
    destruct (disk_backed fs (m_type e)); reflexivity.
Qed.

(* cext.disk_partitions + loop, all = True (no /proc/filesystems involved) *)
Lemma disk_partitions_gen_all fixed fsb es :
  forallb wf_ment es = true -> forallb short_line es = true -> forallb plain_dev es = true ->
  (fixed = true \/ forallb utf8_ok es = true) ->
  disk_partitions_gen fixed true fsb (k_mounts es) = Val (spec_partitions true [] es).
Proof.
  intros Hwf Hs Hp Hu. unfold disk_partitions_gen. cbn [obind].
  rewrite getmntent_exact by assumption. cbn [obind]. rewrite c_disk_partitions_ok by assumption. cbn [obind].
  apply partitions_loop_exact; [|assumption]. intros t. reflexivity.
Qed.

Lemma disk_partitions_all fsb es :
  forallb wf_ment es = true -> forallb short_line es = true -> forallb plain_dev es = true ->
  disk_partitions true fsb (k_mounts es) = Val (spec_partitions true [] es).
Proof. intros. apply disk_partitions_gen_all; auto. Qed.

Lemma disk_partitions_legacy_all fsb es :
  forallb wf_ment es = true -> forallb short_line es = true -> forallb plain_dev es = true ->
  forallb utf8_ok es = true ->
  disk_partitions_legacy true fsb (k_mounts es) = Val (spec_partitions true [] es).
Proof. intros. apply disk_partitions_gen_all; auto. Qed.

Definition ment_long : ment :=
  {| m_dev := bs "/dev/sda1"; m_dir := 47 :: repeat 120 4090; m_type := bs "ext4"; m_opts := bs "rw" |}.
Definition ment_nonutf8 : ment :=
  {| m_dev := bs "/dev/sda1"; m_dir := bs "/mnt"; m_type := bs "ext4"; m_opts := bs "rw,lowerdir=/a" ++ [255] |}.
Definition ment_plain : ment :=
  {| m_dev := bs "/dev/sd 1"; m_dir := bs "/mnt/a\b"; m_type := bs "ext4"; m_opts := bs "rw,relatime" |}.

(* known finding: a line over 4095 bytes comes back cut *)
Lemma mounts_longline_refuted : exists es,
  forallb wf_ment es = true /\ forallb plain_dev es = true /\ forallb utf8_ok es = true /\
  exists rows, disk_partitions true [] (k_mounts es) = Val rows /\ map m_type rows = [[]].
Proof.
  exists [ment_long]. repeat split; try (vm_compute; reflexivity).
  eexists. split; vm_compute; reflexivity.
Qed.

(* known finding: one non-UTF-8 byte in the options makes the whole call fail *)
Lemma mounts_legacy_nonutf8_refuted : exists es,
  forallb wf_ment es = true /\ forallb plain_dev es = true /\ forallb short_line es = true /\
  disk_partitions_legacy true [] (k_mounts es) = Exc UnicodeError.
Proof. exists [ment_nonutf8]. repeat split; vm_compute; reflexivity. Qed.

(* the same non-UTF-8 entry comes through unchanged with the code of record *)
Lemma mounts_nonutf8_ok : disk_partitions true [] (k_mounts [ment_nonutf8]) = Val [ment_nonutf8].
Proof. vm_compute. reflexivity. Qed.

Example mounts_example :
  forallb wf_ment [ment_plain] = true /\ forallb short_line [ment_plain] = true /\
  forallb plain_dev [ment_plain] = true /\ forallb utf8_ok [ment_plain] = true.
Proof. vm_compute. auto. Qed.
