(* C16 -- one thread, all histories of enter / exit / nested enter / raise / call / source change:
   the sequential reading of the code refines the ghost machine of the specification
   (first read in the block, at most one read per block, fresh data after the block,
   nesting changes nothing), and as_dict is a block of the individual calls plus its policy. *)
From PV Require Import C16.Lib C16.ProofsFresh.
Local Open Scope nat_scope.

(* ------------------------------------------------------------------ small facts *)
Lemma src_eqb_refl s : src_eqb s s = true.
Proof. destruct s; reflexivity. Qed.
Lemma src_eqb_eq a b : src_eqb a b = true -> a = b.
Proof. destruct a, b; simpl; congruence. Qed.
Lemma src_eqb_neq a b : src_eqb a b = false -> a <> b.
Proof. destruct a, b; simpl; congruence. Qed.
Lemma fkey_eqb_refl s : fkey_eqb s s = true.
Proof. destruct s; reflexivity. Qed.
Lemma fkey_eqb_eq a b : fkey_eqb a b = true -> a = b.
Proof. destruct a, b; simpl; congruence. Qed.

Definition add_ent (k : key) (v : val) (c : cache) : cache := mkCache (c_born c) ((k, v) :: c_ents c).
Definition sh_store sh cid k v := set_heap sh (upd_nth cid (add_ent k v) (heap sh)).

Lemma setitem_store sh cid k v C : nth_error (heap sh) cid = Some C -> py_setitem sh cid k v = Val (sh_store sh cid k v).
Proof. unfold py_setitem. intros ->. reflexivity. Qed.

(* the reader wrapper when a dict is live / when none is *)
Lemma wrapper_live l k body sh cn cid C :
  ptr l sh = Some cid -> nth_error (heap sh) cid = Some C ->
  sq_wrapper l k body sh cn =
  match assoc k (c_ents C) with
  | Some v => (sh, cn, Val v)
  | None => let '(sh1, cn1, r) := body sh cn in
            match r with
            | Val v => match py_setitem sh1 cid k v with
                       | Val sh2 => (sh2, cn1, Val v)
                       | Exc e => (sh1, cn1, Exc e)
                       | OutOfModel => (sh1, cn1, OutOfModel)
                       end
            | o => (sh1, cn1, o)
            end
  end.
Proof.
  intros Hp HC. unfold sq_wrapper, py_getcache, py_subscript. rewrite Hp, HC.
  destruct (assoc k (c_ents C)); reflexivity.
Qed.
Lemma wrapper_dead l k body sh cn : ptr l sh = None -> sq_wrapper l k body sh cn = body sh cn.
Proof. intros Hp. unfold sq_wrapper, py_getcache. rewrite Hp. reflexivity. Qed.

(* ------------------------------------------------------------------ shape of the block stack *)
Definition shape (q : sq) : Prop :=
  match q_stk q with
  | [] => fptr (q_sh q) = None /\ pptr (q_sh q) = None
  | _ => (exists d, q_stk q = repeat Nested d ++ [Real]) /\ fptr (q_sh q) <> None /\ pptr (q_sh q) <> None
  end.

Lemma deactivate1_ptr l sh : ptr l (deactivate1 l sh) = None /\ forall l', l' <> l -> ptr l' (deactivate1 l sh) = ptr l' sh.
Proof.
  unfold deactivate1, deactivate, py_delcache. destruct (ptr l sh) eqn:E; simpl.
  - destruct l; simpl; split; auto; intros [|] H; try congruence; reflexivity.
  - split; auto.
Qed.
Lemma deactivate1_proc sh : pptr (deactivate1 Proc sh) = None /\ fptr (deactivate1 Proc sh) = fptr sh.
Proof. unfold deactivate1, deactivate, py_delcache. simpl. destruct (pptr sh) eqn:E; simpl; auto. Qed.
Lemma deactivate1_front sh : fptr (deactivate1 Front sh) = None /\ pptr (deactivate1 Front sh) = pptr sh.
Proof. unfold deactivate1, deactivate, py_delcache. simpl. destruct (fptr sh) eqn:E; simpl; auto. Qed.
Lemma deactivate_all_ptrs sh : fptr (deactivate_all sh) = None /\ pptr (deactivate_all sh) = None.
Proof.
  unfold deactivate_all.
  set (a := deactivate1 Front sh). set (b := deactivate1 Front a). set (c := deactivate1 Front b).
  set (d := deactivate1 Front c). set (e := deactivate1 Proc d). set (f := deactivate1 Proc e).
  split.
  - destruct (deactivate1_proc f) as [_ H1]. rewrite H1.
    destruct (deactivate1_proc e) as [_ H2]. unfold f. rewrite H2.
    destruct (deactivate1_proc d) as [_ H3]. unfold e. rewrite H3.
    destruct (deactivate1_front c) as [H4 _]. exact H4.
  - destruct (deactivate1_proc f) as [H1 _]. exact H1.
Qed.

Lemma setitem_ptrs s cid k v s1 : py_setitem s cid k v = Val s1 -> same_ptrs s s1.
Proof. unfold py_setitem. destruct (nth_error (heap s) cid); intros E; inversion E; split; auto. Qed.

Lemma sq_wrapper_ptrs l k body :
  (forall s c s1 c1 r1, body s c = (s1, c1, r1) -> same_ptrs s s1) ->
  forall s c s1 c1 r1, sq_wrapper l k body s c = (s1, c1, r1) -> same_ptrs s s1.
Proof.
  intros Hb s c s1 c1 r1. unfold sq_wrapper.
  destruct (py_getcache l s) as [cid|e|]; try (intros E; inversion E; subst; split; auto; fail).
  - destruct (py_subscript s cid k) as [v|e|]; try (intros E; inversion E; subst; split; auto; fail).
    destruct e; try (intros E; inversion E; subst; split; auto; fail).
    destruct (body s c) as [[s2 c2] r2] eqn:Eb. apply Hb in Eb.
    destruct r2 as [v|e|]; try (intros E; inversion E; subst; auto; fail).
    destruct (py_setitem s2 cid k v) as [s3|e|] eqn:Es; intros E; inversion E; subst; auto.
    apply setitem_ptrs in Es. destruct Eb, Es. split; congruence.
  - destruct e; try (intros E; inversion E; subst; split; auto; fail). apply Hb.
Qed.

Lemma sq_reader_ptrs s0 s c s1 c1 r1 : sq_reader s0 s c = (s1, c1, r1) -> same_ptrs s s1.
Proof.
  unfold sq_reader. destruct (memoized s0).
  - apply sq_wrapper_ptrs. unfold sq_read. intros ? ? ? ? ? E; inversion E; split; auto.
  - unfold sq_read. intros E; inversion E; split; auto.
Qed.

Lemma sq_body_ptrs m s c s1 c1 r1 : sq_body m s c = (s1, c1, r1) -> same_ptrs s s1.
Proof.
  unfold sq_body.
  destruct (if meth_eqb m Mppid then ident_check s else IOk s) as [s2|e|] eqn:Ei;
    try (intros E; inversion E; subst; split; auto; fail).
  assert (H2 : same_ptrs s s2).
  { destruct (meth_eqb m Mppid); [|inversion Ei; split; auto]. unfold ident_check in Ei.
    destruct (gone_flag s); [discriminate|]. destruct (srcs s Stat); inversion Ei; split; auto. }
  destruct (sq_reader (m_src m) s2 c) as [[s3 c3] r3] eqn:Er. apply sq_reader_ptrs in Er.
  assert (H3 : same_ptrs s s3) by (destruct H2, Er; split; congruence).
  destruct (meth_eqb m Mmemory_full); [destruct r3|]; intros E; inversion E; subst; auto.
Qed.

Lemma sq_call_ptrs m sh sh' cn r : sq_call m sh = (sh', cn, r) -> same_ptrs sh sh'.
Proof.
  unfold sq_call. destruct (m_front m).
  - apply sq_wrapper_ptrs. intros; eapply sq_body_ptrs; eauto.
  - apply sq_body_ptrs.
Qed.

Lemma shape_step q o : shape q -> shape (sq_step q o).
Proof.
  intros H. destruct o as [| | |c|e]; simpl.
  - (* enter *) unfold sq_enter. unfold shape in *. destruct (q_stk q) as [|f s] eqn:Es.
    + destruct H as [Hf Hp]. change (fptr (acquire0 (q_sh q))) with (fptr (q_sh q)). rewrite Hf. simpl.
      split; [exists 0; reflexivity|]. split; discriminate.
    + destruct H as ((d & Hd) & Hf & Hp). change (fptr (acquire0 (q_sh q))) with (fptr (q_sh q)).
      destruct (fptr (q_sh q)) eqn:Ef; [|congruence]. simpl. split; [exists (S d); simpl; rewrite Hd; reflexivity|].
      split; [change (fptr (acquire0 (q_sh q))) with (fptr (q_sh q)); congruence|exact Hp].
  - (* exit *) unfold sq_exit. unfold shape in *. destruct (q_stk q) as [|f s] eqn:Es; [rewrite Es; exact H|].
    destruct H as ((d & Hd) & Hf & Hp). destruct d as [|d]; simpl in Hd; inversion Hd; subst.
    + simpl. destruct (deactivate_all_ptrs (q_sh q)). split; auto.
    + simpl. destruct d as [|d']; simpl; (split; [first [exists 0; reflexivity|exists (S d'); reflexivity]|split; auto]).
  - (* raise *) revert H. generalize (length (q_stk q)). intros n. revert q. induction n as [|n IH]; intros q H; simpl; auto.
    apply IH. unfold sq_exit. unfold shape in *. destruct (q_stk q) as [|f s] eqn:Es; [rewrite Es; exact H|].
    destruct H as ((d & Hd) & Hf & Hp). destruct d as [|d]; simpl in Hd; inversion Hd; subst.
    + simpl. destruct (deactivate_all_ptrs (q_sh q)). split; auto.
    + simpl. destruct d as [|d']; simpl; (split; [first [exists 0; reflexivity|exists (S d'); reflexivity]|split; auto]).
  - (* call *) destruct c as [m| |o]; try exact H.
    destruct (sq_call m (q_sh q)) as [[sh cn] r] eqn:E. apply sq_call_ptrs in E. destruct E as [E1 E2].
    unfold shape in *. simpl. rewrite E1, E2. exact H.
  - (* env *) unfold shape in *. simpl. destruct e; exact H.
Qed.

Lemma shape_run : forall h q, shape q -> shape (sq_run q h).
Proof. induction h as [|o r IH]; intros q H; simpl; auto. apply IH. apply shape_step. exact H. Qed.

Lemma unwind_empty : forall n q, length (q_stk q) <= n -> q_stk (sq_unwind n q) = [].
Proof.
  induction n as [|n IH]; intros q H; simpl.
  - destruct (q_stk q); auto. simpl in H. lia.
  - apply IH. unfold sq_exit. destruct (q_stk q) as [|[|] s] eqn:Es; simpl in *; rewrite ?Es; simpl; lia.
Qed.

(* what a call answers when no dict is live: the current content of its source(s), one read each *)
Definition direct (m : meth) sh : outcome val :=
  if meth_eqb m Mmemory_full then do v <- read_src sh Smaps; do _ <- read_src sh Statm; Val v
  else read_src sh (m_src m).

Lemma sq_call_direct m sh :
  fptr sh = None -> pptr sh = None -> m <> Mppid ->
  exists cn, sq_call m sh = (sh, cn, direct m sh) /\ cn (m_src m) = 1.
Proof.
  intros Hf Hp Hm. unfold sq_call.
  assert (Hb : exists cn, sq_body m sh (fun _ => 0) = (sh, cn, direct m sh) /\ cn (m_src m) = 1).
  { unfold sq_body. assert (meth_eqb m Mppid = false) by (destruct m; auto; congruence). rewrite H.
    unfold sq_reader. destruct (memoized (m_src m)) eqn:Em.
    - rewrite wrapper_dead by exact Hp. unfold sq_read, direct.
      destruct (meth_eqb m Mmemory_full) eqn:Ef.
      + assert (m = Mmemory_full) by (destruct m; simpl in Ef; congruence). subst m. simpl.
        destruct (read_src sh Smaps); simpl; eexists; split; reflexivity.
      + eexists; split; [reflexivity|]. unfold bump. rewrite src_eqb_refl. reflexivity.
    - unfold sq_read, direct. assert (meth_eqb m Mmemory_full = false) by (destruct m; auto; discriminate).
      rewrite H0. eexists; split; [reflexivity|]. unfold bump. rewrite src_eqb_refl. reflexivity. }
  destruct (m_front m); [rewrite wrapper_dead by exact Hf|]; exact Hb.
Qed.

(* Theorem 2.  After the outermost block was left -- by Exit or by an exception in the body --
   both cache pointers are gone and the next call reads the current data. *)
Theorem fresh_after : forall f h m,
  let q := sq_run (sq_init f) h in
  q_stk q = [] -> m <> Mppid ->
  fptr (q_sh q) = None /\ pptr (q_sh q) = None /\
  exists cn, sq_call m (q_sh q) = (q_sh q, cn, direct m (q_sh q)) /\ cn (m_src m) = 1.
Proof.
  intros f h m q Hs Hm.
  assert (H : shape q) by (apply shape_run; unfold shape; simpl; auto).
  unfold shape in H. rewrite Hs in H. destruct H as [Hf Hp]. split; auto. split; auto.
  apply sq_call_direct; auto.
Qed.
Theorem raise_leaves_all_blocks : forall q, q_stk (sq_step q ORaise) = [].
Proof. intros q. simpl. apply unwind_empty. lia. Qed.
Example fresh_after_example :
  q_stk (sq_run (sq_init (fun _ => SAvail 1)) [OEnter; OCall (CM Mcpu_num); OEnter; ORaise]) = [].
Proof. reflexivity. Qed.

(* Theorem 3.  Inside a block, entering again and leaving again changes nothing but the
   recursion count of the lock. *)
Theorem nested_noop : forall f h,
  let q := sq_run (sq_init f) h in
  q_stk q <> [] ->
  let q' := sq_step (sq_step q OEnter) OExit in
  q_stk q' = q_stk q /\ q_res q' = q_res q /\ same_core (q_sh q) (q_sh q') /\ srcs (q_sh q') = srcs (q_sh q)
  /\ q_stk (sq_step q OEnter) = Nested :: q_stk q /\ same_core (q_sh q) (q_sh (sq_step q OEnter)).
Proof.
  intros f h q Hs q'.
  assert (H : shape q) by (apply shape_run; unfold shape; simpl; auto).
  unfold shape in H. destruct (q_stk q) as [|fr s] eqn:Es; [congruence|]. destruct H as (_ & Hf & _).
  unfold q'. simpl. unfold sq_enter. change (fptr (acquire0 (q_sh q))) with (fptr (q_sh q)).
  destruct (fptr (q_sh q)); [|congruence]. unfold sq_exit. simpl. rewrite Es.
  repeat split; reflexivity.
Qed.

(* ------------------------------------------------------------------ as_dict *)
Definition call_of (resolve : bytes -> callee) (n : bytes) : op := OCall (resolve n).
Definition last_answer (q : sq) : outcome nat := match q_res q with (o, _) :: _ => o | [] => OutOfModel end.
(* the same calls made one after the other, and what each answered *)
Fixpoint run_calls (resolve : bytes -> callee) (q : sq) (ls : list bytes) : sq * list (outcome nat) :=
  match ls with
  | [] => (q, [])
  | n :: r => let q1 := sq_step q (call_of resolve n) in
              let (q2, a) := run_calls resolve q1 r in (q2, last_answer q1 :: a)
  end.

Lemma run_calls_run resolve : forall ls q, fst (run_calls resolve q ls) = sq_run q (map (call_of resolve) ls).
Proof.
  induction ls as [|n r IH]; intros q; [reflexivity|].
  cbn [run_calls map]. unfold sq_run. cbn [fold_left].
  change (fold_left sq_step (map (call_of resolve) r) (sq_step q (call_of resolve n)))
    with (sq_run (sq_step q (call_of resolve n)) (map (call_of resolve) r)).
  rewrite <- IH. destruct (run_calls resolve (sq_step q (call_of resolve n)) r); reflexivity.
Qed.

Lemma ad_loop_val resolve explicit : forall ls q acc q2 answers d,
  run_calls resolve q ls = (q2, answers) -> spec_ad_collect ls answers = Val d ->
  ad_loop resolve explicit ls q acc = (q2, Val (rev acc ++ d)).
Proof.
  induction ls as [|n r IH]; intros q acc q2 answers d Hr Hc.
  - simpl in *. inversion Hr; subst. simpl in Hc. inversion Hc; subst. rewrite app_nil_r. reflexivity.
  - cbn [run_calls] in Hr. cbn [ad_loop]. change (OCall (resolve n)) with (call_of resolve n).
    remember (sq_step q (call_of resolve n)) as q1 eqn:Eq1. clear Eq1.
    destruct (run_calls resolve q1 r) as [q3 a] eqn:E. inversion Hr; subst. clear Hr.
    cbn [spec_ad_collect] in Hc. unfold last_answer in Hc.
    destruct (q_res q1) as [|[o cn] rest] eqn:Eq; [simpl in Hc; discriminate|].
    destruct o as [v|e|]; simpl in Hc; try discriminate.
    + destruct (spec_ad_collect r a) as [d'|e'|] eqn:Ec; simpl in Hc; try discriminate. inversion Hc; subst.
      rewrite (IH _ _ _ _ _ E Ec). simpl. rewrite <- app_assoc. reflexivity.
    + destruct e; try discriminate;
        (destruct (spec_ad_collect r a) as [d'|e'|] eqn:Ec; simpl in Hc; try discriminate; inversion Hc; subst;
         rewrite (IH _ _ _ _ _ E Ec); simpl; rewrite <- app_assoc; reflexivity).
Qed.

Lemma ad_loop_nsp resolve explicit : forall ls q acc q2 answers,
  run_calls resolve q ls = (q2, answers) -> spec_ad_collect ls answers = Exc NoSuchProcess ->
  exists k, ad_loop resolve explicit ls q acc = (sq_run q (map (call_of resolve) (firstn k ls)), Exc NoSuchProcess).
Proof.
  induction ls as [|n r IH]; intros q acc q2 answers Hr Hc.
  - simpl in *. inversion Hr; subst. simpl in Hc. discriminate.
  - cbn [run_calls] in Hr. cbn [ad_loop]. change (OCall (resolve n)) with (call_of resolve n).
    remember (sq_step q (call_of resolve n)) as q1 eqn:Eq1.
    assert (Hq1 : forall k, sq_run q (map (call_of resolve) (firstn (S k) (n :: r))) = sq_run q1 (map (call_of resolve) (firstn k r)))
      by (intros k0; subst q1; reflexivity).
    clear Eq1.
    destruct (run_calls resolve q1 r) as [q3 a] eqn:E. inversion Hr; subst. clear Hr.
    cbn [spec_ad_collect] in Hc. unfold last_answer in Hc.
    destruct (q_res q1) as [|[o cn] rest] eqn:Eq; [simpl in Hc; discriminate|].
    destruct o as [v|e|]; simpl in Hc; try discriminate.
    + destruct (spec_ad_collect r a) as [d'|e'|] eqn:Ec; simpl in Hc; try discriminate. inversion Hc; subst.
      destruct (IH _ ((n, AVal v) :: acc) _ _ E Ec) as (k & Hk). exists (S k). rewrite Hq1. exact Hk.
    + destruct e; try discriminate.
      * exists 1. rewrite Hq1. reflexivity.
      * destruct (spec_ad_collect r a) as [d'|e'|] eqn:Ec; simpl in Hc; try discriminate. inversion Hc; subst.
        destruct (IH _ ((n, ADefault) :: acc) _ _ E Ec) as (k & Hk). exists (S k). rewrite Hq1. exact Hk.
      * destruct (spec_ad_collect r a) as [d'|e'|] eqn:Ec; simpl in Hc; try discriminate. inversion Hc; subst.
        destruct (IH _ ((n, ADefault) :: acc) _ _ E Ec) as (k & Hk). exists (S k). rewrite Hq1. exact Hk.
Qed.

Lemma collect_keys : forall ls answers d, spec_ad_collect ls answers = Val d -> map fst d = ls.
Proof.
  induction ls as [|n r IH]; intros answers d H; simpl in H.
  - inversion H; reflexivity.
  - destruct answers as [|a ar]; [discriminate|]. destruct a as [v|e|]; try discriminate.
    + destruct (spec_ad_collect r ar) as [d'|e'|] eqn:Ec; simpl in H; try discriminate. inversion H; subst.
      simpl. f_equal. eapply IH; eauto.
    + destruct e; try discriminate;
        (destruct (spec_ad_collect r ar) as [d'|e'|] eqn:Ec; simpl in H; try discriminate; inversion H; subst;
         simpl; f_equal; eapply IH; eauto).
Qed.

(* the names as_dict will query: the requested set, or every valid name for None / an empty collection *)
Definition requested (valid : list bytes) (attrs : attrs_arg) : list bytes :=
  match (match attrs with AColl ns => dedup ns [] | _ => [] end) with [] => valid | req => req end.
Definition names_valid (valid : list bytes) (attrs : attrs_arg) : bool :=
  negb (existsb (fun n => negb (mem_bytes n valid)) (match attrs with AColl ns => dedup ns [] | _ => [] end)).

(* Theorem 4. *)
Theorem as_dict_spec : forall valid resolve q,
  (* a non-collection: TypeError, nothing touched *)
  as_dict valid resolve ANotColl q = (q, Exc TypeError) /\
  (* an unknown name: ValueError, nothing touched (no block entered, no source read) *)
  (forall ns, names_valid valid (AColl ns) = false -> as_dict valid resolve (AColl ns) q = (q, Exc ValueError)) /\
  (* otherwise: one oneshot block around the individual calls, then the exception policy *)
  (forall attrs q2 answers,
     attrs <> ANotColl -> names_valid valid attrs = true ->
     run_calls resolve (sq_enter q) (requested valid attrs) = (q2, answers) ->
     (forall d, spec_ad_collect (requested valid attrs) answers = Val d ->
                as_dict valid resolve attrs q = (sq_exit q2, Val d) /\ map fst d = requested valid attrs) /\
     (spec_ad_collect (requested valid attrs) answers = Exc NoSuchProcess ->
      exists k, as_dict valid resolve attrs q =
                (sq_exit (sq_run (sq_enter q) (map (call_of resolve) (firstn k (requested valid attrs)))), Exc NoSuchProcess))).
Proof.
  intros valid resolve q. split; [reflexivity|]. split.
  - intros ns H. unfold names_valid in H. apply negb_false_iff in H. unfold as_dict. rewrite H. reflexivity.
  - intros attrs q2 answers Hnc Hv Hr. unfold names_valid in Hv. apply negb_true_iff in Hv.
    assert (Has : forall r0 qq, ad_loop resolve (match (match attrs with AColl ns => dedup ns [] | _ => [] end) with [] => false | _ => true end)
                        (requested valid attrs) (sq_enter q) [] = (qq, r0) ->
                  as_dict valid resolve attrs q = (sq_exit qq, r0)).
    { intros r0 qq E. unfold as_dict. destruct attrs as [| |ns]; [|congruence|]; rewrite Hv.
      - unfold requested in E. simpl in *. rewrite E. reflexivity.
      - unfold requested in E. destruct (dedup ns []) eqn:Ed; simpl in *; rewrite E; reflexivity. }
    split.
    + intros d Hc. split; [|eapply collect_keys; eauto]. apply Has.
      rewrite (ad_loop_val _ _ _ _ [] _ _ _ Hr Hc). reflexivity.
    + intros Hc. destruct (ad_loop_nsp resolve
        (match (match attrs with AColl ns => dedup ns [] | _ => [] end) with [] => false | _ => true end)
        _ _ [] _ _ Hr Hc) as (k & Hk). exists k. apply Has. exact Hk.
Qed.

Example as_dict_example :
  let p := [112%Z] in let u := [117%Z] in let x := [120%Z] in
  let resolve := fun n : bytes => if bytes_eqb n p then CPid else if bytes_eqb n u then CM Muids else CStub (Exc ZombieProcess) in
  snd (as_dict [p; u; x] resolve (AColl [u; x; u]) (sq_init (fun _ => SAvail 7)))
  = Val [(u, AVal 7); (x, ADefault)].
Proof. reflexivity. Qed.

(* ------------------------------------------------------------------ attrs with elements of any type *)
Lemma bytes_eqb_eq : forall a b, bytes_eqb a b = true -> a = b.
Proof.
  induction a as [|x a IH]; intros [|y b] H; simpl in H; try discriminate; auto.
  apply andb_prop in H. destruct H as [H1 H2]. apply Z.eqb_eq in H1. subst. f_equal. auto.
Qed.

(* an element equal (in Python's sense) to an acceptable name is that name *)
Lemma eqb_valid valid n m : aname_eqb n m = true -> name_valid valid m = true -> name_valid valid n = true.
Proof.
  destruct m as [[s| | | | | | |]|l]; simpl; try discriminate. intros He Hv.
  destruct n as [[s'| | | | | | |]|l']; simpl in He; try discriminate.
  unfold atom_eqb in He. simpl in He. apply bytes_eqb_eq in He. subst. exact Hv.
Qed.

Lemma dedup_n_keeps valid : forall l seen n,
  In n l -> name_valid valid n = false ->
  exists m, (In m (dedup_n l seen) \/ In m seen) /\ name_valid valid m = false.
Proof.
  induction l as [|x r IH]; intros seen n Hin Hv; simpl in Hin; [contradiction|]. simpl.
  destruct Hin as [->|Hin].
  - destruct (existsb (aname_eqb n) seen) eqn:E.
    + apply existsb_exists in E. destruct E as (m & Hm & He). exists m. split; [right; exact Hm|].
      destruct (name_valid valid m) eqn:Em; auto. rewrite (eqb_valid _ _ _ He Em) in Hv. discriminate.
    + exists n. split; [left; left; reflexivity|exact Hv].
  - destruct (existsb (aname_eqb x) seen).
    + apply (IH seen n); auto.
    + destruct (IH (x :: seen) n Hin Hv) as (m & [Hm|Hm] & Hmv).
      * exists m. split; [left; right; exact Hm|exact Hmv].
      * destruct Hm as [->|Hm]; exists m; (split; [|exact Hmv]); [left; left; reflexivity|right; exact Hm].
Qed.

(* Any collection containing at least one element that is not an acceptable name -- whatever the
   types of its elements (str, int, None, bool, bytes, float, NaN, tuple, instances of any class), however
   many of them are unacceptable, duplicated or mixed with acceptable names -- is rejected with ValueError,
   and nothing is queried: no block entered, no source read, state untouched.  TypeError stays
   reserved for a non-collection. *)
Theorem as_dict_rejects_any_invalid : forall valid resolve q ns n,
  In n ns -> name_valid valid n = false ->
  as_dict_any valid resolve (PColl ns) q = (q, Exc ValueError).
Proof.
  intros valid resolve q ns n Hin Hv. unfold as_dict_any.
  destruct (dedup_n_keeps valid ns [] n Hin Hv) as (m & [Hm|[]] & Hmv).
  assert (E : existsb (fun n0 => negb (name_valid valid n0)) (dedup_n ns []) = true).
  { apply existsb_exists. exists m. split; auto. rewrite Hmv. reflexivity. }
  rewrite E. reflexivity.
Qed.

Theorem as_dict_any_other : forall valid resolve q,
  as_dict_any valid resolve PNotColl q = (q, Exc TypeError) /\
  as_dict_any valid resolve PNone q = as_dict valid resolve ANone q /\
  (forall ns, (forall n, In n ns -> name_valid valid n = true) ->
     as_dict_any valid resolve (PColl ns) q = as_dict valid resolve (AColl (strs_of (dedup_n ns []))) q).
Proof.
  intros valid resolve q. split; [reflexivity|]. split; [reflexivity|]. intros ns Hall. unfold as_dict_any.
  assert (E : existsb (fun n0 => negb (name_valid valid n0)) (dedup_n ns []) = false).
  { destruct (existsb (fun n0 => negb (name_valid valid n0)) (dedup_n ns [])) eqn:E; auto.
    apply existsb_exists in E. destruct E as (m & Hm & Hn). exfalso.
    assert (Hsub : forall l seen x, In x (dedup_n l seen) -> In x l).
    { induction l as [|y r IH]; intros seen x Hx; simpl in Hx; [contradiction|].
      destruct (existsb (aname_eqb y) seen); [right; eapply IH; eauto|].
      destruct Hx as [->|Hx]; [left; reflexivity|right; eapply IH; eauto]. }
    apply Hsub in Hm. rewrite (Hall _ Hm) in Hn. discriminate. }
  rewrite E. reflexivity.
Qed.

Example as_dict_any_example :
  let valid := [[110%Z]; [112%Z]] in
  let resolve := fun _ : bytes => CPid in
  let q := sq_init (fun _ => SAvail 1) in
  as_dict_any valid resolve (PColl [NA (EStr [110%Z]); NA (EInt 1); NA ENone; NTuple [EStr [97%Z]]; NA (EFloat 7 2); NA (ENaN 0)]) q
  = (q, Exc ValueError).
Proof. reflexivity. Qed.
