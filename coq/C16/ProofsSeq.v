(* C16 -- one thread, all histories of enter / exit / nested enter / raise / call / source change:
   the sequential reading of the code refines the ghost machine of the specification
   (first read in the block, at most one read per block, fresh data after the block,
   nesting changes nothing), and as_dict is a block of the individual calls plus its policy. *)
From PV Require Import C16.Lib C16.ProofsFresh.
Local Open Scope nat_scope.

(* ------------------------------------------------------------------ small facts *)
Lemma src_eqb_refl s : src_eqb s s = true.
Proof. destruct s; reflexivity. Qed.
Lemma src_eqb_eq a b : src_eqb a b = true -> a = b.
Proof. destruct a, b; simpl; congruence. Qed.
Lemma src_eqb_neq a b : src_eqb a b = false -> a <> b.
Proof. destruct a, b; simpl; congruence. Qed.
Lemma fkey_eqb_refl s : fkey_eqb s s = true.
Proof. destruct s; reflexivity. Qed.
Lemma fkey_eqb_eq a b : fkey_eqb a b = true -> a = b.
Proof. destruct a, b; simpl; congruence. Qed.

Definition add_ent (k : key) (v : val) (c : cache) : cache := mkCache (c_born c) ((k, v) :: c_ents c).
Definition sh_store sh cid k v := set_heap sh (upd_nth cid (add_ent k v) (heap sh)).

Lemma setitem_store sh cid k v C : nth_error (heap sh) cid = Some C -> py_setitem sh cid k v = Val (sh_store sh cid k v).
Proof. unfold py_setitem. intros ->. reflexivity. Qed.

(* the reader wrapper when a dict is live / when none is *)
Lemma wrapper_live l k body sh cn cid C :
  ptr l sh = Some cid -> nth_error (heap sh) cid = Some C ->
  sq_wrapper l k body sh cn =
  match assoc k (c_ents C) with
  | Some v => (sh, cn, Val v)
  | None => let '(sh1, cn1, r) := body sh cn in
            match r with
            | Val v => match py_setitem sh1 cid k v with
                       | Val sh2 => (sh2, cn1, Val v)
                       | Exc e => (sh1, cn1, Exc e)
                       | OutOfModel => (sh1, cn1, OutOfModel)
                       end
            | o => (sh1, cn1, o)
            end
  end.
Proof.
  intros Hp HC. unfold sq_wrapper, py_getcache, py_subscript. rewrite Hp, HC.
  destruct (assoc k (c_ents C)); reflexivity.
Qed.
Lemma wrapper_dead l k body sh cn : ptr l sh = None -> sq_wrapper l k body sh cn = body sh cn.
Proof. intros Hp. unfold sq_wrapper, py_getcache. rewrite Hp. reflexivity. Qed.

(* ------------------------------------------------------------------ shape of the block stack *)
Definition shape (q : sq) : Prop :=
  match q_stk q with
  | [] => fptr (q_sh q) = None /\ pptr (q_sh q) = None
  | _ => (exists d, q_stk q = repeat Nested d ++ [Real]) /\ fptr (q_sh q) <> None /\ pptr (q_sh q) <> None
  end.

Lemma deactivate1_ptr l sh : ptr l (deactivate1 l sh) = None /\ forall l', l' <> l -> ptr l' (deactivate1 l sh) = ptr l' sh.
Proof.
  unfold deactivate1, deactivate, py_delcache. destruct (ptr l sh) eqn:E; simpl.
  - destruct l; simpl; split; auto; intros [|] H; try congruence; reflexivity.
  - split; auto.
Qed.
Lemma deactivate1_proc sh : pptr (deactivate1 Proc sh) = None /\ fptr (deactivate1 Proc sh) = fptr sh.
Proof. unfold deactivate1, deactivate, py_delcache. simpl. destruct (pptr sh) eqn:E; simpl; auto. Qed.
Lemma deactivate1_front sh : fptr (deactivate1 Front sh) = None /\ pptr (deactivate1 Front sh) = pptr sh.
Proof. unfold deactivate1, deactivate, py_delcache. simpl. destruct (fptr sh) eqn:E; simpl; auto. Qed.
Lemma deactivate_all_ptrs sh : fptr (deactivate_all sh) = None /\ pptr (deactivate_all sh) = None.
Proof.
  unfold deactivate_all.
  set (a := deactivate1 Front sh). set (b := deactivate1 Front a). set (c := deactivate1 Front b).
  set (d := deactivate1 Front c). set (e := deactivate1 Proc d). set (f := deactivate1 Proc e).
  split.
  - destruct (deactivate1_proc f) as [_ H1]. rewrite H1.
    destruct (deactivate1_proc e) as [_ H2]. unfold f. rewrite H2.
    destruct (deactivate1_proc d) as [_ H3]. unfold e. rewrite H3.
    destruct (deactivate1_front c) as [H4 _]. exact H4.
  - destruct (deactivate1_proc f) as [H1 _]. exact H1.
Qed.

Lemma setitem_ptrs s cid k v s1 : py_setitem s cid k v = Val s1 -> same_ptrs s s1.
Proof. unfold py_setitem. destruct (nth_error (heap s) cid); intros E; inversion E; split; auto. Qed.

Lemma sq_wrapper_ptrs l k body :
  (forall s c s1 c1 r1, body s c = (s1, c1, r1) -> same_ptrs s s1) ->
  forall s c s1 c1 r1, sq_wrapper l k body s c = (s1, c1, r1) -> same_ptrs s s1.
Proof.
  intros Hb s c s1 c1 r1. unfold sq_wrapper.
  destruct (py_getcache l s) as [cid|e|]; try (intros E; inversion E; subst; split; auto; fail).
  - destruct (py_subscript s cid k) as [v|e|]; try (intros E; inversion E; subst; split; auto; fail).
    destruct e; try (intros E; inversion E; subst; split; auto; fail).
    destruct (body s c) as [[s2 c2] r2] eqn:Eb. apply Hb in Eb.
    destruct r2 as [v|e|]; try (intros E; inversion E; subst; auto; fail).
    destruct (py_setitem s2 cid k v) as [s3|e|] eqn:Es; intros E; inversion E; subst; auto.
    apply setitem_ptrs in Es. destruct Eb, Es. split; congruence.
  - destruct e; try (intros E; inversion E; subst; split; auto; fail). apply Hb.
Qed.

Lemma sq_reader_ptrs s0 s c s1 c1 r1 : sq_reader s0 s c = (s1, c1, r1) -> same_ptrs s s1.
Proof.
  unfold sq_reader. destruct (memoized s0).
  - apply sq_wrapper_ptrs. unfold sq_read. intros ? ? ? ? ? E; inversion E; split; auto.
  - unfold sq_read. intros E; inversion E; split; auto.
Qed.

Lemma sq_body_ptrs m s c s1 c1 r1 : sq_body m s c = (s1, c1, r1) -> same_ptrs s s1.
Proof.
  unfold sq_body.
  destruct (if meth_eqb m Mppid then ident_check s else IOk s) as [s2|e|] eqn:Ei;
    try (intros E; inversion E; subst; split; auto; fail).
  assert (H2 : same_ptrs s s2).
  { destruct (meth_eqb m Mppid); [|inversion Ei; split; auto]. unfold ident_check in Ei.
    destruct (gone_flag s); [discriminate|]. destruct (srcs s Stat); inversion Ei; split; auto. }
  destruct (sq_reader (m_src m) s2 c) as [[s3 c3] r3] eqn:Er. apply sq_reader_ptrs in Er.
  assert (H3 : same_ptrs s s3) by (destruct H2, Er; split; congruence).
  destruct (meth_eqb m Mmemory_full); [destruct r3|]; intros E; inversion E; subst; auto.
Qed.

Lemma sq_call_ptrs m sh sh' cn r : sq_call m sh = (sh', cn, r) -> same_ptrs sh sh'.
Proof.
  unfold sq_call. destruct (m_front m).
  - apply sq_wrapper_ptrs. intros; eapply sq_body_ptrs; eauto.
  - apply sq_body_ptrs.
Qed.

Lemma shape_step q o : shape q -> shape (sq_step q o).
Proof.
  intros H. destruct o as [| | |c|e]; simpl.
  - (* enter *) unfold sq_enter. unfold shape in *. destruct (q_stk q) as [|f s] eqn:Es.
    + destruct H as [Hf Hp]. change (fptr (acquire0 (q_sh q))) with (fptr (q_sh q)). rewrite Hf. simpl.
      split; [exists 0; reflexivity|]. split; discriminate.
    + destruct H as ((d & Hd) & Hf & Hp). change (fptr (acquire0 (q_sh q))) with (fptr (q_sh q)).
      destruct (fptr (q_sh q)) eqn:Ef; [|congruence]. simpl. split; [exists (S d); simpl; rewrite Hd; reflexivity|].
      split; [change (fptr (acquire0 (q_sh q))) with (fptr (q_sh q)); congruence|exact Hp].
  - (* exit *) unfold sq_exit. unfold shape in *. destruct (q_stk q) as [|f s] eqn:Es; [rewrite Es; exact H|].
    destruct H as ((d & Hd) & Hf & Hp). destruct d as [|d]; simpl in Hd; inversion Hd; subst.
    + simpl. destruct (deactivate_all_ptrs (q_sh q)). split; auto.
    + simpl. destruct d as [|d']; simpl; (split; [first [exists 0; reflexivity|exists (S d'); reflexivity]|split; auto]).
  - (* raise *) revert H. generalize (length (q_stk q)). intros n. revert q. induction n as [|n IH]; intros q H; simpl; auto.
    apply IH. unfold sq_exit. unfold shape in *. destruct (q_stk q) as [|f s] eqn:Es; [rewrite Es; exact H|].
    destruct H as ((d & Hd) & Hf & Hp). destruct d as [|d]; simpl in Hd; inversion Hd; subst.
    + simpl. destruct (deactivate_all_ptrs (q_sh q)). split; auto.
    + simpl. destruct d as [|d']; simpl; (split; [first [exists 0; reflexivity|exists (S d'); reflexivity]|split; auto]).
  - (* call *) destruct c as [m| |o]; try exact H.
    destruct (sq_call m (q_sh q)) as [[sh cn] r] eqn:E. apply sq_call_ptrs in E. destruct E as [E1 E2].
    unfold shape in *. simpl. rewrite E1, E2. exact H.
  - (* env *) unfold shape in *. simpl. destruct e; exact H.
Qed.

Lemma shape_run : forall h q, shape q -> shape (sq_run q h).
Proof. induction h as [|o r IH]; intros q H; simpl; auto. apply IH. apply shape_step. exact H. Qed.

Lemma unwind_empty : forall n q, length (q_stk q) <= n -> q_stk (sq_unwind n q) = [].
Proof.
  induction n as [|n IH]; intros q H; simpl.
  - destruct (q_stk q); auto. simpl in H. lia.
  - apply IH. unfold sq_exit. destruct (q_stk q) as [|[|] s] eqn:Es; simpl in *; rewrite ?Es; simpl; lia.
Qed.

(* what a call answers when no dict is live: the current content of its source(s), one read each *)
Definition direct (m : meth) sh : outcome val :=
  if meth_eqb m Mmemory_full then do v <- read_src sh Smaps; do _ <- read_src sh Statm; Val v
  else read_src sh (m_src m).

Lemma sq_call_direct m sh :
  fptr sh = None -> pptr sh = None -> m <> Mppid ->
  exists cn, sq_call m sh = (sh, cn, direct m sh) /\ cn (m_src m) = 1.
Proof.
  intros Hf Hp Hm. unfold sq_call.
  assert (Hb : exists cn, sq_body m sh (fun _ => 0) = (sh, cn, direct m sh) /\ cn (m_src m) = 1).
  { unfold sq_body. assert (meth_eqb m Mppid = false) by (destruct m; auto; congruence). rewrite H.
    unfold sq_reader. destruct (memoized (m_src m)) eqn:Em.
    - rewrite wrapper_dead by exact Hp. unfold sq_read, direct.
      destruct (meth_eqb m Mmemory_full) eqn:Ef.
      + assert (m = Mmemory_full) by (destruct m; simpl in Ef; congruence). subst m. simpl.
        destruct (read_src sh Smaps); simpl; eexists; split; reflexivity.
      + eexists; split; [reflexivity|]. unfold bump. rewrite src_eqb_refl. reflexivity.
    - unfold sq_read, direct. assert (meth_eqb m Mmemory_full = false) by (destruct m; auto; discriminate).
      rewrite H0. eexists; split; [reflexivity|]. unfold bump. rewrite src_eqb_refl. reflexivity. }
  destruct (m_front m); [rewrite wrapper_dead by exact Hf|]; exact Hb.
Qed.

(* Theorem 2.  After the outermost block was left -- by Exit or by an exception in the body --
   both cache pointers are gone and the next call reads the current data. *)
Theorem fresh_after : forall f h m,
  let q := sq_run (sq_init f) h in
  q_stk q = [] -> m <> Mppid ->
  fptr (q_sh q) = None /\ pptr (q_sh q) = None /\
  exists cn, sq_call m (q_sh q) = (q_sh q, cn, direct m (q_sh q)) /\ cn (m_src m) = 1.
Proof.
  intros f h m q Hs Hm.
  assert (H : shape q) by (apply shape_run; unfold shape; simpl; auto).
  unfold shape in H. rewrite Hs in H. destruct H as [Hf Hp]. split; auto. split; auto.
  apply sq_call_direct; auto.
Qed.
Theorem raise_leaves_all_blocks : forall q, q_stk (sq_step q ORaise) = [].
Proof. intros q. simpl. apply unwind_empty. lia. Qed.
Example fresh_after_example :
  q_stk (sq_run (sq_init (fun _ => SAvail 1)) [OEnter; OCall (CM Mcpu_num); OEnter; ORaise]) = [].
Proof. reflexivity. Qed.

(* Theorem 3.  Inside a block, entering again and leaving again changes nothing but the
   recursion count of the lock. *)
Theorem nested_noop : forall f h,
  let q := sq_run (sq_init f) h in
  q_stk q <> [] ->
  let q' := sq_step (sq_step q OEnter) OExit in
  q_stk q' = q_stk q /\ q_res q' = q_res q /\ same_core (q_sh q) (q_sh q') /\ srcs (q_sh q') = srcs (q_sh q)
  /\ q_stk (sq_step q OEnter) = Nested :: q_stk q /\ same_core (q_sh q) (q_sh (sq_step q OEnter)).
Proof.
  intros f h q Hs q'.
  assert (H : shape q) by (apply shape_run; unfold shape; simpl; auto).
  unfold shape in H. destruct (q_stk q) as [|fr s] eqn:Es; [congruence|]. destruct H as (_ & Hf & _).
  unfold q'. simpl. unfold sq_enter. change (fptr (acquire0 (q_sh q))) with (fptr (q_sh q)).
  destruct (fptr (q_sh q)); [|congruence]. unfold sq_exit. simpl. rewrite Es.
  repeat split; reflexivity.
Qed.

(* ------------------------------------------------------------------ refinement to the ghost machine *)
Definition fk_src (fk : fkey) : src :=
  match fk with FPpid | FCpuTimes => Stat | FUids => Status | FMemInfo => Statm end.
Definition vfst (o : option val) : option nat := option_map fst o.

Definition Rb sh (g : gst) : Prop :=
  exists fc pc F P, fptr sh = Some fc /\ pptr sh = Some pc /\ fc <> pc /\
    nth_error (heap sh) fc = Some F /\ nth_error (heap sh) pc = Some P /\
    (forall s, memoized s = true -> vfst (assoc (KS s) (c_ents P)) = g_snap g s) /\
    vfst (assoc (KF FMemInfo) (c_ents F)) = g_snap g Statm /\
    (forall fk v, fk <> FMemInfo -> assoc (KF fk) (c_ents F) = Some v -> g_snap g (fk_src fk) = Some (fst v)).

Definition Rcore sh (g : gst) : Prop := (forall s, srcs sh s = g_cur g s) /\ gone_flag sh = false.

Definition R (q : sq) (g : gst) : Prop :=
  Rcore (q_sh q) g /\
  match g_depth g with
  | 0 => q_stk q = [] /\ fptr (q_sh q) = None /\ pptr (q_sh q) = None
  | S d => q_stk q = repeat Nested d ++ [Real] /\ Rb (q_sh q) g
  end.

Lemma cnt_bump cn s : cnt_list (bump cn s) = add4 (cnt_list cn) (one s).
Proof. unfold cnt_list, bump, one, add4. destruct s; simpl; f_equal; try lia; f_equal; try lia; f_equal; try lia; f_equal; lia. Qed.
Lemma add4_zero l : length l = 4 -> add4 l zero4 = l.
Proof. destruct l as [|a [|b [|c [|d [|e r]]]]]; simpl; try discriminate. intros _. repeat rewrite Nat.add_0_r. reflexivity. Qed.
Lemma cnt_len cn : length (cnt_list cn) = 4.
Proof. reflexivity. Qed.

Lemma sh_store_nth_eq sh cid k v C : nth_error (heap sh) cid = Some C ->
  nth_error (heap (sh_store sh cid k v)) cid = Some (add_ent k v C).
Proof. intros H. unfold sh_store. simpl. apply nth_error_upd_nth_eq; auto. Qed.
Lemma sh_store_nth_neq sh cid k v c : cid <> c ->
  nth_error (heap (sh_store sh cid k v)) c = nth_error (heap sh) c.
Proof. intros H. unfold sh_store. simpl. apply nth_error_upd_nth_neq; auto. Qed.

Lemma memoized_neq_statm s : memoized s = true -> src_eqb Statm s = false.
Proof. destruct s; simpl; auto; discriminate. Qed.

(* the memoized reader of source s inside a block *)
Lemma reader_sim sh g s cn :
  memoized s = true -> Nat.ltb 0 (g_depth g) = true -> Rcore sh g -> Rb sh g ->
  let '(g', o, c) := spec_primary g s in
  exists sh' cn' r, sq_reader s sh cn = (sh', cn', r) /\ ver_of r = o /\ cnt_list cn' = add4 (cnt_list cn) c /\
    Rcore sh' g' /\ Rb sh' g' /\ g_cur g' = g_cur g /\ g_depth g' = g_depth g /\ g_dead g' = g_dead g /\ g_ok g' = g_ok g /\
    (forall v, r = Val v -> g_snap g' s = Some (fst v)) /\ (forall s', s' <> s -> g_snap g' s' = g_snap g s').
Proof.
  intros Hm Hin [Hcur Hgone] Hb. pose proof Hb as (fc & pc & F & P & Hf & Hp & Hne & HF & HP & H1 & H2 & H3).
  unfold spec_primary. rewrite Hin. unfold sq_reader. rewrite Hm.
  rewrite (wrapper_live Proc (KS s) (sq_read s) sh cn pc P Hp HP).
  pose proof (H1 s Hm) as Hs. destruct (assoc (KS s) (c_ents P)) as [v|] eqn:Ea; simpl in Hs; rewrite <- Hs.
  - exists sh, cn, (Val v). rewrite add4_zero by apply cnt_len. repeat split; auto. intros v0 E; inversion E; subst; auto.
  - unfold sq_read, read_src. rewrite Hcur. destruct (g_cur g s) as [x| |] eqn:Ec.
    + rewrite (setitem_store _ _ _ _ _ HP).
      exists (sh_store sh pc (KS s) (x, clock sh)), (bump cn s), (Val (x, clock sh)).
      split; [reflexivity|]. split; [reflexivity|]. split; [apply cnt_bump|].
      split; [split; auto|]. split.
      * exists fc, pc, F, (add_ent (KS s) (x, clock sh) P).
        split; [exact Hf|]. split; [exact Hp|]. split; auto.
        split; [rewrite sh_store_nth_neq; auto|]. split; [apply sh_store_nth_eq; auto|].
        split; [|split].
        -- intros s' Hm'. simpl. destruct (src_eqb s' s) eqn:E; simpl; auto.
        -- unfold snap_set; cbn [g_snap]. rewrite (memoized_neq_statm _ Hm). exact H2.
        -- intros fk v Hfk Hv. unfold snap_set; cbn [g_snap]. destruct (src_eqb (fk_src fk) s) eqn:E; [|apply H3; auto].
           apply src_eqb_eq in E. pose proof (H3 _ _ Hfk Hv) as X. rewrite E in X. congruence.
      * repeat split; simpl; auto.
        -- intros v E; inversion E; subst. rewrite src_eqb_refl. reflexivity.
        -- intros s' Hs'. destruct (src_eqb s' s) eqn:E; auto. apply src_eqb_eq in E. congruence.
    + exists sh, (bump cn s), (Exc AccessDenied). repeat split; auto; try apply cnt_bump. intros v E; discriminate.
    + exists sh, (bump cn s), (Exc NoSuchProcess). repeat split; auto; try apply cnt_bump. intros v E; discriminate.
Qed.

(* storing the answer under the front-level key afterwards *)
Lemma front_store_Rb sh g fk v :
  Rb sh g -> g_snap g (fk_src fk) = Some (fst v) ->
  forall fc F, fptr sh = Some fc -> nth_error (heap sh) fc = Some F -> Rb (sh_store sh fc (KF fk) v) g.
Proof.
  intros (fc & pc & F & P & Hf & Hp & Hne & HF & HP & H1 & H2 & H3) Hs fc' F' Hf' HF'.
  rewrite Hf in Hf'. inversion Hf'; subst fc'. rewrite HF in HF'. inversion HF'; subst F'.
  exists fc, pc, (add_ent (KF fk) v F), P. split; [exact Hf|]. split; [exact Hp|]. split; auto.
  split; [apply sh_store_nth_eq; auto|]. split; [rewrite sh_store_nth_neq; auto|]. split; [exact H1|]. split.
  - simpl. destruct fk; simpl; auto.
  - intros fk' v' Hfk Hv. simpl in Hv. destruct (fkey_eqb fk' fk) eqn:E.
    + apply fkey_eqb_eq in E. subst. inversion Hv; subst. exact Hs.
    + apply H3; auto.
Qed.

Lemma Rcore_store sh g cid k v : Rcore sh g -> Rcore (sh_store sh cid k v) g.
Proof. intros [A B]. split; auto. Qed.

Definition in_domain (g : gst) (m : meth) : Prop :=
  m = Mppid -> exists x, g_cur g Stat = SAvail x.

Lemma ident_ok sh g m : Rcore sh g -> in_domain g m ->
  (if meth_eqb m Mppid then ident_check sh else IOk sh) = IOk sh.
Proof.
  intros [Hc Hg] Hd. destruct (meth_eqb m Mppid) eqn:E; auto.
  assert (m = Mppid) by (destruct m; simpl in E; congruence). destruct (Hd H) as (x & Hx).
  unfold ident_check. rewrite Hg, Hc, Hx. reflexivity.
Qed.


Definition gsame (g g' : gst) := g_cur g' = g_cur g /\ g_depth g' = g_depth g /\ g_dead g' = g_dead g /\ g_ok g' = g_ok g.

Lemma add4_zero_l c : length c = 4 -> add4 zero4 c = c.
Proof. destruct c as [|a [|b [|c0 [|d [|e r]]]]]; simpl; try discriminate. reflexivity. Qed.
Lemma spec_primary_len g s g' o c : spec_primary g s = (g', o, c) -> length c = 4.
Proof.
  unfold spec_primary. destruct (if Nat.ltb 0 (g_depth g) then g_snap g s else None).
  - intros E; inversion E; reflexivity.
  - destruct (g_cur g s); intros E; inversion E; reflexivity.
Qed.

(* the platform method body inside a block, for a memoized source *)
Lemma body_sim sh g m :
  memoized (m_src m) = true -> Nat.ltb 0 (g_depth g) = true -> Rcore sh g -> Rb sh g -> in_domain g m ->
  let '(g', x) := spec_call g m in
  exists sh' cn r, sq_body m sh (fun _ => 0) = (sh', cn, r) /\ proj_res (ver_of r, cnt_list cn) = x /\
    Rcore sh' g' /\ Rb sh' g' /\ gsame g g' /\ (forall v, r = Val v -> g_snap g' (m_src m) = Some (fst v)).
Proof.
  intros Hm Hin Hcore Hb Hdom. pose proof (reader_sim sh g (m_src m) (fun _ => 0) Hm Hin Hcore Hb) as Hr.
  unfold spec_call. destruct (spec_primary g (m_src m)) as [[g' o] c] eqn:Ep.
  pose proof (spec_primary_len _ _ _ _ _ Ep) as Hlen.
  destruct Hr as (sh' & cn' & r & Er & Eo & Ec & Rc' & Rb' & G1 & G2 & G3 & G4 & Hv & Hoth).
  change (cnt_list (fun _ : src => 0)) with zero4 in Ec. rewrite (add4_zero_l _ Hlen) in Ec.
  unfold sq_body. rewrite (ident_ok _ _ _ Hcore Hdom), Er.
  assert (Hgs : gsame g g') by (repeat split; auto).
  destruct (meth_eqb m Mmemory_full) eqn:Ef.
  - destruct r as [v|e|]; simpl in Eo; subst o.
    + pose proof Rc' as [Hcur' Hg']. unfold read_src. rewrite Hcur', G1.
      destruct (g_cur g Statm) as [y| |] eqn:Est; simpl.
      * exists sh', (bump cn' Statm), (Val v). split; [reflexivity|]. split.
        -- unfold proj_res; simpl. rewrite cnt_bump, Ec. reflexivity.
        -- split; [exact Rc'|split; [exact Rb'|split; [exact Hgs|exact Hv]]].
      * exists sh', (bump cn' Statm), (Exc AccessDenied). split; [reflexivity|]. split; [reflexivity|].
        split; [exact Rc'|split; [exact Rb'|split; [exact Hgs|intros v0 E; discriminate]]].
      * exists sh', (bump cn' Statm), (Exc NoSuchProcess). split; [reflexivity|]. split; [reflexivity|].
        split; [exact Rc'|split; [exact Rb'|split; [exact Hgs|intros v0 E; discriminate]]].
    + exists sh', cn', (Exc e). split; [reflexivity|]. split; [reflexivity|].
      split; [exact Rc'|split; [exact Rb'|split; [exact Hgs|intros v0 E; discriminate]]].
    + exists sh', cn', OutOfModel. split; [reflexivity|]. split; [reflexivity|].
      split; [exact Rc'|split; [exact Rb'|split; [exact Hgs|intros v0 E; discriminate]]].
  - destruct r as [v|e|]; simpl in Eo; subst o; simpl.
    + exists sh', cn', (Val v). split; [reflexivity|]. split; [unfold proj_res; simpl; rewrite Ec; reflexivity|].
      split; [exact Rc'|split; [exact Rb'|split; [exact Hgs|exact Hv]]].
    + exists sh', cn', (Exc e). split; [reflexivity|]. split; [reflexivity|].
      split; [exact Rc'|split; [exact Rb'|split; [exact Hgs|exact Hv]]].
    + exists sh', cn', OutOfModel. split; [reflexivity|]. split; [reflexivity|].
      split; [exact Rc'|split; [exact Rb'|split; [exact Hgs|exact Hv]]].
Qed.

Lemma front_of_no_full m fk : m_front m = Some fk -> meth_eqb m Mmemory_full = false /\ fk_src fk = m_src m.
Proof. destruct m; simpl; intros E; inversion E; auto. Qed.
Lemma no_front_memoized m : m_front m = None -> memoized (m_src m) = true.
Proof. destruct m; simpl; intros E; try discriminate; reflexivity. Qed.
Lemma front_not_memoized m fk : m_front m = Some fk -> memoized (m_src m) = false -> m = Mmemory_info /\ fk = FMemInfo.
Proof. destruct m; simpl; intros E1 E2; inversion E1; try discriminate; auto. Qed.

(* one method call: the sequential reading answers what the ghost machine answers *)
Lemma call_sim q g m :
  R q g -> in_domain g m ->
  let '(g', x) := spec_call g m in
  exists sh' cn r, sq_call m (q_sh q) = (sh', cn, r) /\ proj_res (ver_of r, cnt_list cn) = x /\
    R (mkSq sh' (q_stk q) (q_res q)) g' /\ gsame g g'.
Proof.
  intros [Hcore HR] Hdom. pose proof Hcore as [Hcur Hgone].
  pose proof (ident_ok _ _ _ Hcore Hdom) as Hid.
  destruct (g_depth g) as [|d] eqn:Ed.
  - (* outside any block: no dict is live *)
    destruct HR as (Hs & Hf & Hp). unfold spec_call, spec_primary. rewrite Ed. simpl.
    assert (Hcall : sq_call m (q_sh q) = sq_body m (q_sh q) (fun _ => 0)).
    { unfold sq_call. destruct (m_front m); auto. rewrite wrapper_dead; auto. }
    assert (HRq : R (mkSq (q_sh q) (q_stk q) (q_res q)) g).
    { split; auto. rewrite Ed. auto. }
    assert (Hgs : gsame g g) by (repeat split).
    rewrite Hcall. unfold sq_body. rewrite Hid. unfold sq_reader.
    destruct (memoized (m_src m)) eqn:Em; [rewrite wrapper_dead by exact Hp|]; unfold sq_read, read_src; rewrite Hcur.
    + destruct (meth_eqb m Mmemory_full) eqn:Ef.
      * assert (m = Mmemory_full) by (destruct m; simpl in Ef; congruence). subst m. simpl.
        destruct (g_cur g Smaps) as [x| |]; simpl.
        -- rewrite Hcur. destruct (g_cur g Statm) as [y| |]; simpl;
             (eexists; eexists; eexists; split; [reflexivity|]; split; [reflexivity|]; split; [exact HRq|exact Hgs]).
        -- eexists; eexists; eexists; split; [reflexivity|]; split; [reflexivity|]; split; [exact HRq|exact Hgs].
        -- eexists; eexists; eexists; split; [reflexivity|]; split; [reflexivity|]; split; [exact HRq|exact Hgs].
      * destruct (g_cur g (m_src m)) as [x| |]; simpl;
          (eexists; eexists; eexists; split; [reflexivity|]; split; [|split; [exact HRq|exact Hgs]]);
          unfold proj_res; simpl; rewrite ?cnt_bump; reflexivity.
    + assert (Ef : meth_eqb m Mmemory_full = false) by (destruct m; auto; discriminate). rewrite Ef.
      destruct (g_cur g (m_src m)) as [x| |]; simpl;
        (eexists; eexists; eexists; split; [reflexivity|]; split; [|split; [exact HRq|exact Hgs]]);
        unfold proj_res; simpl; rewrite ?cnt_bump; reflexivity.
  - (* inside a block *)
    destruct HR as (Hstk & Hb). pose proof Hb as (fc & pc & F & P & Hf & Hp & Hne & HF & HP & H1 & H2 & H3).
    assert (Hin : Nat.ltb 0 (g_depth g) = true) by (rewrite Ed; reflexivity).
    assert (HRmk : forall sh' g', gsame g g' -> Rcore sh' g' -> Rb sh' g' -> R (mkSq sh' (q_stk q) (q_res q)) g').
    { intros sh' g' (_ & G2 & _) A B. split; auto. rewrite G2, Ed. auto. }
    destruct (m_front m) as [fk|] eqn:Efk.
    + destruct (front_of_no_full _ _ Efk) as [Hnf Hsrc].
      unfold sq_call. rewrite Efk.
      rewrite (wrapper_live Front (KF fk) (sq_body m) (q_sh q) (fun _ => 0) fc F Hf HF).
      destruct (assoc (KF fk) (c_ents F)) as [v|] eqn:Ea.
      * (* held by the front-level dict *)
        assert (Hsnap : g_snap g (m_src m) = Some (fst v)).
        { destruct (fkey_eqb fk FMemInfo) eqn:E.
          - apply fkey_eqb_eq in E. subst fk. rewrite Ea in H2. simpl in H2. rewrite <- Hsrc. simpl. auto.
          - rewrite <- Hsrc. apply H3; auto. intros X; subst; discriminate. }
        unfold spec_call, spec_primary. rewrite Hin, Hsnap, Hnf.
        exists (q_sh q), (fun _ => 0), (Val v). split; [reflexivity|]. split; [reflexivity|].
        split; [apply HRmk; auto; repeat split|repeat split].
      * destruct (memoized (m_src m)) eqn:Em.
        -- (* run the body, store the answer under the front-level key *)
           pose proof (body_sim (q_sh q) g m Em Hin Hcore Hb Hdom) as Hbody.
           destruct (spec_call g m) as [g' x].
           destruct Hbody as (sh' & cn & r & Eb & Hx & Rc' & Rb' & Gs & Hv). rewrite Eb.
           destruct r as [v|e|].
           ++ pose proof Rb' as (fc' & pc' & F' & P' & Hf' & Hp' & Hne' & HF' & HP' & _).
              destruct (sq_body_ptrs _ _ _ _ _ _ Eb) as [X1 _]. rewrite Hf, Hf' in X1. inversion X1; subst fc'.
              rewrite (setitem_store _ _ _ _ _ HF').
              exists (sh_store sh' fc (KF fk) v), cn, (Val v). split; [reflexivity|]. split; [exact Hx|].
              split; [|exact Gs]. apply HRmk; [exact Gs|apply Rcore_store; exact Rc'|].
              eapply front_store_Rb; eauto. rewrite Hsrc. apply Hv. reflexivity.
           ++ exists sh', cn, (Exc e). split; [reflexivity|]. split; [exact Hx|]. split; auto.
           ++ exists sh', cn, OutOfModel. split; [reflexivity|]. split; [exact Hx|]. split; auto.
        -- (* memory_info: statm is read directly *)
           destruct (front_not_memoized _ _ Efk Em) as [-> ->].
           unfold spec_call, spec_primary. rewrite Hin. simpl m_src. rewrite <- H2, Ea. simpl.
           unfold sq_body. simpl. unfold sq_read, read_src. rewrite Hcur.
           destruct (g_cur g Statm) as [x| |] eqn:Ec; simpl.
           ++ rewrite (setitem_store _ _ _ _ _ HF).
              exists (sh_store (q_sh q) fc (KF FMemInfo) (x, clock (q_sh q))), (bump (fun _ => 0) Statm), (Val (x, clock (q_sh q))).
              split; [reflexivity|]. split; [reflexivity|]. split; [|repeat split].
              apply HRmk; [repeat split|apply Rcore_store; split; auto|].
              exists fc, pc, (add_ent (KF FMemInfo) (x, clock (q_sh q)) F), P.
              split; [exact Hf|]. split; [exact Hp|]. split; auto.
              split; [apply sh_store_nth_eq; auto|]. split; [rewrite sh_store_nth_neq; auto|].
              split; [|split].
              ** intros s Hms. unfold snap_set; cbn [g_snap]. destruct (src_eqb s Statm) eqn:E; [|apply H1; auto].
                 apply src_eqb_eq in E. subst. discriminate.
              ** reflexivity.
              ** intros fk v Hfk Hv. unfold snap_set; cbn [g_snap]. simpl in Hv.
                 destruct (fkey_eqb fk FMemInfo) eqn:E; [apply fkey_eqb_eq in E; congruence|].
                 assert (src_eqb (fk_src fk) Statm = false) by (destruct fk; simpl; auto; congruence).
                 rewrite H. apply H3; auto.
           ++ exists (q_sh q), (bump (fun _ => 0) Statm), (Exc AccessDenied). split; [reflexivity|]. split; [reflexivity|].
              split; [apply HRmk; auto; repeat split|repeat split].
           ++ exists (q_sh q), (bump (fun _ => 0) Statm), (Exc NoSuchProcess). split; [reflexivity|]. split; [reflexivity|].
              split; [apply HRmk; auto; repeat split|repeat split].
    + (* no front-level wrapper *)
      pose proof (body_sim (q_sh q) g m (no_front_memoized _ Efk) Hin Hcore Hb Hdom) as Hbody.
      destruct (spec_call g m) as [g' x].
      destruct Hbody as (sh' & cn & r & Eb & Hx & Rc' & Rb' & Gs & Hv).
      unfold sq_call. rewrite Efk. exists sh', cn, r. split; auto.
Qed.

(* ------------------------------------------------------------------ enter / exit / raise / env *)
Lemma R_ext q g g' : g_cur g' = g_cur g -> g_depth g' = g_depth g -> g_snap g' = g_snap g -> R q g -> R q g'.
Proof.
  intros E1 E2 E3 [[A B] C]. split; [split; auto; intros s; rewrite E1; auto|].
  rewrite E2. destruct (g_depth g); auto. destruct C as [C1 C2]. split; auto.
  destruct C2 as (fc & pc & F & P & X). exists fc, pc, F, P. rewrite E3. exact X.
Qed.

Lemma nth_error_snoc_eq {A} (l : list A) x : nth_error (l ++ [x]) (length l) = Some x.
Proof. rewrite nth_error_app2 by lia. rewrite Nat.sub_diag. reflexivity. Qed.
Lemma nth_error_snoc_keep {A} (l : list A) x i y : nth_error l i = Some y -> nth_error (l ++ [x]) i = Some y.
Proof. intros H. rewrite nth_error_app1; auto. apply nth_error_Some. congruence. Qed.

Lemma activate_all_Rb sh g : g_snap g = no_snap -> Rb (activate_all sh) g.
Proof.
  intros Hs. unfold activate_all.
  set (a1 := activate Front sh). set (a2 := activate Front a1). set (a3 := activate Front a2).
  set (a4 := activate Front a3). set (a5 := activate Proc a4). set (a6 := activate Proc a5). set (a7 := activate Proc a6).
  assert (H4 : nth_error (heap a4) (length (heap a3)) = Some (mkCache (clock a3) [])).
  { unfold a4. rewrite activate_heap. apply nth_error_snoc_eq. }
  assert (H7 : nth_error (heap a7) (length (heap a6)) = Some (mkCache (clock a6) [])).
  { unfold a7. rewrite activate_heap. apply nth_error_snoc_eq. }
  assert (H4' : nth_error (heap a7) (length (heap a3)) = Some (mkCache (clock a3) [])).
  { unfold a7. rewrite activate_heap. apply nth_error_snoc_keep.
    unfold a6. rewrite activate_heap. apply nth_error_snoc_keep.
    unfold a5. rewrite activate_heap. apply nth_error_snoc_keep. exact H4. }
  exists (length (heap a3)), (length (heap a6)), (mkCache (clock a3) []), (mkCache (clock a6) []).
  split; [reflexivity|]. split; [reflexivity|]. split.
  - unfold a6, a5, a4. rewrite !activate_heap, !app_length. simpl. lia.
  - split; [exact H4'|]. split; [exact H7|]. rewrite Hs. repeat split; simpl; auto. intros fk v _ X; discriminate.
Qed.

Lemma activate_all_core sh : srcs (activate_all sh) = srcs sh /\ gone_flag (activate_all sh) = gone_flag sh.
Proof. split; reflexivity. Qed.
Lemma deactivate1_core l sh : srcs (deactivate1 l sh) = srcs sh /\ gone_flag (deactivate1 l sh) = gone_flag sh.
Proof. unfold deactivate1, deactivate, py_delcache. destruct (ptr l sh); simpl; destruct l; split; reflexivity. Qed.
Lemma deactivate_all_core sh : srcs (deactivate_all sh) = srcs sh /\ gone_flag (deactivate_all sh) = gone_flag sh.
Proof.
  unfold deactivate_all. repeat match goal with |- context [deactivate1 ?l ?x] =>
    let H := fresh in destruct (deactivate1_core l x) as [H ?]; rewrite H; clear H end.
  split; auto.
  repeat match goal with |- context [gone_flag (deactivate1 ?l ?x)] =>
    let H := fresh in destruct (deactivate1_core l x) as [_ H]; rewrite H; clear H end. reflexivity.
Qed.

Lemma Rb_core sh sh' g : same_core sh sh' -> Rb sh g -> Rb sh' g.
Proof.
  intros (E1 & E2 & E3 & _) (fc & pc & F & P & X). exists fc, pc, F, P. rewrite E1, E2, E3. exact X.
Qed.

Lemma exit_sim q g : R q g -> R (sq_exit q) (fst (spec_step g OExit)).
Proof.
  intros [[Hcur Hg] HR]. unfold sq_exit. simpl. destruct (g_depth g) as [|[|d]] eqn:Ed.
  - destruct HR as (Hs & Hf & Hp). rewrite Hs. split; [split; auto|]. simpl. rewrite Ed. auto.
  - destruct HR as (Hs & Hb). simpl in Hs. rewrite Hs.
    destruct (deactivate_all_core (q_sh q)) as [X1 X2]. destruct (deactivate_all_ptrs (q_sh q)) as [Y1 Y2].
    split.
    + split; [intros s; exact (eq_trans (f_equal (fun f => f s) X1) (Hcur s))|exact (eq_trans X2 Hg)].
    + simpl. split; [reflexivity|]. split; [exact Y1|exact Y2].
  - destruct HR as (Hs & Hb). simpl in Hs. rewrite Hs. split; simpl; [split; auto|].
    split; auto.
Qed.

Lemma unwind_sim : forall n q g, R q g -> g_depth g = n ->
  exists g', R (sq_unwind n q) g' /\ g_depth g' = 0 /\ g_cur g' = g_cur g.
Proof.
  induction n as [|n IH]; intros q g HR Hd; simpl.
  - exists g. auto.
  - pose proof (exit_sim _ _ HR) as H. simpl in H. rewrite Hd in H.
    destruct n as [|n'].
    + destruct (IH _ _ H eq_refl) as (g' & X1 & X2 & X3). exists g'. auto.
    + destruct (IH _ _ H eq_refl) as (g' & X1 & X2 & X3). exists g'. auto.
Qed.

Lemma R_len q g : R q g -> length (q_stk q) = g_depth g.
Proof.
  intros [_ H]. destruct (g_depth g) as [|d].
  - destruct H as (-> & _). reflexivity.
  - destruct H as (-> & _). rewrite app_length, repeat_length. simpl. lia.
Qed.

Lemma exit_res q : q_res (sq_exit q) = q_res q.
Proof. unfold sq_exit. destruct (q_stk q) as [|[|] s]; reflexivity. Qed.
Lemma unwind_res : forall n q, q_res (sq_unwind n q) = q_res q.
Proof. induction n as [|n IH]; intros q; simpl; auto. rewrite IH. apply exit_res. Qed.

Definition step_dom (g : gst) (o : op) : Prop :=
  match o with OCall (CM m) => in_domain g m | _ => True end.

Lemma step_sim q g o :
  R q g -> step_dom g o ->
  let (g', x) := spec_step g o in
  R (sq_step q o) g' /\
  match x with
  | Some y => exists r, q_res (sq_step q o) = r :: q_res q /\ proj_res r = y
  | None => q_res (sq_step q o) = q_res q
  end.
Proof.
  intros HR Hdom. destruct o as [| | |c|e].
  - (* enter *) simpl. split; [|unfold sq_enter; destruct (fptr (acquire0 (q_sh q))); reflexivity].
    destruct HR as [[Hcur Hg] HR]. unfold sq_enter.
    change (fptr (acquire0 (q_sh q))) with (fptr (q_sh q)).
    destruct (g_depth g) as [|d] eqn:Ed.
    + destruct HR as (Hs & Hf & Hp). rewrite Hf. split; simpl.
      * split; auto.
      * rewrite Hs. split; [reflexivity|]. apply activate_all_Rb. reflexivity.
    + destruct HR as (Hs & Hb). pose proof Hb as (fc & _ & _ & _ & Hf & _). rewrite Hf. split; simpl.
      * split; auto.
      * rewrite Hs. split; [reflexivity|]. destruct Hb as (fc' & pc & F & P & X). exists fc', pc, F, P. exact X.
  - (* exit *) pose proof (exit_sim _ _ HR) as H. simpl in *.
    destruct (g_depth g) as [|[|d]]; (split; [exact H|]); unfold sq_exit; destruct (q_stk q) as [|[|] s]; reflexivity.
  - (* raise *) simpl. split.
    + destruct (unwind_sim _ _ _ HR (eq_sym (R_len _ _ HR))) as (g' & X1 & X2 & X3).
      destruct X1 as [[A B] C]. rewrite X2 in C. split; [split; auto; intros s; rewrite A, X3; reflexivity|]. simpl. exact C.
    + apply unwind_res.
  - (* call *) destruct c as [m| |o].
    + simpl in Hdom. pose proof (call_sim q g m HR Hdom) as H. simpl.
      destruct (spec_call g m) as [g' x]. destruct H as (sh' & cn & r & Ec & Hx & HR' & Gs). rewrite Ec. simpl.
      split; [|eexists; split; [reflexivity|exact Hx]].
      eapply R_ext; [| | |exact HR']; reflexivity.
    + simpl. split; [exact HR|]. eexists; split; reflexivity.
    + simpl. split; [exact HR|]. eexists; split; [reflexivity|]. unfold proj_res. simpl. destruct o; reflexivity.
  - (* env *) destruct HR as [[Hcur Hg] HR]. destruct e as [s st|]; simpl; (split; [|reflexivity]).
    + split; [split; auto; intros x; simpl; rewrite Hcur; reflexivity|]. simpl.
      destruct (g_depth g); auto.
    + split; [split; auto|]. simpl.
      destruct (g_depth g); auto.
Qed.

Lemma step_ok_mono g o : g_ok (fst (spec_step g o)) = true -> g_ok g = true /\ step_dom g o.
Proof.
  destruct o as [| | |c|e]; simpl; auto.
  - destruct (g_depth g) as [|[|d]]; simpl; auto.
  - destruct c as [m| |o]; simpl; auto. destruct (spec_call g m) as [g' r]. simpl.
    intros H. apply andb_prop in H. destruct H as [H1 H2]. split; auto.
    intros ->. simpl in H2. destruct (g_cur g Stat); try discriminate. eauto.
  - destruct e as [s st|]; simpl; auto. intros H. apply andb_prop in H. destruct H as [H _].
    apply andb_prop in H. destruct H; auto.
Qed.

Lemma go_ok_mono : forall h g acc gf rs, spec_go g h acc = (gf, rs) -> g_ok gf = true -> g_ok g = true.
Proof.
  induction h as [|o r IH]; intros g acc gf rs H Hok; simpl in H.
  - inversion H; subst; auto.
  - destruct (spec_step g o) as [g' x] eqn:E. apply IH in H; auto.
    assert (g' = fst (spec_step g o)) by (rewrite E; reflexivity). subst g'. apply step_ok_mono in H. tauto.
Qed.

Lemma go_sim : forall h q g acc gf rs,
  R q g -> map proj_res (rev (q_res q)) = rev acc ->
  spec_go g h acc = (gf, rs) -> g_ok gf = true ->
  map proj_res (rev (q_res (sq_run q h))) = rs.
Proof.
  induction h as [|o r IH]; intros q g acc gf rs HR Hacc H Hok; simpl in H.
  - inversion H; subst. exact Hacc.
  - destruct (spec_step g o) as [g' x] eqn:E. simpl.
    pose proof (go_ok_mono _ _ _ _ _ H Hok) as Hok'.
    assert (Hd : step_dom g o).
    { assert (g' = fst (spec_step g o)) by (rewrite E; reflexivity). subst g'. apply step_ok_mono in Hok'. tauto. }
    pose proof (step_sim q g o HR Hd) as Hs. rewrite E in Hs. destruct Hs as [HR' Hres].
    eapply IH; [exact HR'| |exact H|exact Hok].
    destruct x as [y|].
    + destruct Hres as (r0 & Er & Ey). rewrite Er. simpl. rewrite map_app, Hacc. simpl. rewrite Ey. reflexivity.
    + rewrite Hres. exact Hacc.
Qed.

(* Theorem 1 (with 2 and 3 folded in: the ghost machine forgets everything at the outermost exit
   and ignores nested enters).  For every history inside the stated domain, every call of the
   sequential reading answers what the property demands, and every successful call makes exactly
   the reads the property allows: one per source and block, none once the block holds the source. *)
Theorem block_first_read : forall f h rs,
  spec_run f h = Some rs ->
  map proj_res (rev (q_res (sq_run (sq_init f) h))) = rs.
Proof.
  intros f h rs H. unfold spec_run in H. destruct (spec_go (spec_init f) h []) as [gf rs'] eqn:E.
  destruct (g_ok gf) eqn:Eok; [|discriminate]. inversion H; subst rs'.
  eapply go_sim; [| |exact E|exact Eok].
  - split; [split; auto|]. simpl. auto.
  - reflexivity.
Qed.

Example block_first_read_example :
  spec_run (fun _ => SAvail 1)
    [OEnter; OCall (CM Mcpu_num); OEnv (ESet Stat (SAvail 2)); OCall (CM Mppid); OEnter; OCall (CM Mname); OExit;
     OCall (CM Muids); OEnv (ESet Status SDenied); OCall (CM Mgids); ORaise; OCall (CM Mcpu_num); OCall (CM Mgids)]
  = Some [(Val 1, Some [1;0;0;0]); (Val 1, Some [0;0;0;0]); (Val 1, Some [0;0;0;0]); (Val 1, Some [0;1;0;0]);
          (Val 1, Some [0;0;0;0]); (Val 2, Some [1;0;0;0]); (Exc AccessDenied, None)].
Proof. reflexivity. Qed.

(* ------------------------------------------------------------------ as_dict *)
Definition call_of (resolve : bytes -> callee) (n : bytes) : op := OCall (resolve n).
Definition last_answer (q : sq) : outcome nat := match q_res q with (o, _) :: _ => o | [] => OutOfModel end.
(* the same calls made one after the other, and what each answered *)
Fixpoint run_calls (resolve : bytes -> callee) (q : sq) (ls : list bytes) : sq * list (outcome nat) :=
  match ls with
  | [] => (q, [])
  | n :: r => let q1 := sq_step q (call_of resolve n) in
              let (q2, a) := run_calls resolve q1 r in (q2, last_answer q1 :: a)
  end.

Lemma run_calls_run resolve : forall ls q, fst (run_calls resolve q ls) = sq_run q (map (call_of resolve) ls).
Proof.
  induction ls as [|n r IH]; intros q; [reflexivity|].
  cbn [run_calls map]. unfold sq_run. cbn [fold_left].
  change (fold_left sq_step (map (call_of resolve) r) (sq_step q (call_of resolve n)))
    with (sq_run (sq_step q (call_of resolve n)) (map (call_of resolve) r)).
  rewrite <- IH. destruct (run_calls resolve (sq_step q (call_of resolve n)) r); reflexivity.
Qed.

Lemma ad_loop_val resolve explicit : forall ls q acc q2 answers d,
  run_calls resolve q ls = (q2, answers) -> spec_ad_collect ls answers = Val d ->
  ad_loop resolve explicit ls q acc = (q2, Val (rev acc ++ d)).
Proof.
  induction ls as [|n r IH]; intros q acc q2 answers d Hr Hc.
  - simpl in *. inversion Hr; subst. simpl in Hc. inversion Hc; subst. rewrite app_nil_r. reflexivity.
  - cbn [run_calls] in Hr. cbn [ad_loop]. change (OCall (resolve n)) with (call_of resolve n).
    remember (sq_step q (call_of resolve n)) as q1 eqn:Eq1. clear Eq1.
    destruct (run_calls resolve q1 r) as [q3 a] eqn:E. inversion Hr; subst. clear Hr.
    cbn [spec_ad_collect] in Hc. unfold last_answer in Hc.
    destruct (q_res q1) as [|[o cn] rest] eqn:Eq; [simpl in Hc; discriminate|].
    destruct o as [v|e|]; simpl in Hc; try discriminate.
    + destruct (spec_ad_collect r a) as [d'|e'|] eqn:Ec; simpl in Hc; try discriminate. inversion Hc; subst.
      rewrite (IH _ _ _ _ _ E Ec). simpl. rewrite <- app_assoc. reflexivity.
    + destruct e; try discriminate;
        (destruct (spec_ad_collect r a) as [d'|e'|] eqn:Ec; simpl in Hc; try discriminate; inversion Hc; subst;
         rewrite (IH _ _ _ _ _ E Ec); simpl; rewrite <- app_assoc; reflexivity).
Qed.

Lemma ad_loop_nsp resolve explicit : forall ls q acc q2 answers,
  run_calls resolve q ls = (q2, answers) -> spec_ad_collect ls answers = Exc NoSuchProcess ->
  exists k, ad_loop resolve explicit ls q acc = (sq_run q (map (call_of resolve) (firstn k ls)), Exc NoSuchProcess).
Proof.
  induction ls as [|n r IH]; intros q acc q2 answers Hr Hc.
  - simpl in *. inversion Hr; subst. simpl in Hc. discriminate.
  - cbn [run_calls] in Hr. cbn [ad_loop]. change (OCall (resolve n)) with (call_of resolve n).
    remember (sq_step q (call_of resolve n)) as q1 eqn:Eq1.
    assert (Hq1 : forall k, sq_run q (map (call_of resolve) (firstn (S k) (n :: r))) = sq_run q1 (map (call_of resolve) (firstn k r)))
      by (intros k0; subst q1; reflexivity).
    clear Eq1.
    destruct (run_calls resolve q1 r) as [q3 a] eqn:E. inversion Hr; subst. clear Hr.
    cbn [spec_ad_collect] in Hc. unfold last_answer in Hc.
    destruct (q_res q1) as [|[o cn] rest] eqn:Eq; [simpl in Hc; discriminate|].
    destruct o as [v|e|]; simpl in Hc; try discriminate.
    + destruct (spec_ad_collect r a) as [d'|e'|] eqn:Ec; simpl in Hc; try discriminate. inversion Hc; subst.
      destruct (IH _ ((n, AVal v) :: acc) _ _ E Ec) as (k & Hk). exists (S k). rewrite Hq1. exact Hk.
    + destruct e; try discriminate.
      * exists 1. rewrite Hq1. reflexivity.
      * destruct (spec_ad_collect r a) as [d'|e'|] eqn:Ec; simpl in Hc; try discriminate. inversion Hc; subst.
        destruct (IH _ ((n, ADefault) :: acc) _ _ E Ec) as (k & Hk). exists (S k). rewrite Hq1. exact Hk.
      * destruct (spec_ad_collect r a) as [d'|e'|] eqn:Ec; simpl in Hc; try discriminate. inversion Hc; subst.
        destruct (IH _ ((n, ADefault) :: acc) _ _ E Ec) as (k & Hk). exists (S k). rewrite Hq1. exact Hk.
Qed.

Lemma collect_keys : forall ls answers d, spec_ad_collect ls answers = Val d -> map fst d = ls.
Proof.
  induction ls as [|n r IH]; intros answers d H; simpl in H.
  - inversion H; reflexivity.
  - destruct answers as [|a ar]; [discriminate|]. destruct a as [v|e|]; try discriminate.
    + destruct (spec_ad_collect r ar) as [d'|e'|] eqn:Ec; simpl in H; try discriminate. inversion H; subst.
      simpl. f_equal. eapply IH; eauto.
    + destruct e; try discriminate;
        (destruct (spec_ad_collect r ar) as [d'|e'|] eqn:Ec; simpl in H; try discriminate; inversion H; subst;
         simpl; f_equal; eapply IH; eauto).
Qed.

(* the names as_dict will query: the requested set, or every valid name for None / an empty collection *)
Definition requested (valid : list bytes) (attrs : attrs_arg) : list bytes :=
  match (match attrs with AColl ns => dedup ns [] | _ => [] end) with [] => valid | req => req end.
Definition names_valid (valid : list bytes) (attrs : attrs_arg) : bool :=
  negb (existsb (fun n => negb (mem_bytes n valid)) (match attrs with AColl ns => dedup ns [] | _ => [] end)).

(* Theorem 4. *)
Theorem as_dict_spec : forall valid resolve q,
  (* a non-collection: TypeError, nothing touched *)
  as_dict valid resolve ANotColl q = (q, Exc TypeError) /\
  (* an unknown name: ValueError, nothing touched (no block entered, no source read) *)
  (forall ns, names_valid valid (AColl ns) = false -> as_dict valid resolve (AColl ns) q = (q, Exc ValueError)) /\
  (* otherwise: one oneshot block around the individual calls, then the exception policy *)
  (forall attrs q2 answers,
     attrs <> ANotColl -> names_valid valid attrs = true ->
     run_calls resolve (sq_enter q) (requested valid attrs) = (q2, answers) ->
     (forall d, spec_ad_collect (requested valid attrs) answers = Val d ->
                as_dict valid resolve attrs q = (sq_exit q2, Val d) /\ map fst d = requested valid attrs) /\
     (spec_ad_collect (requested valid attrs) answers = Exc NoSuchProcess ->
      exists k, as_dict valid resolve attrs q =
                (sq_exit (sq_run (sq_enter q) (map (call_of resolve) (firstn k (requested valid attrs)))), Exc NoSuchProcess))).
Proof.
  intros valid resolve q. split; [reflexivity|]. split.
  - intros ns H. unfold names_valid in H. apply negb_false_iff in H. unfold as_dict. rewrite H. reflexivity.
  - intros attrs q2 answers Hnc Hv Hr. unfold names_valid in Hv. apply negb_true_iff in Hv.
    assert (Has : forall r0 qq, ad_loop resolve (match (match attrs with AColl ns => dedup ns [] | _ => [] end) with [] => false | _ => true end)
                        (requested valid attrs) (sq_enter q) [] = (qq, r0) ->
                  as_dict valid resolve attrs q = (sq_exit qq, r0)).
    { intros r0 qq E. unfold as_dict. destruct attrs as [| |ns]; [|congruence|]; rewrite Hv.
      - unfold requested in E. simpl in *. rewrite E. reflexivity.
      - unfold requested in E. destruct (dedup ns []) eqn:Ed; simpl in *; rewrite E; reflexivity. }
    split.
    + intros d Hc. split; [|eapply collect_keys; eauto]. apply Has.
      rewrite (ad_loop_val _ _ _ _ [] _ _ _ Hr Hc). reflexivity.
    + intros Hc. destruct (ad_loop_nsp resolve
        (match (match attrs with AColl ns => dedup ns [] | _ => [] end) with [] => false | _ => true end)
        _ _ [] _ _ Hr Hc) as (k & Hk). exists k. apply Has. exact Hk.
Qed.

Example as_dict_example :
  let p := [112%Z] in let u := [117%Z] in let x := [120%Z] in
  let resolve := fun n : bytes => if bytes_eqb n p then CPid else if bytes_eqb n u then CM Muids else CStub (Exc ZombieProcess) in
  snd (as_dict [p; u; x] resolve (AColl [u; x; u]) (sq_init (fun _ => SAvail 7)))
  = Val [(u, AVal 7); (x, ADefault)].
Proof. reflexivity. Qed.
