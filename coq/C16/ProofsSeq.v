(* C16 -- one thread, all histories of enter / exit / nested enter / raise / call / source change:
   the sequential reading of the code refines the ghost machine of the specification
   (first read in the block, at most one read per block, fresh data after the block,
   nesting changes nothing), and as_dict is a block of the individual calls plus its policy. *)
From PV Require Import C16.Lib C16.ProofsFresh.
Local Open Scope nat_scope.

(* ------------------------------------------------------------------ small facts *)
Lemma src_eqb_refl s : src_eqb s s = true.
Proof. destruct s; reflexivity. Qed.
Lemma src_eqb_eq a b : src_eqb a b = true -> a = b.
Proof. destruct a, b; simpl; congruence. Qed.
Lemma src_eqb_neq a b : src_eqb a b = false -> a <> b.
Proof. destruct a, b; simpl; congruence. Qed.
Lemma fkey_eqb_refl s : fkey_eqb s s = true.
Proof. destruct s; reflexivity. Qed.
Lemma fkey_eqb_eq a b : fkey_eqb a b = true -> a = b.
Proof. destruct a, b; simpl; congruence. Qed.

Definition add_ent (k : key) (v : val) (c : cache) : cache := mkCache (c_born c) ((k, v) :: c_ents c).
Definition sh_store sh cid k v := set_heap sh (upd_nth cid (add_ent k v) (heap sh)).

Lemma setitem_store sh cid k v C : nth_error (heap sh) cid = Some C -> py_setitem sh cid k v = Val (sh_store sh cid k v).
Proof. unfold py_setitem. intros ->. reflexivity. Qed.

(* the reader wrapper when a dict is live / when none is *)
Lemma wrapper_live l k body sh cn cid C :
  ptr l sh = Some cid -> nth_error (heap sh) cid = Some C ->
  sq_wrapper l k body sh cn =
  match assoc k (c_ents C) with
  | Some v => (sh, cn, Val v)
  | None => let '(sh1, cn1, r) := body sh cn in
            match r with
            | Val v => match py_setitem sh1 cid k v with
                       | Val sh2 => (sh2, cn1, Val v)
                       | Exc e => (sh1, cn1, Exc e)
                       | OutOfModel => (sh1, cn1, OutOfModel)
                       end
            | o => (sh1, cn1, o)
            end
  end.
Proof.
  intros Hp HC. unfold sq_wrapper, py_getcache, py_subscript. rewrite Hp, HC.
  destruct (assoc k (c_ents C)); reflexivity.
Qed.
Lemma wrapper_dead l k body sh cn : ptr l sh = None -> sq_wrapper l k body sh cn = body sh cn.
Proof. intros Hp. unfold sq_wrapper, py_getcache. rewrite Hp. reflexivity. Qed.

(* ------------------------------------------------------------------ shape of the block stack *)
Definition shape (q : sq) : Prop :=
  match q_stk q with
  | [] => fptr (q_sh q) = None /\ pptr (q_sh q) = None
  | _ => (exists d, q_stk q = repeat Nested d ++ [Real]) /\ fptr (q_sh q) <> None /\ pptr (q_sh q) <> None
  end.

Lemma deactivate1_ptr l sh : ptr l (deactivate1 l sh) = None /\ forall l', l' <> l -> ptr l' (deactivate1 l sh) = ptr l' sh.
Proof.
  unfold deactivate1, deactivate, py_delcache. destruct (ptr l sh) eqn:E; simpl.
  - destruct l; simpl; split; auto; intros [|] H; try congruence; reflexivity.
  - split; auto.
Qed.
Lemma deactivate1_proc sh : pptr (deactivate1 Proc sh) = None /\ fptr (deactivate1 Proc sh) = fptr sh.
Proof. unfold deactivate1, deactivate, py_delcache. simpl. destruct (pptr sh) eqn:E; simpl; auto. Qed.
Lemma deactivate1_front sh : fptr (deactivate1 Front sh) = None /\ pptr (deactivate1 Front sh) = pptr sh.
Proof. unfold deactivate1, deactivate, py_delcache. simpl. destruct (fptr sh) eqn:E; simpl; auto. Qed.
Lemma deactivate_all_ptrs sh : fptr (deactivate_all sh) = None /\ pptr (deactivate_all sh) = None.
Proof.
  unfold deactivate_all.
  set (a := deactivate1 Front sh). set (b := deactivate1 Front a). set (c := deactivate1 Front b).
  set (d := deactivate1 Front c). set (e := deactivate1 Proc d). set (f := deactivate1 Proc e).
  split.
  - destruct (deactivate1_proc f) as [_ H1]. rewrite H1.
    destruct (deactivate1_proc e) as [_ H2]. unfold f. rewrite H2.
    destruct (deactivate1_proc d) as [_ H3]. unfold e. rewrite H3.
    destruct (deactivate1_front c) as [H4 _]. exact H4.
  - destruct (deactivate1_proc f) as [H1 _]. exact H1.
Qed.

Lemma setitem_ptrs s cid k v s1 : py_setitem s cid k v = Val s1 -> same_ptrs s s1.
Proof. unfold py_setitem. destruct (nth_error (heap s) cid); intros E; inversion E; split; auto. Qed.

Lemma sq_wrapper_ptrs l k body :
  (forall s c s1 c1 r1, body s c = (s1, c1, r1) -> same_ptrs s s1) ->
  forall s c s1 c1 r1, sq_wrapper l k body s c = (s1, c1, r1) -> same_ptrs s s1.
Proof.
  intros Hb s c s1 c1 r1. unfold sq_wrapper.
  destruct (py_getcache l s) as [cid|e|]; try (intros E; inversion E; subst; split; auto; fail).
  - destruct (py_subscript s cid k) as [v|e|]; try (intros E; inversion E; subst; split; auto; fail).
    destruct e; try (intros E; inversion E; subst; split; auto; fail).
    destruct (body s c) as [[s2 c2] r2] eqn:Eb. apply Hb in Eb.
    destruct r2 as [v|e|]; try (intros E; inversion E; subst; auto; fail).
    destruct (py_setitem s2 cid k v) as [s3|e|] eqn:Es; intros E; inversion E; subst; auto.
    apply setitem_ptrs in Es. destruct Eb, Es. split; congruence.
  - destruct e; try (intros E; inversion E; subst; split; auto; fail). apply Hb.
Qed.

Lemma sq_reader_ptrs s0 s c s1 c1 r1 : sq_reader s0 s c = (s1, c1, r1) -> same_ptrs s s1.
Proof.
  unfold sq_reader. destruct (memoized s0).
  - apply sq_wrapper_ptrs. unfold sq_read. intros ? ? ? ? ? E; inversion E; split; auto.
  - unfold sq_read. intros E; inversion E; split; auto.
Qed.

Lemma sq_body_ptrs m s c s1 c1 r1 : sq_body m s c = (s1, c1, r1) -> same_ptrs s s1.
Proof.
  unfold sq_body.
  destruct (if meth_eqb m Mppid then ident_check s else IOk s) as [s2|e|] eqn:Ei;
    try (intros E; inversion E; subst; split; auto; fail).
  assert (H2 : same_ptrs s s2).
  { destruct (meth_eqb m Mppid); [|inversion Ei; split; auto]. unfold ident_check in Ei.
    destruct (gone_flag s); [discriminate|]. destruct (srcs s Stat); inversion Ei; split; auto. }
  destruct (sq_reader (m_src m) s2 c) as [[s3 c3] r3] eqn:Er. apply sq_reader_ptrs in Er.
  assert (H3 : same_ptrs s s3) by (destruct H2, Er; split; congruence).
  destruct (meth_eqb m Mmemory_full); [destruct r3|]; intros E; inversion E; subst; auto.
Qed.

Lemma sq_call_ptrs m sh sh' cn r : sq_call m sh = (sh', cn, r) -> same_ptrs sh sh'.
Proof.
  unfold sq_call. destruct (m_front m).
  - apply sq_wrapper_ptrs. intros; eapply sq_body_ptrs; eauto.
  - apply sq_body_ptrs.
Qed.

Lemma shape_step q o : shape q -> shape (sq_step q o).
Proof.
  intros H. destruct o as [| | |c|e]; simpl.
  - (* enter *) unfold sq_enter. unfold shape in *. destruct (q_stk q) as [|f s] eqn:Es.
    + destruct H as [Hf Hp]. change (fptr (acquire0 (q_sh q))) with (fptr (q_sh q)). rewrite Hf. simpl.
      split; [exists 0; reflexivity|]. split; discriminate.
    + destruct H as ((d & Hd) & Hf & Hp). change (fptr (acquire0 (q_sh q))) with (fptr (q_sh q)).
      destruct (fptr (q_sh q)) eqn:Ef; [|congruence]. simpl. split; [exists (S d); simpl; rewrite Hd; reflexivity|].
      split; [change (fptr (acquire0 (q_sh q))) with (fptr (q_sh q)); congruence|exact Hp].
  - (* exit *) unfold sq_exit. unfold shape in *. destruct (q_stk q) as [|f s] eqn:Es; [rewrite Es; exact H|].
    destruct H as ((d & Hd) & Hf & Hp). destruct d as [|d]; simpl in Hd; inversion Hd; subst.
    + simpl. destruct (deactivate_all_ptrs (q_sh q)). split; auto.
    + simpl. destruct d as [|d']; simpl; (split; [first [exists 0; reflexivity|exists (S d'); reflexivity]|split; auto]).
  - (* raise *) revert H. generalize (length (q_stk q)). intros n. revert q. induction n as [|n IH]; intros q H; simpl; auto.
    apply IH. unfold sq_exit. unfold shape in *. destruct (q_stk q) as [|f s] eqn:Es; [rewrite Es; exact H|].
    destruct H as ((d & Hd) & Hf & Hp). destruct d as [|d]; simpl in Hd; inversion Hd; subst.
    + simpl. destruct (deactivate_all_ptrs (q_sh q)). split; auto.
    + simpl. destruct d as [|d']; simpl; (split; [first [exists 0; reflexivity|exists (S d'); reflexivity]|split; auto]).
  - (* call *) destruct c as [m| |o]; try exact H.
    destruct (sq_call m (q_sh q)) as [[sh cn] r] eqn:E. apply sq_call_ptrs in E. destruct E as [E1 E2].
    unfold shape in *. simpl. rewrite E1, E2. exact H.
  - (* env *) unfold shape in *. simpl. destruct e; exact H.
Qed.

Lemma shape_run : forall h q, shape q -> shape (sq_run q h).
Proof. induction h as [|o r IH]; intros q H; simpl; auto. apply IH. apply shape_step. exact H. Qed.

Lemma unwind_empty : forall n q, length (q_stk q) <= n -> q_stk (sq_unwind n q) = [].
Proof.
  induction n as [|n IH]; intros q H; simpl.
  - destruct (q_stk q); auto. simpl in H. lia.
  - apply IH. unfold sq_exit. destruct (q_stk q) as [|[|] s] eqn:Es; simpl in *; rewrite ?Es; simpl; lia.
Qed.

(* what a call answers when no dict is live: the current content of its source(s), one read each *)
Definition direct (m : meth) sh : outcome val :=
  if meth_eqb m Mmemory_full then do v <- read_src sh Smaps; do _ <- read_src sh Statm; Val v
  else read_src sh (m_src m).

Lemma sq_call_direct m sh :
  fptr sh = None -> pptr sh = None -> m <> Mppid ->
  exists cn, sq_call m sh = (sh, cn, direct m sh) /\ cn (m_src m) = 1.
Proof.
  intros Hf Hp Hm. unfold sq_call.
  assert (Hb : exists cn, sq_body m sh (fun _ => 0) = (sh, cn, direct m sh) /\ cn (m_src m) = 1).
  { unfold sq_body. assert (meth_eqb m Mppid = false) by (destruct m; auto; congruence). rewrite H.
    unfold sq_reader. destruct (memoized (m_src m)) eqn:Em.
    - rewrite wrapper_dead by exact Hp. unfold sq_read, direct.
      destruct (meth_eqb m Mmemory_full) eqn:Ef.
      + assert (m = Mmemory_full) by (destruct m; simpl in Ef; congruence). subst m. simpl.
        destruct (read_src sh Smaps); simpl; eexists; split; reflexivity.
      + eexists; split; [reflexivity|]. unfold bump. rewrite src_eqb_refl. reflexivity.
    - unfold sq_read, direct. assert (meth_eqb m Mmemory_full = false) by (destruct m; auto; discriminate).
      rewrite H0. eexists; split; [reflexivity|]. unfold bump. rewrite src_eqb_refl. reflexivity. }
  destruct (m_front m); [rewrite wrapper_dead by exact Hf|]; exact Hb.
Qed.

(* Theorem 2.  After the outermost block was left -- by Exit or by an exception in the body --
   both cache pointers are gone and the next call reads the current data. *)
Theorem fresh_after : forall f h m,
  let q := sq_run (sq_init f) h in
  q_stk q = [] -> m <> Mppid ->
  fptr (q_sh q) = None /\ pptr (q_sh q) = None /\
  exists cn, sq_call m (q_sh q) = (q_sh q, cn, direct m (q_sh q)) /\ cn (m_src m) = 1.
Proof.
  intros f h m q Hs Hm.
  assert (H : shape q) by (apply shape_run; unfold shape; simpl; auto).
  unfold shape in H. rewrite Hs in H. destruct H as [Hf Hp]. split; auto. split; auto.
  apply sq_call_direct; auto.
Qed.
Theorem raise_leaves_all_blocks : forall q, q_stk (sq_step q ORaise) = [].
Proof. intros q. simpl. apply unwind_empty. lia. Qed.
Example fresh_after_example :
  q_stk (sq_run (sq_init (fun _ => SAvail 1)) [OEnter; OCall (CM Mcpu_num); OEnter; ORaise]) = [].
Proof. reflexivity. Qed.

(* Theorem 3.  Inside a block, entering again and leaving again changes nothing but the
   recursion count of the lock. *)
Theorem nested_noop : forall f h,
  let q := sq_run (sq_init f) h in
  q_stk q <> [] ->
  let q' := sq_step (sq_step q OEnter) OExit in
  q_stk q' = q_stk q /\ q_res q' = q_res q /\ same_core (q_sh q) (q_sh q') /\ srcs (q_sh q') = srcs (q_sh q)
  /\ q_stk (sq_step q OEnter) = Nested :: q_stk q /\ same_core (q_sh q) (q_sh (sq_step q OEnter)).
Proof.
  intros f h q Hs q'.
  assert (H : shape q) by (apply shape_run; unfold shape; simpl; auto).
  unfold shape in H. destruct (q_stk q) as [|fr s] eqn:Es; [congruence|]. destruct H as (_ & Hf & _).
  unfold q'. simpl. unfold sq_enter. change (fptr (acquire0 (q_sh q))) with (fptr (q_sh q)).
  destruct (fptr (q_sh q)); [|congruence]. unfold sq_exit. simpl. rewrite Es.
  repeat split; reflexivity.
Qed.

(* ------------------------------------------------------------------ refinement to the ghost machine *)
Definition fk_src (fk : fkey) : src :=
  match fk with FPpid | FCpuTimes => Stat | FUids => Status | FMemInfo => Statm end.
Definition vfst (o : option val) : option nat := option_map fst o.

Definition Rb sh (g : gst) : Prop :=
  exists fc pc F P, fptr sh = Some fc /\ pptr sh = Some pc /\ fc <> pc /\
    nth_error (heap sh) fc = Some F /\ nth_error (heap sh) pc = Some P /\
    (forall s, memoized s = true -> vfst (assoc (KS s) (c_ents P)) = g_snap g s) /\
    vfst (assoc (KF FMemInfo) (c_ents F)) = g_snap g Statm /\
    (forall fk v, fk <> FMemInfo -> assoc (KF fk) (c_ents F) = Some v -> g_snap g (fk_src fk) = Some (fst v)).

Definition Rcore sh (g : gst) : Prop := (forall s, srcs sh s = g_cur g s) /\ gone_flag sh = false.

Definition R (q : sq) (g : gst) : Prop :=
  Rcore (q_sh q) g /\
  match g_depth g with
  | 0 => q_stk q = [] /\ fptr (q_sh q) = None /\ pptr (q_sh q) = None
  | S d => q_stk q = repeat Nested d ++ [Real] /\ Rb (q_sh q) g
  end.

Lemma cnt_bump cn s : cnt_list (bump cn s) = add4 (cnt_list cn) (one s).
Proof. unfold cnt_list, bump, one, add4. destruct s; simpl; f_equal; try lia; f_equal; try lia; f_equal; try lia; f_equal; lia. Qed.
Lemma add4_zero l : length l = 4 -> add4 l zero4 = l.
Proof. destruct l as [|a [|b [|c [|d [|e r]]]]]; simpl; try discriminate. intros _. repeat rewrite Nat.add_0_r. reflexivity. Qed.
Lemma cnt_len cn : length (cnt_list cn) = 4.
Proof. reflexivity. Qed.

Lemma sh_store_nth_eq sh cid k v C : nth_error (heap sh) cid = Some C ->
  nth_error (heap (sh_store sh cid k v)) cid = Some (add_ent k v C).
Proof. intros H. unfold sh_store. simpl. apply nth_error_upd_nth_eq; auto. Qed.
Lemma sh_store_nth_neq sh cid k v c : cid <> c ->
  nth_error (heap (sh_store sh cid k v)) c = nth_error (heap sh) c.
Proof. intros H. unfold sh_store. simpl. apply nth_error_upd_nth_neq; auto. Qed.

Lemma memoized_neq_statm s : memoized s = true -> src_eqb Statm s = false.
Proof. destruct s; simpl; auto; discriminate. Qed.

(* the memoized reader of source s inside a block *)
Lemma reader_sim sh g s cn :
  memoized s = true -> Nat.ltb 0 (g_depth g) = true -> Rcore sh g -> Rb sh g ->
  let '(g', o, c) := spec_primary g s in
  exists sh' cn' r, sq_reader s sh cn = (sh', cn', r) /\ ver_of r = o /\ cnt_list cn' = add4 (cnt_list cn) c /\
    Rcore sh' g' /\ Rb sh' g' /\ g_cur g' = g_cur g /\ g_depth g' = g_depth g /\ g_dead g' = g_dead g /\ g_ok g' = g_ok g /\
    (forall v, r = Val v -> g_snap g' s = Some (fst v)) /\ (forall s', s' <> s -> g_snap g' s' = g_snap g s').
Proof.
  intros Hm Hin [Hcur Hgone] Hb. pose proof Hb as (fc & pc & F & P & Hf & Hp & Hne & HF & HP & H1 & H2 & H3).
  unfold spec_primary. rewrite Hin. unfold sq_reader. rewrite Hm.
  rewrite (wrapper_live Proc (KS s) (sq_read s) sh cn pc P Hp HP).
  pose proof (H1 s Hm) as Hs. destruct (assoc (KS s) (c_ents P)) as [v|] eqn:Ea; simpl in Hs; rewrite <- Hs.
  - exists sh, cn, (Val v). rewrite add4_zero by apply cnt_len. repeat split; auto. intros v0 E; inversion E; subst; auto.
  - unfold sq_read, read_src. rewrite Hcur. destruct (g_cur g s) as [x| |] eqn:Ec.
    + rewrite (setitem_store _ _ _ _ _ HP).
      exists (sh_store sh pc (KS s) (x, clock sh)), (bump cn s), (Val (x, clock sh)).
      split; [reflexivity|]. split; [reflexivity|]. split; [apply cnt_bump|].
      split; [split; auto|]. split.
      * exists fc, pc, F, (add_ent (KS s) (x, clock sh) P).
        split; [exact Hf|]. split; [exact Hp|]. split; auto.
        split; [rewrite sh_store_nth_neq; auto|]. split; [apply sh_store_nth_eq; auto|].
        split; [|split].
        -- intros s' Hm'. simpl. destruct (src_eqb s' s) eqn:E; simpl; auto.
        -- unfold snap_set; cbn [g_snap]. rewrite (memoized_neq_statm _ Hm). exact H2.
        -- intros fk v Hfk Hv. unfold snap_set; cbn [g_snap]. destruct (src_eqb (fk_src fk) s) eqn:E; [|apply H3; auto].
           apply src_eqb_eq in E. pose proof (H3 _ _ Hfk Hv) as X. rewrite E in X. congruence.
      * repeat split; simpl; auto.
        -- intros v E; inversion E; subst. rewrite src_eqb_refl. reflexivity.
        -- intros s' Hs'. destruct (src_eqb s' s) eqn:E; auto. apply src_eqb_eq in E. congruence.
    + exists sh, (bump cn s), (Exc AccessDenied). repeat split; auto; try apply cnt_bump. intros v E; discriminate.
    + exists sh, (bump cn s), (Exc NoSuchProcess). repeat split; auto; try apply cnt_bump. intros v E; discriminate.
Qed.

(* storing the answer under the front-level key afterwards *)
Lemma front_store_Rb sh g fk v :
  Rb sh g -> g_snap g (fk_src fk) = Some (fst v) ->
  forall fc F, fptr sh = Some fc -> nth_error (heap sh) fc = Some F -> Rb (sh_store sh fc (KF fk) v) g.
Proof.
  intros (fc & pc & F & P & Hf & Hp & Hne & HF & HP & H1 & H2 & H3) Hs fc' F' Hf' HF'.
  rewrite Hf in Hf'. inversion Hf'; subst fc'. rewrite HF in HF'. inversion HF'; subst F'.
  exists fc, pc, (add_ent (KF fk) v F), P. split; [exact Hf|]. split; [exact Hp|]. split; auto.
  split; [apply sh_store_nth_eq; auto|]. split; [rewrite sh_store_nth_neq; auto|]. split; [exact H1|]. split.
  - simpl. destruct fk; simpl; auto.
  - intros fk' v' Hfk Hv. simpl in Hv. destruct (fkey_eqb fk' fk) eqn:E.
    + apply fkey_eqb_eq in E. subst. inversion Hv; subst. exact Hs.
    + apply H3; auto.
Qed.

Lemma Rcore_store sh g cid k v : Rcore sh g -> Rcore (sh_store sh cid k v) g.
Proof. intros [A B]. split; auto. Qed.

Definition in_domain (g : gst) (m : meth) : Prop :=
  m = Mppid -> exists x, g_cur g Stat = SAvail x.

Lemma ident_ok sh g m : Rcore sh g -> in_domain g m ->
  (if meth_eqb m Mppid then ident_check sh else IOk sh) = IOk sh.
Proof.
  intros [Hc Hg] Hd. destruct (meth_eqb m Mppid) eqn:E; auto.
  assert (m = Mppid) by (destruct m; simpl in E; congruence). destruct (Hd H) as (x & Hx).
  unfold ident_check. rewrite Hg, Hc, Hx. reflexivity.
Qed.


Definition gsame (g g' : gst) := g_cur g' = g_cur g /\ g_depth g' = g_depth g /\ g_dead g' = g_dead g /\ g_ok g' = g_ok g.

Lemma add4_zero_l c : length c = 4 -> add4 zero4 c = c.
Proof. destruct c as [|a [|b [|c0 [|d [|e r]]]]]; simpl; try discriminate. reflexivity. Qed.
Lemma spec_primary_len g s g' o c : spec_primary g s = (g', o, c) -> length c = 4.
Proof.
  unfold spec_primary. destruct (if Nat.ltb 0 (g_depth g) then g_snap g s else None).
  - intros E; inversion E; reflexivity.
  - destruct (g_cur g s); intros E; inversion E; reflexivity.
Qed.

(* the platform method body inside a block, for a memoized source *)
Lemma body_sim sh g m :
  memoized (m_src m) = true -> Nat.ltb 0 (g_depth g) = true -> Rcore sh g -> Rb sh g -> in_domain g m ->
  let '(g', x) := spec_call g m in
  exists sh' cn r, sq_body m sh (fun _ => 0) = (sh', cn, r) /\ proj_res (ver_of r, cnt_list cn) = x /\
    Rcore sh' g' /\ Rb sh' g' /\ gsame g g' /\ (forall v, r = Val v -> g_snap g' (m_src m) = Some (fst v)).
Proof.
  intros Hm Hin Hcore Hb Hdom. pose proof (reader_sim sh g (m_src m) (fun _ => 0) Hm Hin Hcore Hb) as Hr.
  unfold spec_call. destruct (spec_primary g (m_src m)) as [[g' o] c] eqn:Ep.
  pose proof (spec_primary_len _ _ _ _ _ Ep) as Hlen.
  destruct Hr as (sh' & cn' & r & Er & Eo & Ec & Rc' & Rb' & G1 & G2 & G3 & G4 & Hv & Hoth).
  change (cnt_list (fun _ : src => 0)) with zero4 in Ec. rewrite (add4_zero_l _ Hlen) in Ec.
  unfold sq_body. rewrite (ident_ok _ _ _ Hcore Hdom), Er.
  assert (Hgs : gsame g g') by (repeat split; auto).
  destruct (meth_eqb m Mmemory_full) eqn:Ef.
  - destruct r as [v|e|]; simpl in Eo; subst o.
    + pose proof Rc' as [Hcur' Hg']. unfold read_src. rewrite Hcur', G1.
      destruct (g_cur g Statm) as [y| |] eqn:Est; simpl.
      * exists sh', (bump cn' Statm), (Val v). split; [reflexivity|]. split.
        -- unfold proj_res; simpl. rewrite cnt_bump, Ec. reflexivity.
        -- split; [exact Rc'|split; [exact Rb'|split; [exact Hgs|exact Hv]]].
      * exists sh', (bump cn' Statm), (Exc AccessDenied). split; [reflexivity|]. split; [reflexivity|].
        split; [exact Rc'|split; [exact Rb'|split; [exact Hgs|intros v0 E; discriminate]]].
      * exists sh', (bump cn' Statm), (Exc NoSuchProcess). split; [reflexivity|]. split; [reflexivity|].
        split; [exact Rc'|split; [exact Rb'|split; [exact Hgs|intros v0 E; discriminate]]].
    + exists sh', cn', (Exc e). split; [reflexivity|]. split; [reflexivity|].
      split; [exact Rc'|split; [exact Rb'|split; [exact Hgs|intros v0 E; discriminate]]].
    + exists sh', cn', OutOfModel. split; [reflexivity|]. split; [reflexivity|].
      split; [exact Rc'|split; [exact Rb'|split; [exact Hgs|intros v0 E; discriminate]]].
  - destruct r as [v|e|]; simpl in Eo; subst o; simpl.
    + exists sh', cn', (Val v). split; [reflexivity|]. split; [unfold proj_res; simpl; rewrite Ec; reflexivity|].
      split; [exact Rc'|split; [exact Rb'|split; [exact Hgs|exact Hv]]].
    + exists sh', cn', (Exc e). split; [reflexivity|]. split; [reflexivity|].
      split; [exact Rc'|split; [exact Rb'|split; [exact Hgs|exact Hv]]].
    + exists sh', cn', OutOfModel. split; [reflexivity|]. split; [reflexivity|].
      split; [exact Rc'|split; [exact Rb'|split; [exact Hgs|exact Hv]]].
Qed.

Lemma front_of_no_full m fk : m_front m = Some fk -> meth_eqb m Mmemory_full = false /\ fk_src fk = m_src m.
Proof. destruct m; simpl; intros E; inversion E; auto. Qed.
Lemma no_front_memoized m : m_front m = None -> memoized (m_src m) = true.
Proof. destruct m; simpl; intros E; try discriminate; reflexivity. Qed.
Lemma front_not_memoized m fk : m_front m = Some fk -> memoized (m_src m) = false -> m = Mmemory_info /\ fk = FMemInfo.
Proof. destruct m; simpl; intros E1 E2; inversion E1; try discriminate; auto. Qed.

(* one method call: the sequential reading answers what the ghost machine answers *)
Lemma call_sim q g m :
  R q g -> in_domain g m ->
  let '(g', x) := spec_call g m in
  exists sh' cn r, sq_call m (q_sh q) = (sh', cn, r) /\ proj_res (ver_of r, cnt_list cn) = x /\
    R (mkSq sh' (q_stk q) (q_res q)) g' /\ gsame g g'.
Proof.
  intros [Hcore HR] Hdom. pose proof Hcore as [Hcur Hgone].
  pose proof (ident_ok _ _ _ Hcore Hdom) as Hid.
  destruct (g_depth g) as [|d] eqn:Ed.
  - (* outside any block: no dict is live *)
    destruct HR as (Hs & Hf & Hp). unfold spec_call, spec_primary. rewrite Ed. simpl.
    assert (Hcall : sq_call m (q_sh q) = sq_body m (q_sh q) (fun _ => 0)).
    { unfold sq_call. destruct (m_front m); auto. rewrite wrapper_dead; auto. }
    assert (HRq : R (mkSq (q_sh q) (q_stk q) (q_res q)) g).
    { split; auto. rewrite Ed. auto. }
    assert (Hgs : gsame g g) by (repeat split).
    rewrite Hcall. unfold sq_body. rewrite Hid. unfold sq_reader.
    destruct (memoized (m_src m)) eqn:Em; [rewrite wrapper_dead by exact Hp|]; unfold sq_read, read_src; rewrite Hcur.
    + destruct (meth_eqb m Mmemory_full) eqn:Ef.
      * assert (m = Mmemory_full) by (destruct m; simpl in Ef; congruence). subst m. simpl.
        destruct (g_cur g Smaps) as [x| |]; simpl.
        -- rewrite Hcur. destruct (g_cur g Statm) as [y| |]; simpl;
             (eexists; eexists; eexists; split; [reflexivity|]; split; [reflexivity|]; split; [exact HRq|exact Hgs]).
        -- eexists; eexists; eexists; split; [reflexivity|]; split; [reflexivity|]; split; [exact HRq|exact Hgs].
        -- eexists; eexists; eexists; split; [reflexivity|]; split; [reflexivity|]; split; [exact HRq|exact Hgs].
      * destruct (g_cur g (m_src m)) as [x| |]; simpl;
          (eexists; eexists; eexists; split; [reflexivity|]; split; [|split; [exact HRq|exact Hgs]]);
          unfold proj_res; simpl; rewrite ?cnt_bump; reflexivity.
    + assert (Ef : meth_eqb m Mmemory_full = false) by (destruct m; auto; discriminate). rewrite Ef.
      destruct (g_cur g (m_src m)) as [x| |]; simpl;
        (eexists; eexists; eexists; split; [reflexivity|]; split; [|split; [exact HRq|exact Hgs]]);
        unfold proj_res; simpl; rewrite ?cnt_bump; reflexivity.
  - (* inside a block *)
    destruct HR as (Hstk & Hb). pose proof Hb as (fc & pc & F & P & Hf & Hp & Hne & HF & HP & H1 & H2 & H3).
    assert (Hin : Nat.ltb 0 (g_depth g) = true) by (rewrite Ed; reflexivity).
    assert (HRmk : forall sh' g', gsame g g' -> Rcore sh' g' -> Rb sh' g' -> R (mkSq sh' (q_stk q) (q_res q)) g').
    { intros sh' g' (_ & G2 & _) A B. split; auto. rewrite G2, Ed. auto. }
    destruct (m_front m) as [fk|] eqn:Efk.
    + destruct (front_of_no_full _ _ Efk) as [Hnf Hsrc].
      unfold sq_call. rewrite Efk.
      rewrite (wrapper_live Front (KF fk) (sq_body m) (q_sh q) (fun _ => 0) fc F Hf HF).
      destruct (assoc (KF fk) (c_ents F)) as [v|] eqn:Ea.
      * (* held by the front-level dict *)
        assert (Hsnap : g_snap g (m_src m) = Some (fst v)).
        { destruct (fkey_eqb fk FMemInfo) eqn:E.
          - apply fkey_eqb_eq in E. subst fk. rewrite Ea in H2. simpl in H2. rewrite <- Hsrc. simpl. auto.
          - rewrite <- Hsrc. apply H3; auto. intros X; subst; discriminate. }
        unfold spec_call, spec_primary. rewrite Hin, Hsnap, Hnf.
        exists (q_sh q), (fun _ => 0), (Val v). split; [reflexivity|]. split; [reflexivity|].
        split; [apply HRmk; auto; repeat split|repeat split].
      * destruct (memoized (m_src m)) eqn:Em.
        -- (* run the body, store the answer under the front-level key *)
           pose proof (body_sim (q_sh q) g m Em Hin Hcore Hb Hdom) as Hbody.
           destruct (spec_call g m) as [g' x].
           destruct Hbody as (sh' & cn & r & Eb & Hx & Rc' & Rb' & Gs & Hv). rewrite Eb.
           destruct r as [v|e|].
           ++ pose proof Rb' as (fc' & pc' & F' & P' & Hf' & Hp' & Hne' & HF' & HP' & _).
              destruct (sq_body_ptrs _ _ _ _ _ _ Eb) as [X1 _]. rewrite Hf, Hf' in X1. inversion X1; subst fc'.
              rewrite (setitem_store _ _ _ _ _ HF').
              exists (sh_store sh' fc (KF fk) v), cn, (Val v). split; [reflexivity|]. split; [exact Hx|].
              split; [|exact Gs]. apply HRmk; [exact Gs|apply Rcore_store; exact Rc'|].
              eapply front_store_Rb; eauto. rewrite Hsrc. apply Hv. reflexivity.
           ++ exists sh', cn, (Exc e). split; [reflexivity|]. split; [exact Hx|]. split; auto.
           ++ exists sh', cn, OutOfModel. split; [reflexivity|]. split; [exact Hx|]. split; auto.
        -- (* memory_info: statm is read directly *)
           destruct (front_not_memoized _ _ Efk Em) as [-> ->].
           unfold spec_call, spec_primary. rewrite Hin. simpl m_src. rewrite <- H2, Ea. simpl.
           unfold sq_body. simpl. unfold sq_read, read_src. rewrite Hcur.
           destruct (g_cur g Statm) as [x| |] eqn:Ec; simpl.
           ++ rewrite (setitem_store _ _ _ _ _ HF).
              exists (sh_store (q_sh q) fc (KF FMemInfo) (x, clock (q_sh q))), (bump (fun _ => 0) Statm), (Val (x, clock (q_sh q))).
              split; [reflexivity|]. split; [reflexivity|]. split; [|repeat split].
              apply HRmk; [repeat split|apply Rcore_store; split; auto|].
              exists fc, pc, (add_ent (KF FMemInfo) (x, clock (q_sh q)) F), P.
              split; [exact Hf|]. split; [exact Hp|]. split; auto.
              split; [apply sh_store_nth_eq; auto|]. split; [rewrite sh_store_nth_neq; auto|].
              split; [|split].
              ** intros s Hms. unfold snap_set; cbn [g_snap]. destruct (src_eqb s Statm) eqn:E; [|apply H1; auto].
                 apply src_eqb_eq in E. subst. discriminate.
              ** reflexivity.
              ** intros fk v Hfk Hv. unfold snap_set; cbn [g_snap]. simpl in Hv.
                 destruct (fkey_eqb fk FMemInfo) eqn:E; [apply fkey_eqb_eq in E; congruence|].
                 assert (src_eqb (fk_src fk) Statm = false) by (destruct fk; simpl; auto; congruence).
                 rewrite H. apply H3; auto.
           ++ exists (q_sh q), (bump (fun _ => 0) Statm), (Exc AccessDenied). split; [reflexivity|]. split; [reflexivity|].
              split; [apply HRmk; auto; repeat split|repeat split].
           ++ exists (q_sh q), (bump (fun _ => 0) Statm), (Exc NoSuchProcess). split; [reflexivity|]. split; [reflexivity|].
              split; [apply HRmk; auto; repeat split|repeat split].
    + (* no front-level wrapper *)
      pose proof (body_sim (q_sh q) g m (no_front_memoized _ Efk) Hin Hcore Hb Hdom) as Hbody.
      destruct (spec_call g m) as [g' x].
      destruct Hbody as (sh' & cn & r & Eb & Hx & Rc' & Rb' & Gs & Hv).
      unfold sq_call. rewrite Efk. exists sh', cn, r. split; auto.
Qed.
